// gosync reads the Go sources of gregoryv/mq from the working tree and
// regenerates the parts of the Coq model that are derived from them:
//
//	gen/GenConsts.v       constants of const.go, connect.go, connack.go
//	gen/GenSkel.v         encoder/decoder skeletons (IR) of every packet type
//	gen/Sync.v            lemmas  GenX.y = Model.y  (closed, vm_compute)
//	<out>/fingerprints.json  hash of the normalised source of every function
//
// It is fail-closed: what it does not recognise becomes EUnknown/DUnknown
// (a constructor the hand-written skeletons never use), so the sync lemma
// fails rather than the difference being dropped.
package main

import (
	"crypto/sha256"
	"encoding/json"
	"flag"
	"fmt"
	"go/ast"
	"go/parser"
	"go/printer"
	"go/token"
	"os"
	"path/filepath"
	"sort"
	"strings"
)

type pkg struct {
	dir   string
	fset  *token.FileSet
	files map[string]*ast.File
	funcs map[string]*ast.FuncDecl // "Recv.Name" or "Name"
	consts map[string]ast.Expr
}

func load(dir string) *pkg {
	p := &pkg{dir: dir, fset: token.NewFileSet(), files: map[string]*ast.File{}, funcs: map[string]*ast.FuncDecl{}, consts: map[string]ast.Expr{}}
	names, _ := filepath.Glob(filepath.Join(dir, "*.go"))
	sort.Strings(names)
	for _, n := range names {
		base := filepath.Base(n)
		if strings.HasSuffix(base, "_test.go") || base == "verif_hooks.go" {
			continue
		}
		f, err := parser.ParseFile(p.fset, n, nil, 0) // comments dropped
		if err != nil {
			fmt.Fprintln(os.Stderr, "gosync:", err)
			os.Exit(1)
		}
		p.files[base] = f
		for _, d := range f.Decls {
			if fd, ok := d.(*ast.FuncDecl); ok {
				p.funcs[funcKey(fd)] = fd
			}
		}
	}
	return p
}

func funcKey(fd *ast.FuncDecl) string {
	if fd.Recv != nil && len(fd.Recv.List) == 1 {
		t := fd.Recv.List[0].Type
		if s, ok := t.(*ast.StarExpr); ok {
			t = s.X
		}
		if id, ok := t.(*ast.Ident); ok {
			return id.Name + "." + fd.Name.Name
		}
	}
	return fd.Name.Name
}

func (p *pkg) src(n ast.Node) string {
	var b strings.Builder
	printer.Fprint(&b, p.fset, n)
	return b.String()
}

// normalised prints a function with its local identifiers (receiver, parameters,
// variables) renamed v0, v1, ... in order of first appearance: comments, layout
// and local names do not change the fingerprint.
func (p *pkg) normalised(fd *ast.FuncDecl) string {
	names := map[*ast.Object]string{}
	var restore []func()
	ast.Inspect(fd, func(n ast.Node) bool {
		id, ok := n.(*ast.Ident)
		if !ok || id.Obj == nil || id.Obj.Kind != ast.Var {
			return true
		}
		if id.Obj.Pos() < fd.Pos() || id.Obj.Pos() > fd.End() {
			return true // package-level variable
		}
		nm, ok := names[id.Obj]
		if !ok {
			nm = fmt.Sprintf("v%d", len(names))
			names[id.Obj] = nm
		}
		old := id.Name
		id.Name = nm
		restore = append(restore, func() { id.Name = old })
		return true
	})
	s := p.src(fd)
	for _, f := range restore {
		f()
	}
	return s
}

func main() {
	repo := flag.String("repo", "/repo", "repository root")
	out := flag.String("out", "", "output directory for generated .v files")
	fp := flag.String("fingerprints", "", "output file for function fingerprints (json)")
	flag.Parse()
	p := load(*repo)
	if *fp != "" {
		m := map[string]string{}
		for k, fd := range p.funcs {
			h := sha256.Sum256([]byte(p.normalised(fd)))
			m[k] = fmt.Sprintf("%x", h[:8])
		}
		// package-level declarations other than functions, per file
		for name, f := range p.files {
			var b strings.Builder
			for _, d := range f.Decls {
				if gd, isGen := d.(*ast.GenDecl); isGen && gd.Tok == token.IMPORT {
					continue // imports say nothing about behaviour that the functions do not say
				}
				if _, ok := d.(*ast.FuncDecl); !ok {
					b.WriteString(p.src(d))
					b.WriteString("\n")
				}
			}
			h := sha256.Sum256([]byte(b.String()))
			m["decls:"+name] = fmt.Sprintf("%x", h[:8])
		}
		b, _ := json.MarshalIndent(m, "", " ")
		os.MkdirAll(filepath.Dir(*fp), 0o755)
		os.WriteFile(*fp, append(b, '\n'), 0o644)
	}
	if *out != "" {
		os.MkdirAll(*out, 0o755)
		genConsts(p, *out)
		genSkel(p, *out)
		genApi(p, *out)
		genEffects(p, *out)
		genAcc(p, *out)
		genDump(p, *out)
		genString(p, *out)
		genWf(p, *out)
		genWire(p, *out)
		genWireDec(p, *out)
		genBuf(p, *out)
		genRead(p, *out)
		genGetAny(p, *out)
		genHygiene(p, *out)
	}
}
