package main

// Translation of the one-line setters of the packet types into the setter IR of
// coq/Model/ApiIR.v. A statement that is none of the idioms makes the whole
// setter "custom": it stays hand-modelled (Api.step) and is tied by its
// fingerprint; the list of custom setters is itself compared with the list the
// model expects, so that a setter cannot silently change category.

import (
	"fmt"
	"go/ast"
	"go/token"
	"os"
	"path/filepath"
	"sort"
	"strings"
)

// model constructors of Api.call and the kind of their argument
var callArg = map[string]string{}

func init() {
	for _, n := range []string{"SetWillDelayInterval", "SetProtocolVersion", "SetKeepAlive", "SetSessionExpiryInterval", "SetReceiveMax",
		"SetMaxPacketSize", "SetTopicAliasMax", "SetMaxQoS", "SetReasonCode", "SetServerKeepAlive", "SetPacketID",
		"SetMessageExpiryInterval", "SetTopicAlias"} {
		callArg[n] = "N"
	}
	for _, n := range []string{"SetCleanStart", "SetRequestResponseInfo", "SetRequestProblemInfo", "SetSessionPresent", "SetRetainAvailable",
		"SetWildcardSubAvailable", "SetSubIdentifiersAvailable", "SetSharedSubAvailable", "SetDuplicate", "SetRetain", "SetPayloadFormat"} {
		callArg[n] = "B"
	}
	for _, n := range []string{"SetProtocolName", "SetClientID", "SetAuthMethod", "SetAuthData", "SetUsername", "SetPassword",
		"SetAssignedClientID", "SetReasonString", "SetResponseInformation", "SetServerReference", "SetTopicName", "SetResponseTopic",
		"SetCorrelationData", "SetContentType", "SetPayload"} {
		callArg[n] = "S"
	}
}

func squash(s string) string { return strings.Join(strings.Fields(s), "") }

// setterActions translates the body of a setter; ok=false means "custom".
func (t *tr) setterActions(fd *ast.FuncDecl, constVal func(ast.Expr) (string, bool)) (acts []string, ok bool) {
	if fd.Recv == nil || len(fd.Recv.List) != 1 || len(fd.Recv.List[0].Names) != 1 {
		return nil, false
	}
	recv := fd.Recv.List[0].Names[0].Name
	if fd.Type.Params == nil || len(fd.Type.Params.List) != 1 || len(fd.Type.Params.List[0].Names) != 1 {
		return nil, false
	}
	if _, variadic := fd.Type.Params.List[0].Type.(*ast.Ellipsis); variadic {
		return nil, false
	}
	arg := fd.Type.Params.List[0].Names[0].Name
	field := func(e ast.Expr) (string, bool) { // recv.f
		sel, ok := e.(*ast.SelectorExpr)
		if !ok || !isIdent(sel.X, recv) {
			return "", false
		}
		return fldName(sel.Sel.Name), true
	}
	isArg := func(e ast.Expr) bool { // v or T(v)
		if isIdent(e, arg) {
			return true
		}
		if c, ok := e.(*ast.CallExpr); ok && len(c.Args) == 1 && isIdent(c.Args[0], arg) {
			if id, ok := c.Fun.(*ast.Ident); ok {
				_, known := wtOfType[id.Name]
				return known || id.Name == "wuint8"
			}
		}
		return false
	}
	lenGt0 := func(e ast.Expr) (string, bool) { // len(recv.g) > 0
		be, ok := e.(*ast.BinaryExpr)
		if !ok || be.Op != token.GTR || squash(t.p.src(be.Y)) != "0" {
			return "", false
		}
		c, ok := be.X.(*ast.CallExpr)
		if !ok || !isIdent(c.Fun, "len") || len(c.Args) != 1 {
			return "", false
		}
		return field(c.Args[0])
	}
	for _, st := range fd.Body.List {
		switch s := st.(type) {
		case *ast.AssignStmt:
			if len(s.Lhs) != 1 || len(s.Rhs) != 1 || s.Tok != token.ASSIGN {
				return nil, false
			}
			f, ok := field(s.Lhs[0])
			if !ok || !isArg(s.Rhs[0]) {
				return nil, false
			}
			acts = append(acts, "SSet "+f)
		case *ast.ExprStmt:
			x, name, args, ok := methodCall(s.X)
			if !ok || name != "toggle" || len(args) != 2 {
				return nil, false
			}
			f, ok := field(x)
			if !ok {
				return nil, false
			}
			mask, ok := constVal(args[0])
			if !ok {
				return nil, false
			}
			if isIdent(args[1], arg) {
				acts = append(acts, fmt.Sprintf("SToggleArg %s %s", f, mask))
			} else if g, ok := lenGt0(args[1]); ok {
				acts = append(acts, fmt.Sprintf("SToggleNonEmpty %s %s %s", f, mask, g))
			} else {
				return nil, false
			}
		case *ast.IfStmt:
			// if len(v) == 0 { recv.f = nil }
			if s.Init != nil || s.Else != nil || len(s.Body.List) != 1 || squash(t.p.src(s.Cond)) != "len("+arg+")==0" {
				return nil, false
			}
			as, ok := s.Body.List[0].(*ast.AssignStmt)
			if !ok || len(as.Lhs) != 1 || len(as.Rhs) != 1 || !isIdent(as.Rhs[0], "nil") {
				return nil, false
			}
			f, ok := field(as.Lhs[0])
			if !ok {
				return nil, false
			}
			acts = append(acts, "SNilIfEmptyArg "+f)
		default:
			return nil, false
		}
	}
	return acts, len(acts) > 0
}

// the setters the model keeps by hand (Api.step), per Go type
var expectedCustom = "Connect.SetWill Publish.AddSubscriptionID Publish.SetQoS SubAck.AddReasonCode Subscribe.AddFilters " +
	"Subscribe.SetSubscriptionID TopicFilter.SetFilter TopicFilter.SetOptions UnsubAck.AddReasonCode Unsubscribe.AddFilter UserProperties.AddUserProp"

func genApi(p *pkg, out string) {
	t := &tr{p: p}
	info, _ := p.typecheck()
	constVal := func(e ast.Expr) (string, bool) {
		if tv, ok := info.Types[e]; ok && tv.Value != nil {
			return tv.Value.ExactString(), true
		}
		return "", false
	}
	var keys []string
	for k, fd := range p.funcs {
		dot := strings.IndexByte(k, '.')
		if dot < 0 || !ast.IsExported(fd.Name.Name) {
			continue
		}
		m := k[dot+1:]
		isPkt := k[:dot] == "TopicFilter" || k[:dot] == "UserProperties"
		for _, ti := range ptypes {
			if ti.goName == k[:dot] {
				isPkt = true
			}
		}
		if !isPkt {
			continue // e.g. the error type Malformed
		}
		if strings.HasPrefix(m, "Set") || strings.HasPrefix(m, "Add") {
			keys = append(keys, k)
		}
	}
	sort.Strings(keys)
	var defs, lems strings.Builder
	defs.WriteString("(* generated by tools/gosync - do not edit *)\nFrom MQ Require Import Model.Packet Model.Api Model.ApiIR.\nFrom Coq Require Import List NArith String.\nImport ListNotations.\nOpen Scope N_scope.\n\n")
	lems.WriteString("(* generated by tools/gosync - do not edit *)\nFrom MQ Require Import Model.Wire Model.Packet Model.Api Model.ApiIR gen.GenApi.\nFrom Coq Require Import List NArith String.\nImport ListNotations.\nOpen Scope N_scope.\n\n(* every one-line setter of the source does to the packet what Api.step says *)\n")
	var custom []string
	for _, k := range keys {
		fd := p.funcs[k]
		T, m := k[:strings.IndexByte(k, '.')], k[strings.IndexByte(k, '.')+1:]
		acts, ok := t.setterActions(fd, constVal)
		kind, known := callArg[m]
		if !ok || !known {
			custom = append(custom, k)
			continue
		}
		name := "g_set_" + T + "_" + m
		fmt.Fprintf(&defs, "Definition %s : list saction := [%s].\n", name, strings.Join(acts, "; "))
		var bind, inj string
		switch kind {
		case "N":
			bind, inj = "n", "VN n"
		case "B":
			bind, inj = "b", "VB b"
		default:
			bind, inj = "s", "VS s"
		}
		fmt.Fprintf(&lems, "Lemma sync_set_%s_%s : forall %s p, pkt_eq (step (%s %s) p) (run_sactions %s (%s) p).\nProof. sync_setter. Qed.\n", T, m, bind, m, bind, name, inj)
	}
	fmt.Fprintf(&defs, "\n(* setters that are none of the idioms: modelled by hand, tied by fingerprint *)\nDefinition g_custom_setters : string := %q%%string.\n", strings.Join(custom, " "))
	fmt.Fprintf(&lems, "\nLemma sync_custom_setters : g_custom_setters = %q%%string.\nProof. reflexivity. Qed.\n", expectedCustom)
	os.WriteFile(filepath.Join(out, "GenApi.v"), []byte(defs.String()), 0o644)
	os.WriteFile(filepath.Join(out, "SyncApi.v"), []byte(lems.String()), 0o644)
}
