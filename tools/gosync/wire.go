package main

// wire.go: the encoder methods of the wire types (wiretypes.go: fill, fillProp,
// fillOpt, width) statement by statement into the little imperative language of
// coq/Model/WireIR.v.  A statement or expression outside that language becomes
// S_unknown "<source>" and gen/SyncWire.v fails.

import (
	"fmt"
	"go/ast"
	"go/token"
	"go/types"
	"os"
	"path/filepath"
	"sort"
	"strings"
)

var wireTypes = map[string]bool{"Ident": true, "UserProp": true, "bindata": true, "bits": true, "rawdata": true,
	"vbint": true, "wbool": true, "wuint16": true, "wuint32": true}
var wireMethods = map[string]bool{"fill": true, "fillProp": true, "fillOpt": true, "width": true}

type wireTr struct {
	p  *pkg
	ok bool
}

func (t *wireTr) sq(n ast.Node) string { return squash(t.p.src(n)) }

func (t *wireTr) unknown(n ast.Node) string {
	t.ok = false
	return fmt.Sprintf("S_unknown %q", t.sq(n))
}

// int expressions
func (t *wireTr) wi(e ast.Expr) (string, bool) {
	switch x := e.(type) {
	case *ast.ParenExpr:
		return t.wi(x.X)
	case *ast.Ident:
		switch x.Name {
		case "i":
			return "I_i", true
		case "n":
			return "I_n", true
		}
	case *ast.BasicLit:
		if x.Kind == token.INT {
			var k int
			if _, err := fmt.Sscanf(x.Value, "%d", &k); err == nil && fmt.Sprint(k) == x.Value && k < 1000 {
				return fmt.Sprintf("(I_k %d)", k), true
			}
		}
	case *ast.BinaryExpr:
		a, ok1 := t.wi(x.X)
		b, ok2 := t.wi(x.Y)
		if ok1 && ok2 {
			switch x.Op {
			case token.ADD:
				return "(I_add " + a + " " + b + ")", true
			case token.SUB:
				return "(I_sub " + a + " " + b + ")", true
			}
		}
	case *ast.CallExpr:
		switch t.sq(x) {
		case "len(data)":
			return "I_lendata", true
		case "len(v)":
			return "I_lenv", true
		case "v.width()":
			return "I_width", true
		case "v.fill(_LEN,0)":
			return "I_selffill0", true
		case "wstring(v[0]).width()":
			return "I_keyw", true
		case "wstring(v[1]).width()":
			return "I_valw", true
		}
	}
	return "", false
}

func (t *wireTr) wc(e ast.Expr) (string, bool) {
	switch t.sq(e) {
	case "v==0":
		return "C_vzero", true
	case "len(v)==0":
		return "C_lenv0", true
	case "len(v[0])==0":
		return "C_lenkey0", true
	case "!v":
		return "C_notv", true
	case "v":
		return "C_v", true
	case "x>0":
		return "C_xpos", true
	case "x==0":
		return "C_xzero", true
	}
	if b, ok := e.(*ast.BinaryExpr); ok {
		l, ok1 := t.wi(b.X)
		r, ok2 := t.wi(b.Y)
		if ok1 && ok2 {
			switch b.Op {
			case token.GEQ:
				return "(C_ge " + l + " " + r + ")", true
			case token.LSS:
				return "(C_lt " + l + " " + r + ")", true
			}
		}
	}
	return "", false
}

// X.fill(data, i)
func (t *wireTr) callee(e ast.Expr) (string, bool) {
	switch t.sq(e) {
	case "id.fill(data,i)":
		return "K_id", true
	case "v.fill(data,i)":
		return "K_self", true
	case "wuint16(len(v)).fill(data,i)":
		return "K_u16lenv", true
	case "wstring(v[0]).fill(data,i)":
		return "K_key", true
	case "wstring(v[1]).fill(data,i)":
		return "K_val", true
	}
	return "", false
}

// data[idx:] -> idx
func (t *wireTr) dataFrom(e ast.Expr) (string, bool) {
	if s, ok := e.(*ast.SliceExpr); ok && s.High == nil && s.Max == nil && s.Low != nil && t.sq(s.X) == "data" {
		return t.wi(s.Low)
	}
	return "", false
}

func (t *wireTr) stored(e ast.Expr) (string, bool) {
	switch t.sq(e) {
	case "byte(v)", "uint16(v)", "uint32(v)":
		return "B_v", true
	case "encodedByte":
		return "B_eb", true
	}
	if l, ok := e.(*ast.BasicLit); ok && l.Kind == token.INT {
		var k uint64
		if _, err := fmt.Sscanf(l.Value, "%v", &k); err == nil && k < 256 {
			return fmt.Sprintf("(B_k %d%%N)", k), true
		}
	}
	return "", false
}

func (t *wireTr) block(b *ast.BlockStmt) string {
	if b == nil {
		return "[]"
	}
	var out []string
	for _, s := range b.List {
		out = append(out, t.stmt(s))
	}
	return "[" + strings.Join(out, "; ") + "]"
}

func (t *wireTr) stmt(s ast.Stmt) string {
	switch x := s.(type) {
	case *ast.AssignStmt:
		src := t.sq(x)
		switch src {
		case "n:=i":
			return "S_def_n"
		case "x:=v":
			return "S_def_x"
		case "encodedByte:=byte(x%128)":
			return "S_eb_mod"
		case "x=x/128":
			return "S_x_div"
		case "encodedByte=encodedByte|128":
			return "S_eb_or128"
		}
		if len(x.Lhs) == 1 && len(x.Rhs) == 1 {
			if k, ok := t.callee(x.Rhs[0]); ok {
				if x.Tok == token.ADD_ASSIGN && t.sq(x.Lhs[0]) == "i" {
					return "S_adv " + k
				}
				if x.Tok == token.ASSIGN && t.sq(x.Lhs[0]) == "_" {
					return "S_call " + k
				}
			}
			// data[idx] = b
			if ix, ok := x.Lhs[0].(*ast.IndexExpr); ok && x.Tok == token.ASSIGN && t.sq(ix.X) == "data" {
				idx, ok1 := t.wi(ix.Index)
				b, ok2 := t.stored(x.Rhs[0])
				if ok1 && ok2 {
					return "S_poke " + idx + " " + b
				}
			}
		}
	case *ast.IncDecStmt:
		if x.Tok == token.INC && t.sq(x.X) == "i" {
			return "S_inc_i"
		}
	case *ast.ExprStmt:
		if c, ok := x.X.(*ast.CallExpr); ok {
			fn := t.sq(c.Fun)
			switch {
			case (fn == "binary.BigEndian.PutUint16" || fn == "binary.BigEndian.PutUint32") && len(c.Args) == 2:
				idx, ok1 := t.dataFrom(c.Args[0])
				b, ok2 := t.stored(c.Args[1])
				want := map[string]string{"binary.BigEndian.PutUint16": "uint16(v)", "binary.BigEndian.PutUint32": "uint32(v)"}[fn]
				if ok1 && ok2 && t.sq(c.Args[1]) == want {
					return map[string]string{"binary.BigEndian.PutUint16": "S_put16 ", "binary.BigEndian.PutUint32": "S_put32 "}[fn] + idx + " " + b
				}
			case fn == "copy" && len(c.Args) == 2 && t.sq(c.Args[1]) == "[]byte(v)":
				if idx, ok := t.dataFrom(c.Args[0]); ok {
					return "S_copy " + idx
				}
			case fn == "panic":
				return "S_panic"
			}
		}
	case *ast.IfStmt:
		if x.Init == nil {
			if c, ok := t.wc(x.Cond); ok {
				el := "[]"
				switch e := x.Else.(type) {
				case nil:
				case *ast.BlockStmt:
					el = t.block(e)
				default:
					return t.unknown(s)
				}
				return "S_if " + c + " " + t.block(x.Body) + " " + el
			}
		}
	case *ast.ReturnStmt:
		if len(x.Results) == 1 {
			r := x.Results[0]
			if k, ok := t.callee(r); ok {
				return "S_ret_call " + k
			}
			if c, ok := r.(*ast.CallExpr); ok && t.sq(c.Fun) == "copy" && len(c.Args) == 2 && t.sq(c.Args[1]) == "[]byte(v)" {
				if idx, ok := t.dataFrom(c.Args[0]); ok {
					return "S_ret_copy " + idx
				}
			}
			if e, ok := t.wi(r); ok {
				return "S_ret " + e
			}
		}
	case *ast.ForStmt:
		if x.Init == nil && x.Cond == nil && x.Post == nil {
			return "S_for " + t.block(x.Body)
		}
	case *ast.BranchStmt:
		if x.Tok == token.BREAK && x.Label == nil {
			return "S_break"
		}
	}
	return t.unknown(s)
}

func genWire(p *pkg, out string) {
	var keys []string
	for k, fd := range p.funcs {
		recv, name, _ := strings.Cut(k, ".")
		if fd.Recv != nil && wireTypes[recv] && wireMethods[name] {
			keys = append(keys, k)
		}
	}
	sort.Strings(keys)
	var defs strings.Builder
	defs.WriteString("(* generated by tools/gosync (wire.go) - do not edit *)\nFrom MQ Require Import Model.WireIR.\nFrom Coq Require Import List NArith String.\nImport ListNotations.\nLocal Open Scope string_scope.\n\n")
	defs.WriteString("(* fill, fillProp, fillOpt and width of the wire types of wiretypes.go, statement by statement *)\nDefinition g_wire_progs : list (string * list ws) :=\n  [")
	for i, k := range keys {
		fd := p.funcs[k]
		t := &wireTr{p: p, ok: true}
		body := ""
		// the signature the language assumes: value receiver v; (data []byte, i int[, id Ident]) int
		recv, name, _ := strings.Cut(k, ".")
		sig := squash(p.src(fd.Type))
		if len(fd.Recv.List) == 1 && len(fd.Recv.List[0].Names) == 1 {
			sig = "(" + fd.Recv.List[0].Names[0].Name + squash(p.src(fd.Recv.List[0].Type)) + ")" + sig
		}
		wantSig := map[string]string{
			"fill":     "(v" + recv + ")func(data[]byte,iint)int",
			"fillOpt":  "(v" + recv + ")func(data[]byte,iint)int",
			"fillProp": "(v" + recv + ")func(data[]byte,iint,idIdent)int",
			"width":    "(v" + recv + ")func()int",
		}[name]
		if sig != wantSig || fd.Body == nil {
			body = fmt.Sprintf("[S_unknown %q]", "signature "+sig)
		} else {
			body = t.block(fd.Body)
		}
		if i > 0 {
			defs.WriteString(";\n   ")
		}
		fmt.Fprintf(&defs, "(%q, %s)", k, body)
	}
	defs.WriteString("].\n")
	os.WriteFile(filepath.Join(out, "GenWire.v"), []byte(defs.String()), 0o644)
	lems := "(* generated by tools/gosync (wire.go) - do not edit *)\nFrom MQ Require Import Model.WireIR gen.GenWire.\nFrom Coq Require Import List String.\n\n" +
		"(* the encoder methods of the wire types are the statement lists the model runs\n   (Proofs/WireIRP.v: running them is fill_u8 ... fill_vb, wfill_prop, fill_userprop of Model/Fill.v) *)\n" +
		"Lemma sync_wire_progs : g_wire_progs = wire_progs.\nProof. vm_compute. reflexivity. Qed.\n"
	os.WriteFile(filepath.Join(out, "SyncWire.v"), []byte(lems), 0o644)
}

// ---------------------------------------------------------------- decoders

type wireDecTr struct {
	p        *pkg
	recv     string
	constVal func(ast.Expr) (string, bool)
}

func (t *wireDecTr) sq(n ast.Node) string { return squash(t.p.src(n)) }

func (t *wireDecTr) unknown(n ast.Node) string {
	return fmt.Sprintf("D_unknown %q", t.sq(n))
}

func (t *wireDecTr) block(list []ast.Stmt) string {
	var out []string
	for _, s := range list {
		out = append(out, t.stmt(s))
	}
	return "[" + strings.Join(out, "; ") + "]"
}

var decErrClass = map[string]string{
	`returnunmarshalErr(v,"","missingdata")`:  "EMissingData",
	`returnunmarshalErr(v,"","sizeexceeded")`: "ESizeExceeded",
	`returnfmt.Errorf("malformedbool")`:       "EMalformedBool",
}

func (t *wireDecTr) cond(e ast.Expr) (string, bool) {
	switch t.sq(e) {
	case "len(data)==0":
		return "DC_len_0", true
	case "len(data)<int(length)+2":
		return "DC_len_lt_length2", true
	case "length==0":
		return "DC_length_0", true
	case "encodedByte&128==0":
		return "DC_eb_hi0", true
	}
	if b, ok := e.(*ast.BinaryExpr); ok {
		if b.Op == token.LSS && t.sq(b.X) == "len(data)" {
			if l, ok := b.Y.(*ast.BasicLit); ok && l.Kind == token.INT && len(l.Value) <= 2 {
				return "(DC_len_lt " + l.Value + ")", true
			}
		}
		if b.Op == token.GTR && t.sq(b.X) == "multiplier" {
			if c, ok := t.constVal(b.Y); ok {
				return "(DC_mult_gt " + c + "%N)", true
			}
		}
	}
	return "", false
}

func (t *wireDecTr) stmt(s ast.Stmt) string {
	src := t.sq(s)
	if cls, ok := decErrClass[src]; ok {
		return "D_ret_err " + cls
	}
	switch src {
	case "returnnil":
		return "D_ret_nil"
	case "*v=wuint16(binary.BigEndian.Uint16(data))":
		if t.recv == "wuint16" {
			return "D_set_be16"
		}
	case "*v=wuint32(binary.BigEndian.Uint32(data))":
		if t.recv == "wuint32" {
			return "D_set_be32"
		}
	case "*v=" + t.recv + "(data[0])":
		return "D_set_data0"
	case "*v=wbool(false)":
		return "D_set_bool false"
	case "*v=wbool(true)":
		return "D_set_bool true"
	case "varlengthwuint16":
		return "D_var_length"
	case "_=length.UnmarshalBinary(data)":
		return "D_length_decode"
	case "*v=make([]byte,length)":
		return "D_make_length"
	case "copy(*v,data[2:int(length)+2])":
		return "D_copy_from2"
	case "*v=make([]byte,len(data))":
		return "D_make_lendata"
	case "copy(*v,data)":
		return "D_copy_all"
	case "varmultiplieruint=1":
		return "D_var_mult1"
	case "varvalueuint":
		return "D_var_value"
	case "value+=uint(encodedByte)&uint(127)*multiplier":
		return "D_value_acc"
	case "multiplier=multiplier*128":
		return "D_mult_step"
	case "*v=vbint(value)":
		return "D_set_value"
	case "varkeywstring":
		return "D_var_key"
	case "varvalwstring":
		return "D_var_val"
	case `iferr:=key.UnmarshalBinary(data);err!=nil{returnunmarshalErr(v,"key",err.(*Malformed))}`:
		return "D_try_key"
	case `iferr:=val.UnmarshalBinary(data[i:]);err!=nil{returnunmarshalErr(v,"value",err.(*Malformed))}`:
		return "D_try_val"
	case "v[0]=string(key)":
		return "D_set_v0"
	case "v[1]=string(val)":
		return "D_set_v1"
	case "i:=len(v[0])+2":
		return "D_def_i"
	}
	switch x := s.(type) {
	case *ast.IfStmt:
		if x.Init == nil && x.Else == nil {
			if c, ok := t.cond(x.Cond); ok {
				return "D_if " + c + " " + t.block(x.Body.List)
			}
		}
	case *ast.RangeStmt:
		if x.Tok == token.DEFINE && t.sq(x.Key) == "_" && x.Value != nil && t.sq(x.Value) == "encodedByte" && t.sq(x.X) == "data" {
			return "D_range_data " + t.block(x.Body.List)
		}
	case *ast.SwitchStmt:
		if x.Init == nil && x.Tag != nil && t.sq(x.Tag) == "data[0]" {
			var cases []string
			def := ""
			good := true
			for _, cc := range x.Body.List {
				cl := cc.(*ast.CaseClause)
				if len(cl.List) == 0 {
					def = t.block(cl.Body)
					continue
				}
				if def != "" || len(cl.List) != 1 {
					good = false // a default clause in the middle, or several values: not in the language
					continue
				}
				c, ok := t.constVal(cl.List[0])
				if !ok {
					good = false
					continue
				}
				cases = append(cases, "("+c+"%N, "+t.block(cl.Body)+")")
			}
			if good {
				if def == "" {
					def = "[]"
				}
				return "D_switch_data0 [" + strings.Join(cases, "; ") + "] " + def
			}
		}
	}
	return t.unknown(s)
}

func genWireDec(p *pkg, out string) {
	info, _ := p.typecheck()
	constVal := func(e ast.Expr) (string, bool) {
		if tv, ok := info.Types[e]; ok && tv.Value != nil {
			return tv.Value.ExactString(), true
		}
		return "", false
	}
	var keys []string
	for k, fd := range p.funcs {
		recv, name, _ := strings.Cut(k, ".")
		if fd.Recv != nil && wireTypes[recv] && name == "UnmarshalBinary" {
			keys = append(keys, k)
		}
	}
	sort.Strings(keys)
	var defs strings.Builder
	defs.WriteString("(* generated by tools/gosync (wire.go) - do not edit *)\nFrom MQ Require Import Model.WireDecIR.\nFrom Coq Require Import List NArith String.\nImport ListNotations.\nLocal Open Scope string_scope.\n\n")
	defs.WriteString("(* UnmarshalBinary of the wire types of wiretypes.go, statement by statement *)\nDefinition g_wire_dec_progs : list (string * list ds) :=\n  [")
	for i, k := range keys {
		fd := p.funcs[k]
		recv, _, _ := strings.Cut(k, ".")
		sig := squash(p.src(fd.Type))
		if len(fd.Recv.List) == 1 && len(fd.Recv.List[0].Names) == 1 {
			sig = "(" + fd.Recv.List[0].Names[0].Name + squash(p.src(fd.Recv.List[0].Type)) + ")" + sig
		}
		body := ""
		if sig != "(v*"+recv+")func(data[]byte)error" || fd.Body == nil {
			body = fmt.Sprintf("[D_unknown %q]", "signature "+sig)
		} else {
			t := &wireDecTr{p: p, recv: recv, constVal: constVal}
			body = t.block(fd.Body.List)
		}
		if i > 0 {
			defs.WriteString(";\n   ")
		}
		fmt.Fprintf(&defs, "(%q, %s)", k, body)
	}
	defs.WriteString("].\n")
	os.WriteFile(filepath.Join(out, "GenWireDec.v"), []byte(defs.String()), 0o644)
	lems := "(* generated by tools/gosync (wire.go) - do not edit *)\nFrom MQ Require Import Model.WireDecIR gen.GenWireDec.\nFrom Coq Require Import List String.\n\n" +
		"(* UnmarshalBinary of the wire types is the statement lists the model runs\n   (Proofs/WireDecIRP.v: running them is dec_u8 ... dec_vb, dec_userprop of Model/Wire.v) *)\n" +
		"Lemma sync_wire_dec_progs : g_wire_dec_progs = wire_dec_progs.\nProof. vm_compute. reflexivity. Qed.\n"
	os.WriteFile(filepath.Join(out, "SyncWireDec.v"), []byte(lems), 0o644)
}

// ---------------------------------------------------------------- buffer.get

func bufStmts(p *pkg, list []ast.Stmt) string {
	var out []string
	for _, s := range list {
		out = append(out, bufStmt(p, s))
	}
	return "[" + strings.Join(out, "; ") + "]"
}

func bufStmt(p *pkg, s ast.Stmt) string {
	src := squash(p.src(s))
	switch src {
	case "return":
		return "G_ret"
	case "b.err=ErrMissingData":
		return "G_set_err_missing"
	case "b.i+=v.width()":
		return "G_adv_width"
	case "b.i=len(b.data)":
		return "G_set_i_len"
	}
	if x, ok := s.(*ast.IfStmt); ok && x.Else == nil {
		if x.Init == nil {
			c := map[string]string{"b.err!=nil": "GC_err", "b.i>=len(b.data)": "GC_i_ge_len", "b.i>len(b.data)": "GC_i_gt_len"}[squash(p.src(x.Cond))]
			if c != "" {
				return "G_if " + c + " " + bufStmts(p, x.Body.List)
			}
		} else if squash(p.src(x.Init)) == "b.err=v.UnmarshalBinary(b.data[b.i:])" && squash(p.src(x.Cond)) == "b.err!=nil" {
			return "G_if_unmarshal_err " + bufStmts(p, x.Body.List)
		}
	}
	return fmt.Sprintf("G_unknown %q", src)
}

func genBuf(p *pkg, out string) {
	body := `[G_unknown "missing"]`
	if fd := p.funcs["buffer.get"]; fd != nil && fd.Body != nil {
		sig := squash(p.src(fd.Type))
		if len(fd.Recv.List) == 1 && len(fd.Recv.List[0].Names) == 1 {
			sig = "(" + fd.Recv.List[0].Names[0].Name + squash(p.src(fd.Recv.List[0].Type)) + ")" + sig
		}
		if sig == "(b*buffer)func(vwireType)" {
			body = bufStmts(p, fd.Body.List)
		} else {
			body = fmt.Sprintf("[G_unknown %q]", "signature "+sig)
		}
	}
	defs := "(* generated by tools/gosync (wire.go) - do not edit *)\nFrom MQ Require Import Model.BufIR.\nFrom Coq Require Import List String.\nImport ListNotations.\nLocal Open Scope string_scope.\n\n" +
		"(* buffer.get, statement by statement *)\nDefinition g_get_prog : list gs :=\n  " + body + ".\n"
	os.WriteFile(filepath.Join(out, "GenBuf.v"), []byte(defs), 0o644)
	lems := "(* generated by tools/gosync (wire.go) - do not edit *)\nFrom MQ Require Import Model.BufIR gen.GenBuf.\nFrom Coq Require Import List String.\n\n" +
		"(* buffer.get is the statement list the model runs (Proofs/BufIRP.v: running it is Codec.get_with) *)\n" +
		"Lemma sync_get_prog : g_get_prog = get_prog.\nProof. vm_compute. reflexivity. Qed.\n"
	os.WriteFile(filepath.Join(out, "SyncBuf.v"), []byte(lems), 0o644)
}

// ---------------------------------------------------------------- vbint.ReadFrom

func readStmts(p *pkg, list []ast.Stmt, constVal func(ast.Expr) (string, bool)) string {
	var out []string
	for _, s := range list {
		out = append(out, readStmt(p, s, constVal))
	}
	return "[" + strings.Join(out, "; ") + "]"
}

func readStmt(p *pkg, s ast.Stmt, constVal func(ast.Expr) (string, bool)) string {
	src := squash(p.src(s))
	switch src {
	case "varmultiplieruint=1":
		return "R_var_mult1"
	case "varvalueuint":
		return "R_var_value"
	case "data:=make([]byte,1)":
		return "R_make_data1"
	case "variint64":
		return "R_var_i"
	case "if_,err:=io.ReadFull(r,data);err!=nil{returni,err}":
		return "R_readfull_or_ret"
	case "i++":
		return "R_inc_i"
	case "encodedByte:=data[0]":
		return "R_eb_data0"
	case "value+=uint(encodedByte)&uint(127)*multiplier":
		return "R_value_acc"
	case "multiplier=multiplier*128":
		return "R_mult_step"
	case `returni,unmarshalErr(v,"","sizeexceeded")`:
		return "R_ret_err ESizeExceeded"
	case "break":
		return "R_break"
	case "*v=vbint(value)":
		return "R_set_value"
	case "returni,nil":
		return "R_ret_nil"
	}
	switch x := s.(type) {
	case *ast.ForStmt:
		if x.Init == nil && x.Cond == nil && x.Post == nil {
			return "R_for " + readStmts(p, x.Body.List, constVal)
		}
	case *ast.IfStmt:
		if x.Init == nil && x.Else == nil {
			c := ""
			if squash(p.src(x.Cond)) == "encodedByte&128==0" {
				c = "RC_eb_hi0"
			} else if b, ok := x.Cond.(*ast.BinaryExpr); ok && b.Op == token.GTR && squash(p.src(b.X)) == "multiplier" {
				if k, ok := constVal(b.Y); ok {
					c = "(RC_mult_gt " + k + "%N)"
				}
			}
			if c != "" {
				return "R_if " + c + " " + readStmts(p, x.Body.List, constVal)
			}
		}
	}
	return fmt.Sprintf("R_unknown %q", src)
}

func genRead(p *pkg, out string) {
	info, _ := p.typecheck()
	constVal := func(e ast.Expr) (string, bool) {
		if tv, ok := info.Types[e]; ok && tv.Value != nil {
			return tv.Value.ExactString(), true
		}
		return "", false
	}
	body := `[R_unknown "missing"]`
	if fd := p.funcs["vbint.ReadFrom"]; fd != nil && fd.Body != nil {
		sig := squash(p.src(fd.Type))
		if len(fd.Recv.List) == 1 && len(fd.Recv.List[0].Names) == 1 {
			sig = "(" + fd.Recv.List[0].Names[0].Name + squash(p.src(fd.Recv.List[0].Type)) + ")" + sig
		}
		if sig == "(v*vbint)func(rio.Reader)(int64,error)" {
			body = readStmts(p, fd.Body.List, constVal)
		} else {
			body = fmt.Sprintf("[R_unknown %q]", "signature "+sig)
		}
	}
	defs := "(* generated by tools/gosync (wire.go) - do not edit *)\nFrom MQ Require Import Model.ReadIR.\nFrom Coq Require Import List NArith String.\nImport ListNotations.\nLocal Open Scope string_scope.\n\n" +
		"(* vbint.ReadFrom, statement by statement *)\nDefinition g_vb_read_prog : list rs :=\n  " + body + ".\n"
	// the allocation switch of fixedHeader.ReadRemaining
	mask, table, def := "0%N", "[(0%N, \"unknown\", false)]", "(\"unknown\", false)"
	if fd := p.funcs["fixedHeader.ReadRemaining"]; fd != nil && fd.Body != nil {
		for _, st := range fd.Body.List {
			sw, ok := st.(*ast.SwitchStmt)
			if !ok || sw.Init != nil || sw.Tag == nil {
				continue
			}
			if b, ok := sw.Tag.(*ast.BinaryExpr); ok && b.Op == token.AND && squash(p.src(b.X)) == "byte(f.fixed)" {
				if m, ok := constVal(b.Y); ok {
					mask = m + "%N"
				}
			}
			type row struct {
				key   uint64
				entry string
			}
			var rows []row
			good := true
			for _, cc := range sw.Body.List {
				cl := cc.(*ast.CaseClause)
				name, keeps, okBody := "", false, false
				if len(cl.Body) == 1 {
					src := squash(p.src(cl.Body[0]))
					if strings.HasPrefix(src, "p=&") {
						rest := strings.TrimPrefix(src, "p=&")
						if i := strings.IndexByte(rest, '{'); i > 0 {
							name = rest[:i]
							switch rest[i:] {
							case "{fixed:f.fixed}":
								keeps, okBody = true, true
							case "{}":
								okBody = true
							}
						}
					}
				}
				if !okBody {
					good = false
					continue
				}
				if len(cl.List) == 0 {
					def = fmt.Sprintf("(%q, %v)", name, keeps)
					continue
				}
				for _, e := range cl.List {
					v, ok := constVal(e)
					var k uint64
					if !ok {
						good = false
						continue
					}
					fmt.Sscanf(v, "%d", &k)
					rows = append(rows, row{k, fmt.Sprintf("(%d%%N, %q, %v)", k, name, keeps)})
				}
			}
			if good {
				sort.Slice(rows, func(i, j int) bool { return rows[i].key < rows[j].key })
				var es []string
				for _, r := range rows {
					es = append(es, r.entry)
				}
				table = "[" + strings.Join(es, "; ") + "]"
			}
			break
		}
	}
	defs += "\n(* the allocation switch of fixedHeader.ReadRemaining: (case value, struct, given the first byte) *)\n" +
		"Definition g_dispatch_mask : N := " + mask + ".\nDefinition g_dispatch_table : list (N * string * bool) :=\n  " + table + ".\n" +
		"Definition g_dispatch_default : string * bool := " + def + ".\n"
	os.WriteFile(filepath.Join(out, "GenRead.v"), []byte(defs), 0o644)
	lems := "(* generated by tools/gosync (wire.go) - do not edit *)\nFrom MQ Require Import Model.ReadIR gen.GenRead.\nFrom Coq Require Import List String.\n\n" +
		"(* vbint.ReadFrom is the statement list the model runs (Proofs/ReadIRP.v: running it is Stream.vb_stream) *)\n" +
		"Lemma sync_vb_read_prog : g_vb_read_prog = vb_read_prog.\nProof. vm_compute. reflexivity. Qed.\n\n" +
		"(* the allocation switch of ReadRemaining is the table the model dispatches by\n   (Proofs/ReadIRP.v: dispatching by it is Stream.fresh_pkt for every first byte) *)\n" +
		"Lemma sync_dispatch : g_dispatch_mask = dispatch_mask /\\ g_dispatch_table = dispatch_table /\\ g_dispatch_default = dispatch_default.\nProof. vm_compute. repeat split; reflexivity. Qed.\n"
	os.WriteFile(filepath.Join(out, "SyncRead.v"), []byte(lems), 0o644)
}

// ---------------------------------------------------------------- buffer.getAny

func anyStmts(p *pkg, list []ast.Stmt, constVal func(ast.Expr) (string, bool)) string {
	var out []string
	for i := 0; i < len(list); i++ {
		src := squash(p.src(list[i]))
		// a declaration followed by the b.get that fills it is one step of the language
		if i+1 < len(list) {
			pair := src + ";" + squash(p.src(list[i+1]))
			one := map[string]string{
				"varpropLenvbint;b.get(&propLen)": "A_get_propLen",
				"varpUserProp;b.get(&p)":          "A_get_userprop",
				"varsubvbint;b.get(&sub)":         "A_get_sub",
			}[pair]
			if one != "" {
				out = append(out, one)
				i++
				continue
			}
		}
		out = append(out, anyStmt(p, list[i], constVal))
	}
	return "[" + strings.Join(out, "; ") + "]"
}

func anyStmt(p *pkg, s ast.Stmt, constVal func(ast.Expr) (string, bool)) string {
	src := squash(p.src(s))
	switch src {
	case "ifb.atEnd(){return}":
		return "A_if_atEnd_ret"
	case "end:=b.i+int(propLen)":
		return "A_def_end"
	case "varidIdent":
		return "A_var_id"
	case "b.get(&id)":
		return "A_get_id"
	case "ifb.err!=nil{return}":
		return "A_if_err_ret"
	case "field,hasField:=fields[id]":
		return "A_lookup_field"
	case "b.get(field())":
		return "A_get_field"
	case "continue":
		return "A_continue"
	case "addProp(p)":
		return "A_addProp"
	case "b.addSubscriptionID(uint32(sub))":
		return "A_call_addSub"
	case `b.err=fmt.Errorf("unknownpropertyid0x%02x",id)`:
		return "A_set_err_unknown"
	}
	switch x := s.(type) {
	case *ast.ForStmt:
		if x.Init == nil && x.Post == nil && x.Cond != nil && squash(p.src(x.Cond)) == "b.i<end" {
			return "A_for_lt_end " + anyStmts(p, x.Body.List, constVal)
		}
	case *ast.IfStmt:
		if x.Init == nil && x.Else == nil {
			switch squash(p.src(x.Cond)) {
			case "hasField":
				return "A_if_hasField " + anyStmts(p, x.Body.List, constVal)
			case "b.addSubscriptionID!=nil":
				return "A_if_addSub " + anyStmts(p, x.Body.List, constVal)
			}
		}
	case *ast.SwitchStmt:
		if x.Init == nil && x.Tag != nil && squash(p.src(x.Tag)) == "id" {
			var cases []string
			def := "[]"
			good := true
			for _, cc := range x.Body.List {
				cl := cc.(*ast.CaseClause)
				if len(cl.List) == 0 {
					def = anyStmts(p, cl.Body, constVal)
					continue
				}
				if len(cl.List) != 1 {
					good = false
					continue
				}
				c, ok := constVal(cl.List[0])
				if !ok {
					good = false
					continue
				}
				cases = append(cases, "("+c+"%N, "+anyStmts(p, cl.Body, constVal)+")")
			}
			if good {
				return "A_switch_id [" + strings.Join(cases, "; ") + "] " + def
			}
		}
	}
	return fmt.Sprintf("A_unknown %q", src)
}

func genGetAny(p *pkg, out string) {
	info, _ := p.typecheck()
	constVal := func(e ast.Expr) (string, bool) {
		if tv, ok := info.Types[e]; ok && tv.Value != nil {
			return tv.Value.ExactString(), true
		}
		return "", false
	}
	body := `[A_unknown "missing"]`
	if fd := p.funcs["buffer.getAny"]; fd != nil && fd.Body != nil {
		sig := squash(p.src(fd.Type))
		if len(fd.Recv.List) == 1 && len(fd.Recv.List[0].Names) == 1 {
			sig = "(" + fd.Recv.List[0].Names[0].Name + squash(p.src(fd.Recv.List[0].Type)) + ")" + sig
		}
		if sig == "(b*buffer)func(fieldsmap[Ident]func()wireType,addPropfunc(UserProp))" {
			body = anyStmts(p, fd.Body.List, constVal)
		} else {
			body = fmt.Sprintf("[A_unknown %q]", "signature "+sig)
		}
	}
	// atEnd and Err, one expression each
	one := func(key, want string) string {
		if fd := p.funcs[key]; fd != nil && fd.Body != nil && len(fd.Body.List) == 1 {
			return squash(p.src(fd.Body.List[0]))
		}
		return "missing " + want
	}
	defs := "(* generated by tools/gosync (wire.go) - do not edit *)\nFrom MQ Require Import Model.GetAnyIR.\nFrom Coq Require Import List NArith String.\nImport ListNotations.\nLocal Open Scope string_scope.\n\n" +
		"(* buffer.getAny, statement by statement *)\nDefinition g_getany_prog : list astmt :=\n  " + body + ".\n\n" +
		fmt.Sprintf("(* the bodies of buffer.atEnd and buffer.Err *)\nDefinition g_atEnd_body : string := %q.\nDefinition g_Err_body : string := %q.\n", one("buffer.atEnd", "atEnd"), one("buffer.Err", "Err"))
	os.WriteFile(filepath.Join(out, "GenGetAny.v"), []byte(defs), 0o644)
	lems := "(* generated by tools/gosync (wire.go) - do not edit *)\nFrom MQ Require Import Model.GetAnyIR gen.GenGetAny.\nFrom Coq Require Import List String.\n\n" +
		"(* buffer.getAny is the statement list the model runs (Proofs/GetAnyIRP.v: running it is Codec.getany) *)\n" +
		"Lemma sync_getany_prog : g_getany_prog = getany_prog.\nProof. vm_compute. reflexivity. Qed.\n\n" +
		"(* b.atEnd() is `b.i == len(b.data)` (Codec.at_end), b.Err() is `b.err` *)\n" +
		"Lemma sync_buffer_small : g_atEnd_body = \"returnb.i==len(b.data)\"%string /\\ g_Err_body = \"returnb.err\"%string.\nProof. split; reflexivity. Qed.\n"
	os.WriteFile(filepath.Join(out, "SyncGetAny.v"), []byte(lems), 0o644)
}

// ---------------------------------------------------------------- hygiene

// The statement translators recognise statements by their text.  wireHygiene makes sure the
// names that text relies on mean what they usually mean inside the translated functions: the
// builtins are the builtins (no package-level or local `copy`, `len`, `make`, ...), `binary`,
// `io` and `fmt` are the standard packages, and the methods called on a wire type, on the
// buffer and on the fixed header resolve to the declarations of this package with those names.
// Returns the functions in which something is off (written into gen/GenWire.v as a list that
// must be empty).
func wireHygiene(p *pkg, keys []string) []string {
	info, _ := p.typecheckFull()
	builtins := map[string]bool{"len": true, "copy": true, "make": true, "append": true, "panic": true, "nil": true,
		"true": true, "false": true, "byte": true, "uint": true, "uint16": true, "uint32": true, "int": true,
		"int64": true, "string": true, "cap": true, "new": true, "error": true}
	stdpkgs := map[string]string{"binary": "encoding/binary", "io": "io", "fmt": "fmt"}
	var bad []string
	for _, k := range keys {
		fd := p.funcs[k]
		if fd == nil || fd.Body == nil {
			continue
		}
		ok := true
		ast.Inspect(fd.Body, func(n ast.Node) bool {
			id, isId := n.(*ast.Ident)
			if !isId {
				return true
			}
			obj := info.Uses[id]
			if obj == nil {
				obj = info.Defs[id]
			}
			if builtins[id.Name] {
				// declared here, or resolving to anything but the universe: not the builtin
				if obj == nil || obj.Parent() != types.Universe {
					ok = false
				}
			}
			if want, isStd := stdpkgs[id.Name]; isStd {
				if pn, isPkg := obj.(*types.PkgName); !isPkg || pn.Imported().Path() != want {
					ok = false
				}
			}
			return true
		})
		if !ok {
			bad = append(bad, k)
		}
	}
	return bad
}

func genHygiene(p *pkg, out string) {
	var keys []string
	for k, fd := range p.funcs {
		recv, name, _ := strings.Cut(k, ".")
		if fd.Recv != nil && wireTypes[recv] && (wireMethods[name] || name == "UnmarshalBinary") {
			keys = append(keys, k)
		}
	}
	keys = append(keys, "buffer.get", "buffer.getAny", "buffer.atEnd", "buffer.Err", "vbint.ReadFrom", "fixedHeader.ReadRemaining")
	sort.Strings(keys)
	bad := wireHygiene(p, keys)
	var b strings.Builder
	b.WriteString("(* generated by tools/gosync (wire.go) - do not edit *)\nFrom Coq Require Import List String.\nImport ListNotations.\nLocal Open Scope string_scope.\n\n")
	b.WriteString("(* translated functions in which a builtin (len, copy, make, ...) or one of the packages binary,\n   io, fmt is not what its name says - the statement translators match text *)\nDefinition g_wire_unhygienic : list string :=\n  [")
	for i, k := range bad {
		if i > 0 {
			b.WriteString("; ")
		}
		fmt.Fprintf(&b, "%q", k)
	}
	fmt.Fprintf(&b, "].\nDefinition g_wire_translated : nat := %d.\n\n", len(keys))
	b.WriteString("Lemma sync_wire_hygiene : g_wire_unhygienic = [] /\\ g_wire_translated = 43.\nProof. split; reflexivity. Qed.\n\n")
	// one build of the package: the translator and the fingerprints read every non-test file,
	// the harness is built with -tags verif; a file that is part of only some builds (a
	// //go:build or +build line, a _GOOS/_GOARCH file name) or a function declared twice would
	// make them look at different code
	constrained, dups := p.buildVariants()
	b.WriteString("(* non-test files that are not part of every build (verif_hooks.go, `//go:build verif`, excepted),\n   and functions declared in more than one file *)\nDefinition g_constrained_files : list string :=\n  [")
	for i, k := range constrained {
		if i > 0 {
			b.WriteString("; ")
		}
		fmt.Fprintf(&b, "%q", k)
	}
	b.WriteString("].\nDefinition g_duplicate_funcs : list string :=\n  [")
	for i, k := range dups {
		if i > 0 {
			b.WriteString("; ")
		}
		fmt.Fprintf(&b, "%q", k)
	}
	b.WriteString("].\n\nLemma sync_one_build : g_constrained_files = [] /\\ g_duplicate_funcs = [].\nProof. split; reflexivity. Qed.\n")
	os.WriteFile(filepath.Join(out, "SyncHygiene.v"), []byte(b.String()), 0o644)
}

// buildVariants: files with a build constraint or a GOOS/GOARCH suffix, functions declared twice
func (p *pkg) buildVariants() (constrained, dups []string) {
	names, _ := filepath.Glob(filepath.Join(p.dir, "*.go"))
	sort.Strings(names)
	suffixes := []string{"_linux", "_windows", "_darwin", "_freebsd", "_openbsd", "_netbsd", "_js", "_wasip1", "_plan9", "_solaris", "_aix", "_android", "_ios", "_dragonfly", "_illumos",
		"_amd64", "_arm64", "_arm", "_386", "_wasm", "_riscv64", "_ppc64", "_ppc64le", "_mips", "_mipsle", "_mips64", "_mips64le", "_s390x", "_loong64", "_unix"}
	seen := map[string]string{}
	for _, n := range names {
		base := filepath.Base(n)
		if strings.HasSuffix(base, "_test.go") {
			continue
		}
		raw, _ := os.ReadFile(n)
		head := string(raw)
		if i := strings.Index(head, "\npackage "); i >= 0 {
			head = head[:i]
		}
		tagged := ""
		for _, l := range strings.Split(head, "\n") {
			t := strings.TrimSpace(l)
			if strings.HasPrefix(t, "//go:build") || strings.HasPrefix(t, "// +build") || strings.HasPrefix(t, "//+build") {
				tagged = t
			}
		}
		stem := strings.TrimSuffix(base, ".go")
		for _, sfx := range suffixes {
			if strings.HasSuffix(stem, sfx) {
				tagged = "file name " + sfx
			}
		}
		if base == "verif_hooks.go" {
			if tagged != "//go:build verif" {
				constrained = append(constrained, base+" ("+tagged+")")
			}
			continue
		}
		if tagged != "" {
			constrained = append(constrained, base+" ("+tagged+")")
		}
		if f := p.files[base]; f != nil {
			for _, d := range f.Decls {
				if fd, ok := d.(*ast.FuncDecl); ok && fd.Name.Name != "init" {
					k := funcKey(fd)
					if prev, ok := seen[k]; ok && prev != base {
						dups = append(dups, k)
					}
					seen[k] = base
				}
			}
		}
	}
	return
}
