package main

// wire.go: the encoder methods of the wire types (wiretypes.go: fill, fillProp,
// fillOpt, width) statement by statement into the little imperative language of
// coq/Model/WireIR.v.  A statement or expression outside that language becomes
// S_unknown "<source>" and gen/SyncWire.v fails.

import (
	"fmt"
	"go/ast"
	"go/token"
	"os"
	"path/filepath"
	"sort"
	"strings"
)

var wireTypes = map[string]bool{"Ident": true, "UserProp": true, "bindata": true, "bits": true, "rawdata": true,
	"vbint": true, "wbool": true, "wuint16": true, "wuint32": true}
var wireMethods = map[string]bool{"fill": true, "fillProp": true, "fillOpt": true, "width": true}

type wireTr struct {
	p  *pkg
	ok bool
}

func (t *wireTr) sq(n ast.Node) string { return squash(t.p.src(n)) }

func (t *wireTr) unknown(n ast.Node) string {
	t.ok = false
	return fmt.Sprintf("S_unknown %q", t.sq(n))
}

// int expressions
func (t *wireTr) wi(e ast.Expr) (string, bool) {
	switch x := e.(type) {
	case *ast.ParenExpr:
		return t.wi(x.X)
	case *ast.Ident:
		switch x.Name {
		case "i":
			return "I_i", true
		case "n":
			return "I_n", true
		}
	case *ast.BasicLit:
		if x.Kind == token.INT {
			var k int
			if _, err := fmt.Sscanf(x.Value, "%d", &k); err == nil && fmt.Sprint(k) == x.Value && k < 1000 {
				return fmt.Sprintf("(I_k %d)", k), true
			}
		}
	case *ast.BinaryExpr:
		a, ok1 := t.wi(x.X)
		b, ok2 := t.wi(x.Y)
		if ok1 && ok2 {
			switch x.Op {
			case token.ADD:
				return "(I_add " + a + " " + b + ")", true
			case token.SUB:
				return "(I_sub " + a + " " + b + ")", true
			}
		}
	case *ast.CallExpr:
		switch t.sq(x) {
		case "len(data)":
			return "I_lendata", true
		case "len(v)":
			return "I_lenv", true
		case "v.width()":
			return "I_width", true
		case "v.fill(_LEN,0)":
			return "I_selffill0", true
		case "wstring(v[0]).width()":
			return "I_keyw", true
		case "wstring(v[1]).width()":
			return "I_valw", true
		}
	}
	return "", false
}

func (t *wireTr) wc(e ast.Expr) (string, bool) {
	switch t.sq(e) {
	case "v==0":
		return "C_vzero", true
	case "len(v)==0":
		return "C_lenv0", true
	case "len(v[0])==0":
		return "C_lenkey0", true
	case "!v":
		return "C_notv", true
	case "v":
		return "C_v", true
	case "x>0":
		return "C_xpos", true
	case "x==0":
		return "C_xzero", true
	}
	if b, ok := e.(*ast.BinaryExpr); ok {
		l, ok1 := t.wi(b.X)
		r, ok2 := t.wi(b.Y)
		if ok1 && ok2 {
			switch b.Op {
			case token.GEQ:
				return "(C_ge " + l + " " + r + ")", true
			case token.LSS:
				return "(C_lt " + l + " " + r + ")", true
			}
		}
	}
	return "", false
}

// X.fill(data, i)
func (t *wireTr) callee(e ast.Expr) (string, bool) {
	switch t.sq(e) {
	case "id.fill(data,i)":
		return "K_id", true
	case "v.fill(data,i)":
		return "K_self", true
	case "wuint16(len(v)).fill(data,i)":
		return "K_u16lenv", true
	case "wstring(v[0]).fill(data,i)":
		return "K_key", true
	case "wstring(v[1]).fill(data,i)":
		return "K_val", true
	}
	return "", false
}

// data[idx:] -> idx
func (t *wireTr) dataFrom(e ast.Expr) (string, bool) {
	if s, ok := e.(*ast.SliceExpr); ok && s.High == nil && s.Max == nil && s.Low != nil && t.sq(s.X) == "data" {
		return t.wi(s.Low)
	}
	return "", false
}

func (t *wireTr) stored(e ast.Expr) (string, bool) {
	switch t.sq(e) {
	case "byte(v)", "uint16(v)", "uint32(v)":
		return "B_v", true
	case "encodedByte":
		return "B_eb", true
	}
	if l, ok := e.(*ast.BasicLit); ok && l.Kind == token.INT {
		var k uint64
		if _, err := fmt.Sscanf(l.Value, "%v", &k); err == nil && k < 256 {
			return fmt.Sprintf("(B_k %d%%N)", k), true
		}
	}
	return "", false
}

func (t *wireTr) block(b *ast.BlockStmt) string {
	if b == nil {
		return "[]"
	}
	var out []string
	for _, s := range b.List {
		out = append(out, t.stmt(s))
	}
	return "[" + strings.Join(out, "; ") + "]"
}

func (t *wireTr) stmt(s ast.Stmt) string {
	switch x := s.(type) {
	case *ast.AssignStmt:
		src := t.sq(x)
		switch src {
		case "n:=i":
			return "S_def_n"
		case "x:=v":
			return "S_def_x"
		case "encodedByte:=byte(x%128)":
			return "S_eb_mod"
		case "x=x/128":
			return "S_x_div"
		case "encodedByte=encodedByte|128":
			return "S_eb_or128"
		}
		if len(x.Lhs) == 1 && len(x.Rhs) == 1 {
			if k, ok := t.callee(x.Rhs[0]); ok {
				if x.Tok == token.ADD_ASSIGN && t.sq(x.Lhs[0]) == "i" {
					return "S_adv " + k
				}
				if x.Tok == token.ASSIGN && t.sq(x.Lhs[0]) == "_" {
					return "S_call " + k
				}
			}
			// data[idx] = b
			if ix, ok := x.Lhs[0].(*ast.IndexExpr); ok && x.Tok == token.ASSIGN && t.sq(ix.X) == "data" {
				idx, ok1 := t.wi(ix.Index)
				b, ok2 := t.stored(x.Rhs[0])
				if ok1 && ok2 {
					return "S_poke " + idx + " " + b
				}
			}
		}
	case *ast.IncDecStmt:
		if x.Tok == token.INC && t.sq(x.X) == "i" {
			return "S_inc_i"
		}
	case *ast.ExprStmt:
		if c, ok := x.X.(*ast.CallExpr); ok {
			fn := t.sq(c.Fun)
			switch {
			case (fn == "binary.BigEndian.PutUint16" || fn == "binary.BigEndian.PutUint32") && len(c.Args) == 2:
				idx, ok1 := t.dataFrom(c.Args[0])
				b, ok2 := t.stored(c.Args[1])
				want := map[string]string{"binary.BigEndian.PutUint16": "uint16(v)", "binary.BigEndian.PutUint32": "uint32(v)"}[fn]
				if ok1 && ok2 && t.sq(c.Args[1]) == want {
					return map[string]string{"binary.BigEndian.PutUint16": "S_put16 ", "binary.BigEndian.PutUint32": "S_put32 "}[fn] + idx + " " + b
				}
			case fn == "copy" && len(c.Args) == 2 && t.sq(c.Args[1]) == "[]byte(v)":
				if idx, ok := t.dataFrom(c.Args[0]); ok {
					return "S_copy " + idx
				}
			case fn == "panic":
				return "S_panic"
			}
		}
	case *ast.IfStmt:
		if x.Init == nil {
			if c, ok := t.wc(x.Cond); ok {
				el := "[]"
				switch e := x.Else.(type) {
				case nil:
				case *ast.BlockStmt:
					el = t.block(e)
				default:
					return t.unknown(s)
				}
				return "S_if " + c + " " + t.block(x.Body) + " " + el
			}
		}
	case *ast.ReturnStmt:
		if len(x.Results) == 1 {
			r := x.Results[0]
			if k, ok := t.callee(r); ok {
				return "S_ret_call " + k
			}
			if c, ok := r.(*ast.CallExpr); ok && t.sq(c.Fun) == "copy" && len(c.Args) == 2 && t.sq(c.Args[1]) == "[]byte(v)" {
				if idx, ok := t.dataFrom(c.Args[0]); ok {
					return "S_ret_copy " + idx
				}
			}
			if e, ok := t.wi(r); ok {
				return "S_ret " + e
			}
		}
	case *ast.ForStmt:
		if x.Init == nil && x.Cond == nil && x.Post == nil {
			return "S_for " + t.block(x.Body)
		}
	case *ast.BranchStmt:
		if x.Tok == token.BREAK && x.Label == nil {
			return "S_break"
		}
	}
	return t.unknown(s)
}

func genWire(p *pkg, out string) {
	var keys []string
	for k, fd := range p.funcs {
		recv, name, _ := strings.Cut(k, ".")
		if fd.Recv != nil && wireTypes[recv] && wireMethods[name] {
			keys = append(keys, k)
		}
	}
	sort.Strings(keys)
	var defs strings.Builder
	defs.WriteString("(* generated by tools/gosync (wire.go) - do not edit *)\nFrom MQ Require Import Model.WireIR.\nFrom Coq Require Import List NArith String.\nImport ListNotations.\nLocal Open Scope string_scope.\n\n")
	defs.WriteString("(* fill, fillProp, fillOpt and width of the wire types of wiretypes.go, statement by statement *)\nDefinition g_wire_progs : list (string * list ws) :=\n  [")
	for i, k := range keys {
		fd := p.funcs[k]
		t := &wireTr{p: p, ok: true}
		body := ""
		// the signature the language assumes: value receiver v; (data []byte, i int[, id Ident]) int
		recv, name, _ := strings.Cut(k, ".")
		sig := squash(p.src(fd.Type))
		if len(fd.Recv.List) == 1 && len(fd.Recv.List[0].Names) == 1 {
			sig = "(" + fd.Recv.List[0].Names[0].Name + squash(p.src(fd.Recv.List[0].Type)) + ")" + sig
		}
		wantSig := map[string]string{
			"fill":     "(v" + recv + ")func(data[]byte,iint)int",
			"fillOpt":  "(v" + recv + ")func(data[]byte,iint)int",
			"fillProp": "(v" + recv + ")func(data[]byte,iint,idIdent)int",
			"width":    "(v" + recv + ")func()int",
		}[name]
		if sig != wantSig || fd.Body == nil {
			body = fmt.Sprintf("[S_unknown %q]", "signature "+sig)
		} else {
			body = t.block(fd.Body)
		}
		if i > 0 {
			defs.WriteString(";\n   ")
		}
		fmt.Fprintf(&defs, "(%q, %s)", k, body)
	}
	defs.WriteString("].\n")
	os.WriteFile(filepath.Join(out, "GenWire.v"), []byte(defs.String()), 0o644)
	lems := "(* generated by tools/gosync (wire.go) - do not edit *)\nFrom MQ Require Import Model.WireIR gen.GenWire.\nFrom Coq Require Import List String.\n\n" +
		"(* the encoder methods of the wire types are the statement lists the model runs\n   (Proofs/WireIRP.v: running them is fill_u8 ... fill_vb, wfill_prop, fill_userprop of Model/Fill.v) *)\n" +
		"Lemma sync_wire_progs : g_wire_progs = wire_progs.\nProof. vm_compute. reflexivity. Qed.\n"
	os.WriteFile(filepath.Join(out, "SyncWire.v"), []byte(lems), 0o644)
}
