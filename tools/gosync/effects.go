package main

// Write-set analysis of the read-only API.
//
// Properties C11 and C13 speak about WriteTo, String, Dump, WellFormed and the
// accessors: they must not change the packet (C11) and must be safe to run
// concurrently on a shared packet (C13).  The Coq theorem C13_schedules has
// one premise: no thread writes a shared location.  This analysis decides
// that premise on the source, for every path and not for sampled inputs: for
// every method of the read-only API it computes, through every in-package
// call, closure and interface dispatch, the set of memory it may write that is
// not freshly allocated by the call itself:
//
//	recv      memory reachable from the receiver (a field, an element of a
//	          slice or map it holds, a pointer it holds)
//	param:i   memory reachable from the i-th parameter
//	global:x  a package-level variable (of this or another package)
//	other:..  goroutines, channel operations, calls the analysis cannot resolve
//
// and requires the result to be empty except for param effects of WriteTo and
// dump/Dump (their writer is the caller's own).  The analysis is flow-insensitive
// and over-approximates aliasing: a local variable of reference type stands for
// everything ever assigned to it; an unknown function value stands for every
// function literal and method of the package with the same signature.  The one
// refinement is constant propagation of literal bool arguments (Subscribe's
// propertyMap(false) does not allocate).  Fail-closed: what is not understood
// is an effect.
//
// Output: gen/GenEffects.v with g_readonly_effects (must be []) and
// g_readonly_methods (the methods analysed; must contain the expected API).

import (
	"fmt"
	"go/ast"
	"go/importer"
	"go/token"
	"go/types"
	"os"
	"path/filepath"
	"sort"
	"strings"
)

type effSet map[string]string // effect key -> where it was found (first)

func (s effSet) add(k, where string) {
	if _, ok := s[k]; !ok {
		s[k] = where
	}
}

type orig map[string]bool // "recv", "param:i", "global:x", "unknown", "fresh"

func (o orig) addAll(p orig) orig {
	for k := range p {
		o[k] = true
	}
	return o
}

type fnCtx struct {
	a       *effAnalysis
	recv    *types.Var
	params  map[*types.Var]int
	consts  map[*types.Var]bool // parameters with a known literal bool value
	locals  map[*types.Var]orig // origins of local variables (fixpoint): everything reachable from the value
	own     map[*types.Var]orig // ... and the memory the value itself refers to (its array, its pointee)
	shallow bool                // origins() is asked for the latter
	results []*types.Var        // named results
	lits    map[*types.Var]*ast.FuncLit
	// closure parameters: origins collected from the call sites of the closure variable
	body ast.Node
	eff  effSet
	name string
	// the receiver and the parameters that are assigned to, or whose address is taken, somewhere
	// in the body: they need not point to the object they were passed any more
	assigned map[*types.Var]bool
}

type effAnalysis struct {
	p       *pkg
	info    *types.Info
	tp      *types.Package
	decls   map[*types.Func]*ast.FuncDecl
	allLits []*litInfo
	memo    map[string]effSet
	prev    map[string]effSet
	active  map[string]bool
	// package-level slice variables declared without initialiser and never assigned,
	// address-taken or passed by name to anything but a parameter: nil for ever
	nilGlobals map[*types.Var]bool
	// package-level `var ErrX = errors.New(...)` / `fmt.Errorf(...)`, never assigned: immutable values
	constErrors map[*types.Var]bool
}

// nil-for-ever globals: `var x []T` with no initialiser whose identifier never occurs
// on the left of an assignment, under &, or in an inc/dec statement, in any file.
func (a *effAnalysis) findNilGlobals() {
	a.nilGlobals = map[*types.Var]bool{}
	a.constErrors = map[*types.Var]bool{}
	for _, f := range a.p.files {
		for _, d := range f.Decls {
			gd, ok := d.(*ast.GenDecl)
			if !ok || gd.Tok != token.VAR {
				continue
			}
			for _, sp := range gd.Specs {
				vs := sp.(*ast.ValueSpec)
				if len(vs.Values) == len(vs.Names) {
					for i, n := range vs.Names {
						if c, ok := vs.Values[i].(*ast.CallExpr); ok {
							src := strings.Join(strings.Fields(a.p.src(c.Fun)), "")
							if v, ok := a.info.Defs[n].(*types.Var); ok && (src == "errors.New" || src == "fmt.Errorf") && v.Type().String() == "error" {
								a.constErrors[v] = true
							}
						}
					}
				}
				if len(vs.Values) != 0 {
					continue
				}
				for _, n := range vs.Names {
					if v, ok := a.info.Defs[n].(*types.Var); ok {
						if _, isSlice := v.Type().Underlying().(*types.Slice); isSlice {
							a.nilGlobals[v] = true
						}
					}
				}
			}
		}
	}
	root := func(e ast.Expr) *types.Var {
		for {
			switch x := e.(type) {
			case *ast.Ident:
				v, _ := a.info.ObjectOf(x).(*types.Var)
				return v
			case *ast.ParenExpr:
				e = x.X
			default:
				return nil
			}
		}
	}
	for _, f := range a.p.files {
		ast.Inspect(f, func(n ast.Node) bool {
			switch s := n.(type) {
			case *ast.AssignStmt:
				for _, l := range s.Lhs {
					if v := root(l); v != nil {
						delete(a.nilGlobals, v)
						delete(a.constErrors, v)
					}
				}
			case *ast.UnaryExpr:
				if s.Op == token.AND {
					if v := root(s.X); v != nil {
						delete(a.nilGlobals, v)
						delete(a.constErrors, v)
					}
				}
			case *ast.IncDecStmt:
				if v := root(s.X); v != nil {
					delete(a.nilGlobals, v)
				}
			case *ast.RangeStmt:
				if s.Tok == token.ASSIGN {
					for _, e := range []ast.Expr{s.Key, s.Value} {
						if e != nil {
							if v := root(e); v != nil {
								delete(a.nilGlobals, v)
							}
						}
					}
				}
			}
			return true
		})
	}
}

type litInfo struct {
	lit   *ast.FuncLit
	owner *ast.FuncDecl
}

func (p *pkg) typecheckFull() (*types.Info, *types.Package) {
	var files []*ast.File
	var names []string
	for n := range p.files {
		names = append(names, n)
	}
	sort.Strings(names)
	for _, n := range names {
		files = append(files, p.files[n])
	}
	info := &types.Info{Defs: map[*ast.Ident]types.Object{}, Uses: map[*ast.Ident]types.Object{},
		Types: map[ast.Expr]types.TypeAndValue{}, Selections: map[*ast.SelectorExpr]*types.Selection{}, Implicits: map[ast.Node]types.Object{}}
	conf := types.Config{Importer: importer.ForCompiler(p.fset, "source", nil), Error: func(err error) {}}
	tp, _ := conf.Check("mq", p.fset, files, info)
	return info, tp
}

// hasRef: can a value of this type alias memory (pointer, slice, map, chan, func, interface)?
func hasRef(t types.Type, seen map[types.Type]bool) bool {
	if t == nil {
		return true
	}
	if seen[t] {
		return false
	}
	seen[t] = true
	switch u := t.Underlying().(type) {
	case *types.Basic:
		return u.Kind() == types.UnsafePointer
	case *types.Pointer, *types.Slice, *types.Map, *types.Chan, *types.Signature, *types.Interface:
		return true
	case *types.Array:
		return hasRef(u.Elem(), seen)
	case *types.Struct:
		for i := 0; i < u.NumFields(); i++ {
			if hasRef(u.Field(i).Type(), seen) {
				return true
			}
		}
		return false
	case *types.Tuple:
		for i := 0; i < u.Len(); i++ {
			if hasRef(u.At(i).Type(), seen) {
				return true
			}
		}
		return false
	}
	return true
}

func isRef(t types.Type) bool { return hasRef(t, map[types.Type]bool{}) }

func (c *fnCtx) typeOf(e ast.Expr) types.Type {
	if tv, ok := c.a.info.Types[e]; ok {
		return tv.Type
	}
	if id, ok := e.(*ast.Ident); ok {
		if o := c.a.info.ObjectOf(id); o != nil {
			return o.Type()
		}
	}
	return nil
}

func (c *fnCtx) where(n ast.Node) string {
	pos := c.a.p.fset.Position(n.Pos())
	return fmt.Sprintf("%s:%d", filepath.Base(pos.Filename), pos.Line)
}

// origins of the memory a value of reference type may alias
func (c *fnCtx) origins(e ast.Expr) orig {
	o := orig{}
	if e == nil {
		return o
	}
	if t := c.typeOf(e); t != nil && !isRef(t) {
		return o // a pure value is a copy
	}
	switch x := e.(type) {
	case *ast.Ident:
		obj := c.a.info.ObjectOf(x)
		v, ok := obj.(*types.Var)
		if !ok {
			return o // nil, constants, functions
		}
		if v == c.recv {
			o["recv"] = true
		} else if i, ok := c.params[v]; ok {
			o[fmt.Sprintf("param:%d", i)] = true
		} else if v.Parent() == c.a.tp.Scope() || (v.Pkg() != nil && v.Parent() == v.Pkg().Scope()) {
			if c.a.nilGlobals[v] {
				return o // a slice variable that is nil for the life of the program aliases no memory
			}
			if c.a.constErrors[v] {
				return o // an error value made once by errors.New / fmt.Errorf and never reassigned: nothing to write
			}
			o["global:"+v.Name()] = true
		} else if c.shallow {
			if lo, ok := c.own[v]; ok {
				o.addAll(lo)
			}
		} else if lo, ok := c.locals[v]; ok {
			o.addAll(lo)
		}
	case *ast.SelectorExpr:
		if sel, ok := c.a.info.Selections[x]; ok {
			_ = sel
			o.addAll(c.originsNoPrune(x.X))
		} else {
			// qualified identifier pkg.Name
			if obj, ok := c.a.info.Uses[x.Sel].(*types.Var); ok {
				o["global:"+obj.Pkg().Name()+"."+obj.Name()] = true
			}
		}
	case *ast.IndexExpr:
		o.addAll(c.originsNoPrune(x.X))
	case *ast.SliceExpr:
		o.addAll(c.originsNoPrune(x.X))
	case *ast.StarExpr:
		o.addAll(c.originsNoPrune(x.X))
	case *ast.ParenExpr:
		o.addAll(c.origins(x.X))
	case *ast.TypeAssertExpr:
		o.addAll(c.origins(x.X))
	case *ast.UnaryExpr:
		if x.Op == token.AND {
			o.addAll(c.locOrigins(x.X))
			if _, ok := x.X.(*ast.CompositeLit); ok {
				o["fresh"] = true
			}
			if !c.shallow {
				// through the pointer everything the pointed-to value can reach is reachable
				o.addAll(c.origins(x.X))
			}
		}
	case *ast.CompositeLit:
		o["fresh"] = true
		if c.shallow {
			break // the literal's own array or struct is new; what its elements refer to is not written through it
		}
		for _, el := range x.Elts {
			if kv, ok := el.(*ast.KeyValueExpr); ok {
				o.addAll(c.origins(kv.Value))
			} else {
				o.addAll(c.origins(el))
			}
		}
	case *ast.FuncLit:
		// the closure value itself; its body is analysed where it stands
	case *ast.BasicLit, *ast.BinaryExpr:
	case *ast.CallExpr:
		o.addAll(c.callOrigins(x))
	default:
		o["unknown"] = true
	}
	return o
}

// origins of x as a base of a selector/index/deref: no pruning by x's own type
// unless it is a pure value (then the selected part is a copy as well)
func (c *fnCtx) originsNoPrune(e ast.Expr) orig { return c.deep(e) }

// deep: everything reachable from the value of e
func (c *fnCtx) deep(e ast.Expr) orig {
	old := c.shallow
	c.shallow = false
	defer func() { c.shallow = old }()
	return c.origins(e)
}

// memOf: the memory the value of e itself refers to - what `e[i] = v`, `*e = v`,
// `append(e, ...)`, `copy(e, ...)` write.  For a composite literal, make or new that is
// fresh memory whatever the elements point to; for a field or an element of something it
// is whatever that something can reach.
func (c *fnCtx) memOf(e ast.Expr) orig {
	old := c.shallow
	c.shallow = true
	defer func() { c.shallow = old }()
	return c.origins(e)
}

// locOrigins: whose memory is the location denoted by e (for &e, for a
// pointer-receiver call on e, for an assignment to e)?  A local variable's own
// cell is private ("fresh").
func (c *fnCtx) locOrigins(e ast.Expr) orig {
	o := orig{}
	switch x := e.(type) {
	case *ast.Ident:
		obj := c.a.info.ObjectOf(x)
		v, ok := obj.(*types.Var)
		if !ok {
			return o
		}
		if v.Pkg() != nil && v.Parent() == v.Pkg().Scope() {
			o["global:"+v.Name()] = true
			return o
		}
		o["fresh"] = true // the cell of a local, a parameter or the receiver variable itself
	case *ast.ParenExpr:
		return c.locOrigins(x.X)
	case *ast.SelectorExpr:
		if _, ok := c.a.info.Selections[x]; !ok {
			if obj, ok := c.a.info.Uses[x.Sel].(*types.Var); ok {
				o["global:"+obj.Pkg().Name()+"."+obj.Name()] = true
			}
			return o
		}
		if t := c.typeOf(x.X); t != nil {
			if _, ok := t.Underlying().(*types.Pointer); ok {
				return c.memOf(x.X) // implicit dereference
			}
		}
		return c.locOrigins(x.X)
	case *ast.IndexExpr:
		if t := c.typeOf(x.X); t != nil {
			switch u := t.Underlying().(type) {
			case *types.Array:
				return c.locOrigins(x.X)
			case *types.Pointer:
				_ = u
				return c.memOf(x.X)
			}
		}
		return c.memOf(x.X) // slice or map element
	case *ast.StarExpr:
		return c.memOf(x.X)
	default:
		o["unknown"] = true
	}
	return o
}

// retain records that memory owned by dst may come to hold a reference into memory owned by
// src (an assignment, copy or call that stores a reference-typed value): "retain|dst|src".
func (c *fnCtx) retain(dst, src orig, what string, n ast.Node) {
	for d := range dst {
		if d == "fresh" || d == "unknown" {
			continue
		}
		for s := range src {
			if s == "fresh" || s == "unknown" || s == d {
				continue
			}
			c.eff.add("retain|"+d+"|"+s, c.where(n)+" "+what)
		}
	}
}

// ownRoot: if e denotes the struct a pointer receiver or a pointer parameter points to, or a
// struct-valued field of it reached without going through a further pointer, slice or map -
// memory of that object itself, as opposed to memory the object can reach - the label of the
// root ("recv", "param:i"); otherwise "".
func (c *fnCtx) ownRoot(e ast.Expr) string {
	switch x := e.(type) {
	case *ast.ParenExpr:
		return c.ownRoot(x.X)
	case *ast.Ident:
		v, ok := c.a.info.ObjectOf(x).(*types.Var)
		if !ok {
			return ""
		}
		if _, isPtr := v.Type().Underlying().(*types.Pointer); !isPtr {
			return ""
		}
		if c.assigned[v] {
			return "" // the variable may have come to point elsewhere
		}
		if c.recv != nil && v == c.recv {
			return "recv"
		}
		if i, ok := c.params[v]; ok {
			return fmt.Sprintf("param:%d", i)
		}
	case *ast.StarExpr:
		if id, ok := x.X.(*ast.Ident); ok {
			return c.ownRoot(id)
		}
	case *ast.SelectorExpr:
		if _, ok := c.a.info.Selections[x]; !ok {
			return ""
		}
		if id, ok := x.X.(*ast.Ident); ok {
			if r := c.ownRoot(id); r != "" {
				return r
			}
		}
		if t := c.typeOf(x.X); t != nil {
			if _, ok := t.Underlying().(*types.Struct); ok {
				return c.ownRoot(x.X)
			}
		}
	}
	return ""
}

func ownKey(root string) string {
	if root == "recv" {
		return "recvown"
	}
	return "paramown:" + strings.TrimPrefix(root, "param:")
}

// promoted: the method called is found through embedded fields of the receiver expression
func (c *fnCtx) promoted(call *ast.CallExpr) bool {
	if sel, ok := call.Fun.(*ast.SelectorExpr); ok {
		if s, ok := c.a.info.Selections[sel]; ok {
			return len(s.Index()) > 1
		}
	}
	return false
}

// ownField: an assignment target that is a field of the object a pointer receiver or parameter
// points to (or that whole object, `*p = ...`): the label of the root, or "".
func (c *fnCtx) ownField(l ast.Expr) string {
	switch x := l.(type) {
	case *ast.ParenExpr:
		return c.ownField(x.X)
	case *ast.SelectorExpr, *ast.StarExpr:
		return c.ownRoot(x)
	}
	return ""
}

func (c *fnCtx) write(o orig, what string, n ast.Node) {
	for k := range o {
		switch {
		case k == "fresh":
		case k == "recv":
			c.eff.add("recv", c.where(n)+" "+what)
		case strings.HasPrefix(k, "param:"), strings.HasPrefix(k, "global:"):
			c.eff.add(k, c.where(n)+" "+what)
		default:
			c.eff.add("other:write through unknown alias", c.where(n)+" "+what)
		}
	}
}

// external functions that only read their arguments (results are fresh or immutable)
var pureExternal = map[string]bool{
	"fmt.Sprintf": true, "fmt.Sprint": true, "fmt.Sprintln": true, "fmt.Errorf": true,
	"strings.Repeat": true, "strings.Join": true, "strings.HasPrefix": true, "strings.HasSuffix": true,
	"strings.TrimSpace": true, "strings.ToUpper": true, "strings.ToLower": true, "strings.Contains": true,
	"strings.Index": true, "strings.Split": true, "strings.Fields": true, "strings.Title": true,
	"strings.TrimRight": true, "strings.TrimLeft": true, "strings.Trim": true, "strings.TrimPrefix": true, "strings.TrimSuffix": true,
	"bytes.Repeat": true, "bytes.Equal": true, "bytes.Compare": true, "bytes.HasPrefix": true, "bytes.HasSuffix": true,
	"bytes.Contains": true, "bytes.Index": true, "bytes.IndexByte": true, "strings.SplitN": true, "strings.IndexByte": true,
	"strings.Count": true, "strings.EqualFold": true, "utf8.RuneStart": true, "utf8.RuneLen": true, "utf8.RuneCount": true,
	"utf8.DecodeRuneInString": true, "utf8.DecodeRune": true, "utf8.DecodeLastRuneInString": true, "utf8.FullRune": true,
	"strconv.Itoa": true, "strconv.Quote": true, "strconv.FormatInt": true, "strconv.FormatUint": true,
	"errors.New": true, "errors.Is": true, "errors.As": false,
	"binary.BigEndian.Uint16": true, "binary.BigEndian.Uint32": true, "binary.BigEndian.Uint64": true,
	"time.Duration.String": true, "utf8.RuneCountInString": true, "utf8.ValidString": true, "utf8.Valid": true,
	"reflect.TypeOf": true,
}

// external functions that write exactly the listed arguments (-1 = the receiver)
var writingExternal = map[string][]int{
	"fmt.Fprintf": {0}, "fmt.Fprintln": {0}, "fmt.Fprint": {0},
	"binary.BigEndian.PutUint16": {0}, "binary.BigEndian.PutUint32": {0}, "binary.BigEndian.PutUint64": {0},
	"bigEndian.PutUint16": {0}, "bigEndian.PutUint32": {0}, "bigEndian.PutUint64": {0},
	"bigEndian.Uint16": {}, "bigEndian.Uint32": {}, "bigEndian.Uint64": {},
	"io.ReadFull": {0, 1}, "io.ReadAtLeast": {0, 1}, "io.WriteString": {0},
	"Builder.WriteString": {-1}, "Builder.Write": {-1}, "Builder.WriteByte": {-1}, "Builder.WriteRune": {-1},
	"Builder.String": {}, "Builder.Len": {}, "Builder.Grow": {-1}, "Builder.Reset": {-1},
	"Buffer.WriteString": {-1}, "Buffer.Write": {-1}, "Buffer.WriteByte": {-1}, "Buffer.String": {}, "Buffer.Bytes": {}, "Buffer.Len": {},
	"Writer.Write": {-1}, "Reader.Read": {-1, 0}, "Stringer.String": {}, "error.Error": {},
}

func (c *fnCtx) externalName(call *ast.CallExpr) string {
	switch f := call.Fun.(type) {
	case *ast.SelectorExpr:
		if sel, ok := c.a.info.Selections[f]; ok {
			// method of an external type or interface
			t := sel.Recv()
			if p, ok := t.(*types.Pointer); ok {
				t = p.Elem()
			}
			if n, ok := t.(*types.Named); ok {
				return n.Obj().Name() + "." + f.Sel.Name
			}
			return "?." + f.Sel.Name
		}
		// pkg.Func or pkg.Var.Method
		if id, ok := f.X.(*ast.Ident); ok {
			return id.Name + "." + f.Sel.Name
		}
		if s2, ok := f.X.(*ast.SelectorExpr); ok {
			if id, ok := s2.X.(*ast.Ident); ok {
				return id.Name + "." + s2.Sel.Name + "." + f.Sel.Name
			}
		}
	}
	return "?"
}

// callee resolution
func (c *fnCtx) staticCallee(call *ast.CallExpr) *types.Func {
	switch f := call.Fun.(type) {
	case *ast.Ident:
		if fn, ok := c.a.info.Uses[f].(*types.Func); ok {
			return fn
		}
	case *ast.SelectorExpr:
		if sel, ok := c.a.info.Selections[f]; ok {
			if sel.Kind() == types.MethodVal {
				if fn, ok := sel.Obj().(*types.Func); ok {
					if _, isIface := sel.Recv().Underlying().(*types.Interface); !isIface {
						return fn
					}
				}
			}
			return nil
		}
		if fn, ok := c.a.info.Uses[f.Sel].(*types.Func); ok {
			return fn
		}
	case *ast.ParenExpr:
		return c.staticCallee(&ast.CallExpr{Fun: f.X, Args: call.Args})
	}
	return nil
}

func (c *fnCtx) isConversion(call *ast.CallExpr) bool {
	if tv, ok := c.a.info.Types[call.Fun]; ok && tv.IsType() {
		return true
	}
	return false
}

func (c *fnCtx) builtinName(call *ast.CallExpr) string {
	if id, ok := call.Fun.(*ast.Ident); ok {
		if _, ok := c.a.info.Uses[id].(*types.Builtin); ok {
			return id.Name
		}
	}
	return ""
}

func (c *fnCtx) callOrigins(call *ast.CallExpr) orig {
	o := orig{}
	if c.isConversion(call) {
		if len(call.Args) == 1 {
			from, to := c.typeOf(call.Args[0]), c.typeOf(call)
			if from != nil && to != nil {
				_, fs := from.Underlying().(*types.Basic)
				_, ts := to.Underlying().(*types.Basic)
				if fs || ts {
					o["fresh"] = true // string <-> []byte copies
					return o
				}
			}
			return c.origins(call.Args[0])
		}
		return o
	}
	switch c.builtinName(call) {
	case "make", "new":
		o["fresh"] = true
		return o
	case "append":
		o["fresh"] = true
		if len(call.Args) > 0 {
			o.addAll(c.origins(call.Args[0]))
			for _, a := range call.Args[1:] {
				if c.shallow {
					break // the elements are stored, not written through
				}
				if call.Ellipsis == token.NoPos {
					o.addAll(c.origins(a))
				} else if t := c.typeOf(a); t != nil {
					if s, ok := t.Underlying().(*types.Slice); ok && isRef(s.Elem()) {
						o.addAll(c.origins(a))
					}
				}
			}
		}
		return o
	case "len", "cap", "copy", "min", "max", "recover", "panic", "print", "println", "delete", "clear", "close":
		return o
	}
	if fn := c.staticCallee(call); fn != nil && fn.Pkg() != c.a.tp {
		if pureExternal[c.externalName(call)] {
			o["fresh"] = true
			return o
		}
	}
	if fn := c.staticCallee(call); fn != nil && fn.Pkg() == c.a.tp && c.a.decls[fn] != nil {
		// an in-package function: what its return statements say
		sum := c.a.summary(fn, c.literalBools(call))
		sig := fn.Type().(*types.Signature)
		o["fresh"] = true
		for k := range sum {
			if !strings.HasPrefix(k, "result|") {
				continue
			}
			parts := strings.SplitN(k, "|", 3)
			o.addAll(c.mapSide(call, sig, parts[2]))
		}
		return o
	}
	// any other call: the result may alias the receiver and every reference argument
	if sel, ok := call.Fun.(*ast.SelectorExpr); ok {
		if _, ok := c.a.info.Selections[sel]; ok {
			o.addAll(c.origins(sel.X))
			o.addAll(c.locOriginsIfAddr(sel.X))
		}
	} else if _, ok := call.Fun.(*ast.Ident); !ok {
		o.addAll(c.origins(call.Fun))
	} else if id := call.Fun.(*ast.Ident); id != nil {
		if v, ok := c.a.info.Uses[id].(*types.Var); ok {
			// a closure variable: what it captured
			if lit, ok := c.lits[v]; ok {
				o.addAll(c.captured(lit))
			} else {
				o.addAll(c.origins(id))
				o["unknown"] = true
			}
		}
	}
	for _, a := range call.Args {
		o.addAll(c.deep(a))
	}
	o["fresh"] = true
	return o
}

// absorbBySummary: for every "retain|dst|src" of the callee, the local at the root of what dst
// is at this call site takes in what src is here
func (c *fnCtx) absorbBySummary(call *ast.CallExpr, fn *types.Func, sum effSet, absorb func(ast.Expr, orig)) {
	sig := fn.Type().(*types.Signature)
	for k := range sum {
		if !strings.HasPrefix(k, "retain|") {
			continue
		}
		parts := strings.SplitN(k, "|", 3)
		src := c.mapSide(call, sig, parts[2])
		switch {
		case parts[1] == "recv":
			if rx := c.recvExprOf(call); rx != nil {
				absorb(rx, src)
			}
		case strings.HasPrefix(parts[1], "param:"):
			var i int
			fmt.Sscanf(parts[1], "param:%d", &i)
			if i < len(call.Args) {
				absorb(call.Args[i], src)
			}
		}
	}
}

// a method call on an addressable non-pointer value may hand out pointers into it
func (c *fnCtx) locOriginsIfAddr(e ast.Expr) orig {
	if t := c.typeOf(e); t != nil {
		if _, ok := t.Underlying().(*types.Pointer); ok {
			return orig{}
		}
	}
	o := c.locOrigins(e)
	delete(o, "fresh")
	return o
}

// what a function literal may alias through its free variables
func (c *fnCtx) captured(lit *ast.FuncLit) orig {
	o := orig{}
	ast.Inspect(lit.Body, func(n ast.Node) bool {
		if id, ok := n.(*ast.Ident); ok {
			if v, ok := c.a.info.Uses[id].(*types.Var); ok {
				if v == c.recv {
					o["recv"] = true
				} else if i, ok := c.params[v]; ok && isRef(v.Type()) {
					o[fmt.Sprintf("param:%d", i)] = true
				}
			}
		}
		return true
	})
	return o
}

// ---------------------------------------------------------------- summaries

func constKey(fn *types.Func, consts map[int]bool) string {
	k := fn.FullName()
	var is []int
	for i := range consts {
		is = append(is, i)
	}
	sort.Ints(is)
	for _, i := range is {
		k += fmt.Sprintf("|%d=%v", i, consts[i])
	}
	return k
}

// summary of an in-package function under known literal bool arguments
func (a *effAnalysis) summary(fn *types.Func, consts map[int]bool) effSet {
	key := constKey(fn, consts)
	if s, ok := a.memo[key]; ok {
		return s
	}
	if a.active[key] {
		// a cycle (e.g. get -> v.UnmarshalBinary -> every UnmarshalBinary of the package -> get):
		// the result of the previous round; the rounds are repeated until nothing changes
		if s, ok := a.prev[key]; ok {
			return s
		}
		return effSet{}
	}
	fd := a.decls[fn]
	if fd == nil || fd.Body == nil {
		return effSet{"other:no body for " + fn.FullName(): ""}
	}
	a.active[key] = true
	c := a.newCtx(fd, consts)
	c.run()
	delete(a.active, key)
	a.memo[key] = c.eff
	return c.eff
}

func (a *effAnalysis) newCtx(fd *ast.FuncDecl, consts map[int]bool) *fnCtx {
	c := &fnCtx{a: a, params: map[*types.Var]int{}, consts: map[*types.Var]bool{}, locals: map[*types.Var]orig{}, own: map[*types.Var]orig{},
		lits: map[*types.Var]*ast.FuncLit{}, eff: effSet{}, body: fd.Body, name: funcKey(fd)}
	if fd.Recv != nil && len(fd.Recv.List) == 1 && len(fd.Recv.List[0].Names) == 1 {
		if v, ok := a.info.Defs[fd.Recv.List[0].Names[0]].(*types.Var); ok {
			c.recv = v
		}
	}
	if fd.Type.Results != nil {
		for _, f := range fd.Type.Results.List {
			for _, n := range f.Names {
				if v, ok := a.info.Defs[n].(*types.Var); ok {
					c.results = append(c.results, v)
				}
			}
		}
	}
	i := 0
	for _, f := range fd.Type.Params.List {
		if len(f.Names) == 0 {
			i++
			continue
		}
		for _, n := range f.Names {
			if v, ok := a.info.Defs[n].(*types.Var); ok {
				c.params[v] = i
				if b, ok := consts[i]; ok {
					c.consts[v] = b
				}
			}
			i++
		}
	}
	c.assigned = map[*types.Var]bool{}
	if fd.Body != nil {
		mark := func(e ast.Expr) {
			if id, ok := e.(*ast.Ident); ok {
				if v, ok := a.info.ObjectOf(id).(*types.Var); ok {
					c.assigned[v] = true
				}
			}
		}
		ast.Inspect(fd.Body, func(n ast.Node) bool {
			switch x := n.(type) {
			case *ast.AssignStmt:
				for _, l := range x.Lhs {
					mark(l)
				}
			case *ast.UnaryExpr:
				if x.Op == token.AND {
					mark(x.X)
				}
			case *ast.RangeStmt:
				if x.Key != nil {
					mark(x.Key)
				}
				if x.Value != nil {
					mark(x.Value)
				}
			}
			return true
		})
	}
	return c
}

// evaluates a condition made of known bool parameters; ok=false if unknown
func (c *fnCtx) constCond(e ast.Expr) (val, ok bool) {
	switch x := e.(type) {
	case *ast.Ident:
		if v, isv := c.a.info.Uses[x].(*types.Var); isv {
			if b, known := c.consts[v]; known {
				return b, true
			}
		}
	case *ast.ParenExpr:
		return c.constCond(x.X)
	case *ast.UnaryExpr:
		if x.Op == token.NOT {
			if b, ok := c.constCond(x.X); ok {
				return !b, true
			}
		}
	case *ast.BinaryExpr:
		l, lok := c.constCond(x.X)
		r, rok := c.constCond(x.Y)
		switch x.Op {
		case token.LAND:
			if (lok && !l) || (rok && !r) {
				return false, true
			}
			if lok && rok {
				return true, true
			}
		case token.LOR:
			if (lok && l) || (rok && r) {
				return true, true
			}
			if lok && rok {
				return false, true
			}
		}
	}
	return false, false
}

// parameters that are reassigned somewhere lose their constant
func (c *fnCtx) dropAssignedConsts() {
	ast.Inspect(c.body, func(n ast.Node) bool {
		if as, ok := n.(*ast.AssignStmt); ok {
			for _, l := range as.Lhs {
				if id, ok := l.(*ast.Ident); ok {
					if v, ok := c.a.info.ObjectOf(id).(*types.Var); ok {
						delete(c.consts, v)
					}
				}
			}
		}
		if u, ok := n.(*ast.UnaryExpr); ok && u.Op == token.AND {
			if id, ok := u.X.(*ast.Ident); ok {
				if v, ok := c.a.info.ObjectOf(id).(*types.Var); ok {
					delete(c.consts, v)
				}
			}
		}
		return true
	})
}

// walk visits the statements that can execute under the known constants
func (c *fnCtx) walk(n ast.Node, f func(ast.Node)) {
	if n == nil {
		return
	}
	ast.Inspect(n, func(m ast.Node) bool {
		if m == nil {
			return false
		}
		if ifs, ok := m.(*ast.IfStmt); ok {
			if b, known := c.constCond(ifs.Cond); known && ifs.Init == nil {
				if b {
					c.walk(ifs.Body, f)
				} else if ifs.Else != nil {
					c.walk(ifs.Else, f)
				}
				return false
			}
		}
		f(m)
		return true
	})
}

func (c *fnCtx) run() {
	c.dropAssignedConsts()
	// 1. closures bound to local variables; origins of locals (fixpoint)
	c.walk(c.body, func(n ast.Node) {
		if as, ok := n.(*ast.AssignStmt); ok && len(as.Lhs) == len(as.Rhs) {
			for i, l := range as.Lhs {
				if id, ok := l.(*ast.Ident); ok {
					if lit, ok := as.Rhs[i].(*ast.FuncLit); ok {
						if v, ok := c.a.info.ObjectOf(id).(*types.Var); ok {
							if _, dup := c.lits[v]; dup {
								c.lits[v] = nil
							} else {
								c.lits[v] = lit
							}
						}
					}
				}
			}
		}
	})
	for v, l := range c.lits {
		if l == nil {
			delete(c.lits, v)
		}
	}
	for round := 0; round < 8; round++ {
		changed := false
		merge := func(m map[*types.Var]orig, v *types.Var, o orig) {
			cur := m[v]
			if cur == nil {
				cur = orig{}
				m[v] = cur
			}
			for k := range o {
				if !cur[k] {
					cur[k] = true
					changed = true
				}
			}
		}
		// deepO: everything reachable from the value bound; ownO: the memory it refers to itself
		bind := func(id *ast.Ident, deepO, ownO orig) {
			v, ok := c.a.info.ObjectOf(id).(*types.Var)
			if !ok || v == c.recv {
				return
			}
			if _, isParam := c.params[v]; isParam {
				return
			}
			if v.Pkg() != nil && v.Parent() == v.Pkg().Scope() {
				return
			}
			merge(c.locals, v, deepO)
			merge(c.own, v, ownO)
		}
		// the local variable at the root of x.f, x[i], *x, &x, (x), x[a:b]
		var rootLocal func(e ast.Expr) *ast.Ident
		rootLocal = func(e ast.Expr) *ast.Ident {
			switch x := e.(type) {
			case *ast.Ident:
				return x
			case *ast.SelectorExpr:
				if _, ok := c.a.info.Selections[x]; ok {
					return rootLocal(x.X)
				}
			case *ast.IndexExpr:
				return rootLocal(x.X)
			case *ast.SliceExpr:
				return rootLocal(x.X)
			case *ast.StarExpr:
				return rootLocal(x.X)
			case *ast.ParenExpr:
				return rootLocal(x.X)
			case *ast.UnaryExpr:
				if x.Op == token.AND {
					return rootLocal(x.X)
				}
			}
			return nil
		}
		// a value stored somewhere inside a local (an element, a field, through copy or a
		// call): from then on the local reaches what the value reaches
		absorb := func(dst ast.Expr, srcs ...ast.Expr) {
			id := rootLocal(dst)
			if id == nil || id.Name == "_" {
				return
			}
			for _, src := range srcs {
				if src != nil {
					bind(id, c.deep(src), orig{})
				}
			}
		}
		// two locals one of which was assigned from (part of) the other may refer to the same
		// object: what one comes to reach, the other reaches
		alias := func(id *ast.Ident, rhs ast.Expr) {
			r := rootLocal(rhs)
			if r == nil || id.Name == "_" {
				return
			}
			a, ok1 := c.a.info.ObjectOf(id).(*types.Var)
			b, ok2 := c.a.info.ObjectOf(r).(*types.Var)
			if !ok1 || !ok2 || a == b || !isRef(a.Type()) || !isRef(b.Type()) {
				return
			}
			for _, v := range []*types.Var{a, b} {
				if v == c.recv {
					return
				}
				if _, isParam := c.params[v]; isParam {
					return
				}
				if v.Pkg() != nil && v.Parent() == v.Pkg().Scope() {
					return
				}
			}
			merge(c.locals, a, c.locals[b])
			merge(c.locals, b, c.locals[a])
		}
		absorbOrig := func(dst ast.Expr, o orig) {
			if id := rootLocal(dst); id != nil && id.Name != "_" {
				bind(id, o, orig{})
			}
		}
		c.walk(c.body, func(n ast.Node) {
			switch s := n.(type) {
			case *ast.AssignStmt:
				if len(s.Lhs) == len(s.Rhs) {
					for i, l := range s.Lhs {
						if id, ok := l.(*ast.Ident); ok && id.Name != "_" {
							bind(id, c.deep(s.Rhs[i]), c.memOf(s.Rhs[i]))
							alias(id, s.Rhs[i])
						} else if !ok {
							absorb(l, s.Rhs[i])
						}
					}
				} else if len(s.Rhs) == 1 {
					o := c.deep(s.Rhs[0])
					for _, l := range s.Lhs {
						if id, ok := l.(*ast.Ident); ok && id.Name != "_" {
							if t := c.typeOf(id); t == nil || isRef(t) {
								bind(id, o, o)
								if ta, ok := s.Rhs[0].(*ast.TypeAssertExpr); ok {
									alias(id, ta.X) // x, ok := y.(T)
								}
							}
						}
					}
				}
			case *ast.ValueSpec:
				for i, id := range s.Names {
					if i < len(s.Values) {
						bind(id, c.deep(s.Values[i]), c.memOf(s.Values[i]))
					}
				}
			case *ast.RangeStmt:
				o := c.deep(s.X)
				for _, e := range []ast.Expr{s.Key, s.Value} {
					if id, ok := e.(*ast.Ident); ok && id.Name != "_" {
						if t := c.typeOf(id); t == nil || isRef(t) {
							bind(id, o, o)
						}
					}
				}
			case *ast.TypeSwitchStmt:
				if as, ok := s.Assign.(*ast.AssignStmt); ok && len(as.Rhs) == 1 {
					if ta, ok := as.Rhs[0].(*ast.TypeAssertExpr); ok {
						o, ow := c.deep(ta.X), c.memOf(ta.X)
						for _, cl := range s.Body.List {
							if obj, ok := c.a.info.Implicits[cl].(*types.Var); ok {
								merge(c.locals, obj, o)
								merge(c.own, obj, ow)
							}
						}
					}
				}
			case *ast.CallExpr:
				if c.builtinName(s) == "copy" && len(s.Args) == 2 {
					// copying bytes copies no references; copying elements that are references does
					if t := c.typeOf(s.Args[0]); t != nil {
						if sl, ok := t.Underlying().(*types.Slice); !ok || isRef(sl.Elem()) {
							absorb(s.Args[0], s.Args[1])
						}
					}
				}
				// an in-package callee: what its summary says it stores where
				if fn := c.staticCallee(s); fn != nil && fn.Pkg() == c.a.tp && c.a.decls[fn] != nil {
					c.absorbBySummary(s, fn, c.a.summary(fn, c.literalBools(s)), absorbOrig)
					return
				}
				if sel, ok := s.Fun.(*ast.SelectorExpr); ok {
					if sl, ok := c.a.info.Selections[sel]; ok && sl.Kind() == types.MethodVal {
						if _, isIface := sl.Recv().Underlying().(*types.Interface); isIface {
							if n, named := sl.Recv().(*types.Named); !named || n.Obj().Pkg() == c.a.tp {
								found := false
								for fn := range c.a.decls {
									if fn.Name() == sel.Sel.Name && fn.Type().(*types.Signature).Recv() != nil {
										found = true
										c.absorbBySummary(s, fn, c.a.summary(fn, nil), absorbOrig)
									}
								}
								if found {
									return
								}
							}
						}
					}
				}
				// a call may store any of its arguments in what its receiver or a pointer argument refers to
				if c.builtinName(s) == "" && !c.isConversion(s) {
					var all []ast.Expr
					all = append(all, s.Args...)
					if rx := c.recvExprOf(s); rx != nil {
						all = append(all, rx)
						absorb(rx, s.Args...)
					}
					for _, a := range s.Args {
						if u, ok := a.(*ast.UnaryExpr); ok && u.Op == token.AND {
							absorb(u.X, all...)
						}
					}
				}
				// parameters of a local closure take the origins of the arguments at its call sites
				if id, ok := s.Fun.(*ast.Ident); ok {
					if v, ok := c.a.info.Uses[id].(*types.Var); ok {
						if lit, ok := c.lits[v]; ok {
							k := 0
							for _, f := range lit.Type.Params.List {
								for _, nm := range f.Names {
									if k < len(s.Args) {
										bind(nm, c.deep(s.Args[k]), c.memOf(s.Args[k]))
									}
									k++
								}
							}
						}
					}
				}
			case *ast.FuncLit:
				// parameters of a closure that is not bound to a single local: unknown arguments
				bound := false
				for _, l := range c.lits {
					if l == s {
						bound = true
					}
				}
				if !bound {
					for _, f := range s.Type.Params.List {
						for _, nm := range f.Names {
							if t := c.typeOf(nm); t == nil || isRef(t) {
								bind(nm, orig{"unknown": true}, orig{"unknown": true})
							}
						}
					}
				}
			}
		})
		if !changed {
			break
		}
	}
	// 2. effects
	c.walk(c.body, func(n ast.Node) { c.stmt(n) })
}

func (c *fnCtx) stmt(n ast.Node) {
	switch s := n.(type) {
	case *ast.AssignStmt:
		for i, l := range s.Lhs {
			if id, ok := l.(*ast.Ident); ok && (id.Name == "_" || s.Tok == token.DEFINE) {
				continue
			}
			if root := c.ownField(l); root != "" {
				c.eff.add(ownKey(root), c.where(l)+" assignment")
			} else {
				c.write(c.locOrigins(l), "assignment", l)
			}
			if len(s.Lhs) == len(s.Rhs) {
				if t := c.typeOf(s.Rhs[i]); t == nil || isRef(t) {
					c.retain(c.locOrigins(l), c.deep(s.Rhs[i]), "assignment", l)
				}
			} else if len(s.Rhs) == 1 {
				c.retain(c.locOrigins(l), c.deep(s.Rhs[0]), "assignment", l)
			}
		}
	case *ast.ReturnStmt:
		if len(s.Results) == 0 {
			for i, v := range c.results { // a bare return hands back the named results
				for o := range c.locals[v] {
					if o != "fresh" && o != "unknown" {
						c.eff.add(fmt.Sprintf("result|%d|%s", i, o), c.where(s))
					}
				}
			}
		}
		for i, e := range s.Results {
			if t := c.typeOf(e); t == nil || isRef(t) {
				for o := range c.deep(e) {
					if o != "fresh" && o != "unknown" {
						c.eff.add(fmt.Sprintf("result|%d|%s", i, o), c.where(e))
					}
				}
			}
		}
	case *ast.IncDecStmt:
		if root := c.ownField(s.X); root != "" {
			c.eff.add(ownKey(root), c.where(s)+" inc/dec")
		} else {
			c.write(c.locOrigins(s.X), "inc/dec", s)
		}
	case *ast.RangeStmt:
		if s.Tok == token.ASSIGN {
			for _, e := range []ast.Expr{s.Key, s.Value} {
				if e != nil {
					c.write(c.locOrigins(e), "range assignment", e)
				}
			}
		}
	case *ast.GoStmt:
		c.eff.add("other:go statement", c.where(s))
	case *ast.SendStmt:
		c.eff.add("other:channel send", c.where(s))
	case *ast.SelectStmt:
		c.eff.add("other:select", c.where(s))
	case *ast.UnaryExpr:
		if s.Op == token.ARROW {
			c.eff.add("other:channel receive", c.where(s))
		}
	case *ast.CallExpr:
		c.call(s)
	}
}

func (c *fnCtx) call(call *ast.CallExpr) {
	if c.isConversion(call) {
		return
	}
	switch c.builtinName(call) {
	case "copy":
		c.write(c.memOf(call.Args[0]), "copy", call)
		if t := c.typeOf(call.Args[0]); t != nil {
			if sl, ok := t.Underlying().(*types.Slice); ok && isRef(sl.Elem()) {
				c.retain(c.memOf(call.Args[0]), c.deep(call.Args[1]), "copy of references", call)
			}
		}
		return
	case "delete", "clear":
		c.write(c.memOf(call.Args[0]), "delete/clear", call)
		return
	case "append":
		// may write into spare capacity of the first argument's array
		c.write(c.memOf(call.Args[0]), "append", call)
		return
	case "close":
		c.eff.add("other:close", c.where(call))
		return
	case "":
	default:
		return
	}
	if fn := c.staticCallee(call); fn != nil {
		if fn.Pkg() == c.a.tp {
			c.applySummary(call, fn)
			return
		}
		c.external(call)
		return
	}
	// dynamic: interface method or function value
	if sel, ok := call.Fun.(*ast.SelectorExpr); ok {
		if s, ok := c.a.info.Selections[sel]; ok && s.Kind() == types.MethodVal {
			c.ifaceCall(call, sel, s)
			return
		}
		if s, ok := c.a.info.Selections[sel]; ok && s.Kind() == types.FieldVal {
			c.funcValueCall(call, nil)
			return
		}
	}
	if id, ok := call.Fun.(*ast.Ident); ok {
		if v, ok := c.a.info.Uses[id].(*types.Var); ok {
			if _, ok := c.lits[v]; ok {
				return // a local closure: its body is analysed where it stands, its parameters are bound to the arguments
			}
			if pi, isParam := c.params[v]; isParam {
				// the function was handed in by the caller: resolved at the call site, which knows
				// the argument; recorded with where each reference argument comes from
				var parts []string
				for j, a := range call.Args {
					if t := c.typeOf(a); t == nil || isRef(t) {
						var os []string
						for o := range c.deep(a) {
							os = append(os, o)
						}
						sort.Strings(os)
						parts = append(parts, fmt.Sprintf("%d=%s", j, strings.Join(os, ",")))
					}
				}
				c.eff.add(fmt.Sprintf("callparam|%d|%s", pi, strings.Join(parts, ";")), c.where(call))
				return
			}
			c.funcValueCall(call, v)
			return
		}
	}
	if _, ok := call.Fun.(*ast.FuncLit); ok {
		return // immediately invoked: body analysed in place
	}
	c.funcValueCall(call, nil)
}

func (c *fnCtx) literalBools(call *ast.CallExpr) map[int]bool {
	m := map[int]bool{}
	for i, a := range call.Args {
		if id, ok := a.(*ast.Ident); ok {
			if cst, ok := c.a.info.Uses[id].(*types.Const); ok && cst.Pkg() == nil {
				if id.Name == "true" {
					m[i] = true
				} else if id.Name == "false" {
					m[i] = false
				}
			}
			if v, ok := c.a.info.Uses[id].(*types.Var); ok {
				if b, known := c.consts[v]; known {
					m[i] = b
				}
			}
		}
	}
	return m
}

func (c *fnCtx) applySummary(call *ast.CallExpr, fn *types.Func) {
	s := c.a.summary(fn, c.literalBools(call))
	c.mapEffects(call, fn, s)
}

func (c *fnCtx) recvExprOf(call *ast.CallExpr) ast.Expr {
	if sel, ok := call.Fun.(*ast.SelectorExpr); ok {
		if _, ok := c.a.info.Selections[sel]; ok {
			return sel.X
		}
	}
	return nil
}

// mapSide: what "recv", "param:i" or "global:x" of a callee's summary is at this call site
func (c *fnCtx) mapSide(call *ast.CallExpr, sig *types.Signature, x string) orig {
	o := orig{}
	switch {
	case x == "recv":
		if rx := c.recvExprOf(call); rx != nil {
			o.addAll(c.deep(rx))
			o.addAll(c.locOriginsIfAddr(rx))
		}
	case strings.HasPrefix(x, "param:"):
		var i int
		fmt.Sscanf(x, "param:%d", &i)
		if sig.Variadic() && i >= sig.Params().Len()-1 {
			for _, a := range call.Args[min(i, len(call.Args)):] {
				o.addAll(c.deep(a))
			}
		} else if i < len(call.Args) {
			o.addAll(c.deep(call.Args[i]))
		}
	default:
		o[x] = true
	}
	return o
}

func (c *fnCtx) mapEffects(call *ast.CallExpr, fn *types.Func, s effSet) {
	sig := fn.Type().(*types.Signature)
	for k, w := range s {
		what := "via " + fn.Name() + " (" + w + ")"
		switch {
		case k == "recvown":
			// the callee writes fields of its receiver object itself, not what that object reaches
			rx := c.recvExprOf(call)
			if rx == nil {
				c.eff.add("other:receiver effect without receiver", c.where(call))
				continue
			}
			if c.promoted(call) {
				// the method is promoted through an embedded field: its receiver is some part of
				// rx, possibly behind an embedded pointer - anything rx reaches
				o := c.deep(rx)
				o.addAll(c.locOriginsIfAddr(rx))
				c.write(o, what, call)
				continue
			}
			if root := c.ownRoot(rx); root != "" {
				c.eff.add(ownKey(root), c.where(call)+" "+what)
				continue
			}
			o := orig{}
			_, ptrRecv := sig.Recv().Type().(*types.Pointer)
			_, exprIsPtr := c.typeOf(rx).Underlying().(*types.Pointer)
			_, exprIsIface := c.typeOf(rx).Underlying().(*types.Interface)
			if ptrRecv && !exprIsPtr && !exprIsIface {
				o.addAll(c.locOrigins(rx)) // &rx taken implicitly
			} else {
				o.addAll(c.memOf(rx)) // the object the pointer or the interface value refers to
			}
			c.write(o, what, call)
		case k == "recv":
			rx := c.recvExprOf(call)
			if rx == nil {
				c.eff.add("other:receiver effect without receiver", c.where(call))
				continue
			}
			o := orig{}
			_, ptrRecv := sig.Recv().Type().(*types.Pointer)
			_, exprIsPtr := c.typeOf(rx).Underlying().(*types.Pointer)
			if ptrRecv && !exprIsPtr {
				o.addAll(c.locOrigins(rx)) // &rx taken implicitly
				if id, ok := rx.(*ast.Ident); ok {
					// the variable's own cell: shared if it is the receiver/a parameter passed by pointer - it is not; private
					_ = id
				}
			}
			o.addAll(c.origins(rx))
			c.write(o, what, call)
		case strings.HasPrefix(k, "paramown:"):
			// the callee writes fields of the object its pointer parameter points to, not what
			// that object reaches
			var i int
			fmt.Sscanf(k, "paramown:%d", &i)
			if sig.Variadic() && i >= sig.Params().Len()-1 {
				for _, a := range call.Args[min(i, len(call.Args)):] {
					c.write(c.origins(a), what, call)
				}
			} else if i < len(call.Args) {
				if root := c.ownRoot(call.Args[i]); root != "" {
					c.eff.add(ownKey(root), c.where(call)+" "+what)
				} else {
					c.write(c.memOf(call.Args[i]), what, call)
				}
			}
		case strings.HasPrefix(k, "param:"):
			var i int
			fmt.Sscanf(k, "param:%d", &i)
			if sig.Variadic() && i >= sig.Params().Len()-1 {
				for _, a := range call.Args[min(i, len(call.Args)):] {
					c.write(c.origins(a), what, call)
				}
			} else if i < len(call.Args) {
				c.write(c.origins(call.Args[i]), what, call)
			}
		case strings.HasPrefix(k, "callparam|"):
			parts := strings.SplitN(k, "|", 3)
			var pi int
			fmt.Sscanf(parts[1], "%d", &pi)
			resolved := false
			if pi < len(call.Args) {
				// a method value x.m of an in-package method, or an in-package function
				var target *types.Func
				var recvExpr ast.Expr
				switch a := call.Args[pi].(type) {
				case *ast.SelectorExpr:
					if sl, ok := c.a.info.Selections[a]; ok && sl.Kind() == types.MethodVal {
						if fn, ok := sl.Obj().(*types.Func); ok && fn.Pkg() == c.a.tp && c.a.decls[fn] != nil {
							if _, isIface := sl.Recv().Underlying().(*types.Interface); !isIface {
								target, recvExpr = fn, a.X
							}
						}
					}
				case *ast.Ident:
					if fn, ok := c.a.info.Uses[a].(*types.Func); ok && fn.Pkg() == c.a.tp && c.a.decls[fn] != nil {
						target = fn
					}
				}
				if target != nil {
					resolved = true
					argOrig := map[int]orig{}
					for _, item := range strings.Split(parts[2], ";") {
						var j int
						var list string
						if n, _ := fmt.Sscanf(item, "%d=%s", &j, &list); n >= 1 {
							o := orig{}
							for _, x := range strings.Split(list, ",") {
								if x == "" {
									continue
								}
								if x == "fresh" || x == "unknown" {
									o[x] = true
								} else {
									o.addAll(c.mapSide(call, sig, x))
								}
							}
							argOrig[j] = o
						}
					}
					for ek, ew := range c.a.summary(target, nil) {
						w2 := "via " + target.Name() + " handed to " + fn.Name() + " (" + ew + ")"
						if strings.HasPrefix(ek, "paramown:") {
							ek = "param:" + strings.TrimPrefix(ek, "paramown:") // over-approximated
						}
						switch {
						case ek == "recv" || ek == "recvown":
							if recvExpr != nil {
								o := c.deep(recvExpr)
								o.addAll(c.locOriginsIfAddr(recvExpr))
								c.write(o, w2, call)
							}
						case strings.HasPrefix(ek, "param:"):
							var j int
							fmt.Sscanf(ek, "param:%d", &j)
							if o, ok := argOrig[j]; ok {
								c.write(o, w2, call)
							}
						case strings.HasPrefix(ek, "retain|"), strings.HasPrefix(ek, "result|"), strings.HasPrefix(ek, "callparam|"):
							if strings.HasPrefix(ek, "callparam|") {
								c.eff.add("other:call of an unknown function value", c.where(call)+" "+w2)
							}
						default:
							c.eff.add(ek, c.where(call)+" "+w2)
						}
					}
				}
			}
			if !resolved {
				c.eff.add("other:call of an unknown function value", c.where(call)+" "+what)
			}
		case strings.HasPrefix(k, "result|"):
			// what a call returns is over-approximated at the call site (callOrigins)
		case strings.HasPrefix(k, "retain|"):
			parts := strings.SplitN(k, "|", 3)
			side := func(x string) orig { return c.mapSide(call, sig, x) }
			c.retain(side(parts[1]), side(parts[2]), what, call)
		default:
			c.eff.add(k, c.where(call)+" "+what)
		}
	}
}

func (c *fnCtx) external(call *ast.CallExpr) {
	name := c.externalName(call)
	if pureExternal[name] {
		return
	}
	if ws, ok := writingExternal[name]; ok {
		for _, i := range ws {
			// a library function with a known contract writes the memory its receiver or
			// argument itself refers to (the builder's buffer, the slice's array), not what
			// the elements stored there point to
			if i == -1 {
				if rx := c.recvExprOf(call); rx != nil {
					o := c.locOrigins(rx)
					o.addAll(c.memOf(rx))
					c.write(o, "external "+name, call)
				}
			} else if i < len(call.Args) {
				c.write(c.memOf(call.Args[i]), "external "+name, call)
			}
		}
		return
	}
	c.eff.add("other:external call "+name+" ["+c.externalPkg(call)+"]", c.where(call))
}

// the package an external callee belongs to
func (c *fnCtx) externalPkg(call *ast.CallExpr) string {
	if fn := c.staticCallee(call); fn != nil && fn.Pkg() != nil {
		return fn.Pkg().Path()
	}
	if sel, ok := call.Fun.(*ast.SelectorExpr); ok {
		if s, ok := c.a.info.Selections[sel]; ok {
			if fn, ok := s.Obj().(*types.Func); ok && fn.Pkg() != nil {
				return fn.Pkg().Path()
			}
		}
	}
	return "?"
}

// packages whose functions keep or consult state that outlives a call
var statefulPkgs = map[string]bool{"sync": true, "sync/atomic": true, "time": true, "math/rand": true, "math/rand/v2": true,
	"crypto/rand": true, "os": true, "runtime": true, "unsafe": true, "context": true, "net": true, "syscall": true,
	"runtime/debug": true, "log": true, "os/signal": true, "?": true}

func (c *fnCtx) ifaceCall(call *ast.CallExpr, sel *ast.SelectorExpr, s *types.Selection) {
	mname := sel.Sel.Name
	// external interface with a known contract
	if n, ok := s.Recv().(*types.Named); ok && n.Obj().Pkg() != c.a.tp {
		key := n.Obj().Name() + "." + mname
		if ws, ok := writingExternal[key]; ok {
			for _, i := range ws {
				if i == -1 {
					c.write(c.memOf(sel.X), "external "+key, call)
				} else if i < len(call.Args) {
					c.write(c.memOf(call.Args[i]), "external "+key, call)
				}
			}
			return
		}
		pk := "?"
		if n.Obj().Pkg() != nil {
			pk = n.Obj().Pkg().Path()
		}
		c.eff.add("other:external interface call "+key+" ["+pk+"]", c.where(call))
		return
	}
	// in-package interface (named or anonymous): every method of that name in the package
	found := false
	for fn := range c.a.decls {
		if fn.Name() != mname {
			continue
		}
		sig := fn.Type().(*types.Signature)
		if sig.Recv() == nil {
			continue
		}
		found = true
		sum := c.a.summary(fn, nil)
		c.mapEffects(call, fn, sum)
	}
	if !found {
		c.eff.add("other:interface call without implementation "+mname, c.where(call))
	}
}

// a call of a function value that is not a local closure: if the value comes out of
// a call to an in-package function (a map of closures returned by propertyMap), the
// candidates are the function literals of that function under the constants of that
// call; otherwise every literal and method of the package with the same signature.
func (c *fnCtx) funcValueCall(call *ast.CallExpr, v *types.Var) {
	var src *ast.CallExpr
	if v != nil {
		src = c.sourceCall(v)
	} else if inner, ok := call.Fun.(*ast.CallExpr); ok {
		_ = inner
	}
	sigT, _ := c.typeOf(call.Fun).(*types.Signature)
	if src != nil {
		if fn := c.staticCallee(src); fn != nil && fn.Pkg() == c.a.tp {
			fd := c.a.decls[fn]
			consts := c.literalBools(src)
			cc := c.a.newCtx(fd, consts)
			cc.dropAssignedConsts()
			matched := false
			for _, li := range c.a.allLits {
				if li.owner != fd {
					continue
				}
				if lt, ok := c.a.info.Types[li.lit].Type.(*types.Signature); ok && sigT != nil && types.Identical(lt, sigT) {
					matched = true
					sub := c.a.litSummary(li, consts)
					// the literal's receiver effects are effects on the receiver of the source call
					for k, w := range sub {
						if k == "recv" || k == "recvown" {
							if rx := c.recvExprOf(src); rx != nil {
								o := c.origins(rx)
								c.write(o, "via closure of "+fn.Name()+" ("+w+")", call)
							}
						} else if strings.HasPrefix(k, "param:") || strings.HasPrefix(k, "paramown:") {
							c.eff.add("other:closure writes a parameter of "+fn.Name(), c.where(call))
						} else {
							c.eff.add(k, c.where(call)+" via closure of "+fn.Name())
						}
					}
				}
			}
			if matched {
				return
			}
		}
	}
	// unknown function value
	c.eff.add("other:call of an unknown function value", c.where(call))
}

// the single call expression a local was ranged/indexed/assigned from, if any
func (c *fnCtx) sourceCall(v *types.Var) *ast.CallExpr {
	var found *ast.CallExpr
	n := 0
	root := func(e ast.Expr) *ast.CallExpr {
		for {
			switch x := e.(type) {
			case *ast.CallExpr:
				return x
			case *ast.IndexExpr:
				e = x.X
			case *ast.ParenExpr:
				e = x.X
			default:
				return nil
			}
		}
	}
	c.walk(c.body, func(m ast.Node) {
		switch s := m.(type) {
		case *ast.RangeStmt:
			for _, e := range []ast.Expr{s.Key, s.Value} {
				if id, ok := e.(*ast.Ident); ok && c.a.info.ObjectOf(id) == v {
					n++
					found = root(s.X)
				}
			}
		case *ast.AssignStmt:
			for i, l := range s.Lhs {
				if id, ok := l.(*ast.Ident); ok && c.a.info.ObjectOf(id) == v {
					n++
					if len(s.Lhs) == len(s.Rhs) {
						found = root(s.Rhs[i])
					} else {
						found = nil
					}
				}
			}
		}
	})
	if n == 1 {
		return found
	}
	return nil
}

// effects of a function literal analysed in the context of its owner
func (a *effAnalysis) litSummary(li *litInfo, consts map[int]bool) effSet {
	c := a.newCtx(li.owner, consts)
	c.dropAssignedConsts()
	// locals of the owner are needed for aliasing inside the literal
	full := a.newCtx(li.owner, consts)
	full.run()
	c.locals = full.locals
	c.own = full.own
	c.lits = full.lits
	c.body = li.lit.Body
	c.walk(li.lit.Body, func(n ast.Node) { c.stmt(n) })
	return c.eff
}

// ---------------------------------------------------------------- driver

func isMutatorName(m string) bool {
	for _, p := range []string{"Set", "Add", "Unmarshal", "Read"} {
		if strings.HasPrefix(m, p) {
			return true
		}
	}
	return false
}

func genEffects(p *pkg, out string) {
	info, tp := p.typecheckFull()
	a := &effAnalysis{p: p, info: info, tp: tp, decls: map[*types.Func]*ast.FuncDecl{}, memo: map[string]effSet{}, active: map[string]bool{}}
	a.findNilGlobals()
	var keys []string
	for k := range p.funcs {
		keys = append(keys, k)
	}
	sort.Strings(keys)
	for _, k := range keys {
		fd := p.funcs[k]
		if fn, ok := info.Defs[fd.Name].(*types.Func); ok {
			a.decls[fn] = fd
		}
		fd2 := fd
		ast.Inspect(fd, func(n ast.Node) bool {
			if l, ok := n.(*ast.FuncLit); ok {
				a.allLits = append(a.allLits, &litInfo{lit: l, owner: fd2})
			}
			return true
		})
	}
	// summaries of all functions, repeated until a round changes nothing (cycles take the
	// previous round's result)
	a.prev = map[string]effSet{}
	for round := 0; round < 8; round++ {
		a.memo = map[string]effSet{}
		for _, k := range keys {
			if fn, ok := info.Defs[p.funcs[k].Name].(*types.Func); ok {
				a.summary(fn, nil)
			}
		}
		same := len(a.memo) == len(a.prev)
		if same {
			for k, s := range a.memo {
				ps := a.prev[k]
				if len(ps) != len(s) {
					same = false
					break
				}
				for e := range s {
					if _, ok := ps[e]; !ok {
						same = false
					}
				}
			}
		}
		a.prev = a.memo
		if same {
			break
		}
	}
	type finding struct{ method, effect, where string }
	var findings []finding
	var methods []string
	for _, k := range keys {
		fd := p.funcs[k]
		fn, ok := info.Defs[fd.Name].(*types.Func)
		if !ok {
			continue
		}
		name := fd.Name.Name
		target := false
		if fd.Recv != nil {
			switch {
			case name == "dump" || name == "width" || name == "fill" || name == "Error":
				target = true
			case ast.IsExported(name) && !isMutatorName(name):
				target = true
			}
		} else if name == "Dump" {
			target = true
		}
		if !target {
			continue
		}
		methods = append(methods, k)
		s := a.summary(fn, nil)
		var eks []string
		for e := range s {
			eks = append(eks, e)
		}
		sort.Strings(eks)
		for _, e := range eks {
			if strings.HasPrefix(e, "retain|") || strings.HasPrefix(e, "result|") {
				continue // aliasing facts, used for the decoders below; every store is also a write effect
			}
			if strings.HasPrefix(e, "callparam|") {
				e2 := "other:call of an unknown function value" // a read-only method that calls a function its caller chose
				findings = append(findings, finding{k, e2, s[e]})
				continue
			}
			if strings.HasPrefix(e, "param:") || strings.HasPrefix(e, "paramown:") {
				// the caller's own writer / buffer: WriteTo(w), dump(w), Dump(w, p), fill(b, i)
				if name == "WriteTo" || name == "dump" || name == "Dump" || name == "fill" {
					continue
				}
			}
			findings = append(findings, finding{k, e, s[e]})
		}
	}
	// every function of the package: state that outlives a call (package-level variables,
	// pools, caches, goroutines, channels) and calls the analysis cannot resolve
	var globals []finding
	for _, k := range keys {
		fd := p.funcs[k]
		fn, ok := info.Defs[fd.Name].(*types.Func)
		if !ok {
			continue
		}
		s := a.summary(fn, nil)
		var eks []string
		for e := range s {
			eks = append(eks, e)
		}
		sort.Strings(eks)
		for _, e := range eks {
			// every function body is scanned here in its own right, so what an unresolved
			// call may do is reported at the function that does it; aliasing the analysis
			// cannot follow is not state
			if e == "other:call of an unknown function value" || e == "other:write through unknown alias" ||
				strings.HasPrefix(e, "other:interface call without implementation") || strings.HasPrefix(e, "other:closure writes a parameter") {
				continue
			}
			// a call into a library package that keeps no state between calls (bufio, io, bytes,
			// strings, encoding/binary, sort, ...) is not state either; for the read-only API such
			// a call stays an effect above, because it may write through its arguments
			if strings.HasPrefix(e, "other:external") {
				if i := strings.LastIndexByte(e, '['); i >= 0 && !statefulPkgs[strings.TrimSuffix(e[i+1:], "]")] {
					continue
				}
			}
			if strings.HasPrefix(e, "global:") || strings.HasPrefix(e, "other:") {
				globals = append(globals, finding{k, e, s[e]})
			}
		}
	}
	// the decoders: UnmarshalBinary of any type must not leave the receiver holding a reference
	// into its data argument; ReadPacket / ReadRemaining must not return a packet that reaches
	// into the reader
	var retains []finding
	var decoders []string
	for _, k := range keys {
		fd := p.funcs[k]
		fn, ok := info.Defs[fd.Name].(*types.Func)
		if !ok {
			continue
		}
		name := fd.Name.Name
		isDec := name == "UnmarshalBinary" && fd.Recv != nil
		isRead := k == "ReadPacket" || k == "fixedHeader.ReadRemaining"
		if !isDec && !isRead {
			continue
		}
		decoders = append(decoders, k)
		s := a.summary(fn, nil)
		var eks []string
		for e := range s {
			eks = append(eks, e)
		}
		sort.Strings(eks)
		for _, e := range eks {
			switch {
			case isDec && strings.HasPrefix(e, "retain|recv|param:"):
				retains = append(retains, finding{k, e, s[e]})
			case isDec && e == "param:0":
				// the decoder writes into the bytes it was given (an append into the spare
				// capacity of the caller's read buffer included)
				retains = append(retains, finding{k, "writes " + e, s[e]})
			case isRead && strings.HasPrefix(e, "result|0|param:"):
				retains = append(retains, finding{k, e, s[e]})
			}
		}
	}
	var b strings.Builder
	b.WriteString("(* generated by tools/gosync (effects.go) - do not edit *)\nFrom Coq Require Import List String.\nImport ListNotations.\nOpen Scope string_scope.\n\n")
	b.WriteString("(* memory not allocated by the call itself that a method of the read-only API may write,\n   over every path, in-package call, closure and interface dispatch: (method, what, where) *)\n")
	b.WriteString("Definition g_readonly_effects : list (string * string * string) :=\n  [")
	for i, f := range findings {
		if i > 0 {
			b.WriteString(";\n   ")
		}
		fmt.Fprintf(&b, "(%q, %q, %q)", f.method, f.effect, f.where)
	}
	b.WriteString("].\n\n(* any function of the package: writes to package-level variables, goroutines, channel\n   operations, calls that cannot be resolved: (function, what, where) *)\nDefinition g_global_effects : list (string * string * string) :=\n  [")
	for i, f := range globals {
		if i > 0 {
			b.WriteString(";\n   ")
		}
		fmt.Fprintf(&b, "(%q, %q, %q)", f.method, f.effect, f.where)
	}
	b.WriteString("].\n\n(* the decoders: a receiver left holding a reference into the data argument, a write into the\n   data argument (its spare capacity included), a returned packet that reaches into the reader\n   or a package-level variable: (function, what, where) *)\nDefinition g_decoder_retains : list (string * string * string) :=\n  [")
	for i, f := range retains {
		if i > 0 {
			b.WriteString(";\n   ")
		}
		fmt.Fprintf(&b, "(%q, %q, %q)", f.method, f.effect, f.where)
	}
	b.WriteString("].\nDefinition g_decoders : list string :=\n  [")
	for i, d := range decoders {
		if i > 0 {
			b.WriteString("; ")
		}
		fmt.Fprintf(&b, "%q", d)
	}
	b.WriteString("].\n\n(* the methods analysed *)\nDefinition g_readonly_methods : list string :=\n  [")
	for i, m := range methods {
		if i > 0 {
			b.WriteString("; ")
		}
		if i%6 == 5 {
			b.WriteString("\n   ")
		}
		fmt.Fprintf(&b, "%q", m)
	}
	b.WriteString("].\n")
	os.WriteFile(filepath.Join(out, "GenEffects.v"), []byte(b.String()), 0o644)
	sync := "(* generated by tools/gosync (effects.go) - do not edit *)\nFrom MQ Require Import Model.ReadOnlyApi gen.GenEffects.\nFrom Coq Require Import List String.\nImport ListNotations.\n\n" +
		"(* no method of the read-only API may write memory it did not allocate itself *)\n" +
		"Lemma sync_readonly_effects : g_readonly_effects = [].\nProof. reflexivity. Qed.\n\n" +
		"(* no function of the package keeps state between calls in package-level variables *)\n" +
		"Lemma sync_no_global_state : g_global_effects = [].\nProof. reflexivity. Qed.\n\n" +
		"(* no decoder leaves the packet holding a reference into the bytes it was given, or writes them *)\n" +
		"Lemma sync_decoders_copy : g_decoder_retains = [].\nProof. reflexivity. Qed.\n\n" +
		"Lemma sync_decoders_covered : List.length g_decoders = 27%nat.\nProof. reflexivity. Qed.\n\n" +
		"(* and the analysis covered the API the model calls read-only *)\n" +
		"Lemma sync_readonly_methods :\n  forallb (fun m => existsb (String.eqb m) g_readonly_methods) readonly_api = true.\nProof. vm_compute. reflexivity. Qed.\n"
	os.WriteFile(filepath.Join(out, "SyncEffects.v"), []byte(sync), 0o644)
}
