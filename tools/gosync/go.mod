module gosync

go 1.21
