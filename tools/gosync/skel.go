package main

// Translation of the per-packet encoders and decoders into the IR of
// coq/Model/Codec.v. Every statement must match one of the idioms below;
// anything else is rendered as an "unknown" instruction, which no
// hand-written skeleton contains, so that the sync lemma fails.

import (
	"fmt"
	"go/ast"
	"go/token"
	"os"
	"path/filepath"
	"strings"
)

type tinfo struct {
	goName string
	kind   string // model kind
	encRef string // hand-written skeleton to compare with
	decRef string
}

var ptypes = []tinfo{
	{"Connect", "KConnect", "enc_connect", "dec_connect"},
	{"ConnAck", "KConnAck", "enc_connack", "dec_connack"},
	{"Publish", "KPublish", "enc_publish", "dec_publish"},
	{"PubAck", "KPubAck", "enc_ack", "dec_ack"},
	{"PubRec", "KPubRec", "enc_ack", "dec_ack"},
	{"PubRel", "KPubRel", "enc_ack", "dec_ack"},
	{"PubComp", "KPubComp", "enc_ack", "dec_ack"},
	{"Subscribe", "KSubscribe", "enc_subscribe", "dec_subscribe"},
	{"SubAck", "KSubAck", "enc_suback", "dec_suback"},
	{"Unsubscribe", "KUnsubscribe", "enc_unsubscribe", "dec_unsubscribe"},
	{"UnsubAck", "KUnsubAck", "enc_suback", "dec_suback"},
	{"PingReq", "KPingReq", "enc_ping", "dec_ping"},
	{"PingResp", "KPingResp", "enc_ping", "dec_ping"},
	{"Disconnect", "KDisconnect", "enc_disconnect", "dec_disconnect"},
	{"Auth", "KAuth", "enc_auth", "dec_auth"},
}

// Go field name -> model field
func fldName(f string) string {
	if f == "reason" {
		return "F_reasonString"
	}
	return "F_" + f
}

var wtOfType = map[string]string{
	"bits": "U8", "wuint8": "U8", "wuint16": "U16", "wuint32": "U32", "wbool": "WBool",
	"wstring": "Bin", "bindata": "Bin", "rawdata": "Raw", "vbint": "Vb",
}

type tr struct {
	p      *pkg
	T      string            // current Go type
	fields map[string]map[string]string // type -> field -> Go type name
	unknown int
}

func (t *tr) structFields() {
	t.fields = map[string]map[string]string{}
	for _, f := range t.p.files {
		for _, d := range f.Decls {
			gd, ok := d.(*ast.GenDecl)
			if !ok || gd.Tok != token.TYPE {
				continue
			}
			for _, s := range gd.Specs {
				ts := s.(*ast.TypeSpec)
				st, ok := ts.Type.(*ast.StructType)
				if !ok {
					continue
				}
				m := map[string]string{}
				for _, fl := range st.Fields.List {
					tn := t.p.src(fl.Type)
					for _, n := range fl.Names {
						m[n.Name] = tn
					}
				}
				t.fields[ts.Name.Name] = m
			}
		}
	}
}

func (t *tr) unk(kind string, n ast.Node) string {
	t.unknown++
	src := strings.Join(strings.Fields(t.p.src(n)), " ")
	src = strings.ReplaceAll(src, "*)", "* )")
	src = strings.ReplaceAll(src, "(*", "( *")
	if kind == "enc" {
		return fmt.Sprintf("EVbConst 4242424242 (* UNKNOWN: %s *)", src)
	}
	return fmt.Sprintf("DGet (M F_data) U32 (* UNKNOWN: %s *)", src)
}

// fref of an expression p.F or p.will.F; ok=false otherwise
func (t *tr) fref(e ast.Expr) (ref string, wt string, ok bool) {
	sel, isSel := e.(*ast.SelectorExpr)
	if !isSel {
		return "", "", false
	}
	if id, ok2 := sel.X.(*ast.Ident); ok2 && id.Name == "p" {
		ty, has := t.fields[t.T][sel.Sel.Name]
		if !has {
			return "", "", false
		}
		w, okw := wtOfType[ty]
		if !okw {
			return "", "", false
		}
		return "M " + fldName(sel.Sel.Name), w, true
	}
	if in, ok2 := sel.X.(*ast.SelectorExpr); ok2 {
		if id, ok3 := in.X.(*ast.Ident); ok3 && id.Name == "p" && in.Sel.Name == "will" {
			ty, has := t.fields["Publish"][sel.Sel.Name]
			if !has {
				return "", "", false
			}
			w, okw := wtOfType[ty]
			if !okw {
				return "", "", false
			}
			return "W " + fldName(sel.Sel.Name), w, true
		}
	}
	return "", "", false
}

func isIdent(e ast.Expr, name string) bool {
	id, ok := e.(*ast.Ident)
	return ok && id.Name == name
}

// call of the form X.M(args) -> (X, M, args)
func methodCall(e ast.Expr) (recv ast.Expr, name string, args []ast.Expr, ok bool) {
	c, isCall := e.(*ast.CallExpr)
	if !isCall {
		return nil, "", nil, false
	}
	sel, isSel := c.Fun.(*ast.SelectorExpr)
	if !isSel {
		return nil, "", nil, false
	}
	return sel.X, sel.Sel.Name, c.Args, true
}

func isBI(args []ast.Expr) bool { // (b, i)
	return len(args) == 2 && isIdent(args[0], "b") && isIdent(args[1], "i")
}
func isLen0(args []ast.Expr) bool { // (_LEN, 0)
	if len(args) != 2 || !isIdent(args[0], "_LEN") {
		return false
	}
	bl, ok := args[1].(*ast.BasicLit)
	return ok && bl.Value == "0"
}

func list(items []string) string { return "[" + strings.Join(items, ";\n   ") + "]" }

// ---------------------------------------------------------------- encoders

type encCtx struct {
	locals   map[string]ast.Expr       // n := <expr> definitions
	closures map[string]*ast.FuncLit
	plusEq   map[string][]ast.Stmt     // if-statements that add to a local
}

// dryRun translates an expression that computes a dry-run width:
// p.X(_LEN, 0), p.X(_LEN,0) + p.Y(_LEN,0), a local defined so, closure(_LEN,0)
func (t *tr) dryRun(e ast.Expr, cx *encCtx) ([]string, bool) {
	switch v := e.(type) {
	case *ast.ParenExpr:
		return t.dryRun(v.X, cx)
	case *ast.BinaryExpr:
		if v.Op == token.ADD {
			a, ok1 := t.dryRun(v.X, cx)
			b, ok2 := t.dryRun(v.Y, cx)
			return append(a, b...), ok1 && ok2
		}
	case *ast.CallExpr:
		if id, ok := v.Fun.(*ast.Ident); ok {
			if id.Name == "vbint" && len(v.Args) == 1 {
				return t.dryRun(v.Args[0], cx)
			}
			if fl, ok := cx.closures[id.Name]; ok && isLen0(v.Args) {
				return t.encBody(fl.Body.List, cx), true
			}
		}
		if recv, name, args, ok := methodCall(v); ok && isLen0(args) {
			if isIdent(recv, "p") {
				if fd, ok := t.p.funcs[t.T+"."+name]; ok {
					return t.encFunc(fd), true
				}
				if name == "properties" { // promoted from the embedded UserProperties
					return []string{"EUserProps false"}, true
				}
			}
			// p.payload.fill(_LEN, 0)
			if name == "fill" {
				if r, w, ok := t.fref(recv); ok {
					return []string{fmt.Sprintf("EFill (%s) %s", r, w)}, true
				}
			}
		}
	case *ast.Ident:
		if def, ok := cx.locals[v.Name]; ok {
			base, ok1 := t.dryRun(def, cx)
			for _, s := range cx.plusEq[v.Name] {
				base = append(base, t.encStmt(s, cx)...)
			}
			return base, ok1
		}
	}
	return nil, false
}

func (t *tr) cond(e ast.Expr) (string, bool) {
	switch v := e.(type) {
	case *ast.CallExpr:
		// p.flags.Has(X) / bits(p.flags).Has(X)
		if recv, name, args, ok := methodCall(v); ok && name == "Has" && len(args) == 1 {
			if c, ok := recv.(*ast.CallExpr); ok && len(c.Args) == 1 && isIdent(c.Fun, "bits") {
				recv = c.Args[0]
			}
			if r, _, ok := t.fref(recv); ok {
				if id, ok := args[0].(*ast.Ident); ok {
					return fmt.Sprintf("CHas (%s) %s", r, id.Name), true
				}
			}
		}
	case *ast.BinaryExpr:
		src := strings.Join(strings.Fields(t.p.src(v)), "")
		switch src {
		case "len(p.payload)>0":
			return "CNonEmpty (M F_payload)", true
		case "v==1||v==2":
			return "CQoS12", true
		case "len(data)>2":
			return "CDataLenGt 2", true
		case "len(data)>buf.i":
			return "CMoreData", true
		}
	}
	return "", false
}

func (t *tr) encExpr(e ast.Expr, cx *encCtx) (string, []string, bool) {
	// returns either a single instruction or an inlined list
	if recv, name, args, ok := methodCall(e); ok {
		switch {
		case name == "fill" && isBI(args):
			if r, w, ok := t.fref(recv); ok {
				return fmt.Sprintf("EFill (%s) %s", r, w), nil, true
			}
			// vbint(<dry run>).fill(b, i) / vbint(0).fill(b, i)
			if c, ok := recv.(*ast.CallExpr); ok && isIdent(c.Fun, "vbint") && len(c.Args) == 1 {
				if bl, ok := c.Args[0].(*ast.BasicLit); ok {
					return "EVbConst " + bl.Value, nil, true
				}
				if sub, ok := t.dryRun(c.Args[0], cx); ok {
					return "EVbLen " + list(sub), nil, true
				}
			}
			// local := vbint(...); local.fill(b, i)
			if id, ok := recv.(*ast.Ident); ok {
				if sub, ok := t.dryRun(id, cx); ok {
					return "EVbLen " + list(sub), nil, true
				}
			}
		case name == "fillProp" && len(args) == 3 && isIdent(args[0], "b") && isIdent(args[1], "i"):
			if r, w, ok := t.fref(recv); ok {
				if id, ok := args[2].(*ast.Ident); ok {
					return fmt.Sprintf("EFillProp (%s) %s %s", r, w, id.Name), nil, true
				}
			}
		case name == "fillOpt" && isBI(args):
			if r, _, ok := t.fref(recv); ok {
				return fmt.Sprintf("EFillOpt (%s)", r), nil, true
			}
		case name == "properties" && isBI(args):
			src := strings.Join(strings.Fields(t.p.src(recv)), "")
			if src == "p.UserProperties" {
				return "EUserProps false", nil, true
			}
			if src == "p.will.UserProperties" {
				return "EUserProps true", nil, true
			}
			if src == "p" {
				if fd, ok := t.p.funcs[t.T+".properties"]; ok {
					return "", t.encFunc(fd), true
				}
				return "EUserProps false", nil, true // promoted method of the embedded UserProperties
			}
		case isIdent(recv, "p") && isBI(args):
			if fd, ok := t.p.funcs[t.T+"."+name]; ok && (name == "variableHeader" || name == "payload") {
				return "", t.encFunc(fd), true
			}
		}
	}
	if c, ok := e.(*ast.CallExpr); ok {
		if id, ok := c.Fun.(*ast.Ident); ok && isBI(c.Args) {
			if fl, ok := cx.closures[id.Name]; ok {
				return "", t.encBody(fl.Body.List, cx), true
			}
		}
	}
	return "", nil, false
}

var loopPatterns = map[string]string{
	"forj,_:=rangep.filters{i+=p.filters[j].fill(b,i)}":                                            "FILTERS",
	"forj,_:=rangep.reasonCodes{i+=wuint8(p.reasonCodes[j]).fill(b,i)}":                            "EReasonCodes",
	"forj,_:=rangep.subscriptionIDs{i+=vbint(p.subscriptionIDs[j]).fillProp(b,i,SubscriptionID)}": "ESubIDs",
	"for_,v:=range*p{i+=v.fillProp(b,i,UserProperty)}":                                             "USERPROPS",
	"forid,v:=rangep.propertyMap(false){out:=v()ifout==nil{continue}i+=out.fillProp(b,i,id)}":      "ESubID",
}

func (t *tr) encStmt(s ast.Stmt, cx *encCtx) []string {
	squash := strings.Join(strings.Fields(t.p.src(s)), "")
	switch v := s.(type) {
	case *ast.AssignStmt:
		if len(v.Lhs) == 1 && len(v.Rhs) == 1 {
			if id, ok := v.Lhs[0].(*ast.Ident); ok {
				switch {
				case v.Tok == token.DEFINE && id.Name == "n" && isIdent(v.Rhs[0], "i"):
					return nil
				case v.Tok == token.DEFINE:
					if fl, ok := v.Rhs[0].(*ast.FuncLit); ok {
						cx.closures[id.Name] = fl
						return nil
					}
					cx.locals[id.Name] = v.Rhs[0]
					return nil
				case v.Tok == token.ADD_ASSIGN && id.Name == "i":
					if one, many, ok := t.encExpr(v.Rhs[0], cx); ok {
						if many != nil {
							return many
						}
						return []string{one}
					}
				case v.Tok == token.ADD_ASSIGN:
					// remainingLen += vbint(p.payload.fill(_LEN, 0)) inside an if: handled by the caller
					if sub, ok := t.dryRun(v.Rhs[0], cx); ok {
						return sub
					}
				}
			}
		}
	case *ast.ReturnStmt:
		return nil
	case *ast.IfStmt:
		// if len(p.payload) > 0 { remainingLen += ... } : part of the local's definition
		if v.Init == nil && v.Else == nil && len(v.Body.List) == 1 {
			if as, ok := v.Body.List[0].(*ast.AssignStmt); ok && as.Tok == token.ADD_ASSIGN {
				if id, ok := as.Lhs[0].(*ast.Ident); ok && id.Name != "i" {
					if c, ok := t.cond(v.Cond); ok {
						inner := t.encStmt(as, cx)
						// record for the local: it is emitted where the local is used
						cx.plusEq[id.Name] = append(cx.plusEq[id.Name], &ast.ExprStmt{X: &ast.BasicLit{Value: "EIf (" + c + ") " + list(inner) + " []"}})
						return nil
					}
				}
			}
		}
		// PUBACK family: propl := vbint(p.properties(_LEN,0)); if propl > 0 {A} else {B}
		if be, ok := v.Cond.(*ast.BinaryExpr); ok && v.Init == nil {
			if id, ok := be.X.(*ast.Ident); ok && be.Op == token.GTR {
				if sub, ok := t.dryRun(id, cx); ok && v.Else != nil {
					thens := t.encBody(v.Body.List, cx)
					elses := t.encBody(v.Else.(*ast.BlockStmt).List, cx)
					return []string{"EIfEmpty " + list(sub) + "\n     " + list(elses) + "\n     " + list(thens)}
				}
			}
		}
		c, ok := "", false
		if v.Init != nil {
			if strings.Join(strings.Fields(t.p.src(v.Init)), "") == "v:=p.QoS()" {
				c, ok = t.cond(v.Cond)
			}
		} else {
			c, ok = t.cond(v.Cond)
		}
		if ok && v.Else == nil {
			return []string{"EIf (" + c + ")\n     " + list(t.encBody(v.Body.List, cx)) + " []"}
		}
	case *ast.RangeStmt:
		switch loopPatterns[squash] {
		case "FILTERS":
			// the element's own fill decides which list this is
			if fd, ok := t.p.funcs["TopicFilter.fill"]; ok && t.T == "Subscribe" &&
				strings.Join(strings.Fields(t.p.src(fd.Body)), "") == "{n:=ii+=c.filter.fill(b,i)i+=c.options.fill(b,i)returni-n}" {
				return []string{"EFilters"}
			}
			if t.T == "Unsubscribe" && t.fields["Unsubscribe"]["filters"] == "[]wstring" {
				return []string{"EUnsubFilters"}
			}
		case "EReasonCodes", "ESubIDs", "ESubID":
			return []string{loopPatterns[squash]}
		}
		// for id, v := range p.propertyMap() { i += v().fillProp(b, i, id) } over a single-entry map
		if squash == "forid,v:=rangep.propertyMap(){i+=v().fillProp(b,i,id)}" {
			if m, ok := t.propertyMap(t.T + ".propertyMap"); ok && len(m) == 1 {
				return []string{fmt.Sprintf("EFillProp (%s) %s %s", m[0].ref, m[0].wt, m[0].id)}
			}
		}
	case *ast.ExprStmt:
		if bl, ok := v.X.(*ast.BasicLit); ok && strings.HasPrefix(bl.Value, "EIf") {
			return []string{bl.Value}
		}
	}
	return []string{t.unk("enc", s)}
}

func (t *tr) encBody(stmts []ast.Stmt, cx *encCtx) []string {
	var out []string
	// DISCONNECT / AUTH: proplen := p.properties(_LEN, 0); if p.reasonCode == 0 && proplen == 0 { return 0 }
	for i, s := range stmts {
		if is, ok := s.(*ast.IfStmt); ok && is.Init == nil && is.Else == nil {
			sq := strings.Join(strings.Fields(t.p.src(is)), "")
			if sq == "ifp.reasonCode==0&&proplen==0{return0}" {
				if sub, ok := t.dryRun(&ast.Ident{Name: "proplen"}, cx); ok {
					rest := t.encBody(stmts[i+1:], cx)
					return append(out, "EIfEmpty "+list(sub)+"\n     [EIf (CIsZero (M F_reasonCode)) [] "+list(rest)+"]\n     "+list(rest))
				}
			}
		}
		out = append(out, t.encStmt(s, cx)...)
	}
	return out
}

func (t *tr) encFunc(fd *ast.FuncDecl) []string {
	cx := &encCtx{locals: map[string]ast.Expr{}, closures: map[string]*ast.FuncLit{}, plusEq: map[string][]ast.Stmt{}}
	return t.encBody(fd.Body.List, cx)
}

// ---------------------------------------------------------------- property maps

type mapEntry struct{ id, ref, wt string }

func (t *tr) propertyMap(key string) ([]mapEntry, bool) {
	fd, ok := t.p.funcs[key]
	if !ok || len(fd.Body.List) != 1 {
		return nil, false
	}
	ret, ok := fd.Body.List[0].(*ast.ReturnStmt)
	if !ok || len(ret.Results) != 1 {
		return nil, false
	}
	cl, ok := ret.Results[0].(*ast.CompositeLit)
	if !ok {
		return nil, false
	}
	var out []mapEntry
	for _, el := range cl.Elts {
		kv, ok := el.(*ast.KeyValueExpr)
		if !ok {
			return nil, false
		}
		id, ok := kv.Key.(*ast.Ident)
		fl, ok2 := kv.Value.(*ast.FuncLit)
		if !ok || !ok2 || len(fl.Body.List) != 1 {
			return nil, false
		}
		r, ok := fl.Body.List[0].(*ast.ReturnStmt)
		if !ok || len(r.Results) != 1 {
			return nil, false
		}
		u, ok := r.Results[0].(*ast.UnaryExpr)
		if !ok || u.Op != token.AND {
			return nil, false
		}
		ref, wt, ok := t.fref(u.X)
		if !ok {
			return nil, false
		}
		out = append(out, mapEntry{id.Name, ref, wt})
	}
	return out, true
}

func mapList(m []mapEntry) string {
	var l []string
	for _, e := range m {
		l = append(l, fmt.Sprintf("(%s, %s, %s)", e.id, e.ref, e.wt))
	}
	return "[" + strings.Join(l, ";\n    ") + "]"
}

// ---------------------------------------------------------------- decoders

var decStmtPatterns = map[string]string{
	"p.will=NewPublish()p.will.SetQoS(p.willQoS())p.will.SetRetain(p.flags.Has(WillRetain))": "DWillInit",
	"p.will.payload=rawdata(p.willPayload)":                                                    "DWillPayloadCopy",
}

const subscribeLoop = "for!b.atEnd(){varfTopicFilterb.get(&f.filter)b.get(&f.options)p.filters=append(p.filters,f)ifb.err!=nil||b.i==len(data){break}}"
const unsubscribeLoop = "for!b.atEnd(){varfwstringb.get(&f)p.filters=append(p.filters,f)ifb.err!=nil||b.i==len(data){break}}"
const reasonCodes = "p.reasonCodes=make([]uint8,len(data)-b.i)fori,_:=rangep.reasonCodes{varvwuint8b.get(&v)p.reasonCodes[i]=uint8(v)}"

func (t *tr) decBody(stmts []ast.Stmt, bufName string, subMode string) []string {
	var out []string
	sq := func(n ast.Node) string { return strings.Join(strings.Fields(t.p.src(n)), "") }
	for i := 0; i < len(stmts); i++ {
		s := stmts[i]
		// multi-statement patterns
		if i+2 < len(stmts) {
			three := sq(stmts[i]) + sq(stmts[i+1]) + sq(stmts[i+2])
			if v, ok := decStmtPatterns[three]; ok {
				out = append(out, v)
				i += 2
				continue
			}
		}
		if i+1 < len(stmts) && sq(stmts[i])+sq(stmts[i+1]) == reasonCodes {
			out = append(out, "DReasonCodes")
			i++
			continue
		}
		one := sq(s)
		if v, ok := decStmtPatterns[one]; ok {
			out = append(out, v)
			continue
		}
		switch one {
		case subscribeLoop:
			if t.T == "Subscribe" {
				out = append(out, "DFilterLoop")
				continue
			}
		case unsubscribeLoop:
			if t.T == "Unsubscribe" {
				out = append(out, "DUnsubFilterLoop")
				continue
			}
		case "get:=buf.get", "returnbuf.Err()", "returnbuf.err", "returnb.err":
			continue
		case "buf:=&buffer{data:data}", "b:=&buffer{data:data}":
			continue
		case "buf:=&buffer{data:data,addSubscriptionID:p.AddSubscriptionID,}", "buf:=&buffer{data:data,addSubscriptionID:p.AddSubscriptionID}":
			continue
		}
		switch v := s.(type) {
		case *ast.ExprStmt:
			if c, ok := v.X.(*ast.CallExpr); ok {
				fn := sq(c.Fun)
				if (fn == "get" || fn == bufName+".get") && len(c.Args) == 1 {
					if u, ok := c.Args[0].(*ast.UnaryExpr); ok && u.Op == token.AND {
						if r, w, ok := t.fref(u.X); ok {
							out = append(out, fmt.Sprintf("DGet (%s) %s", r, w))
							continue
						}
					}
				}
				if fn == bufName+".getAny" && len(c.Args) == 2 {
					m, will, sm, ok := t.getAnyArgs(c.Args, subMode)
					if ok {
						out = append(out, fmt.Sprintf("DGetAny %s %s %s", m, will, sm))
						continue
					}
				}
			}
		case *ast.IfStmt:
			c, ok := "", false
			if v.Init != nil {
				if sq(v.Init) == "v:=p.QoS()" {
					c, ok = t.cond(v.Cond)
				}
			} else {
				c, ok = t.cond(v.Cond)
			}
			if ok && v.Else == nil {
				out = append(out, "DIf ("+c+")\n     "+list(t.decBody(v.Body.List, bufName, subMode)))
				continue
			}
		}
		out = append(out, t.unk("dec", s))
	}
	return out
}

func (t *tr) getAnyArgs(args []ast.Expr, subMode string) (m, will, sm string, ok bool) {
	a0 := strings.Join(strings.Fields(t.p.src(args[0])), "")
	a1 := strings.Join(strings.Fields(t.p.src(args[1])), "")
	will = "false"
	switch a1 {
	case "p.appendUserProperty":
	case "p.appendWillProperty":
		if fd, ok := t.p.funcs["Connect.appendWillProperty"]; !ok ||
			strings.Join(strings.Fields(t.p.src(fd.Body)), "") != "{p.will.UserProperties=append(p.will.UserProperties,prop)}" {
			return "", "", "", false
		}
		will = "true"
	default:
		return "", "", "", false
	}
	sm = subMode
	switch a0 {
	case "nil":
		return "[]", will, sm, true
	case "p.propertyMap()":
		if e, ok := t.propertyMap(t.T + ".propertyMap"); ok {
			return mapList(e), will, sm, true
		}
	case "p.willPropertyMap()":
		if e, ok := t.propertyMap(t.T + ".willPropertyMap"); ok {
			return mapList(e), will, "NoSub", true
		}
	case "p.propertyMap(true)":
		// SUBSCRIBE: the map's single entry allocates the subscription identifier
		if fd, ok := t.p.funcs["Subscribe.propertyMap"]; ok && t.T == "Subscribe" &&
			strings.Join(strings.Fields(t.p.src(fd.Body)), "") ==
				"{returnmap[Ident]func()wireType{SubscriptionID:func()wireType{ifunmarshal{p.subscriptionID=new(vbint)}ifp.subscriptionID==nil{returnnil}returnp.subscriptionID},}}" {
			return "[]", will, "SubOpt", true
		}
	}
	return "", "", "", false
}

func (t *tr) decFunc(T string) []string {
	fd, ok := t.p.funcs[T+".UnmarshalBinary"]
	if !ok {
		return []string{"DGet (M F_data) U32 (* UNKNOWN: UnmarshalBinary missing *)"}
	}
	body := strings.Join(strings.Fields(t.p.src(fd.Body)), "")
	if T == "PingReq" || T == "PingResp" {
		if body == "{returnnil}" {
			return nil
		}
	}
	bufName := "b"
	sub := "NoSub"
	if strings.Contains(body, "buf:=&buffer{") {
		bufName = "buf"
	}
	if strings.Contains(body, "addSubscriptionID:p.AddSubscriptionID") {
		if fd2, ok := t.p.funcs[T+".AddSubscriptionID"]; ok &&
			strings.Join(strings.Fields(t.p.src(fd2.Body)), "") == "{p.subscriptionIDs=append(p.subscriptionIDs,v)}" {
			sub = "AddSub"
		} else {
			sub = "UNKNOWN_SUBMODE"
		}
	}
	return t.decBody(fd.Body.List, bufName, sub)
}

// ---------------------------------------------------------------- output

func genSkel(p *pkg, out string) {
	t := &tr{p: p}
	t.structFields()
	var b strings.Builder
	b.WriteString("(* generated by tools/gosync from /repo - do not edit *)\nFrom MQ Require Import Model.Stream.\nOpen Scope N_scope.\n\n")
	var lem, lemDec, lemMisc strings.Builder
	for _, ti := range ptypes {
		t.T = ti.goName
		var enc []string
		if fd, ok := p.funcs[ti.goName+".fill"]; ok {
			enc = t.encFunc(fd)
		} else {
			enc = []string{"EVbConst 4242424242 (* UNKNOWN: fill missing *)"}
		}
		fmt.Fprintf(&b, "Definition g_enc_%s : list enc :=\n  %s.\n\n", ti.goName, list(enc))
		dec := t.decFunc(ti.goName)
		fmt.Fprintf(&b, "Definition g_dec_%s : list dec :=\n  %s.\n\n", ti.goName, list(dec))
		fmt.Fprintf(&lem, "Lemma sync_enc_%s : g_enc_%s = %s.\nProof. vm_compute. reflexivity. Qed.\n", ti.goName, ti.goName, ti.encRef)
		fmt.Fprintf(&lemDec, "Lemma sync_dec_%s : g_dec_%s = %s.\nProof. vm_compute. reflexivity. Qed.\n", ti.goName, ti.goName, ti.decRef)
	}
	// Undefined
	t.T = "Undefined"
	und := "DGet (M F_data) U32 (* UNKNOWN *)"
	if fd, ok := p.funcs["Undefined.UnmarshalBinary"]; ok {
		switch strings.Join(strings.Fields(p.src(fd.Body)), "") {
		case "{p.data=make([]byte,len(data))copy(p.data,data)returnnil}":
			und = "DUndefinedData true"
		case "{p.data=datareturnnil}":
			und = "DUndefinedData false"
		}
	}
	fmt.Fprintf(&b, "Definition g_dec_Undefined : list dec := [%s].\n\n", und)
	fmt.Fprintf(&lemDec, "Lemma sync_dec_Undefined : g_dec_Undefined = dec_of KUndefined.\nProof. vm_compute. reflexivity. Qed.\n")
	// WriteTo of every type: allocate the dry-run width, fill, one Write, return its (n, err)
	okShapes := map[string]bool{
		"{b:=make([]byte,p.fill(_LEN,0))p.fill(b,0)n,err:=w.Write(b)returnint64(n),err}": true,
		"{b:=make([]byte,p.width())p.fill(b,0)n,err:=w.Write(b)returnint64(n),err}":       true,
	}
	var bad []string
	for _, ti := range ptypes {
		fd, ok := p.funcs[ti.goName+".WriteTo"]
		if !ok || !okShapes[strings.Join(strings.Fields(p.src(fd.Body)), "")] {
			bad = append(bad, ti.goName)
			continue
		}
		if wd, ok := p.funcs[ti.goName+".width"]; ok && strings.Join(strings.Fields(p.src(wd.Body)), "") != "{returnp.fill(_LEN,0)}" {
			bad = append(bad, ti.goName+".width")
		}
	}
	if fd, ok := p.funcs["Undefined.WriteTo"]; !ok || strings.Join(strings.Fields(p.src(fd.Body)), "") != "{return0,fmt.Errorf(\"cannotwrite%T\",p)}" {
		bad = append(bad, "Undefined")
	}
	fmt.Fprintf(&b, "(* WriteTo methods that do not have the shape \"allocate fill(_LEN,0) bytes, fill, one Write, return its (n, err)\" *)\nDefinition g_writeto_irregular : list nat := %s.\n\n", natList(len(bad)))
	if len(bad) > 0 {
		fmt.Fprintf(&b, "(* irregular: %s *)\n", strings.Join(bad, ", "))
	}
	fmt.Fprintf(&lemMisc, "Lemma sync_writeto : g_writeto_irregular = nil.\nProof. reflexivity. Qed.\n")
	// constructors and dispatch
	b.WriteString(t.ctorsAndDispatch(&lemMisc))
	os.WriteFile(filepath.Join(out, "GenSkel.v"), []byte(b.String()), 0o644)
	hdr := "(* generated by tools/gosync - do not edit *)\nFrom MQ Require Import Model.Stream gen.GenSkel.\nOpen Scope N_scope.\n\n"
	os.WriteFile(filepath.Join(out, "SyncEnc.v"), []byte(hdr+"(* the encoders regenerated from the source are the model's *)\n"+lem.String()), 0o644)
	os.WriteFile(filepath.Join(out, "SyncDec.v"), []byte(hdr+"(* the decoders regenerated from the source are the model's *)\n"+lemDec.String()), 0o644)
	os.WriteFile(filepath.Join(out, "SyncMisc.v"), []byte(hdr+"(* WriteTo shapes, constructors, dispatch *)\n"+lemMisc.String()), 0o644)
}

func natList(n int) string {
	if n == 0 {
		return "nil"
	}
	var l []string
	for i := 0; i < n; i++ {
		l = append(l, "0%nat")
	}
	return "(" + strings.Join(l, " :: ") + " :: nil)"
}

func (t *tr) ctorsAndDispatch(lem *strings.Builder) string {
	var b strings.Builder
	// NewX: &X{fixed: bits(<const expr>) ...}
	info, _ := t.p.typecheck()
	constVal := func(e ast.Expr) (string, bool) {
		if tv, ok := info.Types[e]; ok && tv.Value != nil {
			return tv.Value.ExactString(), true
		}
		return "", false
	}
	for _, ti := range ptypes {
		fd, ok := t.p.funcs["New"+ti.goName]
		val := "999999"
		if ok {
			ast.Inspect(fd, func(n ast.Node) bool {
				switch v := n.(type) {
				case *ast.KeyValueExpr:
					if isIdent(v.Key, "fixed") {
						if c, ok := v.Value.(*ast.CallExpr); ok && len(c.Args) == 1 {
							if s, ok := constVal(c.Args[0]); ok {
								val = s
							}
						}
					}
				case *ast.AssignStmt:
					if len(v.Lhs) == 1 && strings.Join(strings.Fields(t.p.src(v.Lhs[0])), "") == "p.fixed" {
						if c, ok := v.Rhs[0].(*ast.CallExpr); ok && len(c.Args) == 1 {
							if s, ok := constVal(c.Args[0]); ok {
								val = s
							}
						}
					}
				}
				return true
			})
		}
		fmt.Fprintf(&b, "Definition g_ctor_fixed_%s : N := %s.\n", ti.goName, val)
		fmt.Fprintf(lem, "Lemma sync_ctor_%s : g_ctor_fixed_%s = ctor_fixed %s.\nProof. reflexivity. Qed.\n", ti.goName, ti.goName, ti.kind)
	}
	// ReadRemaining: switch byte(f.fixed) & 0b1111_0000 { case X: p = &T{fixed: f.fixed} ... default: p = &Undefined{} }
	var entries []string
	okDispatch := false
	if fd, ok := t.p.funcs["fixedHeader.ReadRemaining"]; ok {
		ast.Inspect(fd, func(n ast.Node) bool {
			sw, ok := n.(*ast.SwitchStmt)
			if !ok {
				return true
			}
			if strings.Join(strings.Fields(t.p.src(sw.Tag)), "") != "byte(f.fixed)&0b1111_0000" {
				return true
			}
			okDispatch = true
			for _, c := range sw.Body.List {
				cc := c.(*ast.CaseClause)
				body := strings.Join(strings.Fields(t.p.src(&ast.BlockStmt{List: cc.Body})), "")
				if cc.List == nil {
					if body != "{p=&Undefined{}}" {
						okDispatch = false
					}
					continue
				}
				for _, e := range cc.List {
					v, ok := constVal(e)
					matched := false
					for _, ti := range ptypes {
						if body == "{p=&"+ti.goName+"{fixed:f.fixed}}" && ok {
							entries = append(entries, fmt.Sprintf("(%s, %s)", v, ti.kind))
							matched = true
						}
					}
					if !matched {
						okDispatch = false
					}
				}
			}
			return false
		})
	}
	if !okDispatch {
		entries = append(entries, "(999999, KUndefined)")
	}
	fmt.Fprintf(&b, "Definition g_dispatch : list (N * kind) := [%s].\n", strings.Join(entries, "; "))
	fmt.Fprintf(lem, "Lemma sync_dispatch : length g_dispatch = 15%%nat /\\ forallb (fun e => kind_eqb (kind_of_nibble (fst e / 16)) (snd e) && (fst e mod 16 =? 0)) g_dispatch = true.\nProof. split; vm_compute; reflexivity. Qed.\n")
	return b.String()
}
