(* The decoder methods of wiretypes.go - UnmarshalBinary of the nine wire
   types - as statement lists.

   tools/gosync (wire.go) translates them statement by statement and
   regenerates the table on every run (gen/GenWireDec.v); gen/SyncWireDec.v
   compares it with `wire_dec_progs` below.  Proofs/WireDecIRP.v shows that
   running each statement list - on every receiver value and every byte
   string - is the corresponding decoder of Model/Wire.v (dec_u8, dec_u16,
   dec_u32, dec_bool, dec_bin with its two quirks, dec_raw, dec_vb,
   dec_userprop): the functions every theorem about decoding is stated on.

   The language is what those methods are written in: the locals length,
   multiplier, value, encodedByte, key, val, i; assignments to *v; make and
   copy; `switch data[0]`; `for _, encodedByte := range data`; returns of nil
   or of an error (errors are classes, as in Wire.v).  uint arithmetic is
   modelled in N: the loop leaves with "size exceeded" before multiplier can
   pass 128^4, so nothing wraps.  A call of another wire type's
   UnmarshalBinary is run as that type's decoder of Wire.v, whose own
   statement list is covered by the same theorems.  None = run-time panic.
   Definitions only. *)
From MQ Require Export Model.WireIR.
From Coq Require Import String.
Local Open Scope string_scope.
Local Open Scope nat_scope.

Inductive dc :=
| DC_len_lt (k : nat)          (* len(data) < k *)
| DC_len_0                     (* len(data) == 0 *)
| DC_len_lt_length2            (* len(data) < int(length)+2 *)
| DC_length_0                  (* length == 0 *)
| DC_mult_gt (k : N)           (* multiplier > k *)
| DC_eb_hi0.                   (* encodedByte&128 == 0 *)

Inductive ds :=
| D_if (c : dc) (body : list ds)
| D_ret_nil
| D_ret_err (e : err)
| D_set_be16                   (* *v = wuint16(binary.BigEndian.Uint16(data)) *)
| D_set_be32
| D_set_data0                  (* *v = T(data[0]) *)
| D_set_bool (b : bool)
| D_switch_data0 (cases : list (N * list ds)) (default : list ds)
| D_var_length                 (* var length wuint16 *)
| D_length_decode              (* _ = length.UnmarshalBinary(data) *)
| D_make_length                (* *v = make([]byte, length) *)
| D_copy_from2                 (* copy( *v, data[2:int(length)+2]) *)
| D_make_lendata               (* *v = make([]byte, len(data)) *)
| D_copy_all                   (* copy( *v, data) *)
| D_var_mult1                  (* var multiplier uint = 1 *)
| D_var_value                  (* var value uint *)
| D_range_data (body : list ds) (* for _, encodedByte := range data *)
| D_value_acc                  (* value += uint(encodedByte) & uint(127) * multiplier *)
| D_mult_step                  (* multiplier = multiplier * 128 *)
| D_set_value                  (* *v = vbint(value) *)
| D_var_key | D_var_val        (* var key wstring *)
| D_try_key                    (* if err := key.UnmarshalBinary(data); err != nil { return unmarshalErr(v, "key", err.( *Malformed)) } *)
| D_try_val                    (* the same for val on data[i:] *)
| D_set_v0 | D_set_v1          (* v[0] = string(key) *)
| D_def_i                      (* i := len(v[0]) + 2 *)
| D_unknown (text : string).

Record dst := mkd {
  d_v : wv; d_length : N; d_mult : N; d_value : N; d_eb : N;
  d_key : list byte; d_val : list byte; d_i : nat }.

Inductive dflow := DNext (s : dst) | DRet (s : dst) (r : option err).

Definition with_v (s : dst) (v : wv) : dst :=
  mkd v (d_length s) (d_mult s) (d_value s) (d_eb s) (d_key s) (d_val s) (d_i s).

(* copy(dst, src): the first min(len dst, len src) bytes of dst are replaced *)
Definition copy_into (dst src : list byte) : list byte :=
  let n := Nat.min (List.length dst) (List.length src) in firstn n src ++ skipn n dst.

Definition zeros (n : nat) : list byte := repeat x00 n.

Definition ev_dc (data : list byte) (s : dst) (c : dc) : bool :=
  match c with
  | DC_len_lt k => Nat.ltb (List.length data) k
  | DC_len_0 => Nat.eqb (List.length data) 0
  | DC_len_lt_length2 => (len data <? d_length s + 2)%N
  | DC_length_0 => (d_length s =? 0)%N
  | DC_mult_gt k => (k <? d_mult s)%N
  | DC_eb_hi0 => (N.land (d_eb s) 128 =? 0)%N
  end.

Definition set_v0 (v : wv) (k : list byte) : wv := WVp k (wv_v v).
Definition set_v1 (v : wv) (x : list byte) : wv := WVp (wv_k v) x.

Fixpoint dexec (data : list byte) (st : ds) (s : dst) {struct st} : option dflow :=
  let dexec_list := fix dexec_list (l : list ds) (s : dst) : option dflow :=
    match l with
    | [] => Some (DNext s)
    | st' :: l' =>
      match dexec data st' s with
      | Some (DNext s') => dexec_list l' s'
      | r => r
      end
    end in
  match st with
  | D_if c body => if ev_dc data s c then dexec_list body s else Some (DNext s)
  | D_ret_nil => Some (DRet s None)
  | D_ret_err e => Some (DRet s (Some e))
  | D_set_be16 =>
      match data with
      | b1 :: b2 :: _ => Some (DNext (with_v s (WVn (b2n b1 * 256 + b2n b2))))
      | _ => None
      end
  | D_set_be32 =>
      match data with
      | b1 :: b2 :: b3 :: b4 :: _ =>
          Some (DNext (with_v s (WVn (b2n b1 * 16777216 + b2n b2 * 65536 + b2n b3 * 256 + b2n b4))))
      | _ => None
      end
  | D_set_data0 =>
      match data with b :: _ => Some (DNext (with_v s (WVn (b2n b)))) | [] => None end
  | D_set_bool b => Some (DNext (with_v s (WVb b)))
  | D_switch_data0 cases default =>
      match data with
      | [] => None
      | b :: _ =>
        (fix pick (cs : list (N * list ds)) : option dflow :=
           match cs with
           | [] => dexec_list default s
           | (k, body) :: cs' => if (b2n b =? k)%N then dexec_list body s else pick cs'
           end) cases
      end
  | D_var_length => Some (DNext (mkd (d_v s) 0 (d_mult s) (d_value s) (d_eb s) (d_key s) (d_val s) (d_i s)))
  | D_length_decode =>
      match dec_u16 data with
      | Ok n => Some (DNext (mkd (d_v s) n (d_mult s) (d_value s) (d_eb s) (d_key s) (d_val s) (d_i s)))
      | _ => Some (DNext s)
      end
  | D_make_length => Some (DNext (with_v s (WVs (zeros (N.to_nat (d_length s))))))
  | D_copy_from2 =>
      match slice data 2 (N.to_nat (d_length s) + 2) with
      | Some src => Some (DNext (with_v s (WVs (copy_into (wv_s (d_v s)) src))))
      | None => None
      end
  | D_make_lendata => Some (DNext (with_v s (WVs (zeros (List.length data)))))
  | D_copy_all => Some (DNext (with_v s (WVs (copy_into (wv_s (d_v s)) data))))
  | D_var_mult1 => Some (DNext (mkd (d_v s) (d_length s) 1 (d_value s) (d_eb s) (d_key s) (d_val s) (d_i s)))
  | D_var_value => Some (DNext (mkd (d_v s) (d_length s) (d_mult s) 0 (d_eb s) (d_key s) (d_val s) (d_i s)))
  | D_range_data body =>
      (fix loop (l : list byte) (s : dst) : option dflow :=
         match l with
         | [] => Some (DNext s)
         | b :: l' =>
           match dexec_list body (mkd (d_v s) (d_length s) (d_mult s) (d_value s) (b2n b) (d_key s) (d_val s) (d_i s)) with
           | Some (DNext s') => loop l' s'
           | r => r
           end
         end) data s
  | D_value_acc =>
      Some (DNext (mkd (d_v s) (d_length s) (d_mult s) (d_value s + N.land (d_eb s) 127 * d_mult s)%N
                       (d_eb s) (d_key s) (d_val s) (d_i s)))
  | D_mult_step =>
      Some (DNext (mkd (d_v s) (d_length s) (d_mult s * 128)%N (d_value s) (d_eb s) (d_key s) (d_val s) (d_i s)))
  | D_set_value => Some (DNext (with_v s (WVn (d_value s))))
  | D_var_key => Some (DNext (mkd (d_v s) (d_length s) (d_mult s) (d_value s) (d_eb s) [] (d_val s) (d_i s)))
  | D_var_val => Some (DNext (mkd (d_v s) (d_length s) (d_mult s) (d_value s) (d_eb s) (d_key s) [] (d_i s)))
  | D_try_key =>
      match dec_bin (d_key s) data with
      | Ok k => Some (DNext (mkd (d_v s) (d_length s) (d_mult s) (d_value s) (d_eb s) k (d_val s) (d_i s)))
      | Err e => Some (DRet s (Some e))
      | Panic => None
      end
  | D_try_val =>
      match slice data (d_i s) (List.length data) with
      | None => None
      | Some d' =>
        match dec_bin (d_val s) d' with
        | Ok x => Some (DNext (mkd (d_v s) (d_length s) (d_mult s) (d_value s) (d_eb s) (d_key s) x (d_i s)))
        | Err e => Some (DRet s (Some e))
        | Panic => None
        end
      end
  | D_set_v0 => Some (DNext (with_v s (set_v0 (d_v s) (d_key s))))
  | D_set_v1 => Some (DNext (with_v s (set_v1 (d_v s) (d_val s))))
  | D_def_i => Some (DNext (mkd (d_v s) (d_length s) (d_mult s) (d_value s) (d_eb s) (d_key s) (d_val s)
                              (List.length (wv_k (d_v s)) + 2)))
  | D_unknown _ => None
  end.

Fixpoint dexec_list (data : list byte) (l : list ds) (s : dst) : option dflow :=
  match l with
  | [] => Some (DNext s)
  | st :: l' =>
    match dexec data st s with
    | Some (DNext s') => dexec_list data l' s'
    | r => r
    end
  end.

Definition lift {A B} (f : A -> B) (o : outcome A) : outcome B :=
  match o with Ok a => Ok (f a) | Err e => Err e | Panic => Panic end.

(* UnmarshalBinary run on a receiver holding `old`: the receiver afterwards, the
   error class, or a panic; a Go function cannot fall off its end *)
Definition run_wdec (prog : list ds) (old : wv) (data : list byte) : outcome wv :=
  match dexec_list data prog (mkd old 0 0 0 0 [] [] 0) with
  | Some (DRet s None) => Ok (d_v s)
  | Some (DRet s (Some e)) => Err e
  | _ => Panic
  end.

(* ------------------------------------------------------------------ *)

Definition wire_dec_progs : list (string * list ds) :=
  [("Ident.UnmarshalBinary", [D_set_data0; D_ret_nil]);
   ("UserProp.UnmarshalBinary",
      [D_var_key; D_try_key; D_set_v0; D_def_i; D_var_val; D_try_val; D_set_v1; D_ret_nil]);
   ("bindata.UnmarshalBinary",
      [D_var_length; D_length_decode;
       D_if DC_len_lt_length2 [D_ret_err EMissingData];
       D_if DC_length_0 [D_ret_nil];
       D_make_length; D_copy_from2; D_ret_nil]);
   ("bits.UnmarshalBinary", [D_set_data0; D_ret_nil]);
   ("rawdata.UnmarshalBinary", [D_make_lendata; D_copy_all; D_ret_nil]);
   ("vbint.UnmarshalBinary",
      [D_if DC_len_0 [D_ret_err EMissingData];
       D_var_mult1; D_var_value;
       D_range_data [D_value_acc;
                     D_if (DC_mult_gt 2097152) [D_ret_err ESizeExceeded];
                     D_if DC_eb_hi0 [D_set_value; D_ret_nil];
                     D_mult_step];
       D_ret_err EMissingData]);
   ("wbool.UnmarshalBinary",
      [D_switch_data0 [(0%N, [D_set_bool false]); (1%N, [D_set_bool true])] [D_ret_err EMalformedBool];
       D_ret_nil]);
   ("wuint16.UnmarshalBinary", [D_if (DC_len_lt 2) [D_ret_err EMissingData]; D_set_be16; D_ret_nil]);
   ("wuint32.UnmarshalBinary", [D_if (DC_len_lt 4) [D_ret_err EMissingData]; D_set_be32; D_ret_nil])].

Fixpoint wire_dprog (name : string) (l : list (string * list ds)) : list ds :=
  match l with
  | [] => [D_unknown name]
  | (n, p) :: l' => if String.eqb n name then p else wire_dprog name l'
  end.
Definition dprog (name : string) : list ds := wire_dprog name wire_dec_progs.
(* for files that do not open the scope of strings *)
Definition dprog_vbint : list ds := dprog "vbint.UnmarshalBinary".
Definition dprog_userprop : list ds := dprog "UserProp.UnmarshalBinary".
Definition dprog_ident : list ds := dprog "Ident.UnmarshalBinary".

(* the receiver of each wire type, and what a decoded value is in Wire.v's terms *)
Definition wv_of (w : wt) (v : value) : wv :=
  match w with
  | WBool => WVb (valB v)
  | Bin | Raw => WVs (valS v)
  | _ => WVn (valN v)
  end.
Definition value_of (w : wt) (x : wv) : value :=
  match w with
  | WBool => VB (wv_b x)
  | Bin | Raw => VS (wv_s x)
  | _ => VN (wv_n x)
  end.

Definition dprog_of (w : wt) : list ds := dprog (go_type w ++ ".UnmarshalBinary").
