(* buffer.getAny - the property loop - as a statement list.

   tools/gosync (wire.go) translates the method statement by statement and
   regenerates it on every run (gen/GenGetAny.v); gen/SyncGetAny.v compares it
   with `getany_prog` below, and Proofs/GetAnyIRP.v shows that running it is
   Codec.getany for every property map, mode and reader state.

   What the caller hands in - the map `fields` of closures, `addProp`, the
   field b.addSubscriptionID - is an environment built from the (map, will,
   mode) triple the regenerated decoder skeletons carry: `fields[id]` followed
   by `b.get(field())` is Codec.get on the field the map names (for SUBSCRIBE's
   subscription identifier: the closure that allocates and is then decoded
   into), addProp is Codec.add_uprop (a nil will panics), addSubscriptionID
   appends uint32(sub).  b.get is Codec.get_with (= the run of buffer.get's own
   statement list, Proofs/BufIRP.v).  The loop runs on the fuel of
   Codec.getany_loop (S (len data): every round reads at least the identifier
   or stops).  Definitions only. *)
From MQ Require Export Model.BufIR.
From Coq Require Import String.
Local Open Scope string_scope.
Local Open Scope nat_scope.

Inductive astmt :=
| A_if_atEnd_ret                (* if b.atEnd() { return } *)
| A_get_propLen                 (* var propLen vbint; b.get(&propLen) *)
| A_def_end                     (* end := b.i + int(propLen) *)
| A_var_id                      (* var id Ident *)
| A_for_lt_end (body : list astmt)   (* for b.i < end { body } *)
| A_get_id                      (* b.get(&id) *)
| A_if_err_ret                  (* if b.err != nil { return } *)
| A_lookup_field                (* field, hasField := fields[id] *)
| A_if_hasField (body : list astmt)
| A_get_field                   (* b.get(field()) *)
| A_continue
| A_switch_id (cases : list (N * list astmt)) (default : list astmt)
| A_get_userprop                (* var p UserProp; b.get(&p) *)
| A_addProp                     (* addProp(p) *)
| A_get_sub                     (* var sub vbint; b.get(&sub) *)
| A_if_addSub (body : list astmt)    (* if b.addSubscriptionID != nil { body } *)
| A_call_addSub                 (* b.addSubscriptionID(uint32(sub)) *)
| A_set_err_unknown             (* b.err = fmt.Errorf("unknown property id 0x%02x", id) *)
| A_unknown (text : string).

(* what the caller hands in *)
Record genv := {
  g_field : N -> option (dstate -> res);                          (* fields[id]; b.get(field()) *)
  g_add_prop : list byte * list byte -> pkt -> option pkt;        (* addProp(p); None = panic *)
  g_add_sub : option (N -> pkt -> pkt)                            (* b.addSubscriptionID *)
}.

Definition env_of_mode (m : list (N * fref * wt)) (will : bool) (sm : submode) : genv :=
  {| g_field := fun id =>
       match sm with
       | SubOpt =>
         if (id =? SubscriptionID)%N then
           Some (fun s1 =>
             let s1' := with_pkt (set_subid (dp s1) (Some 0%N)) s1 in
             match get_val Vb (VN 0) s1' with
             | GPanic => RPanic
             | GNo s2 => Run s2
             | GOk v s2 => Run (with_pkt (set_subid (dp s2) (Some (valN v))) s2)
             end)
         else match lookup_prop m id with Some (r, w) => Some (Codec.get r w) | None => None end
       | _ => match lookup_prop m id with Some (r, w) => Some (Codec.get r w) | None => None end
       end;
     g_add_prop := add_uprop will;
     g_add_sub := match sm with
                  | AddSub => Some (fun sub p => set_subids p (subids p ++ [(sub mod 4294967296)%N]))
                  | _ => None
                  end |}.

Record ast := mka {
  a_s : dstate; a_plen : N; a_end : N; a_id : N;
  a_field : option (dstate -> res);
  a_p : list byte * list byte; a_sub : N }.

Inductive aflow := ANext (s : ast) | ARet (s : ast) | ACont (s : ast).
Inductive ares := AF (f : aflow) | APanic | AFuel.

Definition with_s (a : ast) (s : dstate) : ast :=
  mka s (a_plen a) (a_end a) (a_id a) (a_field a) (a_p a) (a_sub a).

(* the fuel of Codec.getany_loop *)
Definition getany_fuel (s : dstate) : nat := S (List.length (ddata s)).

Fixpoint aexec (E : genv) (st : astmt) (a : ast) {struct st} : ares :=
  let aexec_list := fix aexec_list (l : list astmt) (a : ast) : ares :=
    match l with
    | [] => AF (ANext a)
    | st' :: l' =>
      match aexec E st' a with
      | AF (ANext a') => aexec_list l' a'
      | r => r
      end
    end in
  match st with
  | A_if_atEnd_ret => if at_end (a_s a) then AF (ARet a) else AF (ANext a)
  | A_get_propLen =>
      match get_val Vb (VN 0) (a_s a) with
      | GPanic => APanic
      | GNo s1 => AF (ANext (mka s1 0 (a_end a) (a_id a) (a_field a) (a_p a) (a_sub a)))
      | GOk v s1 => AF (ANext (mka s1 (valN v) (a_end a) (a_id a) (a_field a) (a_p a) (a_sub a)))
      end
  | A_def_end => AF (ANext (mka (a_s a) (a_plen a) (N.of_nat (dpos (a_s a)) + a_plen a)%N (a_id a) (a_field a) (a_p a) (a_sub a)))
  | A_var_id => AF (ANext (mka (a_s a) (a_plen a) (a_end a) 0 (a_field a) (a_p a) (a_sub a)))
  | A_for_lt_end body =>
      (fix loop (f : nat) (a : ast) : ares :=
         match f with
         | O => AFuel
         | S f' =>
           if (N.of_nat (dpos (a_s a)) <? a_end a)%N then
             match aexec_list body a with
             | AF (ANext a') | AF (ACont a') => loop f' a'
             | r => r
             end
           else AF (ANext a)
         end) (getany_fuel (a_s a)) a
  | A_get_id =>
      match get_val U8 (VN (a_id a)) (a_s a) with
      | GPanic => APanic
      | GNo s1 => AF (ANext (with_s a s1))
      | GOk v s1 => AF (ANext (mka s1 (a_plen a) (a_end a) (valN v) (a_field a) (a_p a) (a_sub a)))
      end
  | A_if_err_ret => match derr (a_s a) with Some _ => AF (ARet a) | None => AF (ANext a) end
  | A_lookup_field => AF (ANext (mka (a_s a) (a_plen a) (a_end a) (a_id a) (g_field E (a_id a)) (a_p a) (a_sub a)))
  | A_if_hasField body => match a_field a with Some _ => aexec_list body a | None => AF (ANext a) end
  | A_get_field =>
      match a_field a with
      | Some f => match f (a_s a) with Run s2 => AF (ANext (with_s a s2)) | RPanic => APanic | RFuel => AFuel end
      | None => APanic     (* a nil function value *)
      end
  | A_continue => AF (ACont a)
  | A_switch_id cases default =>
      (fix pick (cs : list (N * list astmt)) : ares :=
         match cs with
         | [] => aexec_list default a
         | (k, body) :: cs' => if (a_id a =? k)%N then aexec_list body a else pick cs'
         end) cases
  | A_get_userprop =>
      match get_with dec_userprop width_userprop (a_s a) with
      | GPanic => APanic
      | GNo s2 => AF (ANext (mka s2 (a_plen a) (a_end a) (a_id a) (a_field a) ([], []) (a_sub a)))
      | GOk kv s2 => AF (ANext (mka s2 (a_plen a) (a_end a) (a_id a) (a_field a) kv (a_sub a)))
      end
  | A_addProp =>
      match g_add_prop E (a_p a) (dp (a_s a)) with
      | Some p' => AF (ANext (with_s a (with_pkt p' (a_s a))))
      | None => APanic
      end
  | A_get_sub =>
      match get_val Vb (VN 0) (a_s a) with
      | GPanic => APanic
      | GNo s2 => AF (ANext (mka s2 (a_plen a) (a_end a) (a_id a) (a_field a) (a_p a) 0))
      | GOk v s2 => AF (ANext (mka s2 (a_plen a) (a_end a) (a_id a) (a_field a) (a_p a) (valN v)))
      end
  | A_if_addSub body => match g_add_sub E with Some _ => aexec_list body a | None => AF (ANext a) end
  | A_call_addSub =>
      match g_add_sub E with
      | Some f => AF (ANext (with_s a (with_pkt (f (a_sub a) (dp (a_s a))) (a_s a))))
      | None => APanic
      end
  | A_set_err_unknown => AF (ANext (with_s a (with_err (EUnknownProp (a_id a)) (a_s a))))
  | A_unknown _ => APanic
  end.

Fixpoint aexec_list (E : genv) (l : list astmt) (a : ast) : ares :=
  match l with
  | [] => AF (ANext a)
  | st :: l' =>
    match aexec E st a with
    | AF (ANext a') => aexec_list E l' a'
    | r => r
    end
  end.

Definition run_getany (prog : list astmt) (E : genv) (s : dstate) : res :=
  match aexec_list E prog (mka s 0 0 0 None ([], []) 0) with
  | AF (ANext a) | AF (ARet a) | AF (ACont a) => Run (a_s a)
  | APanic => RPanic
  | AFuel => RFuel
  end.

Definition getany_prog : list astmt :=
  [A_if_atEnd_ret; A_get_propLen; A_def_end; A_var_id;
   A_for_lt_end
     [A_get_id; A_if_err_ret; A_lookup_field;
      A_if_hasField [A_get_field; A_continue];
      A_switch_id [(UserProperty, [A_get_userprop; A_addProp]);
                   (SubscriptionID, [A_get_sub; A_if_addSub [A_call_addSub]])]
                  [A_set_err_unknown]]].
