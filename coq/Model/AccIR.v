(* Accessors as data: what each one-line accessor of the packet types returns,
   as regenerated from the source by tools/gosync (gen/GenAcc.v, compared with
   acc_table in gen/SyncAcc.v), and Api.snapshot - the observation function in
   which the theorems of C01-C03, C12, C16 state "every accessor returns ..." -
   as that table read in a fixed order (Proofs/AccP.v).  Definitions only. *)
From MQ Require Import Model.Bytes Model.Wire Model.Packet Model.Codec Model.Api.
From Coq Require Import List NArith ZArith String.
Import ListNotations.
Open Scope N_scope.

Inductive aconv := ToN | ToB | ToS.   (* result read as a number, a bool, a byte string *)

Inductive aexp :=
| AField (f : fld) (c : aconv)     (* return T(p.f)  /  return p.f      *)
| AHas (f : fld) (mask : N)        (* return p.f.Has(mask)              *)
| ARcodes                          (* return p.reasonCodes              *)
| AWill.                           (* return p.will                     *)

Definition eval_aexp (a : aexp) (p : pkt) : obs :=
  match a with
  | AField f ToN => ON (getN (M f) p)
  | AField f ToB => OB (getB (M f) p)
  | AField f ToS => OS (getS (M f) p)
  | AHas f mask => OB (has (getN (M f) p) mask)
  | ARcodes => OL (map ON (rcodes p))
  | AWill => if hasWill p then OL (snap_publish (will_pkt p)) else OL []
  end.

(* the table the model expects ("Type.Name") *)
Definition acc_table : list (string * aexp) :=
  [("Auth.AuthData"%string, AField F_authData ToS);
   ("Auth.AuthMethod"%string, AField F_authMethod ToS);
   ("Auth.ReasonCode"%string, AField F_reasonCode ToN);
   ("Auth.ReasonString"%string, AField F_reasonString ToS);
   ("ConnAck.AssignedClientID"%string, AField F_assignedClientID ToS);
   ("ConnAck.AuthData"%string, AField F_authData ToS);
   ("ConnAck.AuthMethod"%string, AField F_authMethod ToS);
   ("ConnAck.MaxPacketSize"%string, AField F_maxPacketSize ToN);
   ("ConnAck.MaxQoS"%string, AField F_maxQoS ToN);
   ("ConnAck.ReasonCode"%string, AField F_reasonCode ToN);
   ("ConnAck.ReasonString"%string, AField F_reasonString ToS);
   ("ConnAck.ReceiveMax"%string, AField F_receiveMax ToN);
   ("ConnAck.ResponseInformation"%string, AField F_responseInformation ToS);
   ("ConnAck.RetainAvailable"%string, AField F_retainAvailable ToB);
   ("ConnAck.ServerKeepAlive"%string, AField F_serverKeepAlive ToN);
   ("ConnAck.ServerReference"%string, AField F_serverReference ToS);
   ("ConnAck.SessionExpiryInterval"%string, AField F_sessionExpiryInterval ToN);
   ("ConnAck.SessionPresent"%string, AHas F_flags 1);
   ("ConnAck.SharedSubAvailable"%string, AField F_sharedSubAvailable ToB);
   ("ConnAck.SubIdentifiersAvailable"%string, AField F_subIdentifiersAvailable ToB);
   ("ConnAck.TopicAliasMax"%string, AField F_topicAliasMax ToN);
   ("ConnAck.WildcardSubAvailable"%string, AField F_wildcardSubAvailable ToB);
   ("Connect.AuthData"%string, AField F_authData ToS);
   ("Connect.AuthMethod"%string, AField F_authMethod ToS);
   ("Connect.CleanStart"%string, AHas F_flags 2);
   ("Connect.ClientID"%string, AField F_clientID ToS);
   ("Connect.KeepAlive"%string, AField F_keepAlive ToN);
   ("Connect.MaxPacketSize"%string, AField F_maxPacketSize ToN);
   ("Connect.Password"%string, AField F_password ToS);
   ("Connect.ProtocolName"%string, AField F_protocolName ToS);
   ("Connect.ProtocolVersion"%string, AField F_protocolVersion ToN);
   ("Connect.ReceiveMax"%string, AField F_receiveMax ToN);
   ("Connect.RequestProblemInfo"%string, AField F_requestProblemInfo ToB);
   ("Connect.RequestResponseInfo"%string, AField F_requestResponseInfo ToB);
   ("Connect.SessionExpiryInterval"%string, AField F_sessionExpiryInterval ToN);
   ("Connect.TopicAliasMax"%string, AField F_topicAliasMax ToN);
   ("Connect.Username"%string, AField F_username ToS);
   ("Connect.Will"%string, AWill);
   ("Connect.WillDelayInterval"%string, AField F_willDelayInterval ToN);
   ("Disconnect.ReasonCode"%string, AField F_reasonCode ToN);
   ("Disconnect.ReasonString"%string, AField F_reasonString ToS);
   ("Disconnect.ServerReference"%string, AField F_serverReference ToS);
   ("Disconnect.SessionExpiryInterval"%string, AField F_sessionExpiryInterval ToN);
   ("PubAck.PacketID"%string, AField F_packetID ToN);
   ("PubAck.ReasonCode"%string, AField F_reasonCode ToN);
   ("PubAck.ReasonString"%string, AField F_reasonString ToS);
   ("PubComp.PacketID"%string, AField F_packetID ToN);
   ("PubComp.ReasonCode"%string, AField F_reasonCode ToN);
   ("PubComp.ReasonString"%string, AField F_reasonString ToS);
   ("PubRec.PacketID"%string, AField F_packetID ToN);
   ("PubRec.ReasonCode"%string, AField F_reasonCode ToN);
   ("PubRec.ReasonString"%string, AField F_reasonString ToS);
   ("PubRel.PacketID"%string, AField F_packetID ToN);
   ("PubRel.ReasonCode"%string, AField F_reasonCode ToN);
   ("PubRel.ReasonString"%string, AField F_reasonString ToS);
   ("Publish.ContentType"%string, AField F_contentType ToS);
   ("Publish.CorrelationData"%string, AField F_correlationData ToS);
   ("Publish.Duplicate"%string, AHas F_fixed 8);
   ("Publish.MessageExpiryInterval"%string, AField F_messageExpiryInterval ToN);
   ("Publish.PacketID"%string, AField F_packetID ToN);
   ("Publish.Payload"%string, AField F_payload ToS);
   ("Publish.PayloadFormat"%string, AField F_payloadFormat ToB);
   ("Publish.ResponseTopic"%string, AField F_responseTopic ToS);
   ("Publish.Retain"%string, AHas F_fixed 1);
   ("Publish.TopicAlias"%string, AField F_topicAlias ToN);
   ("Publish.TopicName"%string, AField F_topicName ToS);
   ("SubAck.PacketID"%string, AField F_packetID ToN);
   ("SubAck.ReasonCodes"%string, ARcodes);
   ("SubAck.ReasonString"%string, AField F_reasonString ToS);
   ("Subscribe.PacketID"%string, AField F_packetID ToN);
   ("Undefined.Data"%string, AField F_data ToS);
   ("UnsubAck.PacketID"%string, AField F_packetID ToN);
   ("UnsubAck.ReasonCodes"%string, ARcodes);
   ("UnsubAck.ReasonString"%string, AField F_reasonString ToS);
   ("Unsubscribe.PacketID"%string, AField F_packetID ToN)].

Fixpoint lookup_acc (t : list (string * aexp)) (name : string) : option aexp :=
  match t with
  | [] => None
  | (n, a) :: t' => if String.eqb n name then Some a else lookup_acc t' name
  end.

(* accessors outside the idioms, by their hand-written meaning (Api.v) *)
Definition eval_custom (name : string) (p : pkt) : obs :=
  (if String.eqb name "Connect.HasFlag" then ON (getN (M F_flags) p)
   else if String.eqb name "ConnAck.HasFlag" then ON (getN (M F_flags) p)
   else if String.eqb name "Publish.QoS" then ON (qos_of_fixed (getN (M F_fixed) p))
   else if String.eqb name "Publish.SubscriptionIDs" then OL (map ON (subids p))
   else if String.eqb name "Subscribe.SubscriptionID" then OZ (subid_int (subid p))
   else if String.eqb name "Subscribe.Filters" then OL (map (fun f => OL [OS (fst f); ON (snd f)]) (filters p))
   else if String.eqb name "Unsubscribe.Filters" then OL (map OS (ufilters p))
   else if String.eqb name "UserProperties" then oprops (uprops p)
   else OL [])%string.

Definition eval_named (name : string) (p : pkt) : obs :=
  match lookup_acc acc_table name with
  | Some a => eval_aexp a p
  | None => eval_custom name p
  end.

(* the order in which snapshot lists the accessors of each type *)
Definition ack_names (t : string) : list string :=
  [t ++ ".PacketID"; t ++ ".ReasonCode"; t ++ ".ReasonString"; "UserProperties"]%string.
Definition suback_names (t : string) : list string :=
  [t ++ ".PacketID"; t ++ ".ReasonString"; t ++ ".ReasonCodes"; "UserProperties"]%string.

Definition snapshot_names (k : kind) : list string :=
  match k with
  | KConnect =>
    ["Connect.HasFlag"; "Connect.CleanStart"; "Connect.ProtocolVersion"; "Connect.ProtocolName";
     "Connect.ClientID"; "Connect.KeepAlive"; "Connect.SessionExpiryInterval"; "Connect.ReceiveMax";
     "Connect.MaxPacketSize"; "Connect.TopicAliasMax"; "Connect.RequestResponseInfo";
     "Connect.RequestProblemInfo"; "Connect.AuthMethod"; "Connect.AuthData"; "Connect.Username";
     "Connect.Password"; "Connect.WillDelayInterval"; "UserProperties"; "Connect.Will"]
  | KConnAck =>
    ["ConnAck.HasFlag"; "ConnAck.SessionPresent"; "ConnAck.SessionExpiryInterval"; "ConnAck.ReceiveMax";
     "ConnAck.MaxQoS"; "ConnAck.RetainAvailable"; "ConnAck.MaxPacketSize"; "ConnAck.AssignedClientID";
     "ConnAck.TopicAliasMax"; "ConnAck.ReasonCode"; "ConnAck.ReasonString"; "ConnAck.WildcardSubAvailable";
     "ConnAck.SubIdentifiersAvailable"; "ConnAck.SharedSubAvailable"; "ConnAck.ServerKeepAlive";
     "ConnAck.ResponseInformation"; "ConnAck.ServerReference"; "ConnAck.AuthMethod"; "ConnAck.AuthData";
     "UserProperties"]
  | KPublish =>
    ["Publish.Duplicate"; "Publish.Retain"; "Publish.QoS"; "Publish.TopicName"; "Publish.PacketID";
     "Publish.PayloadFormat"; "Publish.MessageExpiryInterval"; "Publish.TopicAlias"; "Publish.ResponseTopic";
     "Publish.CorrelationData"; "Publish.ContentType"; "Publish.Payload"; "Publish.SubscriptionIDs";
     "UserProperties"]
  | KPubAck => ack_names "PubAck" | KPubRec => ack_names "PubRec"
  | KPubRel => ack_names "PubRel" | KPubComp => ack_names "PubComp"
  | KSubscribe => ["Subscribe.PacketID"; "Subscribe.SubscriptionID"; "Subscribe.Filters"; "UserProperties"]
  | KSubAck => suback_names "SubAck" | KUnsubAck => suback_names "UnsubAck"
  | KUnsubscribe => ["Unsubscribe.PacketID"; "Unsubscribe.Filters"; "UserProperties"]
  | KPingReq | KPingResp => []
  | KDisconnect => ["Disconnect.ReasonCode"; "Disconnect.SessionExpiryInterval"; "Disconnect.ReasonString";
                    "Disconnect.ServerReference"; "UserProperties"]
  | KAuth => ["Auth.ReasonCode"; "Auth.ReasonString"; "Auth.AuthMethod"; "Auth.AuthData"; "UserProperties"]
  | KUndefined => ["Undefined.Data"]
  end%string.
