(* String() and dump() of every packet type as token lists: literal
   text of the format strings and the Go values handed to fmt. The
   final text is fmt applied token by token (done by the drivers and
   compared with the real output). Hand-written after the Go methods. *)
From MQ Require Export Model.Stream.
From Coq Require Import ZArith.
From Coq Require Import Strings.String.
From Coq Require Import List.
Import ListNotations.
Open Scope N_scope.

Definition lit (s : String.string) : list byte := String.list_byte_of_string s.

Inductive tok :=
| TLit (s : list byte)      (* literal text                                   *)
| TNum (n : N)              (* %v of an unsigned integer                      *)
| TInt (z : Z)              (* %v of an int                                   *)
| TBool (b : bool)          (* %v of a bool                                   *)
| TStr (s : list byte)      (* %s / %v of a string (or %s of a []byte)        *)
| TBytes (s : list byte)    (* %v of a []byte: [1 2 3]                        *)
| TQuoted (s : list byte)   (* %q of a string                                 *)
| TDuration (secs : N)      (* %s of time.Duration(n)*time.Second             *)
| TNums (l : list N).       (* %v of []uint32 / []uint8                       *)

Definition L (s : String.string) : tok := TLit (lit s).

(* ---------------- table driven renderings (strings) ---------------- *)

Definition type_name (nib : N) : String.string :=
  match nib with
  | 0 => "UNDEFINED" | 1 => "CONNECT" | 2 => "CONNACK" | 3 => "PUBLISH"
  | 4 => "PUBACK" | 5 => "PUBREC" | 6 => "PUBREL" | 7 => "PUBCOMP"
  | 8 => "SUBSCRIBE" | 9 => "SUBACK" | 10 => "UNSUBSCRIBE" | 11 => "UNSUBACK"
  | 12 => "PINGREQ" | 13 => "PINGRESP" | 14 => "DISCONNECT" | 15 => "AUTH"
  | _ => ""
  end%string.

Definition ch (c : String.string) : byte :=
  match lit c with b :: _ => b | [] => x00 end.

(* firstByte.String(): "TYPE d2-r" *)
Definition first_byte_string (fx : N) : list byte :=
  let f0 := if has fx DUP then ch "d" else ch "-" in
  let '(f1, f2) :=
    if has fx QoS3 then (ch "!", ch "!")
    else if has fx QoS1 then (ch "-", ch "1")
    else if has fx QoS2 then (ch "2", ch "-")
    else (ch "-", ch "-") in
  let f3 := if has fx RETAIN then ch "r" else ch "-" in
  lit (type_name (fx / 16)) ++ lit " " ++ [f0; f1; f2; f3].

Definition mark (c : N) (flag : N) (v : String.string) (cur : byte) : byte :=
  if has c flag then ch v else cur.

(* connectFlags.String() *)
Definition connect_flags_string (c : N) : list byte :=
  let d := ch "-" in
  let f3 := mark c (WillQoS1 + WillQoS2) "!" (mark c WillQoS2 "2" d) in
  let f4 := mark c (WillQoS1 + WillQoS2) "!" (mark c WillQoS1 "1" d) in
  [mark c UsernameFlag "u" d; mark c PasswordFlag "p" d; mark c WillRetain "r" d;
   f3; f4; mark c WillFlag "w" d; mark c CleanStart "s" d; mark c Reserved "!" d].

(* connAckFlags.String() *)
Definition connack_flags_string (c : N) : list byte :=
  let d := ch "-" in
  [mark c 128 "!" d; mark c 64 "!" d; mark c 32 "!" d; mark c 16 "!" d;
   mark c 8 "!" d; mark c 4 "!" d; mark c 2 "!" d; mark c 1 "s" d].

(* TopicFilter.String(): "<filter> <8 flags>" *)
Definition filter_options_string (o : N) : list byte :=
  let d := ch "-" in
  let f7 := if has o 3 then ch "!" else mark o 1 "1" d in
  let f6 := if has o 3 then ch "!" else mark o 2 "2" d in
  let f5 := if has o 4 then ch "n" else d in
  let f4 := if has o 8 then ch "p" else d in
  let '(f3, f2) :=
    if has o 48 then (ch "!", ch "!")
    else if has o 32 then (ch "2", ch "r")
    else if has o 16 then (ch "1", ch "r")
    else (ch "0", ch "r") in
  [mark o 128 "!" d; mark o 64 "!" d; f2; f3; f4; f5; f6; f7].

Definition filter_string (f : list byte * N) : list byte :=
  fst f ++ lit " " ++ filter_options_string (snd f).

(* ReasonCode.String() (stringer): name or "ReasonCode(n)" *)
Definition reason_name (c : N) : option String.string :=
  match c with
  | 0 => Some "Success" | 1 => Some "GrantedQoS1" | 2 => Some "GrantedQoS2"
  | 4 => Some "DisconnectWithWill" | 16 => Some "NoMatchingSubscribers"
  | 17 => Some "NoSubscriptionExisted" | 24 => Some "ContinueAuth"
  | 25 => Some "ReAuthenticate" | 128 => Some "UnspecifiedError"
  | 129 => Some "MalformedPacket" | 130 => Some "ProtocolError"
  | 131 => Some "ImplementationSpecificError" | 132 => Some "UnsupportedProtocolVersion"
  | 133 => Some "ClientIdentifierNotValid" | 134 => Some "BadUserNameOrPassword"
  | 135 => Some "NotAuthorized" | 136 => Some "ServerUnavailable" | 137 => Some "ServerBusy"
  | 138 => Some "Banned" | 139 => Some "ServerShuttingDown"
  | 140 => Some "BadAuthenticationMethod" | 141 => Some "KeepAliveTimeout"
  | 142 => Some "SessionTakenOver" | 143 => Some "TopicFilterInvalid"
  | 144 => Some "TopicNameInvalid" | 145 => Some "PacketIdentifierInUse"
  | 146 => Some "PacketIdentifierNotFound" | 147 => Some "ReceiveMaximumExceeded"
  | 148 => Some "TopicAliasInvalid" | 149 => Some "PacketTooLarge"
  | 150 => Some "MessageRateToHigh" | 151 => Some "QuotaExceeded"
  | 152 => Some "AdministrativeAction" | 153 => Some "PayloadFormatInvalid"
  | 154 => Some "RetainNotSupported" | 155 => Some "QoSNotSupported"
  | 156 => Some "UseAnotherServer" | 157 => Some "ServerMoved"
  | 158 => Some "SharedSubscriptionsNotSupported" | 159 => Some "ConnectionRateExceeded"
  | 160 => Some "MaximumConnectTime" | 161 => Some "SubscriptionIdentifiersNotSupported"
  | 162 => Some "WildcardSubscriptionsNotSupported"
  | _ => None
  end%string.

Definition reason_toks (c : N) : list tok :=
  match reason_name c with
  | Some s => [L s]
  | None => [L "ReasonCode("; TNum c; L ")"]
  end.

(* stars(n) *)
Definition stars (n : nat) : list byte :=
  match n with O => [] | _ => lit "*********" end.

(* ---------------- String() ---------------- *)

Definition size_toks (k : kind) (p : pkt) : option (list tok) :=
  match encode_pkt k p with
  | Some bs => Some [TNum (len bs); L " bytes"]
  | None => None                     (* the dry run panics (nil will) *)
  end.

Definition wf_text (e : wferr) : String.string :=
  match e with
  | WFTopicEmpty => "empty topic name" | WFPacketID => "empty packet ID"
  | WFQoS => "invalid QoS" | WFNoFilters => "no filters" | WFSubID => "too large sub ID"
  | WFFilterEmpty => "empty filter" | WFFilterQoS => "invalid QoS"
  end%string.

Definition with_form (k : kind) (p : pkt) (ts : list tok) : list tok :=
  match wellformed k p with
  | Some e => ts ++ [L ", malformed! "; L (wf_text e)]
  | None => ts
  end.

(* withReason; has_rs: the type has a ReasonString() method *)
Definition with_reason (has_rs : bool) (p : pkt) (ts : list tok) : list tok :=
  let c := getN (M F_reasonCode) p in
  if 128 <=? c then
    match (if has_rs then getS (M F_reasonString) p else []) with
    | [] => ts ++ [L " "] ++ reason_toks c ++ [L "!"]
    | r => ts ++ [L " "] ++ reason_toks c ++ [L "! "; TStr r]
    end
  else ts.

Definition fb (p : pkt) : tok := TStr (first_byte_string (getN (M F_fixed) p)).

Definition string_toks (k : kind) (p : pkt) : option (list tok) :=
  match k with
  | KUndefined => Some [fb p; L " "; TNum 0; L " bytes"]
  | _ =>
    match size_toks k p with
    | None => None
    | Some sz =>
      Some match k with
      | KConnect =>
          [fb p; L " "; TStr (connect_flags_string (getN (M F_flags) p)); L " ";
           TStr (getS (M F_protocolName) p); TNum (getN (M F_protocolVersion) p); L " ";
           TStr (getS (M F_clientID) p); L " "; TDuration (getN (M F_keepAlive) p); L " "] ++ sz
      | KConnAck =>
          with_reason true p
            ([fb p; L " "; TStr (connack_flags_string (getN (M F_flags) p)); L " ";
              TStr (getS (M F_assignedClientID) p); L " "] ++ sz)
      | KPublish =>
          with_form k p
            ([fb p; L " p"; TNum (getN (M F_packetID) p); L " "] ++
             (if 0 <? getN (M F_topicAlias) p
              then [L "topic:"; TNum (getN (M F_topicAlias) p)]
              else [TStr (getS (M F_topicName) p)]) ++
             (match getS (M F_correlationData) p with
              | [] => [TStr []]
              | c => [TStr (lit " " ++ c)] end) ++ [L " "] ++ sz)
      | KPubAck | KPubRel =>
          with_reason true p ([fb p; L " p"; TNum (getN (M F_packetID) p); L " "] ++ sz)
      | KPubRec | KPubComp =>
          [fb p; L " p"; TNum (getN (M F_packetID) p); L " "] ++
          reason_toks (getN (M F_reasonCode) p) ++
          [TStr (if (0 <? getN (M F_reasonCode) p)
                    && negb (match getS (M F_reasonString) p with [] => true | _ => false end)
                 then lit " " ++ getS (M F_reasonString) p else []); L " "] ++ sz
      | KSubscribe =>
          with_form k p
            ([fb p; L " p"; TNum (getN (M F_packetID) p); L " ";
              TStr (match filters p with [] => [] | f :: _ => filter_string f end); L " "] ++ sz)
      | KSubAck | KUnsubAck =>
          [fb p; L " p"; TNum (getN (M F_packetID) p); L " "] ++ sz
      | KUnsubscribe =>
          [fb p; L " p"; TNum (getN (M F_packetID) p); L ", ";
           TStr (match ufilters p with [] => lit "no filters!" | f :: _ => f end); L ", "] ++ sz
      | KDisconnect => with_reason true p ([fb p; L " "] ++ sz)
      | _ => [fb p; L " "] ++ sz         (* AUTH, PINGREQ, PINGRESP *)
      end
    end
  end.

(* ---------------- dump() ---------------- *)

Fixpoint uprops_dump_from (i : N) (l : list (list byte * list byte)) : list tok :=
  match l with
  | [] => []
  | kv :: l' => [L "  "; TNum i; L ". "; TStr (fst kv); L ": "; TQuoted (snd kv); TLit [x0a]]
                ++ uprops_dump_from (i + 1) l'
  end.

Definition nl : tok := TLit [x0a].

Definition uprops_dump (l : list (list byte * list byte)) : list tok :=
  match l with
  | [] => []
  | _ => [L "UserProperties"; nl] ++ uprops_dump_from 0 l
  end.

Definition line (name : String.string) (t : tok) : list tok := [L name; L ": "; t; nl].

Definition publish_dump (p : pkt) : list tok :=
  let fx := getN (M F_fixed) p in
  line "ContentType" (TStr (getS (M F_contentType) p)) ++
  line "CorrelationData" (TBytes (getS (M F_correlationData) p)) ++
  line "Duplicate" (TBool (has fx DUP)) ++
  line "MessageExpiryInterval" (TNum (getN (M F_messageExpiryInterval) p)) ++
  line "PacketID" (TNum (getN (M F_packetID) p)) ++
  line "Payload" (TBytes (getS (M F_payload) p)) ++
  line "PayloadFormat" (TBool (getB (M F_payloadFormat) p)) ++
  line "QoS" (TNum (qos_of_fixed fx)) ++
  line "ResponseTopic" (TStr (getS (M F_responseTopic) p)) ++
  line "Retain" (TBool (has fx RETAIN)) ++
  line "SubscriptionIDs" (TNums (subids p)) ++
  line "TopicAlias" (TNum (getN (M F_topicAlias) p)) ++
  line "TopicName" (TStr (getS (M F_topicName) p)) ++
  uprops_dump (uprops p).

Fixpoint filters_dump_from (i : N) (l : list (list byte)) : list tok :=
  match l with
  | [] => []
  | f :: l' => [L "  "; TNum i; L ". "; TStr f; nl] ++ filters_dump_from (i + 1) l'
  end.

Definition reason_line (name : String.string) (p : pkt) : list tok :=
  [L name; L ": "] ++ reason_toks (getN (M F_reasonCode) p) ++ [nl].

Definition dump_toks (k : kind) (p : pkt) : list tok :=
  match k with
  | KConnect =>
    line "AuthData" (TBytes (getS (M F_authData) p)) ++
    line "AuthMethod" (TStr (getS (M F_authMethod) p)) ++
    line "CleanStart" (TBool (has (getN (M F_flags) p) CleanStart)) ++
    line "ClientID" (TStr (getS (M F_clientID) p)) ++
    line "KeepAlive" (TNum (getN (M F_keepAlive) p)) ++
    line "MaxPacketSize" (TNum (getN (M F_maxPacketSize) p)) ++
    line "Password" (TQuoted (stars (length (getS (M F_password) p)))) ++
    line "ProtocolName" (TStr (getS (M F_protocolName) p)) ++
    line "ProtocolVersion" (TNum (getN (M F_protocolVersion) p)) ++
    line "ReceiveMax" (TNum (getN (M F_receiveMax) p)) ++
    line "RequestProblemInfo" (TBool (getB (M F_requestProblemInfo) p)) ++
    line "RequestResponseInfo" (TBool (getB (M F_requestResponseInfo) p)) ++
    line "SessionExpiryInterval" (TNum (getN (M F_sessionExpiryInterval) p)) ++
    line "TopicAliasMax" (TNum (getN (M F_topicAliasMax) p)) ++
    line "Username" (TStr (stars (length (getS (M F_username) p)))) ++
    (if hasWill p then [L "Will"; nl] ++ publish_dump (will_pkt p) else []) ++
    uprops_dump (uprops p)
  | KConnAck =>
    line "AssignedClientID" (TQuoted (getS (M F_assignedClientID) p)) ++
    line "AuthData" (TQuoted (getS (M F_authData) p)) ++
    line "AuthMethod" (TQuoted (getS (M F_authMethod) p)) ++
    line "MaxPacketSize" (TNum (getN (M F_maxPacketSize) p)) ++
    line "MaxQoS" (TNum (getN (M F_maxQoS) p)) ++
    reason_line "ReasonCode" p ++
    line "ReasonString" (TQuoted (getS (M F_reasonString) p)) ++
    line "ReceiveMax" (TNum (getN (M F_receiveMax) p)) ++
    line "ResponseInformation" (TQuoted (getS (M F_responseInformation) p)) ++
    line "RetainAvailable" (TBool (getB (M F_retainAvailable) p)) ++
    line "ServerKeepAlive" (TNum (getN (M F_serverKeepAlive) p)) ++
    line "ServerReference" (TQuoted (getS (M F_serverReference) p)) ++
    line "SessionExpiryInterval" (TNum (getN (M F_sessionExpiryInterval) p)) ++
    line "SessionPresent" (TBool (has (getN (M F_flags) p) 1)) ++
    line "SharedSubAvailable" (TBool (getB (M F_sharedSubAvailable) p)) ++
    line "SubIdentifiersAvailable" (TBool (getB (M F_subIdentifiersAvailable) p)) ++
    line "TopicAliasMax" (TNum (getN (M F_topicAliasMax) p)) ++
    line "WildcardSubAvailable" (TBool (getB (M F_wildcardSubAvailable) p)) ++
    uprops_dump (uprops p)
  | KPublish => publish_dump p
  | KPubAck | KPubRel =>
    line "PacketID" (TNum (getN (M F_packetID) p)) ++
    line "ReasonString" (TStr (getS (M F_reasonString) p)) ++
    reason_line "ReasonCode" p ++ uprops_dump (uprops p)
  | KPubRec | KPubComp =>
    line "PacketID" (TNum (getN (M F_packetID) p)) ++
    line "Reason" (TStr (getS (M F_reasonString) p)) ++
    reason_line "ReasonCode" p ++ uprops_dump (uprops p)
  | KSubscribe =>
    line "PacketID" (TNum (getN (M F_packetID) p)) ++
    (match subid p with
     | None => []
     | Some _ => line "SubscriptionID" (TInt (subid_int (subid p)))
     end) ++
    (match filters p with
     | [] => []
     | _ => [L "Filters"; nl] ++ filters_dump_from 0 (map filter_string (filters p))
     end) ++
    uprops_dump (uprops p)
  | KSubAck | KUnsubAck =>
    line "PacketID" (TNum (getN (M F_packetID) p)) ++
    line "ReasonString" (TStr (getS (M F_reasonString) p)) ++
    line "ReasonCodes" (TNums (rcodes p)) ++ uprops_dump (uprops p)
  | KUnsubscribe =>
    line "PacketID" (TNum (getN (M F_packetID) p)) ++
    (match ufilters p with
     | [] => []
     | _ => [L "Filters"; nl] ++ filters_dump_from 0 (ufilters p)
     end) ++
    uprops_dump (uprops p)
  | KDisconnect => reason_line "ReasonCode" p ++ uprops_dump (uprops p)
  | KAuth =>
    line "AuthData" (TQuoted (getS (M F_authData) p)) ++
    line "AuthMethod" (TQuoted (getS (M F_authMethod) p)) ++
    reason_line "ReasonCode" p ++
    line "ReasonString" (TQuoted (getS (M F_reasonString) p)) ++
    uprops_dump (uprops p)
  | KPingReq | KPingResp | KUndefined => []
  end.
