(* Setters as data: the idioms of the one-line setters of the packet types,
   regenerated from the source by tools/gosync (gen/GenApi.v) and compared
   with Api.step, field by field, in gen/SyncApi.v. *)
From MQ Require Import Model.Bytes Model.Wire Model.Packet Model.Api.
From Coq Require Import List NArith.
Import ListNotations.
Open Scope N_scope.

Inductive saction :=
| SSet (f : fld)                                   (* p.f = T(v)   /   p.f = v             *)
| SToggleArg (f : fld) (mask : N)                  (* p.f.toggle(mask, v)                  *)
| SToggleNonEmpty (f : fld) (mask : N) (src : fld) (* p.f.toggle(mask, len(p.src) > 0)     *)
| SNilIfEmptyArg (f : fld).                        (* if len(v) == 0 { p.f = nil }         *)

Definition run_saction (a : saction) (v : value) (p : pkt) : pkt :=
  match a with
  | SSet f => setf (M f) v p
  | SToggleArg f mask => toggleF f mask (valB v) p
  | SToggleNonEmpty f mask src =>
      toggleF f mask (match getS (M src) p with [] => false | _ => true end) p
  | SNilIfEmptyArg f => match valS v with [] => setf (M f) (VS []) p | _ => p end
  end.

Definition run_sactions (l : list saction) (v : value) (p : pkt) : pkt :=
  fold_left (fun q a => run_saction a v q) l p.

(* two packets with the same content (packets hold functions, so this is
   the equality that can be stated without an axiom) *)
Definition pkt_eq (p q : pkt) : Prop :=
  (forall f, vals p f = vals q f) /\ (forall f, wvals p f = wvals q f) /\ hasWill p = hasWill q
  /\ uprops p = uprops q /\ wuprops p = wuprops q /\ subids p = subids q /\ wsubids p = wsubids q
  /\ subid p = subid q /\ filters p = filters q /\ ufilters p = ufilters q /\ rcodes p = rcodes q.

Ltac sync_setter :=
  intros; unfold pkt_eq, run_sactions; cbn [fold_left run_saction step];
  try match goal with s : list byte |- _ => destruct s end;
  repeat split; intros; try reflexivity;
  match goal with f : fld |- _ => destruct f; reflexivity end.
