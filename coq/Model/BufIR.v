(* buffer.get - the guarded reader every decoder goes through - as a
   statement list.

   tools/gosync (wire.go) translates the method statement by statement and
   regenerates it on every run (gen/GenBuf.v); gen/SyncBuf.v compares it with
   `get_prog` below, and Proofs/BufIRP.v shows that running it - for every
   wire decoder `dc`, width function `wd` and reader state - is
   Codec.get_with, the function the decoder interpreter and all theorems
   about the guarded reader (C04, C05, C09, C14) are built on.  The call
   v.UnmarshalBinary(b.data[b.i:]) is run as `dc` on the rest of the data
   (for the nine wire types that is the decoder proved equal to its own
   regenerated statement list, Proofs/WireDecIRP.v); v.width() as `wd` of the
   value v holds after the decode.  None = run-time panic.  Definitions only. *)
From MQ Require Export Model.WireDecIR.
From Coq Require Import String.
Local Open Scope string_scope.
Local Open Scope nat_scope.

Inductive gc :=
| GC_err              (* b.err != nil *)
| GC_i_ge_len         (* b.i >= len(b.data) *)
| GC_i_gt_len.        (* b.i > len(b.data) *)

Inductive gs :=
| G_if (c : gc) (body : list gs)
| G_if_unmarshal_err (body : list gs)  (* if b.err = v.UnmarshalBinary(b.data[b.i:]); b.err != nil { body } *)
| G_ret
| G_set_err_missing                    (* b.err = ErrMissingData *)
| G_adv_width                          (* b.i += v.width() *)
| G_set_i_len                          (* b.i = len(b.data) *)
| G_unknown (text : string).

Section Get.
Context {A : Type} (dc : list byte -> outcome A) (wd : A -> nat).

(* the reader, and the value v holds once UnmarshalBinary has succeeded *)
Definition gst : Type := dstate * option A.
Inductive gflow := GNext (s : gst) | GRet (s : gst).

Definition ev_gc (s : gst) (c : gc) : bool :=
  match c with
  | GC_err => match derr (fst s) with Some _ => true | None => false end
  | GC_i_ge_len => Nat.leb (List.length (ddata (fst s))) (dpos (fst s))
  | GC_i_gt_len => Nat.ltb (List.length (ddata (fst s))) (dpos (fst s))
  end.

Definition clear_err (s : dstate) : dstate :=
  {| dp := dp s; ddata := ddata s; dpos := dpos s; derr := None; dsteps := dsteps s |}.

Fixpoint gexec (st : gs) (s : gst) {struct st} : option gflow :=
  let gexec_list := fix gexec_list (l : list gs) (s : gst) : option gflow :=
    match l with
    | [] => Some (GNext s)
    | st' :: l' =>
      match gexec st' s with
      | Some (GNext s') => gexec_list l' s'
      | r => r
      end
    end in
  match st with
  | G_if c body => if ev_gc s c then gexec_list body s else Some (GNext s)
  | G_if_unmarshal_err body =>
      (* b.data[b.i:] panics when b.i > len(b.data) *)
      if Nat.ltb (List.length (ddata (fst s))) (dpos (fst s)) then None
      else match dc (skipn (dpos (fst s)) (ddata (fst s))) with
           | Panic => None
           | Err e => gexec_list body (with_err e (fst s), snd s)
           | Ok v => Some (GNext (clear_err (fst s), Some v))
           end
  | G_ret => Some (GRet s)
  | G_set_err_missing => Some (GNext (with_err EMissingData (fst s), snd s))
  | G_adv_width =>
      match snd s with
      | Some v => Some (GNext (advance (wd v) (fst s), snd s))
      | None => None
      end
  | G_set_i_len => Some (GNext (set_pos (List.length (ddata (fst s))) (fst s), snd s))
  | G_unknown _ => None
  end.

Fixpoint gexec_list (l : list gs) (s : gst) : option gflow :=
  match l with
  | [] => Some (GNext s)
  | st :: l' =>
    match gexec st s with
    | Some (GNext s') => gexec_list l' s'
    | r => r
    end
  end.

(* one call of b.get(v): counted (Codec.tick), then the statements *)
Definition run_get (prog : list gs) (s0 : dstate) : gres A :=
  match gexec_list prog (tick s0, None) with
  | Some (GNext (s, Some v)) | Some (GRet (s, Some v)) => GOk v s
  | Some (GNext (s, None)) | Some (GRet (s, None)) => GNo s
  | None => GPanic
  end.
End Get.

Definition get_prog : list gs :=
  [G_if GC_err [G_ret];
   G_if GC_i_ge_len [G_set_err_missing; G_ret];
   G_if_unmarshal_err [G_ret];
   G_adv_width;
   G_if GC_i_gt_len [G_set_i_len; G_set_err_missing]].
