(* WellFormed() as data: the statements of Publish.WellFormed,
   Subscribe.WellFormed and TopicFilter.WellFormed (regenerated from the source
   by tools/gosync, gen/GenWf.v, compared with the lists below in
   gen/SyncWf.v) and their interpretation.  Proofs/WfIRP.v shows that the
   interpretation is Api.wf_publish / wf_subscribe / wf_filter, the functions
   the theorems of C17 are about.  Definitions only. *)
From MQ Require Import Model.Bytes Model.Wire Model.Packet Model.Codec Model.Api.
From Coq Require Import List NArith String.
Import ListNotations.

Inductive wcond :=
| WLenZero (f : fld)        (* len(p.f) == 0                                  *)
| WIsZero (f : fld)         (* p.f == 0                                       *)
| WAnd (a b : wcond)
| WNoFilters                (* len(p.filters) == 0                            *)
| WSubIDGt (n : N)          (* v := p.subscriptionID; v != nil && *v > n      *)
| WFilterEmpty              (* len(c.filter) == 0            (TopicFilter)    *)
| WFilterHas (mask : N).    (* c.options.Has(byte(mask))     (TopicFilter)    *)

Inductive wsimple :=
| WIf (c : wcond) (ref reason : string)   (* if c { return newMalformed(p, ref, reason) } *)
| WRet (ref reason : string).             (* return newMalformed(p, ref, reason)          *)

Inductive wstmt :=
| WS (s : wsimple)
| WSwitchQoS (cases : list (list N * list wsimple))   (* switch p.QoS() { case v, ...: ... } (no default) *)
| WRangeFilters      (* for _, f := range p.filters { if err := f.WellFormed(); err != nil { return err } } *)
| WUnknown (src : string).

(* what a condition is evaluated on: the packet, and - inside TopicFilter - the filter *)
Fixpoint eval_wcond (c : wcond) (p : pkt) (f : list byte * N) : bool :=
  match c with
  | WLenZero g => match getS (M g) p with [] => true | _ => false end
  | WIsZero g => (getN (M g) p =? 0)%N
  | WAnd a b => eval_wcond a p f && eval_wcond b p f
  | WNoFilters => match filters p with [] => true | _ => false end
  | WSubIDGt n => match subid p with Some v => (n <? v)%N | None => false end
  | WFilterEmpty => match fst f with [] => true | _ => false end
  | WFilterHas mask => has (snd f) mask
  end.

(* the (ref, reason) a WellFormed error carries; None = fall through *)
Definition run_wsimple (s : wsimple) (p : pkt) (f : list byte * N) : option (string * string) :=
  match s with
  | WIf c ref reason => if eval_wcond c p f then Some (ref, reason) else None
  | WRet ref reason => Some (ref, reason)
  end.

Fixpoint run_wsimples (l : list wsimple) (p : pkt) (f : list byte * N) : option (string * string) :=
  match l with
  | [] => None
  | s :: l' => match run_wsimple s p f with Some e => Some e | None => run_wsimples l' p f end
  end.

Fixpoint pick_case (q : N) (cases : list (list N * list wsimple)) : list wsimple :=
  match cases with
  | [] => []
  | (vals, body) :: cs => if existsb (N.eqb q) vals then body else pick_case q cs
  end.

(* TopicFilter.WellFormed: simple statements only *)
Fixpoint run_filter_prog (prog : list wstmt) (f : list byte * N) : option (string * string) :=
  match prog with
  | [] => None
  | WS s :: rest =>
      match run_wsimple s zero_pkt f with Some e => Some e | None => run_filter_prog rest f end
  | _ :: rest => Some ("?"%string, "?"%string)
  end.

Fixpoint first_filter_error (fprog : list wstmt) (l : list (list byte * N)) : option (string * string) :=
  match l with
  | [] => None
  | f :: l' => match run_filter_prog fprog f with Some e => Some e | None => first_filter_error fprog l' end
  end.

Fixpoint run_wf (fprog prog : list wstmt) (p : pkt) : option (string * string) :=
  match prog with
  | [] => None                                   (* return nil *)
  | st :: rest =>
      match (match st with
             | WS s => run_wsimple s p ([], 0%N)
             | WSwitchQoS cases =>
                 run_wsimples (pick_case (qos_of_fixed (getN (M F_fixed) p)) cases) p ([], 0%N)
             | WRangeFilters => first_filter_error fprog (filters p)
             | WUnknown _ => Some ("?"%string, "?"%string)
             end) with
      | Some e => Some e
      | None => run_wf fprog rest p
      end
  end.

(* the statement lists the model expects *)
Definition wf_publish_ir : list wstmt :=
  [WS (WIf (WAnd (WLenZero F_topicName) (WIsZero F_topicAlias)) "topic name" "empty");
   WSwitchQoS [([1%N; 2%N], [WIf (WIsZero F_packetID) "packet ID" "empty"]); ([3%N], [WRet "QoS" "invalid"])]]%string.
Definition wf_subscribe_ir : list wstmt :=
  [WS (WIf WNoFilters "filters" "no");
   WS (WIf (WSubIDGt 268435455) "sub ID" "too large");
   WRangeFilters]%string.
Definition wf_filter_ir : list wstmt :=
  [WS (WIf WFilterEmpty "filter" "empty");
   WS (WIf (WFilterHas 3) "QoS" "invalid")]%string.

(* (ref, reason) of the model's error values: newMalformed(p, ref, reason) *)
Definition wferr_pair (e : wferr) : string * string :=
  match e with
  | WFTopicEmpty => ("topic name", "empty") | WFPacketID => ("packet ID", "empty")
  | WFQoS => ("QoS", "invalid") | WFNoFilters => ("filters", "no") | WFSubID => ("sub ID", "too large")
  | WFFilterEmpty => ("filter", "empty") | WFFilterQoS => ("QoS", "invalid")
  end%string.
