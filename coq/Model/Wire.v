(* Wire types of wiretypes.go: bits/wuint8, wuint16, wuint32, wbool,
   bindata (= wstring), rawdata, vbint, UserProp, Ident.
   Hand-written after the Go source, function by function; tied to it by
   the correspondence check (hooks VerifWireDecode / VerifWireFill /
   VerifVbint...). Definitions only. *)
From MQ Require Export Model.Bytes.

(* ------------------------------------------------------------------ *)
(* Errors are classes, not messages.                                   *)
Inductive err :=
| EMissingData        (* *Malformed "missing data" and ErrMissingData   *)
| ESizeExceeded       (* vbint: more than four bytes                    *)
| EMalformedBool      (* wbool: value other than 0/1                    *)
| EUnknownProp (id : N)
| EEOF                (* io.EOF                                         *)
| EUnexpectedEOF      (* io.ErrUnexpectedEOF                            *)
| EReader (tag : N)   (* an error value injected by the reader/writer   *)
| ECannotWrite.       (* Undefined.WriteTo                              *)

Definition err_eqb (a b : err) : bool :=
  match a, b with
  | EMissingData, EMissingData | ESizeExceeded, ESizeExceeded
  | EMalformedBool, EMalformedBool | EEOF, EEOF
  | EUnexpectedEOF, EUnexpectedEOF | ECannotWrite, ECannotWrite => true
  | EUnknownProp x, EUnknownProp y => x =? y
  | EReader x, EReader y => x =? y
  | _, _ => false
  end.

(* Result of a Go function that may return an error or panic.  Nothing
   is totalised with defaults: an out-of-range index or slice is Panic. *)
Inductive outcome (A : Type) := Ok (a : A) | Err (e : err) | Panic.
Arguments Ok {A} a. Arguments Err {A} e. Arguments Panic {A}.

(* ------------------------------------------------------------------ *)
(* Wire type tags and neutral values.                                   *)
Inductive wt := U8 | U16 | U32 | WBool | Bin | Raw | Vb.

Inductive value := VN (n : N) | VB (b : bool) | VS (s : list byte).

Definition valN (v : value) : N := match v with VN n => n | VB true => 1 | _ => 0 end.
Definition valB (v : value) : bool := match v with VB b => b | VN n => negb (n =? 0) | _ => false end.
Definition valS (v : value) : list byte := match v with VS s => s | _ => [] end.

Definition zero_of (w : wt) : value :=
  match w with WBool => VB false | Bin | Raw => VS [] | _ => VN 0 end.

(* is this the type's zero value, i.e. would fillProp omit it? *)
Definition is_zero (w : wt) (v : value) : bool :=
  match w with
  | WBool => negb (valB v)
  | Bin | Raw => match valS v with [] => true | _ => false end
  | _ => valN v =? 0
  end.

(* ------------------------------------------------------------------ *)
(* Encoders.  The Go fill methods write at a position into a buffer that
   the caller sized by a dry run; here an encoder returns the bytes it
   contributes, and width = length (see DESIGN.md: the positional /
   capacity-guarded writes are covered by the correspondence check). *)

Definition enc_u8 (n : N) : list byte := [n2b n].
Definition enc_u16 (n : N) : list byte := [n2b (n / 256); n2b n].
Definition enc_u32 (n : N) : list byte :=
  [n2b (n / 16777216); n2b (n / 65536); n2b (n / 256); n2b n].
Definition enc_bool (b : bool) : list byte := [if b then x01 else x00].
(* bindata.fill: wuint16(len(v)) truncates the length to 16 bits *)
Definition enc_bin (s : list byte) : list byte := enc_u16 (len s mod 65536) ++ s.
Definition enc_raw (s : list byte) : list byte := s.

(* vbint.fill: x%128, x/128, continuation bit while x > 0.  vbint is a
   64-bit uint, so ten groups always suffice; the loop runs on fuel 10. *)
Fixpoint vb_enc_loop (fuel : nat) (x : N) : list byte :=
  match fuel with
  | O => []
  | S f =>
    let b := x mod 128 in
    let x' := x / 128 in
    if 0 <? x' then n2b (b + 128) :: vb_enc_loop f x' else [n2b b]
  end.
Definition enc_vb (n : N) : list byte := vb_enc_loop 10 n.

Definition encode (w : wt) (v : value) : list byte :=
  match w with
  | U8 => enc_u8 (valN v)
  | U16 => enc_u16 (valN v)
  | U32 => enc_u32 (valN v)
  | WBool => enc_bool (valB v)
  | Bin => enc_bin (valS v)
  | Raw => enc_raw (valS v)
  | Vb => enc_vb (valN v)
  end.

(* fillProp: nothing for the zero value, else identifier byte then value *)
Definition enc_prop (w : wt) (id : N) (v : value) : list byte :=
  if is_zero w v then [] else n2b id :: encode w v.

(* UserProp.fillProp: omitted when the key is empty *)
Definition enc_userprop (id : N) (kv : list byte * list byte) : list byte :=
  match fst kv with
  | [] => []
  | _ => n2b id :: enc_bin (fst kv) ++ enc_bin (snd kv)
  end.

(* ------------------------------------------------------------------ *)
(* Decoders: UnmarshalBinary on data = b.data[b.i:].                    *)

Definition dec_u8 (d : list byte) : outcome N :=
  match d with [] => Panic | b :: _ => Ok (b2n b) end.

Definition dec_u16 (d : list byte) : outcome N :=
  match d with
  | b1 :: b2 :: _ => Ok (b2n b1 * 256 + b2n b2)
  | _ => Err EMissingData
  end.

Definition dec_u32 (d : list byte) : outcome N :=
  match d with
  | b1 :: b2 :: b3 :: b4 :: _ =>
      Ok (b2n b1 * 16777216 + b2n b2 * 65536 + b2n b3 * 256 + b2n b4)
  | _ => Err EMissingData
  end.

Definition dec_bool (d : list byte) : outcome bool :=
  match d with
  | [] => Panic
  | b :: _ => if b2n b =? 0 then Ok false
              else if b2n b =? 1 then Ok true else Err EMalformedBool
  end.

(* bindata.UnmarshalBinary: the error of the length decoder is dropped
   (length stays 0); a zero length leaves the destination unchanged. *)
Definition dec_bin (old : list byte) (d : list byte) : outcome (list byte) :=
  let l := match dec_u16 d with Ok n => n | _ => 0 end in
  if len d <? l + 2 then Err EMissingData
  else if l =? 0 then Ok old
  else match slice d 2 (N.to_nat l + 2) with
       | Some s => Ok s
       | None => Panic
       end.

Definition dec_raw (d : list byte) : outcome (list byte) := Ok d.

(* vbint.UnmarshalBinary *)
Fixpoint vb_mem_loop (d : list byte) (mult value : N) : outcome N :=
  match d with
  | [] => Err EMissingData
  | b :: d' =>
    let value' := value + (b2n b mod 128) * mult in
    if 128 * 128 * 128 <? mult then Err ESizeExceeded
    else if b2n b <? 128 then Ok value'
    else vb_mem_loop d' (mult * 128) value'
  end.
Definition dec_vb (d : list byte) : outcome N :=
  match d with [] => Err EMissingData | _ => vb_mem_loop d 1 0 end.

Definition decode (w : wt) (old : value) (d : list byte) : outcome value :=
  match w with
  | U8 => match dec_u8 d with Ok n => Ok (VN n) | Err e => Err e | Panic => Panic end
  | U16 => match dec_u16 d with Ok n => Ok (VN n) | Err e => Err e | Panic => Panic end
  | U32 => match dec_u32 d with Ok n => Ok (VN n) | Err e => Err e | Panic => Panic end
  | WBool => match dec_bool d with Ok b => Ok (VB b) | Err e => Err e | Panic => Panic end
  | Bin => match dec_bin (valS old) d with Ok s => Ok (VS s) | Err e => Err e | Panic => Panic end
  | Raw => match dec_raw d with Ok s => Ok (VS s) | Err e => Err e | Panic => Panic end
  | Vb => match dec_vb d with Ok n => Ok (VN n) | Err e => Err e | Panic => Panic end
  end.

(* width(): recomputed from the decoded value, as buffer.get does *)
Definition width (w : wt) (v : value) : nat := length (encode w v).

(* UserProp.UnmarshalBinary *)
Definition dec_userprop (d : list byte) : outcome (list byte * list byte) :=
  match dec_bin [] d with
  | Ok k =>
    match slice d (length k + 2) (length d) with
    | None => Panic
    | Some d' =>
      match dec_bin [] d' with
      | Ok v => Ok (k, v)
      | Err e => Err e
      | Panic => Panic
      end
    end
  | Err e => Err e
  | Panic => Panic
  end.
Definition width_userprop (kv : list byte * list byte) : nat :=
  (2 + length (fst kv)) + (2 + length (snd kv)).

(* bits *)
Definition has (v mask : N) : bool := N.land v mask =? mask.
Definition toggle (v mask : N) (on : bool) : N :=
  if on then N.lor v mask else N.land v (N.lxor 255 (N.land mask 255)).
