(* dump() as data: the statements of every packet type's dump method as a
   list of items (regenerated from the source by tools/gosync, gen/GenDump.v,
   compared with dump_ir in gen/SyncDump.v) and their interpretation in terms
   of the accessor table of AccIR.v and of fmt's rendering of each result
   type.  Proofs/DumpP.v shows that this interpretation is Render.dump_toks,
   the function the theorems of C18 and C19 are about.  Definitions only. *)
From MQ Require Import Model.Bytes Model.Wire Model.Packet Model.Codec Model.Api Model.AccIR Model.Render.
From Coq Require Import List NArith ZArith String.
Import ListNotations.

(* Go result type of an accessor, as fmt sees it *)
Inductive rtype := RString | RBytes | RBool | RUint | RReason | RUints | RInt | ROther.

Definition acc_rtypes : list (string * rtype) :=
  [("Auth.AuthData"%string, RBytes);
   ("Auth.AuthMethod"%string, RString);
   ("Auth.ReasonCode"%string, RReason);
   ("Auth.ReasonString"%string, RString);
   ("ConnAck.AssignedClientID"%string, RString);
   ("ConnAck.AuthData"%string, RBytes);
   ("ConnAck.AuthMethod"%string, RString);
   ("ConnAck.MaxPacketSize"%string, RUint);
   ("ConnAck.MaxQoS"%string, RUint);
   ("ConnAck.ReasonCode"%string, RReason);
   ("ConnAck.ReasonString"%string, RString);
   ("ConnAck.ReceiveMax"%string, RUint);
   ("ConnAck.ResponseInformation"%string, RString);
   ("ConnAck.RetainAvailable"%string, RBool);
   ("ConnAck.ServerKeepAlive"%string, RUint);
   ("ConnAck.ServerReference"%string, RString);
   ("ConnAck.SessionExpiryInterval"%string, RUint);
   ("ConnAck.SessionPresent"%string, RBool);
   ("ConnAck.SharedSubAvailable"%string, RBool);
   ("ConnAck.SubIdentifiersAvailable"%string, RBool);
   ("ConnAck.TopicAliasMax"%string, RUint);
   ("ConnAck.WildcardSubAvailable"%string, RBool);
   ("Connect.AuthData"%string, RBytes);
   ("Connect.AuthMethod"%string, RString);
   ("Connect.CleanStart"%string, RBool);
   ("Connect.ClientID"%string, RString);
   ("Connect.KeepAlive"%string, RUint);
   ("Connect.MaxPacketSize"%string, RUint);
   ("Connect.Password"%string, RBytes);
   ("Connect.ProtocolName"%string, RString);
   ("Connect.ProtocolVersion"%string, RUint);
   ("Connect.ReceiveMax"%string, RUint);
   ("Connect.RequestProblemInfo"%string, RBool);
   ("Connect.RequestResponseInfo"%string, RBool);
   ("Connect.SessionExpiryInterval"%string, RUint);
   ("Connect.TopicAliasMax"%string, RUint);
   ("Connect.Username"%string, RString);
   ("Connect.Will"%string, ROther);
   ("Connect.WillDelayInterval"%string, RUint);
   ("Disconnect.ReasonCode"%string, RReason);
   ("Disconnect.ReasonString"%string, RString);
   ("Disconnect.ServerReference"%string, RString);
   ("Disconnect.SessionExpiryInterval"%string, RUint);
   ("PubAck.PacketID"%string, RUint);
   ("PubAck.ReasonCode"%string, RReason);
   ("PubAck.ReasonString"%string, RString);
   ("PubComp.PacketID"%string, RUint);
   ("PubComp.ReasonCode"%string, RReason);
   ("PubComp.ReasonString"%string, RString);
   ("PubRec.PacketID"%string, RUint);
   ("PubRec.ReasonCode"%string, RReason);
   ("PubRec.ReasonString"%string, RString);
   ("PubRel.PacketID"%string, RUint);
   ("PubRel.ReasonCode"%string, RReason);
   ("PubRel.ReasonString"%string, RString);
   ("Publish.ContentType"%string, RString);
   ("Publish.CorrelationData"%string, RBytes);
   ("Publish.Duplicate"%string, RBool);
   ("Publish.MessageExpiryInterval"%string, RUint);
   ("Publish.PacketID"%string, RUint);
   ("Publish.Payload"%string, RBytes);
   ("Publish.PayloadFormat"%string, RBool);
   ("Publish.QoS"%string, RUint);
   ("Publish.ResponseTopic"%string, RString);
   ("Publish.Retain"%string, RBool);
   ("Publish.SubscriptionIDs"%string, RUints);
   ("Publish.TopicAlias"%string, RUint);
   ("Publish.TopicName"%string, RString);
   ("SubAck.PacketID"%string, RUint);
   ("SubAck.ReasonCodes"%string, RUints);
   ("SubAck.ReasonString"%string, RString);
   ("Subscribe.Filters"%string, ROther);
   ("Subscribe.PacketID"%string, RUint);
   ("Subscribe.SubscriptionID"%string, RInt);
   ("Undefined.Data"%string, RBytes);
   ("UnsubAck.PacketID"%string, RUint);
   ("UnsubAck.ReasonCodes"%string, RUints);
   ("UnsubAck.ReasonString"%string, RString);
   ("Unsubscribe.Filters"%string, ROther);
   ("Unsubscribe.PacketID"%string, RUint)].

Fixpoint lookup_rtype (t : list (string * rtype)) (name : string) : rtype :=
  match t with
  | [] => ROther
  | (n, r) :: t' => if String.eqb n name then r else lookup_rtype t' name
  end.

Inductive fverb := Vv | Vq | Vs.

Inductive darg :=
| DAcc (name : string)        (* p.Name()              *)
| DStrOf (name : string)      (* string(p.Name())      *)
| DStars (name : string).     (* stars(len(p.Name()))  *)

Inductive ditem :=
| DLine (label : string) (v : fverb) (a : darg)   (* fmt.Fprintf(w, "<label>: %<v>\n", a)                       *)
| DWill                 (* if p.will != nil { fmt.Fprintln(w, "Will"); p.will.dump(w) }                       *)
| DSubIDLine            (* if p.subscriptionID != nil { fmt.Fprintf(w, "SubscriptionID: %v\n", p.SubscriptionID()) } *)
| DFilters              (* if len(p.filters) > 0 { "Filters"; for i, f := range p.filters { "  %v. %s\n" } }  *)
| DUserProps            (* p.UserProperties.dump(w)                                                          *)
| DUnknown (src : string).

(* the lists []uint8 / []uint32 an accessor returns *)
Definition eval_nums (name : string) (p : pkt) : list N :=
  match lookup_acc acc_table name with
  | Some ARcodes => rcodes p
  | _ => if String.eqb name "Publish.SubscriptionIDs"%string then subids p else []
  end.

Definition bytes_of_obs (o : obs) : list byte := match o with OS s => s | _ => [] end.

(* fmt on one argument: by verb and Go type *)
Definition render_arg (v : fverb) (a : darg) (p : pkt) : list tok :=
  match a with
  | DStars name =>
      let s := stars (List.length (bytes_of_obs (eval_named name p))) in
      match v with Vq => [TQuoted s] | _ => [TStr s] end
  | DStrOf name =>
      let s := bytes_of_obs (eval_named name p) in
      match v with Vq => [TQuoted s] | _ => [TStr s] end
  | DAcc name =>
      match lookup_rtype acc_rtypes name, eval_named name p with
      | RString, OS s => match v with Vq => [TQuoted s] | _ => [TStr s] end
      | RBytes, OS s => match v with Vq => [TQuoted s] | Vs => [TStr s] | Vv => [TBytes s] end
      | RBool, OB b => [TBool b]
      | RUint, ON n => [TNum n]
      | RReason, ON n => reason_toks n          (* ReasonCode is a Stringer *)
      | RInt, OZ z => [TInt z]
      | RUints, _ => [TNums (eval_nums name p)]
      | _, _ => [L "?"%string]
      end
  end.

Definition run_ditem0 (unsub : bool) (d : ditem) (p : pkt) : list tok :=
  match d with
  | DLine label v a => [L label; L ": "%string] ++ render_arg v a p ++ [nl]
  | DSubIDLine =>
      match subid p with
      | None => []
      | Some _ => [L "SubscriptionID"%string; L ": "%string; TInt (subid_int (subid p)); nl]
      end
  | DFilters =>
      if unsub then
        match ufilters p with
        | [] => []
        | _ => [L "Filters"%string; nl] ++ filters_dump_from 0 (ufilters p)
        end
      else
        match filters p with
        | [] => []
        | _ => [L "Filters"%string; nl] ++ filters_dump_from 0 (map filter_string (filters p))
        end
  | DUserProps => uprops_dump (uprops p)
  | DWill | DUnknown _ => [L "?"%string]
  end.

Definition run_ditems0 (unsub : bool) (ds : list ditem) (p : pkt) : list tok :=
  List.concat (map (fun d => run_ditem0 unsub d p) ds).

(* the item lists the model expects, per packet type *)
Definition dump_ir (k : kind) : option (list ditem) :=
  match k with
  | KConnect => Some
      [DLine "AuthData"%string Vv (DAcc "Connect.AuthData"%string);
       DLine "AuthMethod"%string Vv (DAcc "Connect.AuthMethod"%string);
       DLine "CleanStart"%string Vv (DAcc "Connect.CleanStart"%string);
       DLine "ClientID"%string Vv (DAcc "Connect.ClientID"%string);
       DLine "KeepAlive"%string Vv (DAcc "Connect.KeepAlive"%string);
       DLine "MaxPacketSize"%string Vv (DAcc "Connect.MaxPacketSize"%string);
       DLine "Password"%string Vq (DStars "Connect.Password"%string);
       DLine "ProtocolName"%string Vv (DAcc "Connect.ProtocolName"%string);
       DLine "ProtocolVersion"%string Vv (DAcc "Connect.ProtocolVersion"%string);
       DLine "ReceiveMax"%string Vv (DAcc "Connect.ReceiveMax"%string);
       DLine "RequestProblemInfo"%string Vv (DAcc "Connect.RequestProblemInfo"%string);
       DLine "RequestResponseInfo"%string Vv (DAcc "Connect.RequestResponseInfo"%string);
       DLine "SessionExpiryInterval"%string Vv (DAcc "Connect.SessionExpiryInterval"%string);
       DLine "TopicAliasMax"%string Vv (DAcc "Connect.TopicAliasMax"%string);
       DLine "Username"%string Vv (DStars "Connect.Username"%string);
       DWill;
       DUserProps]
  | KConnAck => Some
      [DLine "AssignedClientID"%string Vq (DAcc "ConnAck.AssignedClientID"%string);
       DLine "AuthData"%string Vq (DStrOf "ConnAck.AuthData"%string);
       DLine "AuthMethod"%string Vq (DAcc "ConnAck.AuthMethod"%string);
       DLine "MaxPacketSize"%string Vv (DAcc "ConnAck.MaxPacketSize"%string);
       DLine "MaxQoS"%string Vv (DAcc "ConnAck.MaxQoS"%string);
       DLine "ReasonCode"%string Vv (DAcc "ConnAck.ReasonCode"%string);
       DLine "ReasonString"%string Vq (DAcc "ConnAck.ReasonString"%string);
       DLine "ReceiveMax"%string Vv (DAcc "ConnAck.ReceiveMax"%string);
       DLine "ResponseInformation"%string Vq (DAcc "ConnAck.ResponseInformation"%string);
       DLine "RetainAvailable"%string Vv (DAcc "ConnAck.RetainAvailable"%string);
       DLine "ServerKeepAlive"%string Vv (DAcc "ConnAck.ServerKeepAlive"%string);
       DLine "ServerReference"%string Vq (DAcc "ConnAck.ServerReference"%string);
       DLine "SessionExpiryInterval"%string Vv (DAcc "ConnAck.SessionExpiryInterval"%string);
       DLine "SessionPresent"%string Vv (DAcc "ConnAck.SessionPresent"%string);
       DLine "SharedSubAvailable"%string Vv (DAcc "ConnAck.SharedSubAvailable"%string);
       DLine "SubIdentifiersAvailable"%string Vv (DAcc "ConnAck.SubIdentifiersAvailable"%string);
       DLine "TopicAliasMax"%string Vv (DAcc "ConnAck.TopicAliasMax"%string);
       DLine "WildcardSubAvailable"%string Vv (DAcc "ConnAck.WildcardSubAvailable"%string);
       DUserProps]
  | KPublish => Some
      [DLine "ContentType"%string Vv (DAcc "Publish.ContentType"%string);
       DLine "CorrelationData"%string Vv (DAcc "Publish.CorrelationData"%string);
       DLine "Duplicate"%string Vv (DAcc "Publish.Duplicate"%string);
       DLine "MessageExpiryInterval"%string Vv (DAcc "Publish.MessageExpiryInterval"%string);
       DLine "PacketID"%string Vv (DAcc "Publish.PacketID"%string);
       DLine "Payload"%string Vv (DAcc "Publish.Payload"%string);
       DLine "PayloadFormat"%string Vv (DAcc "Publish.PayloadFormat"%string);
       DLine "QoS"%string Vv (DAcc "Publish.QoS"%string);
       DLine "ResponseTopic"%string Vv (DAcc "Publish.ResponseTopic"%string);
       DLine "Retain"%string Vv (DAcc "Publish.Retain"%string);
       DLine "SubscriptionIDs"%string Vv (DAcc "Publish.SubscriptionIDs"%string);
       DLine "TopicAlias"%string Vv (DAcc "Publish.TopicAlias"%string);
       DLine "TopicName"%string Vv (DAcc "Publish.TopicName"%string);
       DUserProps]
  | KPubAck => Some
      [DLine "PacketID"%string Vv (DAcc "PubAck.PacketID"%string);
       DLine "ReasonString"%string Vv (DAcc "PubAck.ReasonString"%string);
       DLine "ReasonCode"%string Vv (DAcc "PubAck.ReasonCode"%string);
       DUserProps]
  | KPubRec => Some
      [DLine "PacketID"%string Vv (DAcc "PubRec.PacketID"%string);
       DLine "Reason"%string Vv (DAcc "PubRec.ReasonString"%string);
       DLine "ReasonCode"%string Vv (DAcc "PubRec.ReasonCode"%string);
       DUserProps]
  | KPubRel => Some
      [DLine "PacketID"%string Vv (DAcc "PubRel.PacketID"%string);
       DLine "ReasonString"%string Vv (DAcc "PubRel.ReasonString"%string);
       DLine "ReasonCode"%string Vv (DAcc "PubRel.ReasonCode"%string);
       DUserProps]
  | KPubComp => Some
      [DLine "PacketID"%string Vv (DAcc "PubComp.PacketID"%string);
       DLine "Reason"%string Vv (DAcc "PubComp.ReasonString"%string);
       DLine "ReasonCode"%string Vv (DAcc "PubComp.ReasonCode"%string);
       DUserProps]
  | KSubscribe => Some
      [DLine "PacketID"%string Vv (DAcc "Subscribe.PacketID"%string);
       DSubIDLine;
       DFilters;
       DUserProps]
  | KSubAck => Some
      [DLine "PacketID"%string Vv (DAcc "SubAck.PacketID"%string);
       DLine "ReasonString"%string Vv (DAcc "SubAck.ReasonString"%string);
       DLine "ReasonCodes"%string Vv (DAcc "SubAck.ReasonCodes"%string);
       DUserProps]
  | KUnsubscribe => Some
      [DLine "PacketID"%string Vv (DAcc "Unsubscribe.PacketID"%string);
       DFilters;
       DUserProps]
  | KUnsubAck => Some
      [DLine "PacketID"%string Vv (DAcc "UnsubAck.PacketID"%string);
       DLine "ReasonString"%string Vv (DAcc "UnsubAck.ReasonString"%string);
       DLine "ReasonCodes"%string Vv (DAcc "UnsubAck.ReasonCodes"%string);
       DUserProps]
  | KPingReq => None
  | KPingResp => None
  | KDisconnect => Some
      [DLine "ReasonCode"%string Vv (DAcc "Disconnect.ReasonCode"%string);
       DUserProps]
  | KAuth => Some
      [DLine "AuthData"%string Vq (DStrOf "Auth.AuthData"%string);
       DLine "AuthMethod"%string Vq (DAcc "Auth.AuthMethod"%string);
       DLine "ReasonCode"%string Vv (DAcc "Auth.ReasonCode"%string);
       DLine "ReasonString"%string Vq (DAcc "Auth.ReasonString"%string);
       DUserProps]
  | KUndefined => None
  end%string.

(* p.will.dump(w) is Publish's dump on the will message *)
Definition run_ditem (k : kind) (d : ditem) (p : pkt) : list tok :=
  match d with
  | DWill =>
      if hasWill p
      then [L "Will"%string; nl] ++
           match dump_ir KPublish with
           | Some ds => run_ditems0 false ds (will_pkt p)
           | None => []
           end
      else []
  | _ => run_ditem0 (match k with KUnsubscribe => true | _ => false end) d p
  end.

Definition run_dump (k : kind) (p : pkt) : list tok :=
  match dump_ir k with
  | Some ds => List.concat (map (fun d => run_ditem k d p) ds)
  | None => []
  end.
