(* Memory provenance of the byte-slice fields a decoder fills (C14):
   Fresh = allocated and copied during this UnmarshalBinary call;
   View  = a re-slice of the caller's input. bindata and rawdata decoders
   make + copy; Undefined keeps a copy (DUndefinedData true) - it kept the
   caller's slice before the repair of D10 (DUndefinedData false). *)
From MQ Require Export Model.Codec.

Inductive prov := Fresh | View (off len : nat).

(* provenance a wire decoder gives the value it stores *)
Definition wire_prov (w : wt) : prov := Fresh.

(* the byte-slice fields an instruction stores, with their provenance
   (offsets are irrelevant for Fresh; a View of the whole input is View 0 0
   with len meaning "to the end") *)
Fixpoint dec_prov (d : dec) {struct d} : list (fref * prov) :=
  let list_prov := fix list_prov (ds : list dec) : list (fref * prov) :=
    match ds with [] => [] | d' :: ds' => dec_prov d' ++ list_prov ds' end in
  match d with
  | DGet r w => match w with Bin | Raw => [(r, wire_prov w)] | _ => [] end
  | DGetAny m _ _ => concat (map (fun e => match snd e with
                                             | Bin | Raw => [(snd (fst e), wire_prov (snd e))]
                                             | _ => [] end) m)
  | DIf _ ds => list_prov ds
  | DWillPayloadCopy => [(W F_payload, Fresh)]     (* rawdata(p.willPayload): same packet's own slice *)
  | DUndefinedData copy => [(M F_data, if copy then Fresh else View 0 0)]
  | _ => []
  end.

Definition prog_prov (ds : list dec) : list (fref * prov) := concat (map dec_prov ds).

Definition all_fresh (l : list (fref * prov)) : bool :=
  forallb (fun e => match snd e with Fresh => true | View _ _ => false end) l.

(* what an accessor returns for a byte field after the caller has replaced
   the input buffer's content by data' *)
Definition resolve (data' : list byte) (stored : list byte) (pr : prov) : list byte :=
  match pr with
  | Fresh => stored
  | View off _ => skipn off data'
  end.
