(* The read-only API of properties C11 and C13: WriteTo, String, dump/Dump,
   WellFormed, Error and the accessors of every exported type, with the
   unexported encoder methods they run (fill, width).  The write-set analysis
   of tools/gosync (effects.go) must have covered at least these
   (gen/SyncEffects.v, sync_readonly_methods) and found that none of them
   writes memory it did not allocate itself (sync_readonly_effects).
   Definitions only. *)
From Coq Require Import List String.
Import ListNotations.
Open Scope string_scope.

Definition readonly_api : list string :=
  ["Auth.AuthData"; "Auth.AuthMethod"; "Auth.ReasonCode"; "Auth.ReasonString"; "Auth.String";
   "Auth.WriteTo"; "Auth.dump"; "Auth.fill"; "Auth.width"; "ConnAck.AssignedClientID";
   "ConnAck.AuthData"; "ConnAck.AuthMethod"; "ConnAck.HasFlag"; "ConnAck.MaxPacketSize";
   "ConnAck.MaxQoS"; "ConnAck.ReasonCode"; "ConnAck.ReasonString"; "ConnAck.ReceiveMax";
   "ConnAck.ResponseInformation"; "ConnAck.RetainAvailable"; "ConnAck.ServerKeepAlive";
   "ConnAck.ServerReference"; "ConnAck.SessionExpiryInterval"; "ConnAck.SessionPresent";
   "ConnAck.SharedSubAvailable"; "ConnAck.String"; "ConnAck.SubIdentifiersAvailable";
   "ConnAck.TopicAliasMax"; "ConnAck.WildcardSubAvailable"; "ConnAck.WriteTo"; "ConnAck.dump";
   "ConnAck.fill"; "ConnAck.width"; "Connect.AuthData"; "Connect.AuthMethod";
   "Connect.CleanStart"; "Connect.ClientID"; "Connect.HasFlag"; "Connect.KeepAlive";
   "Connect.MaxPacketSize"; "Connect.Password"; "Connect.ProtocolName"; "Connect.ProtocolVersion";
   "Connect.ReceiveMax"; "Connect.RequestProblemInfo"; "Connect.RequestResponseInfo";
   "Connect.SessionExpiryInterval"; "Connect.String"; "Connect.TopicAliasMax"; "Connect.Username";
   "Connect.Will"; "Connect.WillDelayInterval"; "Connect.WriteTo"; "Connect.dump"; "Connect.fill";
   "Disconnect.ReasonCode"; "Disconnect.ReasonString"; "Disconnect.ServerReference";
   "Disconnect.SessionExpiryInterval"; "Disconnect.String"; "Disconnect.WriteTo"; "Disconnect.dump";
   "Disconnect.fill"; "Disconnect.width"; "Dump"; "Ident.fill"; "Ident.width"; "Malformed.Error";
   "PingReq.String"; "PingReq.WriteTo"; "PingReq.fill"; "PingReq.width"; "PingResp.String";
   "PingResp.WriteTo"; "PingResp.fill"; "PingResp.width"; "PubAck.PacketID"; "PubAck.ReasonCode";
   "PubAck.ReasonString"; "PubAck.String"; "PubAck.WriteTo"; "PubAck.dump"; "PubAck.fill";
   "PubAck.width"; "PubComp.PacketID"; "PubComp.ReasonCode"; "PubComp.ReasonString";
   "PubComp.String"; "PubComp.WriteTo"; "PubComp.dump"; "PubComp.fill"; "PubComp.width";
   "PubRec.PacketID"; "PubRec.ReasonCode"; "PubRec.ReasonString"; "PubRec.String";
   "PubRec.WriteTo"; "PubRec.dump"; "PubRec.fill"; "PubRec.width"; "PubRel.PacketID";
   "PubRel.ReasonCode"; "PubRel.ReasonString"; "PubRel.String"; "PubRel.WriteTo"; "PubRel.dump";
   "PubRel.fill"; "PubRel.width"; "Publish.ContentType"; "Publish.CorrelationData";
   "Publish.Duplicate"; "Publish.MessageExpiryInterval"; "Publish.PacketID"; "Publish.Payload";
   "Publish.PayloadFormat"; "Publish.QoS"; "Publish.ResponseTopic"; "Publish.Retain";
   "Publish.String"; "Publish.SubscriptionIDs"; "Publish.TopicAlias"; "Publish.TopicName";
   "Publish.WellFormed"; "Publish.WriteTo"; "Publish.dump"; "Publish.fill"; "Publish.width";
   "ReasonCode.String"; "SubAck.PacketID"; "SubAck.ReasonCodes"; "SubAck.ReasonString";
   "SubAck.String"; "SubAck.WriteTo"; "SubAck.dump"; "SubAck.fill"; "SubAck.width";
   "Subscribe.Filters"; "Subscribe.PacketID"; "Subscribe.String"; "Subscribe.SubscriptionID";
   "Subscribe.WellFormed"; "Subscribe.WriteTo"; "Subscribe.dump"; "Subscribe.fill";
   "Subscribe.width"; "TopicFilter.Filter"; "TopicFilter.Options"; "TopicFilter.String";
   "TopicFilter.WellFormed"; "TopicFilter.fill"; "Undefined.Data"; "Undefined.String";
   "Undefined.WriteTo"; "UnsubAck.PacketID"; "UnsubAck.ReasonCodes"; "UnsubAck.ReasonString";
   "UnsubAck.String"; "UnsubAck.WriteTo"; "UnsubAck.dump"; "UnsubAck.fill"; "UnsubAck.width";
   "Unsubscribe.Filters"; "Unsubscribe.PacketID"; "Unsubscribe.String"; "Unsubscribe.WriteTo";
   "Unsubscribe.dump"; "Unsubscribe.fill"; "Unsubscribe.width"; "UserProp.String";
   "UserProp.fill"; "UserProp.width"; "UserProperties.dump"; "bindata.fill"; "bindata.width";
   "bits.Has"; "bits.fill"; "bits.width"; "buffer.Err"; "connAckFlags.String";
   "connectFlags.String"; "firstByte.String"; "rawdata.fill"; "rawdata.width"; "vbint.fill";
   "vbint.width"; "wbool.fill"; "wbool.width"; "wuint16.fill"; "wuint16.width"; "wuint32.fill";
   "wuint32.width"].
