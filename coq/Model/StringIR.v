(* String() as data: `return [withForm(p, | withReason(p, ] fmt.Sprintf(format,
   args...) [)]` of every packet type as the literal pieces of the format
   string and one term per argument (regenerated from the source by
   tools/gosync, gen/GenString.v, compared with string_ir in
   gen/SyncString.v).  Proofs/StringP.v shows that the interpretation of these
   lists is Render.string_toks for the fourteen types inside the idiom
   (PUBLISH, which builds its topic text first, and Undefined stay hand-
   modelled).  Definitions only. *)
From MQ Require Import Model.Bytes Model.Wire Model.Packet Model.Codec Model.Api Model.AccIR Model.Render.
From Coq Require Import List NArith ZArith String.
Import ListNotations.

Inductive sarg :=
| SFirstByte                    (* firstByte(p.fixed).String()               %s *)
| SConnectFlags                 (* connectFlags(p.flags)        a Stringer   %s *)
| SConnAckFlags                 (* connAckFlags(p.flags)        a Stringer   %s *)
| SFieldS (f : fld)             (* p.f, a wstring/bindata field              %s *)
| SFieldN (f : fld)             (* p.f, a numeric field                      %v *)
| SAccS (name : string)         (* p.Name(), a string accessor               %s *)
| SDuration (f : fld)           (* time.Duration(p.f)*time.Second            %s *)
| SSize                         (* p.width() / p.fill(_LEN, 0)               %v *)
| SReasonName                   (* ReasonCode(p.reasonCode).String()         %s *)
| SOptReason                    (* func() string { if p.reasonCode > 0 && len(p.reason) > 0 { return " " + string(p.reason) }; return "" }()  %s *)
| SFilterString (unsub : bool). (* p.filterString()                          %s *)

Inductive sitem := SLit (s : string) | SArg (a : sarg).
Inductive swrap := WNone | WForm | WReason.

Definition run_sarg (k : kind) (n : N) (a : sarg) (p : pkt) : list tok :=
  match a with
  | SFirstByte => [fb p]
  | SConnectFlags => [TStr (connect_flags_string (getN (M F_flags) p))]
  | SConnAckFlags => [TStr (connack_flags_string (getN (M F_flags) p))]
  | SFieldS f => [TStr (getS (M f) p)]
  | SFieldN f => [TNum (getN (M f) p)]
  | SAccS name => [TStr (match eval_named name p with OS s => s | _ => [] end)]
  | SDuration f => [TDuration (getN (M f) p)]
  | SSize => [TNum n]
  | SReasonName => reason_toks (getN (M F_reasonCode) p)
  | SOptReason =>
      [TStr (if (0 <? getN (M F_reasonCode) p)%N
                && negb (match getS (M F_reasonString) p with [] => true | _ => false end)
             then lit " " ++ getS (M F_reasonString) p else [])]
  | SFilterString false => [TStr (match filters p with [] => [] | f :: _ => filter_string f end)]
  | SFilterString true => [TStr (match ufilters p with [] => lit "no filters!" | f :: _ => f end)]
  end.

Definition run_sitem (k : kind) (n : N) (i : sitem) (p : pkt) : list tok :=
  match i with
  | SLit s => [L s]
  | SArg a => run_sarg k n a p
  end.

(* does the type have a ReasonString() method (withReason asks by type assertion)? *)
Definition has_reason_string (k : kind) : bool :=
  match k with KUndefined => false | _ => true end.

Definition run_string (k : kind) (w : swrap) (items : list sitem) (n : N) (p : pkt) : list tok :=
  let ts := List.concat (map (fun i => run_sitem k n i p) items) in
  match w with
  | WNone => ts
  | WForm => with_form k p ts
  | WReason => with_reason (has_reason_string k) p ts
  end.

(* the item lists the model expects, per packet type *)
Definition string_ir (k : kind) : option (swrap * list sitem) :=
  match k with
  | KConnect =>
    Some (WNone, [SArg (SFirstByte); SLit " "%string; SArg (SConnectFlags); SLit " "%string; SArg (SFieldS F_protocolName); SArg (SFieldN F_protocolVersion); SLit " "%string; SArg (SAccS "Connect.ClientID"%string); SLit " "%string; SArg (SDuration F_keepAlive); SLit " "%string; SArg (SSize); SLit " bytes"%string])
  | KConnAck =>
    Some (WReason, [SArg (SFirstByte); SLit " "%string; SArg (SConnAckFlags); SLit " "%string; SArg (SFieldS F_assignedClientID); SLit " "%string; SArg (SSize); SLit " bytes"%string])
  | KPublish =>
    None
  | KPubAck =>
    Some (WReason, [SArg (SFirstByte); SLit " p"%string; SArg (SFieldN F_packetID); SLit " "%string; SArg (SSize); SLit " bytes"%string])
  | KPubRec =>
    Some (WNone, [SArg (SFirstByte); SLit " p"%string; SArg (SFieldN F_packetID); SLit " "%string; SArg (SReasonName); SArg (SOptReason); SLit " "%string; SArg (SSize); SLit " bytes"%string])
  | KPubRel =>
    Some (WReason, [SArg (SFirstByte); SLit " p"%string; SArg (SFieldN F_packetID); SLit " "%string; SArg (SSize); SLit " bytes"%string])
  | KPubComp =>
    Some (WNone, [SArg (SFirstByte); SLit " p"%string; SArg (SFieldN F_packetID); SLit " "%string; SArg (SReasonName); SArg (SOptReason); SLit " "%string; SArg (SSize); SLit " bytes"%string])
  | KSubscribe =>
    Some (WForm, [SArg (SFirstByte); SLit " p"%string; SArg (SFieldN F_packetID); SLit " "%string; SArg (SFilterString false); SLit " "%string; SArg (SSize); SLit " bytes"%string])
  | KSubAck =>
    Some (WNone, [SArg (SFirstByte); SLit " p"%string; SArg (SFieldN F_packetID); SLit " "%string; SArg (SSize); SLit " bytes"%string])
  | KUnsubscribe =>
    Some (WNone, [SArg (SFirstByte); SLit " p"%string; SArg (SFieldN F_packetID); SLit ", "%string; SArg (SFilterString true); SLit ", "%string; SArg (SSize); SLit " bytes"%string])
  | KUnsubAck =>
    Some (WNone, [SArg (SFirstByte); SLit " p"%string; SArg (SFieldN F_packetID); SLit " "%string; SArg (SSize); SLit " bytes"%string])
  | KPingReq =>
    Some (WNone, [SArg (SFirstByte); SLit " "%string; SArg (SSize); SLit " bytes"%string])
  | KPingResp =>
    Some (WNone, [SArg (SFirstByte); SLit " "%string; SArg (SSize); SLit " bytes"%string])
  | KDisconnect =>
    Some (WReason, [SArg (SFirstByte); SLit " "%string; SArg (SSize); SLit " bytes"%string])
  | KAuth =>
    Some (WNone, [SArg (SFirstByte); SLit " "%string; SArg (SSize); SLit " bytes"%string])
  | KUndefined =>
    None
  end.

(* String() of a type inside the idiom: the dry run for the size, then the items *)
Definition run_string_of (k : kind) (p : pkt) : option (list tok) :=
  match string_ir k, encode_pkt k p with
  | Some (w, items), Some bs => Some (run_string k w items (len bs) p)
  | _, _ => None
  end.
