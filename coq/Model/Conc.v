(* A small shared-memory machine for C13: threads run programs made of
   atomic reads and writes of shared locations; a schedule picks which
   thread takes the next step. No synchronisation, so any two accesses
   of one location by different threads, one of them a write, race. *)
From Coq Require Import List Arith Lia.
Import ListNotations.

Section Machine.
  Variable loc val out : Type.

  Inductive prog :=
  | Done (o : out)
  | Rd (l : loc) (k : val -> prog)
  | Wr (l : loc) (v : val) (k : prog).

  Definition store := loc -> val.

  Inductive access := ARead (t : nat) (l : loc) | AWrite (t : nat) (l : loc).

  Record mstate := { threads : list prog; mem : store; trace : list access }.

  Variable loc_eqb : loc -> loc -> bool.
  Definition upd_store (m : store) (l : loc) (v : val) : store :=
    fun l' => if loc_eqb l' l then v else m l'.

  Fixpoint set_nth (n : nat) (p : prog) (l : list prog) {struct l} : list prog :=
    match l with
    | [] => []
    | x :: r => match n with
                | O => p :: r
                | S n' => x :: set_nth n' p r
                end
    end.

  (* thread t takes one step (a finished or missing thread does nothing) *)
  Definition step (t : nat) (s : mstate) : mstate :=
    match nth_error (threads s) t with
    | Some (Rd l k) =>
        {| threads := set_nth t (k (mem s l)) (threads s); mem := mem s;
           trace := trace s ++ [ARead t l] |}
    | Some (Wr l v k) =>
        {| threads := set_nth t k (threads s); mem := upd_store (mem s) l v;
           trace := trace s ++ [AWrite t l] |}
    | _ => s
    end.

  Definition run (sched : list nat) (s : mstate) : mstate := fold_left (fun s t => step t s) sched s.

  (* a program that never writes, whatever it reads *)
  Inductive read_only : prog -> Prop :=
  | ro_done o : read_only (Done o)
  | ro_rd l k : (forall v, read_only (k v)) -> read_only (Rd l k).

  (* running a program alone on a store that nobody changes *)
  Fixpoint alone (fuel : nat) (m : store) (p : prog) : option out :=
    match fuel with
    | O => None
    | S f => match p with
             | Done o => Some o
             | Rd l k => alone f m (k (m l))
             | Wr _ _ k => alone f m k
             end
    end.

  Definition is_write (a : access) : bool := match a with AWrite _ _ => true | _ => false end.
  Definition tid (a : access) : nat := match a with ARead t _ | AWrite t _ => t end.
  Definition aloc (a : access) : loc := match a with ARead _ l | AWrite _ l => l end.

  (* two accesses of one location by different threads, at least one a write *)
  Definition races (a b : access) : bool :=
    negb (Nat.eqb (tid a) (tid b)) && loc_eqb (aloc a) (aloc b) && (is_write a || is_write b).

  Definition race_free (tr : list access) : Prop :=
    forall a b, In a tr -> In b tr -> races a b = false.
End Machine.
