(* The positional, capacity-guarded encoders of the Go source and the
   two passes of WriteTo.

   Every `fill(buf []byte, i int) int` of wiretypes.go writes at a position
   into a buffer of fixed length, guarded by `len(buf) >= i + width` (vbint:
   byte by byte under `i < len(buf)`), and returns the width whether or not
   anything was written; the packet files call them as `i += p.f.fill(b, i)`
   twice: once on the nil slice _LEN to learn the size, once on a buffer of
   exactly that size.  Codec.v reads the same IR as "the bytes contributed";
   this file reads it as the Go code runs it.  Proofs/FillP.v shows that the
   two readings agree (for every IR program, packet, buffer and position),
   so that WriteTo's two passes hand the writer exactly encode_pkt's bytes.

   A buffer is a list of bytes of fixed length; nil and the empty slice are
   both [].  None = run-time panic (index or slice out of range, the nil
   will, rawdata.fillProp).  Definitions only. *)
From MQ Require Export Model.Codec Model.Stream.

(* ------------------------------------------------------------------ *)
(* Go primitives on a slice of fixed length                             *)

(* data[i] = b; panics unless i < len(data) *)
Definition poke (buf : list byte) (i : nat) (b : byte) : option (list byte) :=
  if Nat.ltb i (length buf) then Some (firstn i buf ++ b :: skipn (S i) buf) else None.

(* copy(data[i:], bs): data[i:] panics unless i <= len(data); copy writes
   min(len(data)-i, len(bs)) bytes and returns that count *)
Definition copy_at (buf : list byte) (i : nat) (bs : list byte) : option (list byte * nat) :=
  if Nat.leb i (length buf) then
    let n := Nat.min (length buf - i) (length bs) in
    Some (firstn i buf ++ firstn n bs ++ skipn (i + n) buf, n)
  else None.

(* binary.BigEndian.PutUint16/32(data[i:], v): panics unless all of the
   bytes fit *)
Definition put_at (buf : list byte) (i : nat) (bs : list byte) : option (list byte) :=
  if Nat.leb (i + length bs) (length buf)
  then Some (firstn i buf ++ bs ++ skipn (i + length bs) buf) else None.

(* result of a fill: the buffer afterwards and the returned width *)
Definition fres := option (list byte * nat).

Definition ret (w : nat) (b : option (list byte)) : fres :=
  match b with Some b' => Some (b', w) | None => None end.

(* ------------------------------------------------------------------ *)
(* wiretypes.go, fill by fill                                           *)

(* bits.fill, Ident.fill: if len(data) >= i+1 { data[i] = byte(v) }; return 1 *)
Definition fill_u8 (n : N) (buf : list byte) (i : nat) : fres :=
  if Nat.leb (i + 1) (length buf) then ret 1 (poke buf i (n2b n)) else Some (buf, 1%nat).

(* wbool.fill *)
Definition fill_bool (b : bool) (buf : list byte) (i : nat) : fres :=
  if Nat.leb (i + 1) (length buf)
  then ret 1 (poke buf i (if b then x01 else x00)) else Some (buf, 1%nat).

(* wuint16.fill: if len(data) >= i+2 { PutUint16(data[i:], v) }; return 2 *)
Definition fill_u16 (n : N) (buf : list byte) (i : nat) : fres :=
  if Nat.leb (i + 2) (length buf) then ret 2 (put_at buf i (enc_u16 n)) else Some (buf, 2%nat).

(* wuint32.fill (the guard uses v.width() = 4) *)
Definition fill_u32 (n : N) (buf : list byte) (i : nat) : fres :=
  if Nat.leb (i + 4) (length buf) then ret 4 (put_at buf i (enc_u32 n)) else Some (buf, 4%nat).

(* bindata.fill: if len(data) >= i+v.width() { i += wuint16(len(v)).fill(data, i);
   copy(data[i:], v) }; return v.width() *)
Definition fill_bin (s : list byte) (buf : list byte) (i : nat) : fres :=
  let w := (2 + length s)%nat in
  if Nat.leb (i + w) (length buf) then
    match fill_u16 (len s mod 65536) buf i with
    | Some (b1, n) =>
      match copy_at b1 (i + n) s with Some (b2, _) => Some (b2, w) | None => None end
    | None => None
    end
  else Some (buf, w).

(* rawdata.fill: if len(data) >= i+v.width() { return copy(data[i:], v) }; return v.width() *)
Definition fill_raw (s : list byte) (buf : list byte) (i : nat) : fres :=
  if Nat.leb (i + length s) (length buf) then copy_at buf i s else Some (buf, length s).

(* vbint.fill: the loop of Wire.vb_enc_loop, each byte stored under its own
   guard `if i < len(data)`; returns the buffer and the new i *)
Fixpoint vb_fill_loop (fuel : nat) (x : N) (buf : list byte) (i : nat) : option (list byte * nat) :=
  match fuel with
  | O => Some (buf, i)
  | S f =>
    let b := x mod 128 in
    let x' := x / 128 in
    let eb := if 0 <? x' then b + 128 else b in
    match (if Nat.ltb i (length buf) then poke buf i (n2b eb) else Some buf) with
    | None => None
    | Some buf' => if 0 <? x' then vb_fill_loop f x' buf' (S i) else Some (buf', S i)
    end
  end.
Definition fill_vb (n : N) (buf : list byte) (i : nat) : fres :=
  match vb_fill_loop 10 n buf i with Some (b, i') => Some (b, (i' - i)%nat) | None => None end.

Definition wfill (w : wt) (v : value) (buf : list byte) (i : nat) : fres :=
  match w with
  | U8 => fill_u8 (valN v) buf i
  | U16 => fill_u16 (valN v) buf i
  | U32 => fill_u32 (valN v) buf i
  | WBool => fill_bool (valB v) buf i
  | Bin => fill_bin (valS v) buf i
  | Raw => fill_raw (valS v) buf i
  | Vb => fill_vb (valN v) buf i
  end.

(* the common body of every fillProp: n := i; i += id.fill(data, i);
   i += v.fill(data, i); return i - n *)
Definition id_then (id : N) (f : list byte -> nat -> fres) (buf : list byte) (i : nat) : fres :=
  match fill_u8 id buf i with
  | Some (b1, n1) =>
    match f b1 (i + n1)%nat with
    | Some (b2, n2) => Some (b2, (i + n1 + n2 - i)%nat)
    | None => None
    end
  | None => None
  end.

(* fillProp: 0 for the zero value; rawdata.fillProp always panics *)
Definition wfill_prop (w : wt) (id : N) (v : value) (buf : list byte) (i : nat) : fres :=
  match w with
  | Raw => None
  | _ => if is_zero w v then Some (buf, 0%nat) else id_then id (wfill w v) buf i
  end.

(* bits.fillOpt *)
Definition fill_opt (n : N) (buf : list byte) (i : nat) : fres :=
  if n =? 0 then Some (buf, 0%nat) else fill_u8 n buf i.

(* UserProp.fill: i += wstring(v[0]).fill(data, i); _ = wstring(v[1]).fill(data, i);
   return v.width() *)
Definition fill_userprop (kv : list byte * list byte) (buf : list byte) (i : nat) : fres :=
  match fill_bin (fst kv) buf i with
  | Some (b1, n1) =>
    match fill_bin (snd kv) b1 (i + n1)%nat with
    | Some (b2, _) => Some (b2, width_userprop kv)
    | None => None
    end
  | None => None
  end.

(* UserProp.fillProp: 0 when the key is empty *)
Definition fill_userprop_prop (id : N) (kv : list byte * list byte) (buf : list byte) (i : nat) : fres :=
  match fst kv with
  | [] => Some (buf, 0%nat)
  | _ => id_then id (fill_userprop kv) buf i
  end.

(* TopicFilter.fill: n := i; i += c.filter.fill(b, i); i += c.options.fill(b, i); return i - n *)
Definition fill_filter (f : list byte * N) (buf : list byte) (i : nat) : fres :=
  match fill_bin (fst f) buf i with
  | Some (b1, n1) =>
    match fill_u8 (snd f) b1 (i + n1)%nat with
    | Some (b2, n2) => Some (b2, (i + n1 + n2 - i)%nat)
    | None => None
    end
  | None => None
  end.

(* ------------------------------------------------------------------ *)
(* the IR, run as the Go statements run: `i += <fill>(b, i)`             *)

(* i += f(b, i) *)
Definition adv (r : fres) (i : nat) : option (list byte * nat) :=
  match r with Some (b, n) => Some (b, (i + n)%nat) | None => None end.

(* for _, x := range xs { i += f(x)(b, i) } *)
Fixpoint fill_each {A} (f : A -> list byte -> nat -> fres) (xs : list A)
         (buf : list byte) (i : nat) : option (list byte * nat) :=
  match xs with
  | [] => Some (buf, i)
  | x :: xs' =>
    match adv (f x buf i) i with
    | Some (b, i') => fill_each f xs' b i'
    | None => None
    end
  end.

(* a helper method `n := i; ...; return i - n` called as `i += helper(b, i)` *)
Definition as_helper (r : option (list byte * nat)) (i : nat) : option (list byte * nat) :=
  match r with Some (b, i') => Some (b, (i + (i' - i))%nat) | None => None end.

Fixpoint pfill1 (e : enc) (p : pkt) (buf : list byte) (i : nat) {struct e}
  : option (list byte * nat) :=
  let pfill_list := fix pfill_list (es : list enc) (buf : list byte) (i : nat)
      : option (list byte * nat) :=
    match es with
    | [] => Some (buf, i)
    | e' :: es' =>
      match pfill1 e' p buf i with
      | Some (b, i') => pfill_list es' b i'
      | None => None
      end
    end in
  match e with
  | EFill r w =>
      match getf_opt r p with Some v => adv (wfill w v buf i) i | None => None end
  | EFillProp r w id =>
      match getf_opt r p with Some v => adv (wfill_prop w id v buf i) i | None => None end
  | EFillOpt r =>
      match getf_opt r p with Some v => adv (fill_opt (valN v) buf i) i | None => None end
  | EVbConst n => adv (fill_vb n buf i) i
  | EVbLen es =>
      (* vbint(<es on _LEN from 0>).fill(b, i) *)
      match pfill_list es [] 0%nat with
      | Some (_, n) => adv (fill_vb (N.of_nat n) buf i) i
      | None => None
      end
  | EIf c a b => if eval_cond c p no_env then pfill_list a buf i else pfill_list b buf i
  | EIfEmpty sub a b =>
      match pfill_list sub [] 0%nat with
      | Some (_, O) => pfill_list a buf i
      | Some (_, S _) => pfill_list b buf i
      | None => None
      end
  | EUserProps will =>
      if will then
        if hasWill p
        then as_helper (fill_each (fill_userprop_prop UserProperty) (wuprops p) buf i) i
        else None
      else as_helper (fill_each (fill_userprop_prop UserProperty) (uprops p) buf i) i
  | ESubIDs =>
      fill_each (fun n => wfill_prop Vb SubscriptionID (VN n)) (subids p) buf i
  | ESubID =>
      match subid p with
      | None => Some (buf, i)
      | Some n => adv (wfill_prop Vb SubscriptionID (VN n) buf i) i
      end
  | EFilters => fill_each fill_filter (filters p) buf i
  | EUnsubFilters => fill_each fill_bin (ufilters p) buf i
  | EReasonCodes => fill_each fill_u8 (rcodes p) buf i
  end.

Fixpoint pfill (es : list enc) (p : pkt) (buf : list byte) (i : nat)
  : option (list byte * nat) :=
  match es with
  | [] => Some (buf, i)
  | e :: es' =>
    match pfill1 e p buf i with
    | Some (b, i') => pfill es' p b i'
    | None => None
    end
  end.

(* p.fill(b, i) *)
Definition pfill_pkt (k : kind) (p : pkt) (buf : list byte) (i : nat)
  : option (list byte * nat) :=
  match enc_of k with None => None | Some es => pfill es p buf i end.

(* make([]byte, n) *)
Definition make_buf (n : nat) : list byte := repeat x00 n.

(* WriteTo: b := make([]byte, p.fill(_LEN, 0)); p.fill(b, 0); n, err := w.Write(b) *)
Definition write_to2 (k : kind) (p : pkt) (w : wscript) : option wresult :=
  match k with
  | KUndefined => Some {| w_n := 0; w_err := Some ECannotWrite; w_calls := [] |}
  | _ =>
    match pfill_pkt k p [] 0%nat with
    | None => None
    | Some (_, n) =>
      match pfill_pkt k p (make_buf n) 0%nat with
      | None => None
      | Some (bs, _) =>
        Some match w with
             | Accept => {| w_n := length bs; w_err := None; w_calls := [bs] |}
             | FailW e => {| w_n := 0; w_err := Some e; w_calls := [bs] |}
             | Short m e => {| w_n := Nat.min m (length bs); w_err := Some e; w_calls := [bs] |}
             end
      end
    end
  end.

(* static check: the program never calls rawdata.fillProp *)
Fixpoint noraw (e : enc) {struct e} : bool :=
  let all := fix all (es : list enc) : bool :=
    match es with [] => true | e' :: es' => noraw e' && all es' end in
  match e with
  | EFillProp _ Raw _ => false
  | EVbLen es => all es
  | EIf _ a b => all a && all b
  | EIfEmpty s a b => all s && all a && all b
  | _ => true
  end.
Fixpoint noraw_list (es : list enc) : bool :=
  match es with [] => true | e :: es' => noraw e && noraw_list es' end.
