(* The encoder methods of wiretypes.go as statement lists.

   tools/gosync (wire.go) translates `fill`, `fillProp`, `fillOpt` and `width`
   of the nine wire types statement by statement into the little imperative
   language below and regenerates the table on every run (gen/GenWire.v);
   gen/SyncWire.v compares it with `wire_progs`, the table this file holds.
   Proofs/WireIRP.v shows that running each of these programs - on every
   value, buffer and position - is the corresponding function of
   Model/Fill.v (fill_u8, fill_u16, ..., fill_vb, wfill_prop, ...), the
   functions all theorems about the positional encoder are stated on.

   The language is what those Go methods are written in, nothing more:
   the locals i, n, x, encodedByte; guarded stores into the slice `data`;
   calls of the fill method of another wire type (interpreted by that
   type's function of Fill.v - its own program is proved equal to it);
   if/else, one `for { ... break }`.  None = run-time panic.  A statement the
   translator does not recognise becomes S_unknown and the comparison fails.
   Definitions only. *)
From MQ Require Export Model.Fill.
From Coq Require Import String.
Local Open Scope string_scope.
Local Open Scope nat_scope.

(* the receiver: a number (bits, Ident, wuint16, wuint32, vbint), a bool, a
   byte string (bindata, rawdata) or a pair of strings (UserProp) *)
Inductive wv := WVn (n : N) | WVb (b : bool) | WVs (s : list byte) | WVp (k v : list byte).

Definition wv_n (v : wv) : N := match v with WVn n => n | _ => 0%N end.
Definition wv_b (v : wv) : bool := match v with WVb b => b | _ => false end.
Definition wv_s (v : wv) : list byte := match v with WVs s => s | _ => [] end.
Definition wv_k (v : wv) : list byte := match v with WVp k _ => k | _ => [] end.
Definition wv_v (v : wv) : list byte := match v with WVp _ x => x | _ => [] end.

(* int expressions *)
Inductive wi :=
| I_i | I_n | I_lendata
| I_k (k : nat)
| I_add (a b : wi) | I_sub (a b : wi)
| I_width            (* v.width() *)
| I_lenv             (* len(v) *)
| I_selffill0        (* v.fill(_LEN, 0) *)
| I_keyw | I_valw.   (* wstring(v[0]).width(), wstring(v[1]).width() *)

(* what is stored *)
Inductive wb :=
| B_v                (* byte(v), uint16(v), uint32(v) *)
| B_k (n : N)
| B_eb.              (* encodedByte *)

Inductive wc :=
| C_ge (a b : wi) | C_lt (a b : wi)
| C_vzero            (* v == 0 *)
| C_lenv0            (* len(v) == 0 *)
| C_lenkey0          (* len(v[0]) == 0 *)
| C_notv | C_v       (* !v, v *)
| C_xpos | C_xzero.  (* x > 0, x == 0 *)

(* X.fill(data, i) *)
Inductive callee :=
| K_id               (* id.fill *)
| K_self             (* v.fill *)
| K_u16lenv          (* wuint16(len(v)).fill *)
| K_key | K_val.     (* wstring(v[0]).fill, wstring(v[1]).fill *)

Inductive ws :=
| S_def_n                          (* n := i *)
| S_def_x                          (* x := v *)
| S_adv (k : callee)               (* i += k(data, i) *)
| S_call (k : callee)              (* _ = k(data, i) *)
| S_poke (idx : wi) (b : wb)       (* data[idx] = b *)
| S_put16 (idx : wi) (b : wb)      (* binary.BigEndian.PutUint16(data[idx:], b) *)
| S_put32 (idx : wi) (b : wb)
| S_copy (idx : wi)                (* copy(data[idx:], []byte(v)) *)
| S_if (c : wc) (th el : list ws)
| S_ret (e : wi)
| S_ret_copy (idx : wi)            (* return copy(data[idx:], []byte(v)) *)
| S_ret_call (k : callee)          (* return k(data, i) *)
| S_panic
| S_for (body : list ws)           (* for { body } *)
| S_break
| S_eb_mod                         (* encodedByte := byte(x % 128) *)
| S_x_div                          (* x = x / 128 *)
| S_eb_or128                       (* encodedByte = encodedByte | 128 *)
| S_inc_i                          (* i++ *)
| S_unknown (text : string).

(* what a method is called with besides data and i *)
Record wenv := {
  e_v : wv;
  e_id : N;                                       (* the id parameter of fillProp *)
  e_self_fill : list byte -> nat -> fres;         (* v.fill of the receiver's type *)
  e_self_width : nat                              (* v.width() *)
}.

Record wst := mkst { s_buf : list byte; s_i : nat; s_n : nat; s_x : N; s_eb : N }.

Inductive wflow := Next (s : wst) | Ret (s : wst) (r : nat) | Brk (s : wst).

Definition set_buf (s : wst) (b : list byte) : wst := mkst b (s_i s) (s_n s) (s_x s) (s_eb s).
Definition set_i (s : wst) (i : nat) : wst := mkst (s_buf s) i (s_n s) (s_x s) (s_eb s).

Definition dry_count (r : fres) : nat := match r with Some (_, n) => n | None => 0 end.

Fixpoint ev_i (E : wenv) (s : wst) (e : wi) : nat :=
  match e with
  | I_i => s_i s
  | I_n => s_n s
  | I_lendata => List.length (s_buf s)
  | I_k k => k
  | I_add a b => ev_i E s a + ev_i E s b
  | I_sub a b => ev_i E s a - ev_i E s b
  | I_width => e_self_width E
  | I_lenv => List.length (wv_s (e_v E))
  | I_selffill0 => dry_count (e_self_fill E [] 0)
  | I_keyw => 2 + List.length (wv_k (e_v E))
  | I_valw => 2 + List.length (wv_v (e_v E))
  end.

Definition ev_b (E : wenv) (s : wst) (b : wb) : N :=
  match b with B_v => wv_n (e_v E) | B_k n => n | B_eb => s_eb s end.

Definition ev_c (E : wenv) (s : wst) (c : wc) : bool :=
  match c with
  | C_ge a b => Nat.leb (ev_i E s b) (ev_i E s a)
  | C_lt a b => Nat.ltb (ev_i E s a) (ev_i E s b)
  | C_vzero => (wv_n (e_v E) =? 0)%N
  | C_lenv0 => match wv_s (e_v E) with [] => true | _ => false end
  | C_lenkey0 => match wv_k (e_v E) with [] => true | _ => false end
  | C_notv => negb (wv_b (e_v E))
  | C_v => wv_b (e_v E)
  | C_xpos => (0 <? s_x s)%N
  | C_xzero => (s_x s =? 0)%N
  end.

Definition call_k (E : wenv) (k : callee) (buf : list byte) (i : nat) : fres :=
  match k with
  | K_id => fill_u8 (e_id E) buf i
  | K_self => e_self_fill E buf i
  | K_u16lenv => fill_u16 (len (wv_s (e_v E)) mod 65536) buf i
  | K_key => fill_bin (wv_k (e_v E)) buf i
  | K_val => fill_bin (wv_v (e_v E)) buf i
  end.

(* vbint is a 64-bit uint: its loop ends within ten rounds; like
   Fill.vb_fill_loop the loop simply ends when the fuel does *)
Definition loop_fuel : nat := 10.

Fixpoint exec (E : wenv) (st : ws) (s : wst) {struct st} : option wflow :=
  let exec_list := fix exec_list (l : list ws) (s : wst) : option wflow :=
    match l with
    | [] => Some (Next s)
    | st' :: l' =>
      match exec E st' s with
      | Some (Next s') => exec_list l' s'
      | r => r
      end
    end in
  match st with
  | S_def_n => Some (Next (mkst (s_buf s) (s_i s) (s_i s) (s_x s) (s_eb s)))
  | S_def_x => Some (Next (mkst (s_buf s) (s_i s) (s_n s) (wv_n (e_v E)) (s_eb s)))
  | S_adv k =>
      match call_k E k (s_buf s) (s_i s) with
      | Some (b, n) => Some (Next (mkst b (s_i s + n) (s_n s) (s_x s) (s_eb s)))
      | None => None
      end
  | S_call k =>
      match call_k E k (s_buf s) (s_i s) with
      | Some (b, _) => Some (Next (set_buf s b))
      | None => None
      end
  | S_poke idx b =>
      match poke (s_buf s) (ev_i E s idx) (n2b (ev_b E s b)) with
      | Some b' => Some (Next (set_buf s b')) | None => None end
  | S_put16 idx b =>
      match put_at (s_buf s) (ev_i E s idx) (enc_u16 (ev_b E s b)) with
      | Some b' => Some (Next (set_buf s b')) | None => None end
  | S_put32 idx b =>
      match put_at (s_buf s) (ev_i E s idx) (enc_u32 (ev_b E s b)) with
      | Some b' => Some (Next (set_buf s b')) | None => None end
  | S_copy idx =>
      match copy_at (s_buf s) (ev_i E s idx) (wv_s (e_v E)) with
      | Some (b', _) => Some (Next (set_buf s b')) | None => None end
  | S_if c th el => if ev_c E s c then exec_list th s else exec_list el s
  | S_ret e => Some (Ret s (ev_i E s e))
  | S_ret_copy idx =>
      match copy_at (s_buf s) (ev_i E s idx) (wv_s (e_v E)) with
      | Some (b', n) => Some (Ret (set_buf s b') n) | None => None end
  | S_ret_call k =>
      match call_k E k (s_buf s) (s_i s) with
      | Some (b, n) => Some (Ret (set_buf s b) n) | None => None end
  | S_panic => None
  | S_for body =>
      (fix loop (f : nat) (s : wst) : option wflow :=
         match f with
         | O => Some (Next s)
         | S f' =>
           match exec_list body s with
           | Some (Next s') => loop f' s'
           | Some (Brk s') => Some (Next s')
           | r => r
           end
         end) loop_fuel s
  | S_break => Some (Brk s)
  | S_eb_mod => Some (Next (mkst (s_buf s) (s_i s) (s_n s) (s_x s) (s_x s mod 128)%N))
  | S_x_div => Some (Next (mkst (s_buf s) (s_i s) (s_n s) (s_x s / 128)%N (s_eb s)))
  | S_eb_or128 => Some (Next (mkst (s_buf s) (s_i s) (s_n s) (s_x s) (N.lor (s_eb s) 128)))
  | S_inc_i => Some (Next (set_i s (S (s_i s))))
  | S_unknown _ => None
  end.

Fixpoint exec_list (E : wenv) (l : list ws) (s : wst) : option wflow :=
  match l with
  | [] => Some (Next s)
  | st :: l' =>
    match exec E st s with
    | Some (Next s') => exec_list E l' s'
    | r => r
    end
  end.

(* a method body run on (data, i): the buffer afterwards and what it returns;
   a Go function cannot fall off its end *)
Definition run_fill (prog : list ws) (E : wenv) (buf : list byte) (i : nat) : fres :=
  match exec_list E prog (mkst buf i 0 0%N 0%N) with
  | Some (Ret s r) => Some (s_buf s, r)
  | _ => None
  end.

(* ------------------------------------------------------------------ *)
(* the methods, statement by statement                                  *)

Definition guard1 (body : list ws) : ws := S_if (C_ge I_lendata (I_add I_i (I_k 1))) body [].
Definition prop_tail : list ws := [S_def_n; S_adv K_id; S_adv K_self; S_ret (I_sub I_i I_n)].
Definition prop_of (zero : wc) : list ws := S_if zero [S_ret (I_k 0)] [] :: prop_tail.

Definition wire_progs : list (string * list ws) :=
  [("Ident.fill", [guard1 [S_poke I_i B_v]; S_ret (I_k 1)]);
   ("Ident.fillProp", [S_ret (I_k 0)]);
   ("Ident.width", [S_ret (I_k 1)]);
   ("UserProp.fill", [S_adv K_key; S_call K_val; S_ret I_width]);
   ("UserProp.fillProp", prop_of C_lenkey0);
   ("UserProp.width", [S_ret (I_add I_keyw I_valw)]);
   ("bindata.fill", [S_if (C_ge I_lendata (I_add I_i I_width)) [S_adv K_u16lenv; S_copy I_i] []; S_ret I_width]);
   ("bindata.fillProp", prop_of C_lenv0);
   ("bindata.width", [S_ret (I_add (I_k 2) I_lenv)]);
   ("bits.fill", [guard1 [S_poke I_i B_v]; S_ret (I_k 1)]);
   ("bits.fillOpt", [S_if C_vzero [S_ret (I_k 0)] []; S_ret_call K_self]);
   ("bits.fillProp", prop_of C_vzero);
   ("bits.width", [S_ret (I_k 1)]);
   ("rawdata.fill", [S_if (C_ge I_lendata (I_add I_i I_width)) [S_ret_copy I_i] []; S_ret I_width]);
   ("rawdata.fillProp", [S_panic]);
   ("rawdata.width", [S_ret I_lenv]);
   ("vbint.fill", [S_def_x; S_def_n;
                   S_for [S_eb_mod; S_x_div; S_if C_xpos [S_eb_or128] [];
                          S_if (C_lt I_i I_lendata) [S_poke I_i B_eb] [];
                          S_inc_i; S_if C_xzero [S_break] []];
                   S_ret (I_sub I_i I_n)]);
   ("vbint.fillProp", prop_of C_vzero);
   ("vbint.width", [S_ret I_selffill0]);
   ("wbool.fill", [guard1 [S_if C_v [S_poke I_i (B_k 1)] [S_poke I_i (B_k 0)]]; S_ret (I_k 1)]);
   ("wbool.fillProp", prop_of C_notv);
   ("wbool.width", [S_ret (I_k 1)]);
   ("wuint16.fill", [S_if (C_ge I_lendata (I_add I_i (I_k 2))) [S_put16 I_i B_v] []; S_ret (I_k 2)]);
   ("wuint16.fillProp", prop_of C_vzero);
   ("wuint16.width", [S_ret (I_k 2)]);
   ("wuint32.fill", [S_if (C_ge I_lendata (I_add I_i I_width)) [S_put32 I_i B_v] []; S_ret I_width]);
   ("wuint32.fillProp", prop_of C_vzero);
   ("wuint32.width", [S_ret (I_k 4)])].

Fixpoint wire_prog (name : string) (l : list (string * list ws)) : list ws :=
  match l with
  | [] => [S_unknown name]
  | (n, p) :: l' => if String.eqb n name then p else wire_prog name l'
  end.
Definition prog (name : string) : list ws := wire_prog name wire_progs.
(* for files that do not open the scope of strings *)
Definition prog_vbint_fill : list ws := prog "vbint.fill".

(* the receiver and the environment of each wire type *)
Definition wenv_of (w : wt) (v : value) (id : N) : wenv :=
  match w with
  | WBool => {| e_v := WVb (valB v); e_id := id; e_self_fill := fill_bool (valB v); e_self_width := 1 |}
  | Bin => {| e_v := WVs (valS v); e_id := id; e_self_fill := fill_bin (valS v); e_self_width := 2 + List.length (valS v) |}
  | Raw => {| e_v := WVs (valS v); e_id := id; e_self_fill := fill_raw (valS v); e_self_width := List.length (valS v) |}
  | U8 => {| e_v := WVn (valN v); e_id := id; e_self_fill := fill_u8 (valN v); e_self_width := 1 |}
  | U16 => {| e_v := WVn (valN v); e_id := id; e_self_fill := fill_u16 (valN v); e_self_width := 2 |}
  | U32 => {| e_v := WVn (valN v); e_id := id; e_self_fill := fill_u32 (valN v); e_self_width := 4 |}
  | Vb => {| e_v := WVn (valN v); e_id := id; e_self_fill := fill_vb (valN v); e_self_width := dry_count (fill_vb (valN v) [] 0) |}
  end.

Definition env_userprop (kv : list byte * list byte) (id : N) : wenv :=
  {| e_v := WVp (fst kv) (snd kv); e_id := id; e_self_fill := fill_userprop kv; e_self_width := width_userprop kv |}.

(* the Go type behind each wire type tag (U8 is bits; Ident has the same three methods) *)
Definition go_type (w : wt) : string :=
  match w with
  | U8 => "bits" | U16 => "wuint16" | U32 => "wuint32" | WBool => "wbool"
  | Bin => "bindata" | Raw => "rawdata" | Vb => "vbint"
  end.

Definition prog_width (w : wt) : list ws := prog (go_type w ++ ".width").
Definition prog_fill (w : wt) : list ws := prog (go_type w ++ ".fill").
Definition prog_fillprop (w : wt) : list ws := prog (go_type w ++ ".fillProp").
