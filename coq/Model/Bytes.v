(* Bytes: the byte type of the model and its conversion to numbers.
   Definitions only (no proofs in Model/). *)
From Coq Require Export List NArith Bool.
From Coq.Strings Require Export Byte.
Export ListNotations.
Open Scope N_scope.

Definition byte := Byte.byte.
Definition b2n (b : byte) : N := Byte.to_N b.
Definition n2b (n : N) : byte :=
  match Byte.of_N (n mod 256) with Some b => b | None => x00 end.

Definition len {A} (l : list A) : N := N.of_nat (length l).

(* Go's re-slicing d[lo:hi]; None is the run-time panic *)
Definition slice {A} (d : list A) (lo hi : nat) : option (list A) :=
  if (Nat.leb lo hi && Nat.leb hi (length d))%bool
  then Some (firstn (hi - lo) (skipn lo d)) else None.

Fixpoint list_eqb {A} (eqb : A -> A -> bool) (a b : list A) : bool :=
  match a, b with
  | [], [] => true
  | x :: a', y :: b' => eqb x y && list_eqb eqb a' b'
  | _, _ => false
  end.
Definition byte_eqb (a b : byte) : bool := Byte.eqb a b.
Definition bytes_eqb := list_eqb byte_eqb.
