(* The universal packet record: every field that any of the 16 Go
   structs has.  A field of a wire type lives in [vals] (the packet
   itself) or [wvals] (the *Publish hanging off Connect.will). *)
From MQ Require Export Model.Wire.

Inductive kind :=
| KUndefined | KConnect | KConnAck | KPublish | KPubAck | KPubRec | KPubRel
| KPubComp | KSubscribe | KSubAck | KUnsubscribe | KUnsubAck | KPingReq
| KPingResp | KDisconnect | KAuth.

Definition kind_nibble (k : kind) : N :=
  match k with
  | KUndefined => 0 | KConnect => 1 | KConnAck => 2 | KPublish => 3
  | KPubAck => 4 | KPubRec => 5 | KPubRel => 6 | KPubComp => 7
  | KSubscribe => 8 | KSubAck => 9 | KUnsubscribe => 10 | KUnsubAck => 11
  | KPingReq => 12 | KPingResp => 13 | KDisconnect => 14 | KAuth => 15
  end.

Definition kind_of_nibble (n : N) : kind :=
  match n with
  | 1 => KConnect | 2 => KConnAck | 3 => KPublish | 4 => KPubAck
  | 5 => KPubRec | 6 => KPubRel | 7 => KPubComp | 8 => KSubscribe
  | 9 => KSubAck | 10 => KUnsubscribe | 11 => KUnsubAck | 12 => KPingReq
  | 13 => KPingResp | 14 => KDisconnect | 15 => KAuth | _ => KUndefined
  end.

Definition kind_eqb (a b : kind) : bool := kind_nibble a =? kind_nibble b.

Inductive fld :=
| F_fixed | F_flags | F_packetID | F_reasonCode
| F_protocolVersion | F_keepAlive | F_receiveMax | F_sessionExpiryInterval
| F_maxPacketSize | F_willDelayInterval | F_topicAliasMax
| F_requestResponseInfo | F_requestProblemInfo | F_protocolName | F_clientID
| F_authMethod | F_authData | F_username | F_password | F_willPayload
| F_maxQoS | F_retainAvailable | F_assignedClientID | F_reasonString
| F_wildcardSubAvailable | F_subIdentifiersAvailable | F_sharedSubAvailable
| F_serverKeepAlive | F_responseInformation | F_serverReference
| F_topicAlias | F_payloadFormat | F_messageExpiryInterval | F_topicName
| F_responseTopic | F_correlationData | F_contentType | F_payload
| F_data.

Definition fld_idx (f : fld) : N :=
  match f with
  | F_fixed => 0 | F_flags => 1 | F_packetID => 2 | F_reasonCode => 3
  | F_protocolVersion => 4 | F_keepAlive => 5 | F_receiveMax => 6
  | F_sessionExpiryInterval => 7 | F_maxPacketSize => 8
  | F_willDelayInterval => 9 | F_topicAliasMax => 10
  | F_requestResponseInfo => 11 | F_requestProblemInfo => 12
  | F_protocolName => 13 | F_clientID => 14 | F_authMethod => 15
  | F_authData => 16 | F_username => 17 | F_password => 18
  | F_willPayload => 19 | F_maxQoS => 20 | F_retainAvailable => 21
  | F_assignedClientID => 22 | F_reasonString => 23
  | F_wildcardSubAvailable => 24 | F_subIdentifiersAvailable => 25
  | F_sharedSubAvailable => 26 | F_serverKeepAlive => 27
  | F_responseInformation => 28 | F_serverReference => 29
  | F_topicAlias => 30 | F_payloadFormat => 31
  | F_messageExpiryInterval => 32 | F_topicName => 33
  | F_responseTopic => 34 | F_correlationData => 35 | F_contentType => 36
  | F_payload => 37 | F_data => 38
  end.
Definition fld_eqb (a b : fld) : bool := fld_idx a =? fld_idx b.

(* a field reference: of the packet itself or of its will message *)
Inductive fref := M (f : fld) | W (f : fld).

Record pkt := {
  vals    : fld -> value;
  wvals   : fld -> value;                       (* fields of *will        *)
  hasWill : bool;                               (* will != nil            *)
  uprops  : list (list byte * list byte);       (* UserProperties         *)
  wuprops : list (list byte * list byte);       (* will.UserProperties    *)
  subids  : list N;                             (* Publish.subscriptionIDs*)
  wsubids : list N;                             (* will.subscriptionIDs   *)
  subid   : option N;                           (* Subscribe.subscriptionID , a pointer to vbint *)
  filters : list (list byte * N);               (* Subscribe.filters      *)
  ufilters: list (list byte);                   (* Unsubscribe.filters    *)
  rcodes  : list N                              (* SubAck/UnsubAck.reasonCodes *)
}.

Definition no_vals : fld -> value := fun _ => VN 0.

Definition zero_pkt : pkt :=
  {| vals := no_vals; wvals := no_vals; hasWill := false; uprops := [];
     wuprops := []; subids := []; wsubids := []; subid := None;
     filters := []; ufilters := []; rcodes := [] |}.

Definition upd (m : fld -> value) (f : fld) (v : value) : fld -> value :=
  fun g => if fld_eqb g f then v else m g.

Definition getf (r : fref) (p : pkt) : value :=
  match r with M f => vals p f | W f => wvals p f end.

Definition set_vals (p : pkt) (m : fld -> value) : pkt :=
  {| vals := m; wvals := wvals p; hasWill := hasWill p; uprops := uprops p;
     wuprops := wuprops p; subids := subids p; wsubids := wsubids p;
     subid := subid p; filters := filters p; ufilters := ufilters p;
     rcodes := rcodes p |}.
Definition set_wvals (p : pkt) (m : fld -> value) : pkt :=
  {| vals := vals p; wvals := m; hasWill := hasWill p; uprops := uprops p;
     wuprops := wuprops p; subids := subids p; wsubids := wsubids p;
     subid := subid p; filters := filters p; ufilters := ufilters p;
     rcodes := rcodes p |}.
Definition set_hasWill (p : pkt) (b : bool) : pkt :=
  {| vals := vals p; wvals := wvals p; hasWill := b; uprops := uprops p;
     wuprops := wuprops p; subids := subids p; wsubids := wsubids p;
     subid := subid p; filters := filters p; ufilters := ufilters p;
     rcodes := rcodes p |}.
Definition set_uprops (p : pkt) (l : list (list byte * list byte)) : pkt :=
  {| vals := vals p; wvals := wvals p; hasWill := hasWill p; uprops := l;
     wuprops := wuprops p; subids := subids p; wsubids := wsubids p;
     subid := subid p; filters := filters p; ufilters := ufilters p;
     rcodes := rcodes p |}.
Definition set_wuprops (p : pkt) (l : list (list byte * list byte)) : pkt :=
  {| vals := vals p; wvals := wvals p; hasWill := hasWill p; uprops := uprops p;
     wuprops := l; subids := subids p; wsubids := wsubids p;
     subid := subid p; filters := filters p; ufilters := ufilters p;
     rcodes := rcodes p |}.
Definition set_subids (p : pkt) (l : list N) : pkt :=
  {| vals := vals p; wvals := wvals p; hasWill := hasWill p; uprops := uprops p;
     wuprops := wuprops p; subids := l; wsubids := wsubids p;
     subid := subid p; filters := filters p; ufilters := ufilters p;
     rcodes := rcodes p |}.
Definition set_wsubids (p : pkt) (l : list N) : pkt :=
  {| vals := vals p; wvals := wvals p; hasWill := hasWill p; uprops := uprops p;
     wuprops := wuprops p; subids := subids p; wsubids := l;
     subid := subid p; filters := filters p; ufilters := ufilters p;
     rcodes := rcodes p |}.
Definition set_subid (p : pkt) (o : option N) : pkt :=
  {| vals := vals p; wvals := wvals p; hasWill := hasWill p; uprops := uprops p;
     wuprops := wuprops p; subids := subids p; wsubids := wsubids p;
     subid := o; filters := filters p; ufilters := ufilters p;
     rcodes := rcodes p |}.
Definition set_filters (p : pkt) (l : list (list byte * N)) : pkt :=
  {| vals := vals p; wvals := wvals p; hasWill := hasWill p; uprops := uprops p;
     wuprops := wuprops p; subids := subids p; wsubids := wsubids p;
     subid := subid p; filters := l; ufilters := ufilters p;
     rcodes := rcodes p |}.
Definition set_ufilters (p : pkt) (l : list (list byte)) : pkt :=
  {| vals := vals p; wvals := wvals p; hasWill := hasWill p; uprops := uprops p;
     wuprops := wuprops p; subids := subids p; wsubids := wsubids p;
     subid := subid p; filters := filters p; ufilters := l;
     rcodes := rcodes p |}.
Definition set_rcodes (p : pkt) (l : list N) : pkt :=
  {| vals := vals p; wvals := wvals p; hasWill := hasWill p; uprops := uprops p;
     wuprops := wuprops p; subids := subids p; wsubids := wsubids p;
     subid := subid p; filters := filters p; ufilters := ufilters p;
     rcodes := l |}.

Definition setf (r : fref) (v : value) (p : pkt) : pkt :=
  match r with
  | M f => set_vals p (upd (vals p) f v)
  | W f => set_wvals p (upd (wvals p) f v)
  end.

Definition getN (r : fref) (p : pkt) : N := valN (getf r p).
Definition getB (r : fref) (p : pkt) : bool := valB (getf r p).
Definition getS (r : fref) (p : pkt) : list byte := valS (getf r p).

(* ------------------------------------------------------------------ *)
(* Constants of const.go / connect.go (regenerated and compared by the
   translator, see gen/Sync.v).                                        *)
Definition RETAIN := 1. Definition QoS1 := 2. Definition QoS2 := 4.
Definition QoS3 := 6.  Definition DUP := 8.

Definition Reserved := 1. Definition CleanStart := 2. Definition WillFlag := 4.
Definition WillQoS1 := 8. Definition WillQoS2 := 16. Definition WillRetain := 32.
Definition PasswordFlag := 64. Definition UsernameFlag := 128.

Definition PayloadFormatIndicator := 1.  Definition MessageExpiryInterval := 2.
Definition ContentType := 3.             Definition ResponseTopic := 8.
Definition CorrelationData := 9.         Definition SubscriptionID := 11.
Definition SessionExpiryInterval := 17.  Definition AssignedClientID := 18.
Definition ServerKeepAlive := 19.        Definition AuthMethod := 21.
Definition AuthData := 22.               Definition RequestProblemInfo := 23.
Definition WillDelayInterval := 24.      Definition RequestResponseInfo := 25.
Definition ResponseInformation := 26.    Definition ServerReference := 28.
Definition ReasonString := 31.           Definition ReceiveMax := 33.
Definition TopicAliasMax := 34.          Definition TopicAlias := 35.
Definition MaxQoS := 36.                 Definition RetainAvailable := 37.
Definition UserProperty := 38.           Definition MaxPacketSize := 39.
Definition WildcardSubAvailable := 40.   Definition SubIDsAvailable := 41.
Definition SharedSubAvailable := 42.

(* Publish.QoS() *)
Definition qos_of_fixed (fx : N) : N :=
  if has fx QoS3 then 3 else if has fx QoS1 then 1 else if has fx QoS2 then 2 else 0.

Definition mqtt5 : list byte := [x4d; x51; x54; x54].  (* "MQTT" *)

(* Constructors NewX(): initial first byte (and CONNECT's defaults). *)
Definition ctor_fixed (k : kind) : N :=
  match k with
  | KPubRel | KSubscribe | KUnsubscribe => kind_nibble k * 16 + 2
  | _ => kind_nibble k * 16
  end.

Definition ctor (k : kind) : pkt :=
  let p := setf (M F_fixed) (VN (ctor_fixed k)) zero_pkt in
  match k with
  | KConnect => setf (M F_protocolVersion) (VN 5) (setf (M F_protocolName) (VS mqtt5) p)
  | KUndefined => zero_pkt
  | _ => p
  end.
