(* io.Reader / io.Writer as finite scripts, io.ReadFull (after Go 1.23
   io.ReadAtLeast), and packet.go: ReadPacket, fixedHeader.ReadFrom,
   vbint.ReadFrom, bits.ReadFrom, ReadRemaining, WriteTo.
   Hand-written; tied by correspondence with scripted readers/writers
   (ops R, W) including the trace of requested sizes. *)
From MQ Require Export Model.Api.

(* One entry = what the reader has ready for one Read call: some bytes
   and possibly an error delivered together with the last of them.
   Read(buf) delivers at most len(buf) of the bytes; what does not fit
   stays at the head (without repeating a delivered error early).
   An exhausted script answers (0, io.EOF) for ever. *)
Inductive rstep := Chunk (bs : list byte) (e : option err).
Definition script := list rstep.

Definition read_call (n : N) (s : script) : list byte * option err * script :=
  match s with
  | [] => ([], Some EEOF, [])
  | Chunk bs e :: s' =>
    if len bs <=? n then (bs, e, s')
    else (firstn (N.to_nat n) bs, None, Chunk (skipn (N.to_nat n) bs) e :: s')
  end.

Fixpoint script_size (s : script) : nat :=
  match s with [] => O | Chunk bs _ :: s' => S (length bs + script_size s')%nat end.

(* io.ReadFull(r, buf) with len(buf) = need > 0.  Returns the bytes
   read, the error, the remaining script and the sizes requested.
   The declared size is an N (it can be 2^28 while the script is
   short).  None = out of fuel (never, see Proofs). *)
Fixpoint read_full_loop (fuel : nat) (need : N) (acc : list byte) (s : script)
         (tr : list N) : option (list byte * option err * script * list N) :=
  match fuel with
  | O => None
  | S fuel' =>
    let '(bs, e, s') := read_call (need - len acc) s in
    let acc' := acc ++ bs in
    let tr' := tr ++ [need - len acc] in
    if need <=? len acc' then Some (acc', None, s', tr')
    else match e with
         | Some EEOF =>
           Some (acc', Some (match acc' with [] => EEOF | _ => EUnexpectedEOF end), s', tr')
         | Some x => Some (acc', Some x, s', tr')
         | None => read_full_loop fuel' need acc' s' tr'
         end
  end.
Definition read_full (need : N) (s : script) :=
  read_full_loop (S (script_size s)) need [] s [].

Record rresult := {
  r_pkt : option (kind * pkt);
  r_err : option err;
  r_rest : script;
  r_trace : list N;              (* sizes requested from the reader, in order *)
  r_got : list byte              (* every byte obtained from the reader        *)
}.

Definition fail (e : err) (s : script) (tr : list N) (got : list byte) : rresult :=
  {| r_pkt := None; r_err := Some e; r_rest := s; r_trace := tr; r_got := got |}.

(* vbint.ReadFrom *)
Fixpoint vb_stream_loop (fuel : nat) (mult value : N) (s : script) (tr : list N)
         (got : list byte) : option (outcome N * script * list N * list byte) :=
  match fuel with
  | O => None
  | S fuel' =>
    match read_full 1 s with
    | None => None
    | Some (bs, Some e, s', t) => Some (Err e, s', tr ++ t, got ++ bs)
    | Some (bs, None, s', t) =>
      match bs with
      | [b] =>
        let value' := value + (b2n b mod 128) * mult in
        if 128 * 128 * 128 <? mult then Some (Err ESizeExceeded, s', tr ++ t, got ++ bs)
        else if b2n b <? 128 then Some (Ok value', s', tr ++ t, got ++ bs)
        else vb_stream_loop fuel' (mult * 128) value' s' (tr ++ t) (got ++ bs)
      | _ => Some (Panic, s', tr ++ t, got ++ bs)   (* unreachable: read_full 1 *)
      end
    end
  end.
Definition vb_stream (s : script) := vb_stream_loop 6 1 0 s [] [].

(* ReadRemaining: the struct allocated by the switch *)
Definition fresh_pkt (b : N) : kind * pkt :=
  let k := kind_of_nibble (b / 16) in
  (k, match k with KUndefined => zero_pkt | _ => setf (M F_fixed) (VN b) zero_pkt end).

Inductive rp := RP (r : rresult) | RPPanic | RPFuel.

Definition read_packet (s : script) : rp :=
  match read_full 1 s with
  | None => RPFuel
  | Some (bs, Some e, s1, t1) => RP (fail e s1 t1 bs)
  | Some (bs, None, s1, t1) =>
    match bs with
    | [b0] =>
      match vb_stream s1 with
      | None => RPFuel
      | Some (Err e, s2, t2, g2) => RP (fail e s2 (t1 ++ t2) (bs ++ g2))
      | Some (Panic, s2, t2, g2) => RPPanic
      | Some (Ok rl, s2, t2, g2) =>
        let '(k, p0) := fresh_pkt (b2n b0) in
        if rl =? 0 then
          RP {| r_pkt := Some (k, p0); r_err := None; r_rest := s2;
                r_trace := t1 ++ t2; r_got := bs ++ g2 |}
        else
          match read_full rl s2 with
          | None => RPFuel
          | Some (body, Some e, s3, t3) => RP (fail e s3 (t1 ++ t2 ++ t3) (bs ++ g2 ++ body))
          | Some (body, None, s3, t3) =>
            let tr := t1 ++ t2 ++ t3 in
            let got := bs ++ g2 ++ body in
            match unmarshal k p0 body with
            | UOk p => RP {| r_pkt := Some (k, p); r_err := None; r_rest := s3;
                             r_trace := tr; r_got := got |}
            | UErr e _ => RP (fail e s3 tr got)
            | UPanic => RPPanic
            | UFuel => RPFuel
            end
          end
      end
    | _ => RPPanic
    end
  end.

(* A single-chunk reader *)
Definition one (bs : list byte) : script := [Chunk bs None].

(* ------------------------------------------------------------------ *)
(* Writers: what the io.Writer does with the single Write call.         *)
Inductive wscript :=
| Accept                      (* takes everything, nil                       *)
| FailW (e : err)             (* takes nothing, error                        *)
| Short (k : nat) (e : err).  (* takes the first k bytes and reports e       *)

Record wresult := { w_n : nat; w_err : option err; w_calls : list (list byte) }.

(* WriteTo: b := make(fill(_LEN,0)); fill(b,0); n, err := w.Write(b) *)
Definition write_to (k : kind) (p : pkt) (w : wscript) : option wresult :=
  match k with
  | KUndefined => Some {| w_n := 0; w_err := Some ECannotWrite; w_calls := [] |}
  | _ =>
    match encode_pkt k p with
    | None => None                                         (* panic *)
    | Some bs =>
      Some match w with
           | Accept => {| w_n := length bs; w_err := None; w_calls := [bs] |}
           | FailW e => {| w_n := 0; w_err := Some e; w_calls := [bs] |}
           | Short n e => {| w_n := Nat.min n (length bs); w_err := Some e; w_calls := [bs] |}
           end
    end
  end.
