(* Per-packet encoders and decoders as data: a small deep-embedded IR
   with one constructor per idiom of the Go packet files, an
   interpreter for it in terms of Wire.v, and the skeleton of each of
   the 16 packet types.  Definitions only. *)
From MQ Require Export Model.Packet.

(* ------------------------------------------------------------------ *)
Inductive cond :=
| CHas (r : fref) (mask : N)      (* bits(field).Has(mask)                 *)
| CQoS12                          (* v := p.QoS(); v == 1 || v == 2        *)
| CNonEmpty (r : fref)            (* len(field) > 0                        *)
| CIsZero (r : fref)              (* numeric field == 0                    *)
| CDataLenGt (n : nat)            (* len(data) > n            (decoder)    *)
| CMoreData                       (* len(data) > b.i          (decoder)    *)
| CNot (c : cond)
| CAnd (a b : cond).

Inductive enc :=
| EFill (r : fref) (w : wt)               (* i += p.f.fill(b, i)                    *)
| EFillProp (r : fref) (w : wt) (id : N)  (* i += p.f.fillProp(b, i, Ident)         *)
| EFillOpt (r : fref)                     (* i += p.f.fillOpt(b, i)  (bits, >0)     *)
| EVbConst (n : N)                        (* i += vbint(n).fill(b, i)               *)
| EVbLen (es : list enc)                  (* i += vbint(<dry run of es>).fill(b, i) *)
| EIf (c : cond) (thens elses : list enc)
| EIfEmpty (sub thens elses : list enc)   (* if <dry run of sub> == 0 {thens} else {elses} *)
| EUserProps (will : bool)                (* p.UserProperties.properties(b, i)      *)
| ESubIDs                                 (* for j := range subscriptionIDs: vbint.fillProp(SubscriptionID) *)
| ESubID                                  (* SUBSCRIBE: range propertyMap(false): optional vbint pointer *)
| EFilters                                (* for j := range filters: filters[j].fill *)
| EUnsubFilters
| EReasonCodes.

Inductive submode :=
| NoSub      (* identifier 0x0b is read and dropped                    *)
| AddSub     (* PUBLISH: buffer.addSubscriptionID appends uint32(sub)  *)
| SubOpt.    (* SUBSCRIBE: map entry allocating a vbint                 *)

Inductive dec :=
| DGet (r : fref) (w : wt)
| DGetAny (m : list (N * fref * wt)) (will : bool) (sm : submode)
| DIf (c : cond) (ds : list dec)
| DWillInit                 (* p.will = NewPublish(); SetQoS(willQoS()); SetRetain(flags.Has(WillRetain)) *)
| DWillPayloadCopy          (* p.will.payload = rawdata(p.willPayload) *)
| DFilterLoop               (* for !b.atEnd() { get filter; get options; append; if err||atEnd break } *)
| DUnsubFilterLoop
| DReasonCodes              (* make(len(data)-b.i); get each *)
| DUndefinedData (copy : bool).  (* p.data = a copy of data (true) or data itself (false) *)

(* ------------------------------------------------------------------ *)
(* Field access that can dereference a nil will.                        *)
Definition getf_opt (r : fref) (p : pkt) : option value :=
  match r with
  | M f => Some (vals p f)
  | W f => if hasWill p then Some (wvals p f) else None
  end.

Record cenv := { ce_len : nat; ce_pos : nat }.
Definition no_env := {| ce_len := 0; ce_pos := 0 |}.

Fixpoint eval_cond (c : cond) (p : pkt) (e : cenv) : bool :=
  match c with
  | CHas r mask => has (getN r p) mask
  | CQoS12 => let q := qos_of_fixed (getN (M F_fixed) p) in (q =? 1) || (q =? 2)
  | CNonEmpty r => match getS r p with [] => false | _ => true end
  | CIsZero r => getN r p =? 0
  | CDataLenGt n => Nat.ltb n (ce_len e)
  | CMoreData => Nat.ltb (ce_pos e) (ce_len e)
  | CNot c => negb (eval_cond c p e)
  | CAnd a b => eval_cond a p e && eval_cond b p e
  end.

(* ------------------------------------------------------------------ *)
(* Encoder interpreter.  None = panic (nil will dereferenced).          *)

Definition enc_filter (f : list byte * N) : list byte := enc_bin (fst f) ++ enc_u8 (snd f).

Definition opt_app (a b : option (list byte)) : option (list byte) :=
  match a, b with Some x, Some y => Some (x ++ y) | _, _ => None end.

Fixpoint run_enc1 (e : enc) (p : pkt) {struct e} : option (list byte) :=
  let run_list := fix run_list (es : list enc) : option (list byte) :=
    match es with
    | [] => Some []
    | e' :: es' => opt_app (run_enc1 e' p) (run_list es')
    end in
  match e with
  | EFill r w => option_map (encode w) (getf_opt r p)
  | EFillProp r w id => option_map (enc_prop w id) (getf_opt r p)
  | EFillOpt r =>
      option_map (fun v => if valN v =? 0 then [] else enc_u8 (valN v)) (getf_opt r p)
  | EVbConst n => Some (enc_vb n)
  | EVbLen es => option_map (fun bs => enc_vb (len bs)) (run_list es)
  | EIf c a b => if eval_cond c p no_env then run_list a else run_list b
  | EIfEmpty sub a b =>
      match run_list sub with
      | None => None
      | Some [] => run_list a
      | Some _ => run_list b
      end
  | EUserProps will =>
      if will then
        if hasWill p then Some (concat (map (enc_userprop UserProperty) (wuprops p))) else None
      else Some (concat (map (enc_userprop UserProperty) (uprops p)))
  | ESubIDs => Some (concat (map (fun n => enc_prop Vb SubscriptionID (VN n)) (subids p)))
  | ESubID => match subid p with
              | None => Some []
              | Some n => Some (enc_prop Vb SubscriptionID (VN n))
              end
  | EFilters => Some (concat (map enc_filter (filters p)))
  | EUnsubFilters => Some (concat (map enc_bin (ufilters p)))
  | EReasonCodes => Some (concat (map enc_u8 (rcodes p)))
  end.

Fixpoint run_enc (es : list enc) (p : pkt) : option (list byte) :=
  match es with
  | [] => Some []
  | e :: es' => opt_app (run_enc1 e p) (run_enc es' p)
  end.

(* ------------------------------------------------------------------ *)
(* Decoder interpreter: the guarded reader of buffer.go.                *)

Record dstate := {
  dp : pkt; ddata : list byte; dpos : nat; derr : option err;
  dsteps : nat                    (* number of buffer.get calls so far *)
}.

Inductive res := Run (s : dstate) | RPanic | RFuel.

Definition with_pkt (p : pkt) (s : dstate) : dstate :=
  {| dp := p; ddata := ddata s; dpos := dpos s; derr := derr s; dsteps := dsteps s |}.
Definition with_err (e : err) (s : dstate) : dstate :=
  {| dp := dp s; ddata := ddata s; dpos := dpos s; derr := Some e; dsteps := dsteps s |}.
Definition advance (n : nat) (s : dstate) : dstate :=
  {| dp := dp s; ddata := ddata s; dpos := dpos s + n; derr := derr s; dsteps := dsteps s |}.
Definition set_pos (n : nat) (s : dstate) : dstate :=
  {| dp := dp s; ddata := ddata s; dpos := n; derr := derr s; dsteps := dsteps s |}.
Definition tick (s : dstate) : dstate :=
  {| dp := dp s; ddata := ddata s; dpos := dpos s; derr := derr s; dsteps := S (dsteps s) |}.
Definition env_of (s : dstate) : cenv := {| ce_len := length (ddata s); ce_pos := dpos s |}.
Definition at_end (s : dstate) : bool := Nat.eqb (dpos s) (length (ddata s)).

(* buffer.get on a destination holding [old]: the decoded value (if
   any) and the new reader state. *)
Inductive gres (A : Type) := GOk (v : A) (s : dstate) | GNo (s : dstate) | GPanic.
Arguments GOk {A} v s. Arguments GNo {A} s. Arguments GPanic {A}.

Definition get_with {A} (dc : list byte -> outcome A) (wd : A -> nat)
           (s0 : dstate) : gres A :=
  let s := tick s0 in
  match derr s with
  | Some _ => GNo s
  | None =>
    if Nat.leb (length (ddata s)) (dpos s) then GNo (with_err EMissingData s)
    else match dc (skipn (dpos s) (ddata s)) with
         | Panic => GPanic
         | Err e => GNo (with_err e s)
         | Ok v =>
           (* b.i += v.width(); clamped to len(data) with ErrMissingData *)
           let s' := advance (wd v) s in
           if Nat.ltb (length (ddata s')) (dpos s')
           then GOk v (with_err EMissingData (set_pos (length (ddata s')) s'))
           else GOk v s'
         end
  end.

Definition get_val (w : wt) (old : value) (s : dstate) : gres value :=
  get_with (decode w old) (width w) s.

Definition get (r : fref) (w : wt) (s : dstate) : res :=
  match getf_opt r (dp s) with
  | None => RPanic
  | Some old =>
    match get_val w old s with
    | GOk v s' => Run (with_pkt (setf r v (dp s')) s')
    | GNo s' => Run s'
    | GPanic => RPanic
    end
  end.

Fixpoint lookup_prop (m : list (N * fref * wt)) (id : N) : option (fref * wt) :=
  match m with
  | [] => None
  | (i, r, w) :: m' => if i =? id then Some (r, w) else lookup_prop m' id
  end.

Definition add_uprop (will : bool) (kv : list byte * list byte) (p : pkt) : option pkt :=
  if will then
    if hasWill p then Some (set_wuprops p (wuprops p ++ [kv])) else None
  else Some (set_uprops p (uprops p ++ [kv])).

(* the loop of getAny; [id] is the local variable that survives iterations *)
Fixpoint getany_loop (fuel : nat) (m : list (N * fref * wt)) (will : bool)
         (sm : submode) (endp : N) (id : N) (s : dstate) : res :=
  match fuel with
  | O => RFuel
  | S fuel' =>
    if N.of_nat (dpos s) <? endp then
      match get_val U8 (VN id) s with
      | GPanic => RPanic
      | GNo s1 => Run s1                      (* b.err != nil: return *)
      | GOk v s1 =>
        let id := valN v in
        match (match sm with
               | SubOpt => if id =? SubscriptionID then None else lookup_prop m id
               | _ => lookup_prop m id end) with
        | Some (r, w) =>
          match get r w s1 with
          | Run s2 => getany_loop fuel' m will sm endp id s2
          | x => x
          end
        | None =>
          if (match sm with SubOpt => id =? SubscriptionID | _ => false end) then
            (* SUBSCRIBE: field() first allocates, then get decodes into it *)
            let s1' := with_pkt (set_subid (dp s1) (Some 0)) s1 in
            match get_val Vb (VN 0) s1' with
            | GPanic => RPanic
            | GNo s2 => getany_loop fuel' m will sm endp id s2
            | GOk v s2 =>
              getany_loop fuel' m will sm endp id
                          (with_pkt (set_subid (dp s2) (Some (valN v))) s2)
            end
          else if id =? UserProperty then
            let '(kv, r) :=
              match get_with dec_userprop width_userprop s1 with
              | GOk kv s2 => (kv, Run s2)
              | GNo s2 => (([], []), Run s2)
              | GPanic => (([], []), RPanic)
              end in
            match r with
            | Run s2 =>
              match add_uprop will kv (dp s2) with
              | None => RPanic
              | Some p' => getany_loop fuel' m will sm endp id (with_pkt p' s2)
              end
            | x => x
            end
          else if id =? SubscriptionID then
            let '(sub, r) :=
              match get_val Vb (VN 0) s1 with
              | GOk v s2 => (valN v, Run s2)
              | GNo s2 => (0, Run s2)
              | GPanic => (0, RPanic)
              end in
            match r with
            | Run s2 =>
              match sm with
              | AddSub =>
                getany_loop fuel' m will sm endp id
                  (with_pkt (set_subids (dp s2) (subids (dp s2) ++ [sub mod 4294967296])) s2)
              | _ => getany_loop fuel' m will sm endp id s2
              end
            | x => x
            end
          else getany_loop fuel' m will sm endp id (with_err (EUnknownProp id) s1)
        end
      end
    else Run s
  end.

Definition getany (m : list (N * fref * wt)) (will : bool) (sm : submode)
           (s : dstate) : res :=
  if at_end s then Run s
  else
    let '(plen, r) :=
      match get_val Vb (VN 0) s with
      | GOk v s1 => (valN v, Run s1)
      | GNo s1 => (0, Run s1)
      | GPanic => (0, RPanic)
      end in
    match r with
    | Run s1 =>
      getany_loop (S (length (ddata s))) m will sm (N.of_nat (dpos s1) + plen) 0 s1
    | x => x
    end.

Definition setqos (fx v : N) : N :=
  let fx := N.land fx (N.lxor 255 QoS3) in
  if v =? 1 then toggle fx QoS1 true
  else if v =? 2 then toggle fx QoS2 true
  else if v =? 3 then toggle fx QoS3 true
  else fx.

Definition will_qos (flags : N) : N := N.land flags (WillQoS2 + WillQoS1) / 8.

Definition will_init (p : pkt) : pkt :=
  let fx := ctor_fixed KPublish in
  let fx := setqos fx (will_qos (getN (M F_flags) p)) in
  let fx := toggle fx RETAIN (has (getN (M F_flags) p) WillRetain) in
  set_wsubids (set_wuprops (set_hasWill (set_wvals p (upd no_vals F_fixed (VN fx))) true) []) [].

Fixpoint filter_loop (fuel : nat) (s : dstate) : res :=
  match fuel with
  | O => RFuel
  | S fuel' =>
    if at_end s then Run s
    else
      let '(f, r) := match get_val Bin (VS []) s with
                     | GOk v s1 => (valS v, Run s1)
                     | GNo s1 => ([], Run s1)
                     | GPanic => ([], RPanic) end in
      match r with
      | Run s1 =>
        let '(o, r2) := match get_val U8 (VN 0) s1 with
                        | GOk v s2 => (valN v, Run s2)
                        | GNo s2 => (0, Run s2)
                        | GPanic => (0, RPanic) end in
        match r2 with
        | Run s2 =>
          let s3 := with_pkt (set_filters (dp s2) (filters (dp s2) ++ [(f, o)])) s2 in
          match derr s3 with
          | Some _ => Run s3
          | None => if at_end s3 then Run s3 else filter_loop fuel' s3
          end
        | x => x
        end
      | x => x
      end
  end.

Fixpoint ufilter_loop (fuel : nat) (s : dstate) : res :=
  match fuel with
  | O => RFuel
  | S fuel' =>
    if at_end s then Run s
    else
      let '(f, r) := match get_val Bin (VS []) s with
                     | GOk v s1 => (valS v, Run s1)
                     | GNo s1 => ([], Run s1)
                     | GPanic => ([], RPanic) end in
      match r with
      | Run s1 =>
        let s3 := with_pkt (set_ufilters (dp s1) (ufilters (dp s1) ++ [f])) s1 in
        match derr s3 with
        | Some _ => Run s3
        | None => if at_end s3 then Run s3 else ufilter_loop fuel' s3
        end
      | x => x
      end
  end.

(* for i := range reasonCodes { var v wuint8; get(&v); reasonCodes[i] = v } *)
Fixpoint rcodes_loop (n : nat) (acc : list N) (s : dstate) : res :=
  match n with
  | O => Run (with_pkt (set_rcodes (dp s) acc) s)
  | S n' =>
    match get_val U8 (VN 0) s with
    | GOk v s1 => rcodes_loop n' (acc ++ [valN v]) s1
    | GNo s1 => rcodes_loop n' (acc ++ [0]) s1
    | GPanic => RPanic
    end
  end.

Fixpoint run_dec1 (d : dec) (s : dstate) {struct d} : res :=
  let run_list := fix run_list (ds : list dec) (s : dstate) : res :=
    match ds with
    | [] => Run s
    | d' :: ds' => match run_dec1 d' s with Run s' => run_list ds' s' | x => x end
    end in
  match d with
  | DGet r w => get r w s
  | DGetAny m will sm => getany m will sm s
  | DIf c ds => if eval_cond c (dp s) (env_of s) then run_list ds s else Run s
  | DWillInit => Run (with_pkt (will_init (dp s)) s)
  | DWillPayloadCopy =>
      if hasWill (dp s)
      then Run (with_pkt (setf (W F_payload) (VS (getS (M F_willPayload) (dp s))) (dp s)) s)
      else RPanic
  | DFilterLoop => filter_loop (S (length (ddata s))) s
  | DUnsubFilterLoop => ufilter_loop (S (length (ddata s))) s
  | DReasonCodes =>
      (* make([]uint8, len(data)-b.i) panics on a negative length *)
      if Nat.leb (dpos s) (length (ddata s))
      then rcodes_loop (length (ddata s) - dpos s) [] s
      else RPanic
  | DUndefinedData _ => Run (with_pkt (setf (M F_data) (VS (ddata s)) (dp s)) s)
  end.

Fixpoint run_dec (ds : list dec) (s : dstate) : res :=
  match ds with
  | [] => Run s
  | d :: ds' => match run_dec1 d s with Run s' => run_dec ds' s' | x => x end
  end.

(* ------------------------------------------------------------------ *)
(* Skeletons.                                                           *)

Definition up := EUserProps false.

(* CONNECT *)
Definition connect_props : list enc :=
  [EFillProp (M F_receiveMax) U16 ReceiveMax;
   EFillProp (M F_sessionExpiryInterval) U32 SessionExpiryInterval;
   EFillProp (M F_maxPacketSize) U32 MaxPacketSize;
   EFillProp (M F_topicAliasMax) U16 TopicAliasMax;
   EFillProp (M F_requestResponseInfo) WBool RequestResponseInfo;
   EFillProp (M F_requestProblemInfo) WBool RequestProblemInfo;
   EFillProp (M F_authMethod) Bin AuthMethod;
   EFillProp (M F_authData) Bin AuthData;
   up].
Definition connect_vh : list enc :=
  [EFill (M F_protocolName) Bin; EFill (M F_protocolVersion) U8;
   EFill (M F_flags) U8; EFill (M F_keepAlive) U16;
   EVbLen connect_props] ++ connect_props.
Definition will_props : list enc :=
  [EFillProp (M F_willDelayInterval) U32 WillDelayInterval;
   EFillProp (W F_payloadFormat) WBool PayloadFormatIndicator;
   EFillProp (W F_messageExpiryInterval) U32 MessageExpiryInterval;
   EFillProp (W F_contentType) Bin ContentType;
   EFillProp (W F_responseTopic) Bin ResponseTopic;
   EFillProp (W F_correlationData) Bin CorrelationData;
   EUserProps true].
Definition connect_payload : list enc :=
  [EFill (M F_clientID) Bin;
   EIf (CHas (M F_flags) WillFlag)
       ([EVbLen will_props] ++ will_props ++
        [EFill (W F_topicName) Bin; EFill (M F_willPayload) Bin]) [];
   EIf (CHas (M F_flags) UsernameFlag) [EFill (M F_username) Bin] [];
   EIf (CHas (M F_flags) PasswordFlag) [EFill (M F_password) Bin] []].
Definition enc_connect : list enc :=
  [EFill (M F_fixed) U8; EVbLen (connect_vh ++ connect_payload)]
  ++ connect_vh ++ connect_payload.

Definition connect_map : list (N * fref * wt) :=
  [(ReceiveMax, M F_receiveMax, U16);
   (SessionExpiryInterval, M F_sessionExpiryInterval, U32);
   (MaxPacketSize, M F_maxPacketSize, U32);
   (TopicAliasMax, M F_topicAliasMax, U16);
   (RequestResponseInfo, M F_requestResponseInfo, WBool);
   (RequestProblemInfo, M F_requestProblemInfo, WBool);
   (AuthMethod, M F_authMethod, Bin);
   (AuthData, M F_authData, Bin)].
Definition will_map : list (N * fref * wt) :=
  [(WillDelayInterval, M F_willDelayInterval, U32);
   (PayloadFormatIndicator, W F_payloadFormat, WBool);
   (MessageExpiryInterval, W F_messageExpiryInterval, U32);
   (ContentType, W F_contentType, Bin);
   (ResponseTopic, W F_responseTopic, Bin);
   (CorrelationData, W F_correlationData, Bin)].
Definition dec_connect : list dec :=
  [DGet (M F_protocolName) Bin; DGet (M F_protocolVersion) U8;
   DGet (M F_flags) U8; DGet (M F_keepAlive) U16;
   DGetAny connect_map false NoSub;
   DGet (M F_clientID) Bin;
   DIf (CHas (M F_flags) WillFlag)
       [DWillInit; DGetAny will_map true NoSub; DGet (W F_topicName) Bin;
        DGet (M F_willPayload) Bin; DWillPayloadCopy];
   DIf (CHas (M F_flags) UsernameFlag) [DGet (M F_username) Bin];
   DIf (CHas (M F_flags) PasswordFlag) [DGet (M F_password) Bin]].

(* CONNACK *)
Definition connack_props : list enc :=
  [EFillProp (M F_receiveMax) U16 ReceiveMax;
   EFillProp (M F_sessionExpiryInterval) U32 SessionExpiryInterval;
   EFillProp (M F_maxQoS) U8 MaxQoS;
   EFillProp (M F_retainAvailable) WBool RetainAvailable;
   EFillProp (M F_maxPacketSize) U32 MaxPacketSize;
   EFillProp (M F_assignedClientID) Bin AssignedClientID;
   EFillProp (M F_topicAliasMax) U16 TopicAliasMax;
   EFillProp (M F_reasonString) Bin ReasonString;
   EFillProp (M F_wildcardSubAvailable) WBool WildcardSubAvailable;
   EFillProp (M F_subIdentifiersAvailable) WBool SubIDsAvailable;
   EFillProp (M F_sharedSubAvailable) WBool SharedSubAvailable;
   EFillProp (M F_serverKeepAlive) U16 ServerKeepAlive;
   EFillProp (M F_responseInformation) Bin ResponseInformation;
   EFillProp (M F_serverReference) Bin ServerReference;
   EFillProp (M F_authMethod) Bin AuthMethod;
   EFillProp (M F_authData) Bin AuthData;
   up].
Definition connack_vh : list enc :=
  [EFill (M F_flags) U8; EFill (M F_reasonCode) U8; EVbLen connack_props] ++ connack_props.
Definition enc_connack : list enc :=
  [EFill (M F_fixed) U8; EVbLen connack_vh] ++ connack_vh.
Definition connack_map : list (N * fref * wt) :=
  [(ReceiveMax, M F_receiveMax, U16);
   (SessionExpiryInterval, M F_sessionExpiryInterval, U32);
   (MaxQoS, M F_maxQoS, U8);
   (RetainAvailable, M F_retainAvailable, WBool);
   (MaxPacketSize, M F_maxPacketSize, U32);
   (AssignedClientID, M F_assignedClientID, Bin);
   (TopicAliasMax, M F_topicAliasMax, U16);
   (ReasonString, M F_reasonString, Bin);
   (WildcardSubAvailable, M F_wildcardSubAvailable, WBool);
   (SubIDsAvailable, M F_subIdentifiersAvailable, WBool);
   (SharedSubAvailable, M F_sharedSubAvailable, WBool);
   (ServerKeepAlive, M F_serverKeepAlive, U16);
   (ResponseInformation, M F_responseInformation, Bin);
   (ServerReference, M F_serverReference, Bin);
   (AuthMethod, M F_authMethod, Bin);
   (AuthData, M F_authData, Bin)].
Definition dec_connack : list dec :=
  [DGet (M F_flags) U8; DGet (M F_reasonCode) U8; DGetAny connack_map false NoSub].

(* PUBLISH *)
Definition publish_props : list enc :=
  [EFillProp (M F_payloadFormat) WBool PayloadFormatIndicator;
   EFillProp (M F_messageExpiryInterval) U32 MessageExpiryInterval;
   EFillProp (M F_topicAlias) U16 TopicAlias;
   EFillProp (M F_responseTopic) Bin ResponseTopic;
   EFillProp (M F_correlationData) Bin CorrelationData;
   EFillProp (M F_contentType) Bin ContentType;
   up; ESubIDs].
Definition publish_vh : list enc :=
  [EFill (M F_topicName) Bin; EIf CQoS12 [EFill (M F_packetID) U16] [];
   EVbLen publish_props] ++ publish_props.
Definition publish_payload : list enc :=
  [EIf (CNonEmpty (M F_payload)) [EFill (M F_payload) Raw] []].
Definition enc_publish : list enc :=
  [EFill (M F_fixed) U8; EVbLen (publish_vh ++ publish_payload)]
  ++ publish_vh ++ publish_payload.
Definition publish_map : list (N * fref * wt) :=
  [(PayloadFormatIndicator, M F_payloadFormat, WBool);
   (MessageExpiryInterval, M F_messageExpiryInterval, U32);
   (TopicAlias, M F_topicAlias, U16);
   (ResponseTopic, M F_responseTopic, Bin);
   (CorrelationData, M F_correlationData, Bin);
   (ContentType, M F_contentType, Bin)].
Definition dec_publish : list dec :=
  [DGet (M F_topicName) Bin; DIf CQoS12 [DGet (M F_packetID) U16];
   DGetAny publish_map false AddSub;
   DIf CMoreData [DGet (M F_payload) Raw]].

(* PUBACK, PUBREC, PUBREL, PUBCOMP *)
Definition ack_props : list enc :=
  [EFillProp (M F_reasonString) Bin ReasonString; up].
Definition ack_vh : list enc :=
  [EFill (M F_packetID) U16;
   EIfEmpty ack_props
     [EFillOpt (M F_reasonCode)]
     ([EFill (M F_reasonCode) U8; EVbLen ack_props] ++ ack_props)].
Definition enc_ack : list enc := [EFill (M F_fixed) U8; EVbLen ack_vh] ++ ack_vh.
Definition ack_map : list (N * fref * wt) := [(ReasonString, M F_reasonString, Bin)].
Definition dec_ack : list dec :=
  [DGet (M F_packetID) U16;
   DIf (CDataLenGt 2) [DGet (M F_reasonCode) U8; DGetAny ack_map false NoSub]].

(* SUBSCRIBE *)
Definition subscribe_props : list enc := [ESubID; up].
Definition subscribe_vh : list enc :=
  [EFill (M F_packetID) U16; EVbLen subscribe_props] ++ subscribe_props.
Definition enc_subscribe : list enc :=
  [EFill (M F_fixed) U8; EVbLen (subscribe_vh ++ [EFilters])] ++ subscribe_vh ++ [EFilters].
Definition dec_subscribe : list dec :=
  [DGet (M F_packetID) U16; DGetAny [] false SubOpt; DFilterLoop].

(* UNSUBSCRIBE *)
Definition unsubscribe_vh : list enc :=
  [EFill (M F_packetID) U16; EVbLen [up]; up].
Definition enc_unsubscribe : list enc :=
  [EFill (M F_fixed) U8; EVbLen (unsubscribe_vh ++ [EUnsubFilters])]
  ++ unsubscribe_vh ++ [EUnsubFilters].
Definition dec_unsubscribe : list dec :=
  [DGet (M F_packetID) U16; DGetAny [] false NoSub; DUnsubFilterLoop].

(* SUBACK, UNSUBACK *)
Definition suback_props : list enc :=
  [EFillProp (M F_reasonString) Bin ReasonString; up].
Definition suback_vh : list enc :=
  [EFill (M F_packetID) U16; EVbLen suback_props] ++ suback_props.
Definition enc_suback : list enc :=
  [EFill (M F_fixed) U8; EVbLen (suback_vh ++ [EReasonCodes])] ++ suback_vh ++ [EReasonCodes].
Definition dec_suback : list dec :=
  [DGet (M F_packetID) U16; DGetAny ack_map false NoSub; DReasonCodes].

(* PINGREQ, PINGRESP *)
Definition enc_ping : list enc := [EFill (M F_fixed) U8; EVbConst 0].
Definition dec_ping : list dec := [].

(* DISCONNECT *)
Definition disconnect_props : list enc :=
  [EFillProp (M F_sessionExpiryInterval) U32 SessionExpiryInterval;
   EFillProp (M F_reasonString) Bin ReasonString;
   EFillProp (M F_serverReference) Bin ServerReference; up].
Definition disconnect_body : list enc :=
  [EFill (M F_reasonCode) U8; EVbLen disconnect_props] ++ disconnect_props.
Definition disconnect_vh : list enc :=
  [EIfEmpty disconnect_props
     [EIf (CIsZero (M F_reasonCode)) [] disconnect_body]
     disconnect_body].
Definition enc_disconnect : list enc :=
  [EFill (M F_fixed) U8; EVbLen disconnect_vh] ++ disconnect_vh.
Definition disconnect_map : list (N * fref * wt) :=
  [(SessionExpiryInterval, M F_sessionExpiryInterval, U32); (ReasonString, M F_reasonString, Bin);
   (ServerReference, M F_serverReference, Bin)].
Definition dec_disconnect : list dec :=
  [DGet (M F_reasonCode) U8; DGetAny disconnect_map false NoSub].

(* AUTH *)
Definition auth_props : list enc :=
  [EFillProp (M F_authMethod) Bin AuthMethod;
   EFillProp (M F_authData) Bin AuthData;
   EFillProp (M F_reasonString) Bin ReasonString; up].
Definition auth_body : list enc :=
  [EFill (M F_reasonCode) U8; EVbLen auth_props] ++ auth_props.
Definition auth_vh : list enc :=
  [EIfEmpty auth_props
     [EIf (CIsZero (M F_reasonCode)) [] auth_body]
     auth_body].
Definition enc_auth : list enc := [EFill (M F_fixed) U8; EVbLen auth_vh] ++ auth_vh.
Definition auth_map : list (N * fref * wt) :=
  [(AuthMethod, M F_authMethod, Bin); (AuthData, M F_authData, Bin);
   (ReasonString, M F_reasonString, Bin)].
Definition dec_auth : list dec :=
  [DGet (M F_reasonCode) U8; DGetAny auth_map false NoSub].

Definition enc_of (k : kind) : option (list enc) :=
  match k with
  | KUndefined => None            (* Undefined.WriteTo refuses *)
  | KConnect => Some enc_connect
  | KConnAck => Some enc_connack
  | KPublish => Some enc_publish
  | KPubAck | KPubRec | KPubRel | KPubComp => Some enc_ack
  | KSubscribe => Some enc_subscribe
  | KSubAck | KUnsubAck => Some enc_suback
  | KUnsubscribe => Some enc_unsubscribe
  | KPingReq | KPingResp => Some enc_ping
  | KDisconnect => Some enc_disconnect
  | KAuth => Some enc_auth
  end.

Definition dec_of (k : kind) : list dec :=
  match k with
  | KUndefined => [DUndefinedData true]
  | KConnect => dec_connect
  | KConnAck => dec_connack
  | KPublish => dec_publish
  | KPubAck | KPubRec | KPubRel | KPubComp => dec_ack
  | KSubscribe => dec_subscribe
  | KSubAck | KUnsubAck => dec_suback
  | KUnsubscribe => dec_unsubscribe
  | KPingReq | KPingResp => dec_ping
  | KDisconnect => dec_disconnect
  | KAuth => dec_auth
  end.

(* p.fill(b, 0) as bytes; None = panic or unwritable *)
Definition encode_pkt (k : kind) (p : pkt) : option (list byte) :=
  match enc_of k with None => None | Some es => run_enc es p end.

(* p.UnmarshalBinary(data) *)
Inductive uresult := UOk (p : pkt) | UErr (e : err) (p : pkt) | UPanic | UFuel.

Definition unmarshal_steps (k : kind) (p0 : pkt) (data : list byte) : uresult * nat :=
  match run_dec (dec_of k)
        {| dp := p0; ddata := data; dpos := 0; derr := None; dsteps := 0 |} with
  | Run s => (match derr s with None => UOk (dp s) | Some e => UErr e (dp s) end, dsteps s)
  | RPanic => (UPanic, 0%nat)
  | RFuel => (UFuel, 0%nat)
  end.
Definition unmarshal (k : kind) (p0 : pkt) (data : list byte) : uresult :=
  fst (unmarshal_steps k p0 data).
