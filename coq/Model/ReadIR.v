(* vbint.ReadFrom - the streaming decoder of the remaining length - as a
   statement list.

   tools/gosync (wire.go) translates the method statement by statement and
   regenerates it on every run (gen/GenRead.v); gen/SyncRead.v compares it with
   `vb_read_prog` below, and Proofs/ReadIRP.v shows that running it on any
   reader script is Stream.vb_stream - the same value or error class, the
   same reader afterwards, the same sizes requested from the reader and the
   same bytes obtained - and that the count it returns is the number of bytes
   it obtained.  io.ReadFull is Stream.read_full (the model of the io package's
   loop, Proofs/StreamP.v); `data` is the one-byte buffer.  The loop runs on
   the fuel of vb_stream_loop (six rounds; the fifth byte always leaves).
   Definitions only. *)
From MQ Require Export Model.WireDecIR Model.Stream.
From Coq Require Import String.
Local Open Scope string_scope.
Local Open Scope nat_scope.

Inductive rc :=
| RC_mult_gt (k : N)          (* multiplier > k *)
| RC_eb_hi0.                  (* encodedByte&128 == 0 *)

Inductive rs :=
| R_var_mult1                 (* var multiplier uint = 1 *)
| R_var_value                 (* var value uint *)
| R_make_data1                (* data := make([]byte, 1) *)
| R_var_i                     (* var i int64 *)
| R_for (body : list rs)      (* for { body } *)
| R_readfull_or_ret           (* if _, err := io.ReadFull(r, data); err != nil { return i, err } *)
| R_inc_i                     (* i++ *)
| R_eb_data0                  (* encodedByte := data[0] *)
| R_value_acc                 (* value += uint(encodedByte) & uint(127) * multiplier *)
| R_mult_step                 (* multiplier = multiplier * 128 *)
| R_if (c : rc) (body : list rs)
| R_ret_err (e : err)         (* return i, unmarshalErr(v, "", "...") *)
| R_break
| R_set_value                 (* *v = vbint(value) *)
| R_ret_nil                   (* return i, nil *)
| R_unknown (text : string).

Record rst := mkr {
  q_s : script; q_tr : list N; q_got : list byte;   (* the reader, what was asked of it, what it gave *)
  q_data : list byte; q_i : nat; q_mult : N; q_value : N; q_eb : N;
  q_v : option N }.                                   (* the receiver once assigned *)

Inductive rflow := RNext (s : rst) | RRet (s : rst) (e : option err) | RBrk (s : rst).
Inductive rres := RF (f : rflow) | RPanicF (s : rst) | RFuelF.

Definition ev_rc (s : rst) (c : rc) : bool :=
  match c with
  | RC_mult_gt k => (k <? q_mult s)%N
  | RC_eb_hi0 => (N.land (q_eb s) 128 =? 0)%N
  end.

Definition read_fuel : nat := 6.

Fixpoint rexec (st : rs) (s : rst) {struct st} : rres :=
  let rexec_list := fix rexec_list (l : list rs) (s : rst) : rres :=
    match l with
    | [] => RF (RNext s)
    | st' :: l' =>
      match rexec st' s with
      | RF (RNext s') => rexec_list l' s'
      | r => r
      end
    end in
  match st with
  | R_var_mult1 => RF (RNext (mkr (q_s s) (q_tr s) (q_got s) (q_data s) (q_i s) 1 (q_value s) (q_eb s) (q_v s)))
  | R_var_value => RF (RNext (mkr (q_s s) (q_tr s) (q_got s) (q_data s) (q_i s) (q_mult s) 0 (q_eb s) (q_v s)))
  | R_make_data1 => RF (RNext (mkr (q_s s) (q_tr s) (q_got s) [x00] (q_i s) (q_mult s) (q_value s) (q_eb s) (q_v s)))
  | R_var_i => RF (RNext (mkr (q_s s) (q_tr s) (q_got s) (q_data s) 0 (q_mult s) (q_value s) (q_eb s) (q_v s)))
  | R_for body =>
      (fix loop (f : nat) (s : rst) : rres :=
         match f with
         | O => RFuelF
         | S f' =>
           match rexec_list body s with
           | RF (RNext s') => loop f' s'
           | RF (RBrk s') => RF (RNext s')
           | r => r
           end
         end) read_fuel s
  | R_readfull_or_ret =>
      match read_full (len (q_data s)) (q_s s) with
      | None => RFuelF
      | Some (bs, Some e, s', t) =>
          RF (RRet (mkr s' (q_tr s ++ t) (q_got s ++ bs) (q_data s) (q_i s) (q_mult s) (q_value s) (q_eb s) (q_v s)) (Some e))
      | Some (bs, None, s', t) =>
          RF (RNext (mkr s' (q_tr s ++ t) (q_got s ++ bs) bs (q_i s) (q_mult s) (q_value s) (q_eb s) (q_v s)))
      end
  | R_inc_i => RF (RNext (mkr (q_s s) (q_tr s) (q_got s) (q_data s) (S (q_i s)) (q_mult s) (q_value s) (q_eb s) (q_v s)))
  | R_eb_data0 =>
      match q_data s with
      | [b] => RF (RNext (mkr (q_s s) (q_tr s) (q_got s) (q_data s) (q_i s) (q_mult s) (q_value s) (b2n b) (q_v s)))
      | _ => RPanicF s      (* data is the one-byte buffer *)
      end
  | R_value_acc =>
      RF (RNext (mkr (q_s s) (q_tr s) (q_got s) (q_data s) (q_i s) (q_mult s)
                     (q_value s + N.land (q_eb s) 127 * q_mult s)%N (q_eb s) (q_v s)))
  | R_mult_step => RF (RNext (mkr (q_s s) (q_tr s) (q_got s) (q_data s) (q_i s) (q_mult s * 128)%N (q_value s) (q_eb s) (q_v s)))
  | R_if c body => if ev_rc s c then rexec_list body s else RF (RNext s)
  | R_ret_err e => RF (RRet s (Some e))
  | R_break => RF (RBrk s)
  | R_set_value => RF (RNext (mkr (q_s s) (q_tr s) (q_got s) (q_data s) (q_i s) (q_mult s) (q_value s) (q_eb s) (Some (q_value s))))
  | R_ret_nil => RF (RRet s None)
  | R_unknown _ => RPanicF s
  end.

Fixpoint rexec_list (l : list rs) (s : rst) : rres :=
  match l with
  | [] => RF (RNext s)
  | st :: l' =>
    match rexec st s with
    | RF (RNext s') => rexec_list l' s'
    | r => r
    end
  end.

(* vbint.ReadFrom(r): what Stream.vb_stream reports, and the returned count *)
Definition run_vbread (prog : list rs) (s : script)
  : option (outcome N * script * list N * list byte * nat) :=
  match rexec_list prog (mkr s [] [] [] 0 0 0 0 None) with
  | RF (RRet q None) =>
      match q_v q with
      | Some n => Some (Ok n, q_s q, q_tr q, q_got q, q_i q)
      | None => Some (Panic, q_s q, q_tr q, q_got q, q_i q)
      end
  | RF (RRet q (Some e)) => Some (Err e, q_s q, q_tr q, q_got q, q_i q)
  | RF (RNext q) | RF (RBrk q) | RPanicF q => Some (Panic, q_s q, q_tr q, q_got q, q_i q)
  | RFuelF => None
  end.

Definition vb_read_prog : list rs :=
  [R_var_mult1; R_var_value; R_make_data1; R_var_i;
   R_for [R_readfull_or_ret; R_inc_i; R_eb_data0; R_value_acc;
          R_if (RC_mult_gt 2097152) [R_ret_err ESizeExceeded];
          R_if RC_eb_hi0 [R_break];
          R_mult_step];
   R_set_value; R_ret_nil].

(* ------------------------------------------------------------------ *)
(* the switch of fixedHeader.ReadRemaining: which struct is allocated for
   which first byte, and whether it is given the first byte
   (`&T{fixed: f.fixed}`) - regenerated as a table (gen/GenRead.v) *)
Definition dispatch_mask : N := 240.        (* switch byte(f.fixed) & 0b1111_0000 *)

Definition dispatch_table : list (N * string * bool) :=
  [(16%N, "Connect", true); (32%N, "ConnAck", true); (48%N, "Publish", true); (64%N, "PubAck", true);
   (80%N, "PubRec", true); (96%N, "PubRel", true); (112%N, "PubComp", true); (128%N, "Subscribe", true);
   (144%N, "SubAck", true); (160%N, "Unsubscribe", true); (176%N, "UnsubAck", true); (192%N, "PingReq", true);
   (208%N, "PingResp", true); (224%N, "Disconnect", true); (240%N, "Auth", true)].
Definition dispatch_default : string * bool := ("Undefined", false).

Definition kind_of_name (s : string) : kind :=
  if String.eqb s "Connect" then KConnect else if String.eqb s "ConnAck" then KConnAck
  else if String.eqb s "Publish" then KPublish else if String.eqb s "PubAck" then KPubAck
  else if String.eqb s "PubRec" then KPubRec else if String.eqb s "PubRel" then KPubRel
  else if String.eqb s "PubComp" then KPubComp else if String.eqb s "Subscribe" then KSubscribe
  else if String.eqb s "SubAck" then KSubAck else if String.eqb s "Unsubscribe" then KUnsubscribe
  else if String.eqb s "UnsubAck" then KUnsubAck else if String.eqb s "PingReq" then KPingReq
  else if String.eqb s "PingResp" then KPingResp else if String.eqb s "Disconnect" then KDisconnect
  else if String.eqb s "Auth" then KAuth else KUndefined.

Fixpoint dispatch_find (t : list (N * string * bool)) (key : N) : string * bool :=
  match t with
  | [] => dispatch_default
  | (k, name, keeps) :: t' => if (k =? key)%N then (name, keeps) else dispatch_find t' key
  end.

(* the packet ReadRemaining allocates for first byte b, by the table *)
Definition dispatch_run (b : N) : kind * pkt :=
  let '(name, keeps) := dispatch_find dispatch_table (N.land b dispatch_mask) in
  (kind_of_name name, if keeps then setf (M F_fixed) (VN b) zero_pkt else zero_pkt).
