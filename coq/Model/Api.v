(* The public API on packets: setters/adders, accessors (as one
   snapshot per packet type), WellFormed.  Hand-written after the Go
   one-liners; tied to them by history correspondence (op H). *)
From MQ Require Export Model.Codec.
From Coq Require Import ZArith.

Inductive call :=
(* Connect *)
| SetWill (w : pkt) | SetWillDelayInterval (n : N) | SetCleanStart (b : bool)
| SetProtocolVersion (n : N) | SetProtocolName (s : list byte)
| SetClientID (s : list byte) | SetKeepAlive (n : N)
| SetSessionExpiryInterval (n : N) | SetReceiveMax (n : N)
| SetMaxPacketSize (n : N) | SetTopicAliasMax (n : N)
| SetRequestResponseInfo (b : bool) | SetRequestProblemInfo (b : bool)
| SetAuthMethod (s : list byte) | SetAuthData (s : list byte)
| SetUsername (s : list byte) | SetPassword (s : list byte)
(* ConnAck *)
| SetSessionPresent (b : bool) | SetMaxQoS (n : N) | SetRetainAvailable (b : bool)
| SetAssignedClientID (s : list byte) | SetReasonCode (n : N)
| SetReasonString (s : list byte) | SetWildcardSubAvailable (b : bool)
| SetSubIdentifiersAvailable (b : bool) | SetSharedSubAvailable (b : bool)
| SetServerKeepAlive (n : N) | SetResponseInformation (s : list byte)
| SetServerReference (s : list byte)
(* Publish *)
| SetDuplicate (b : bool) | SetRetain (b : bool) | SetQoS (n : N)
| SetTopicName (s : list byte) | SetPacketID (n : N) | SetPayloadFormat (b : bool)
| SetMessageExpiryInterval (n : N) | SetTopicAlias (n : N)
| SetResponseTopic (s : list byte) | SetCorrelationData (s : list byte)
| AddSubscriptionID (n : N) | SetContentType (s : list byte)
| SetPayload (s : list byte)
(* Subscribe, SubAck, Unsubscribe *)
| SetSubscriptionID (z : Z) | AddFilter (s : list byte) (o : N)
| AddReasonCode (n : N) | AddUnsubFilter (s : list byte)
(* embedded UserProperties *)
| AddUserProp (k v : list byte).

Definition is_ack (k : kind) : bool :=
  match k with KPubAck | KPubRec | KPubRel | KPubComp => true | _ => false end.
Definition is_suback (k : kind) : bool :=
  match k with KSubAck | KUnsubAck => true | _ => false end.

(* does type k have this method? *)
Definition applicable (k : kind) (c : call) : bool :=
  match c with
  | SetWill _ | SetWillDelayInterval _ | SetCleanStart _ | SetProtocolVersion _
  | SetProtocolName _ | SetClientID _ | SetKeepAlive _ | SetRequestResponseInfo _
  | SetRequestProblemInfo _ | SetUsername _ | SetPassword _ => kind_eqb k KConnect
  | SetSessionExpiryInterval _ => kind_eqb k KConnect || kind_eqb k KConnAck || kind_eqb k KDisconnect
  | SetReceiveMax _ | SetMaxPacketSize _
  | SetTopicAliasMax _ => kind_eqb k KConnect || kind_eqb k KConnAck
  | SetAuthMethod _ | SetAuthData _ =>
      kind_eqb k KConnect || kind_eqb k KConnAck || kind_eqb k KAuth
  | SetSessionPresent _ | SetMaxQoS _ | SetRetainAvailable _ | SetAssignedClientID _
  | SetWildcardSubAvailable _ | SetSubIdentifiersAvailable _ | SetSharedSubAvailable _
  | SetServerKeepAlive _ | SetResponseInformation _ =>
      kind_eqb k KConnAck
  | SetServerReference _ => kind_eqb k KConnAck || kind_eqb k KDisconnect
  | SetReasonCode _ =>
      kind_eqb k KConnAck || is_ack k || kind_eqb k KDisconnect || kind_eqb k KAuth
  | SetReasonString _ =>
      kind_eqb k KConnAck || is_ack k || is_suback k || kind_eqb k KAuth || kind_eqb k KDisconnect
  | SetDuplicate _ | SetRetain _ | SetQoS _ | SetTopicName _ | SetPayloadFormat _
  | SetMessageExpiryInterval _ | SetTopicAlias _ | SetResponseTopic _
  | SetCorrelationData _ | AddSubscriptionID _ | SetContentType _ | SetPayload _ =>
      kind_eqb k KPublish
  | SetPacketID _ =>
      kind_eqb k KPublish || is_ack k || is_suback k || kind_eqb k KSubscribe
      || kind_eqb k KUnsubscribe
  | SetSubscriptionID _ | AddFilter _ _ => kind_eqb k KSubscribe
  | AddReasonCode _ => is_suback k
  | AddUnsubFilter _ => kind_eqb k KUnsubscribe
  | AddUserProp _ _ =>
      negb (kind_eqb k KPingReq || kind_eqb k KPingResp || kind_eqb k KUndefined)
  end.

Definition setN (f : fld) (n : N) (p : pkt) := setf (M f) (VN n) p.
Definition setB (f : fld) (b : bool) (p : pkt) := setf (M f) (VB b) p.
Definition setS (f : fld) (s : list byte) (p : pkt) := setf (M f) (VS s) p.
Definition toggleF (f : fld) (mask : N) (on : bool) (p : pkt) :=
  setN f (toggle (getN (M f) p) mask on) p.

(* Connect.setWillQoS: flags &= ^(WillQoS2|WillQoS1); flags.toggle(v<<3, v<3) *)
Definition set_will_qos (v : N) (p : pkt) : pkt :=
  let fl := N.land (getN (M F_flags) p) (N.lxor 255 (WillQoS2 + WillQoS1)) in
  setN F_flags (toggle fl ((v * 8) mod 256) (v <? 3)) p.

(* the Publish behind Connect.will as a packet of its own *)
Definition will_pkt (p : pkt) : pkt :=
  {| vals := wvals p; wvals := no_vals; hasWill := false; uprops := wuprops p;
     wuprops := []; subids := wsubids p; wsubids := []; subid := None;
     filters := []; ufilters := []; rcodes := [] |}.

Definition step (c : call) (p : pkt) : pkt :=
  match c with
  | SetWill w =>
      let p := set_wsubids (set_wuprops (set_hasWill (set_wvals p (vals w)) true) (uprops w)) (subids w) in
      let p := toggleF F_flags WillFlag true p in
      let p := toggleF F_flags WillRetain (has (getN (M F_fixed) w) RETAIN) p in
      let p := setS F_willPayload (getS (M F_payload) w) p in
      set_will_qos (qos_of_fixed (getN (M F_fixed) w)) p
  | SetWillDelayInterval n => setN F_willDelayInterval n p
  | SetCleanStart b => toggleF F_flags CleanStart b p
  | SetProtocolVersion n => setN F_protocolVersion n p
  | SetProtocolName s => setS F_protocolName s p
  | SetClientID s => setS F_clientID s p
  | SetKeepAlive n => setN F_keepAlive n p
  | SetSessionExpiryInterval n => setN F_sessionExpiryInterval n p
  | SetReceiveMax n => setN F_receiveMax n p
  | SetMaxPacketSize n => setN F_maxPacketSize n p
  | SetTopicAliasMax n => setN F_topicAliasMax n p
  | SetRequestResponseInfo b => setB F_requestResponseInfo b p
  | SetRequestProblemInfo b => setB F_requestProblemInfo b p
  | SetAuthMethod s => setS F_authMethod s p
  | SetAuthData s => setS F_authData s p
  | SetUsername s =>
      let p := setS F_username s p in
      toggleF F_flags UsernameFlag (match s with [] => false | _ => true end) p
  | SetPassword s =>
      let p := setS F_password s p in
      toggleF F_flags PasswordFlag (match s with [] => false | _ => true end) p
  | SetSessionPresent b => toggleF F_flags 1 b p
  | SetMaxQoS n => setN F_maxQoS n p
  | SetRetainAvailable b => setB F_retainAvailable b p
  | SetAssignedClientID s => setS F_assignedClientID s p
  | SetReasonCode n => setN F_reasonCode n p
  | SetReasonString s => setS F_reasonString s p
  | SetWildcardSubAvailable b => setB F_wildcardSubAvailable b p
  | SetSubIdentifiersAvailable b => setB F_subIdentifiersAvailable b p
  | SetSharedSubAvailable b => setB F_sharedSubAvailable b p
  | SetServerKeepAlive n => setN F_serverKeepAlive n p
  | SetResponseInformation s => setS F_responseInformation s p
  | SetServerReference s => setS F_serverReference s p
  | SetDuplicate b => toggleF F_fixed DUP b p
  | SetRetain b => toggleF F_fixed RETAIN b p
  | SetQoS n => setN F_fixed (setqos (getN (M F_fixed) p) n) p
  | SetTopicName s => setS F_topicName s p
  | SetPacketID n => setN F_packetID n p
  | SetPayloadFormat b => setB F_payloadFormat b p
  | SetMessageExpiryInterval n => setN F_messageExpiryInterval n p
  | SetTopicAlias n => setN F_topicAlias n p
  | SetResponseTopic s => setS F_responseTopic s p
  | SetCorrelationData s => setS F_correlationData s p
  | AddSubscriptionID n => set_subids p (subids p ++ [n])
  | SetContentType s => setS F_contentType s p
  | SetPayload s => setS F_payload s p
  | SetSubscriptionID z => set_subid p (Some (Z.to_N (z mod 18446744073709551616)%Z))
  | AddFilter s o => set_filters p (filters p ++ [(s, o)])
  | AddReasonCode n => set_rcodes p (rcodes p ++ [n])
  | AddUnsubFilter s => set_ufilters p (ufilters p ++ [s])
  | AddUserProp k v => set_uprops p (uprops p ++ [(k, v)])
  end.

Definition run_calls (k : kind) (cs : list call) : pkt := fold_left (fun p c => step c p) cs (ctor k).

(* ------------------------------------------------------------------ *)
(* Accessors.                                                           *)
Inductive obs := ON (n : N) | OZ (z : Z) | OB (b : bool) | OS (s : list byte) | OL (l : list obs).

Definition oprops (l : list (list byte * list byte)) : obs :=
  OL (map (fun kv => OL [OS (fst kv); OS (snd kv)]) l).

Definition oN f p := ON (getN (M f) p).
Definition oB f p := OB (getB (M f) p).
Definition oS f p := OS (getS (M f) p).

Definition snap_publish (p : pkt) : list obs :=
  let fx := getN (M F_fixed) p in
  [OB (has fx DUP); OB (has fx RETAIN); ON (qos_of_fixed fx);
   oS F_topicName p; oN F_packetID p; oB F_payloadFormat p;
   oN F_messageExpiryInterval p; oN F_topicAlias p; oS F_responseTopic p;
   oS F_correlationData p; oS F_contentType p; oS F_payload p;
   OL (map ON (subids p)); oprops (uprops p)].

(* int of the pointed-to subscriptionID, -1 for nil *)
Definition subid_int (o : option N) : Z :=
  match o with
  | None => (-1)%Z
  | Some n => if n <? 9223372036854775808 then Z.of_N n
              else (Z.of_N n - 18446744073709551616)%Z
  end.

Definition snapshot (k : kind) (p : pkt) : list obs :=
  match k with
  | KConnect =>
    [ON (getN (M F_flags) p);          (* HasFlag for each of the 8 bits *)
     OB (has (getN (M F_flags) p) CleanStart);
     oN F_protocolVersion p; oS F_protocolName p; oS F_clientID p; oN F_keepAlive p;
     oN F_sessionExpiryInterval p; oN F_receiveMax p; oN F_maxPacketSize p;
     oN F_topicAliasMax p; oB F_requestResponseInfo p; oB F_requestProblemInfo p;
     oS F_authMethod p; oS F_authData p; oS F_username p; oS F_password p;
     oN F_willDelayInterval p; oprops (uprops p);
     if hasWill p then OL (snap_publish (will_pkt p)) else OL []]
  | KConnAck =>
    [ON (getN (M F_flags) p); OB (has (getN (M F_flags) p) 1);
     oN F_sessionExpiryInterval p; oN F_receiveMax p; oN F_maxQoS p;
     oB F_retainAvailable p; oN F_maxPacketSize p; oS F_assignedClientID p;
     oN F_topicAliasMax p; oN F_reasonCode p; oS F_reasonString p;
     oB F_wildcardSubAvailable p; oB F_subIdentifiersAvailable p;
     oB F_sharedSubAvailable p; oN F_serverKeepAlive p; oS F_responseInformation p;
     oS F_serverReference p; oS F_authMethod p; oS F_authData p; oprops (uprops p)]
  | KPublish => snap_publish p
  | KPubAck | KPubRec | KPubRel | KPubComp =>
    [oN F_packetID p; oN F_reasonCode p; oS F_reasonString p; oprops (uprops p)]
  | KSubscribe =>
    [oN F_packetID p; OZ (subid_int (subid p));
     OL (map (fun f => OL [OS (fst f); ON (snd f)]) (filters p)); oprops (uprops p)]
  | KSubAck | KUnsubAck =>
    [oN F_packetID p; oS F_reasonString p; OL (map ON (rcodes p)); oprops (uprops p)]
  | KUnsubscribe =>
    [oN F_packetID p; OL (map OS (ufilters p)); oprops (uprops p)]
  | KPingReq | KPingResp => []
  | KDisconnect =>
    [oN F_reasonCode p; oN F_sessionExpiryInterval p; oS F_reasonString p; oS F_serverReference p;
     oprops (uprops p)]
  | KAuth =>
    [oN F_reasonCode p; oS F_reasonString p; oS F_authMethod p; oS F_authData p;
     oprops (uprops p)]
  | KUndefined => [oS F_data p]
  end.

(* ------------------------------------------------------------------ *)
(* WellFormed                                                           *)
Inductive wferr :=
| WFTopicEmpty | WFPacketID | WFQoS | WFNoFilters | WFSubID | WFFilterEmpty | WFFilterQoS.

Definition OptQoS3 := 3.

Definition wf_filter (f : list byte * N) : option wferr :=
  match fst f with
  | [] => Some WFFilterEmpty
  | _ => if has (snd f) OptQoS3 then Some WFFilterQoS else None
  end.

Fixpoint wf_filters (l : list (list byte * N)) : option wferr :=
  match l with
  | [] => None
  | f :: l' => match wf_filter f with Some e => Some e | None => wf_filters l' end
  end.

Definition wf_publish (p : pkt) : option wferr :=
  if (match getS (M F_topicName) p with [] => true | _ => false end)
     && (getN (M F_topicAlias) p =? 0) then Some WFTopicEmpty
  else
    let q := qos_of_fixed (getN (M F_fixed) p) in
    if (q =? 1) || (q =? 2) then
      if getN (M F_packetID) p =? 0 then Some WFPacketID else None
    else if q =? 3 then Some WFQoS else None.

Definition wf_subscribe (p : pkt) : option wferr :=
  match filters p with
  | [] => Some WFNoFilters
  | _ =>
    match subid p with
    | Some v => if 268435455 <? v then Some WFSubID else wf_filters (filters p)
    | None => wf_filters (filters p)
    end
  end.

Definition has_wellformed (k : kind) : bool :=
  match k with KPublish | KSubscribe => true | _ => false end.

Definition wellformed (k : kind) (p : pkt) : option wferr :=
  match k with
  | KPublish => wf_publish p
  | KSubscribe => wf_subscribe p
  | _ => None
  end.
