(* C05: a decoded packet never holds more bytes of strings and binary data
   (in its fields, its will message, user properties, topic filters) than
   it held before plus the bytes of the frame: every byte stored by a decoder
   is paid for by a byte of input consumed.  The will message's payload is
   the CONNECT's willPayload (one array in the Go code) and is counted once. *)
From MQ Require Import Model.Codec Proofs.BytesP Proofs.WireP Proofs.DecP Proofs.BoundP.
From Coq Require Import ZArith Lia ZifyN ZifyNat ZifyBool.

Definition all_flds : list fld :=
  [F_fixed; F_flags; F_packetID; F_reasonCode; F_protocolVersion; F_keepAlive; F_receiveMax;
   F_sessionExpiryInterval; F_maxPacketSize; F_willDelayInterval; F_topicAliasMax;
   F_requestResponseInfo; F_requestProblemInfo; F_protocolName; F_clientID; F_authMethod;
   F_authData; F_username; F_password; F_willPayload; F_maxQoS; F_retainAvailable;
   F_assignedClientID; F_reasonString; F_wildcardSubAvailable; F_subIdentifiersAvailable;
   F_sharedSubAvailable; F_serverKeepAlive; F_responseInformation; F_serverReference;
   F_topicAlias; F_payloadFormat; F_messageExpiryInterval; F_topicName; F_responseTopic;
   F_correlationData; F_contentType; F_payload; F_data].

Definition vsize (v : value) : nat := length (valS v).
Definition fsum (cnt : fld -> bool) (m : fld -> value) : nat :=
  list_sum (map (fun f => if cnt f then vsize (m f) else 0%nat) all_flds).
Definition kvsize (l : list (list byte * list byte)) : nat :=
  list_sum (map (fun kv => (length (fst kv) + length (snd kv))%nat) l).
Definition fltsize (l : list (list byte * N)) : nat := list_sum (map (fun f => length (fst f)) l).
Definition uflsize (l : list (list byte)) : nat := list_sum (map (@length byte) l).

(* the will's payload is the CONNECT's willPayload *)
Definition wcnt (f : fld) : bool := negb (fld_eqb f F_payload).

Definition bsize (p : pkt) : nat :=
  (fsum (fun _ => true) (vals p) + fsum wcnt (wvals p) + kvsize (uprops p) + kvsize (wuprops p)
   + fltsize (filters p) + uflsize (ufilters p))%nat.

Arguments bsize : simpl never.

Lemma fld_eqb_refl (f : fld) : fld_eqb f f = true.
Proof. unfold fld_eqb. apply N.eqb_refl. Qed.
Lemma fld_eqb_eq (f g : fld) : fld_eqb f g = true -> f = g.
Proof. destruct f, g; cbn; intros H; try reflexivity; discriminate H. Qed.

(* updating one field changes the sum by that field's sizes *)
Lemma fsum_upd_gen (cnt : fld -> bool) (m : fld -> value) (f : fld) (v : value) (l : list fld) : NoDup l ->
  (list_sum (map (fun g => if cnt g then vsize (upd m f v g) else 0%nat) l)
   + (if (existsb (fun g => fld_eqb g f) l && cnt f)%bool then vsize (m f) else 0)
   = list_sum (map (fun g => if cnt g then vsize (m g) else 0%nat) l)
     + (if (existsb (fun g => fld_eqb g f) l && cnt f)%bool then vsize v else 0))%nat.
Proof.
  induction l as [|g l IH]; intros Hn; [cbn; lia|].
  inversion Hn as [|? ? Hni Hn']; subst. specialize (IH Hn').
  cbn [map list_sum fold_right existsb]. unfold upd at 1.
  destruct (fld_eqb g f) eqn:E.
  - apply fld_eqb_eq in E. subst g.
    assert (Hex : existsb (fun g => fld_eqb g f) l = false).
    { destruct (existsb (fun g => fld_eqb g f) l) eqn:X; [|reflexivity].
      apply existsb_exists in X as [x [Hin Hx]]. apply fld_eqb_eq in Hx. subst x. contradiction. }
    rewrite Hex in IH. cbn [andb orb] in IH. cbn [andb orb]. unfold list_sum in *. cbn [fold_right] in *. destruct (cnt f); lia.
  - cbn [orb]. unfold list_sum in *. cbn [fold_right] in *. destruct (existsb (fun g0 => fld_eqb g0 f) l && cnt f)%bool; destruct (cnt g); lia.
Qed.

Lemma all_flds_nodup : NoDup all_flds.
Proof.
  unfold all_flds.
  repeat (constructor; [cbn; intros H; repeat (destruct H as [H|H]; [discriminate H|]); exact H|]).
  constructor.
Qed.
Lemma all_flds_in (f : fld) : existsb (fun g => fld_eqb g f) all_flds = true.
Proof. destruct f; reflexivity. Qed.

Lemma fsum_upd (cnt : fld -> bool) (m : fld -> value) (f : fld) (v : value) :
  (fsum cnt (upd m f v) + (if cnt f then vsize (m f) else 0)
   = fsum cnt m + (if cnt f then vsize v else 0))%nat.
Proof.
  pose proof (fsum_upd_gen cnt m f v all_flds all_flds_nodup) as H.
  rewrite all_flds_in in H. cbn [andb] in H. exact H.
Qed.

(* storing v where old was: the packet grows by at most what v has more than old *)
Lemma bsize_setf r v p : (bsize (setf r v p) + vsize (getf r p) <= bsize p + vsize v + vsize (getf r p))%nat
  /\ (bsize (setf r v p) <= bsize p + (vsize v - vsize (getf r p)))%nat.
Proof.
  destruct r as [f|f]; unfold bsize; cbn [setf getf vals wvals uprops wuprops filters ufilters set_vals set_wvals].
  - pose proof (fsum_upd (fun _ => true) (vals p) f v). cbn beta in *. lia.
  - pose proof (fsum_upd wcnt (wvals p) f v). destruct (wcnt f); lia.
Qed.


Lemma getf_opt_getf r p old : getf_opt r p = Some old -> old = getf r p.
Proof. destruct r; cbn; [congruence|]. destruct (hasWill p); congruence. Qed.

(* what a wire decoder returns is no longer than what it advances by, and
   no longer than what was there plus the data it was given *)
Lemma decode_vsize w old d v : decode w old d = Ok v ->
  (vsize v <= width w v)%nat /\ (vsize v <= vsize old + length d)%nat.
Proof.
  destruct w; cbn [decode].
  - destruct (dec_u8 d); intros H; inversion H; subst; cbn; lia.
  - destruct (dec_u16 d); intros H; inversion H; subst; cbn; lia.
  - destruct (dec_u32 d); intros H; inversion H; subst; cbn; lia.
  - destruct (dec_bool d); intros H; inversion H; subst; cbn; lia.
  - destruct (dec_bin_cases (valS old) d) as [[e E]|[[E Hd]|[s0 [E [Hd _]]]]]; rewrite E; intros H; inversion H; subst.
    + unfold vsize, width, encode. cbn [valS]. rewrite enc_bin_length. lia.
    + unfold vsize, width, encode. cbn [valS]. rewrite enc_bin_length. lia.
  - unfold dec_raw. intros H; inversion H; subst. unfold vsize, width, encode, enc_raw. cbn [valS]. lia.
  - destruct (dec_vb d); intros H; inversion H; subst; cbn; lia.
Qed.

Lemma dec_userprop_size d kv : dec_userprop d = Ok kv ->
  (length (fst kv) + length (snd kv) + 4 <= length d)%nat.
Proof.
  unfold dec_userprop.
  destruct (dec_bin_cases [] d) as [[e E]|[[E Hd]|[k [E [Hd _]]]]]; rewrite E; try discriminate.
  - rewrite slice_some by (cbn [length]; lia).
    set (d' := firstn (length d - (length (@nil byte) + 2)) (skipn (length (@nil byte) + 2) d)).
    assert (Ld' : length d' = (length d - 2)%nat).
    { unfold d'. rewrite firstn_length, skipn_length. cbn [length]. lia. }
    destruct (dec_bin_cases [] d') as [[e E2]|[[E2 Hd2]|[v [E2 [Hd2 _]]]]]; rewrite E2; try discriminate;
      intros H; inversion H; subst; cbn [fst snd length]; lia.
  - rewrite slice_some by lia.
    set (d' := firstn (length d - (length k + 2)) (skipn (length k + 2) d)).
    assert (Ld' : length d' = (length d - (length k + 2))%nat).
    { unfold d'. rewrite firstn_length, skipn_length. lia. }
    destruct (dec_bin_cases [] d') as [[e E2]|[[E2 Hd2]|[v [E2 [Hd2 _]]]]]; rewrite E2; try discriminate;
      intros H; inversion H; subst; cbn [fst snd length]; lia.
Qed.

(* data unchanged, position within the data and not moved back, and the
   packet grew by no more bytes than the position advanced *)
Definition postB (s : dstate) (r : res) : Prop :=
  match r with
  | Run s' => (dpos s' <= length (ddata s'))%nat /\ ddata s' = ddata s /\ (dpos s <= dpos s')%nat
              /\ (bsize (dp s') + dpos s <= bsize (dp s) + dpos s')%nat
  | _ => True
  end.

Lemma postB_trans s s1 r :
  ddata s1 = ddata s -> (dpos s <= dpos s1)%nat ->
  (bsize (dp s1) + dpos s <= bsize (dp s) + dpos s1)%nat ->
  postB s1 r -> postB s r.
Proof.
  intros Hd Hp Hl. destruct r as [s'| |]; cbn; auto.
  intros [I [D [P L]]]. split; [exact I|]. split; [congruence|]. split; lia.
Qed.

Lemma postB_refl s : (dpos s <= length (ddata s))%nat -> postB s (Run s).
Proof. intros H. cbn. split; [exact H|]. split; [reflexivity|]. split; lia. Qed.

(* a value read by the guarded reader: its bytes are paid for by the advance *)
Lemma get_val_paid w old s v s' : (dpos s <= length (ddata s))%nat ->
  get_val w old s = GOk v s' ->
  dp s' = dp s /\ ddata s' = ddata s /\ (dpos s <= dpos s' <= length (ddata s))%nat
  /\ (vsize v + dpos s <= vsize old + dpos s')%nat.
Proof.
  intros Hp E. pose proof (get_val_spec w old s) as G. rewrite E in G.
  destruct G as [[Gp Gd Gs Gl] [He [Hlt [Hdc [Hpos1 Hpos2]]]]]. specialize (Gl Hp).
  split; [exact Gp|]. split; [exact Gd|]. split; [exact Gl|].
  destruct (decode_vsize _ _ _ _ Hdc) as [Hw Hd]. rewrite skipn_length in Hd.
  destruct (derr s') eqn:E1.
  - rewrite Hpos2 by discriminate. lia.
  - rewrite Hpos1 by reflexivity. lia.
Qed.

Lemma get_postB r t s : (dpos s <= length (ddata s))%nat -> postB s (get r t s).
Proof.
  intros Hp. unfold get. destruct (getf_opt r (dp s)) as [old|] eqn:Eo; [|exact I].
  apply getf_opt_getf in Eo.
  destruct (get_val t old s) as [v s'|s'|] eqn:E.
  - destruct (get_val_paid _ _ _ _ _ Hp E) as [Gp [Gd [Gl Gv]]].
    cbn [postB dp ddata dpos with_pkt]. rewrite Gd.
    split; [lia|]. split; [reflexivity|]. split; [lia|].
    destruct (bsize_setf r v (dp s')) as [_ B]. rewrite Gp in *. subst old. lia.
  - pose proof (get_val_spec t old s) as G. rewrite E in G.
    destruct G as [[Gp Gd Gs Gl] _]. specialize (Gl Hp). cbn. rewrite Gp, Gd. repeat split; lia.
  - exact I.
Qed.

Lemma kvsize_app a b : kvsize (a ++ b) = (kvsize a + kvsize b)%nat.
Proof. unfold kvsize. rewrite map_app, list_sum_app. reflexivity. Qed.
Lemma fltsize_app a b : fltsize (a ++ b) = (fltsize a + fltsize b)%nat.
Proof. unfold fltsize. rewrite map_app, list_sum_app. reflexivity. Qed.
Lemma uflsize_app a b : uflsize (a ++ b) = (uflsize a + uflsize b)%nat.
Proof. unfold uflsize. rewrite map_app, list_sum_app. reflexivity. Qed.

Lemma kvsize_one kv : kvsize [kv] = (length (fst kv) + length (snd kv))%nat.
Proof. unfold kvsize, list_sum. cbn [map fold_right]. lia. Qed.

Lemma bsize_add_uprop will kv p p' : add_uprop will kv p = Some p' ->
  bsize p' = (bsize p + length (fst kv) + length (snd kv))%nat.
Proof.
  unfold add_uprop. destruct will; [destruct (hasWill p); [|discriminate]|]; intros H; injection H as <-;
    unfold bsize; cbn [vals wvals filters ufilters uprops wuprops set_uprops set_wuprops];
    rewrite kvsize_app, kvsize_one; lia.
Qed.

Lemma bsize_set_subid q o : bsize (set_subid q o) = bsize q.
Proof. reflexivity. Qed.
Lemma bsize_set_subids q l : bsize (set_subids q l) = bsize q.
Proof. reflexivity. Qed.
Lemma bsize_set_rcodes q l : bsize (set_rcodes q l) = bsize q.
Proof. reflexivity. Qed.

Lemma getany_loop_B : forall fuel m will sm endp id s,
  (dpos s <= length (ddata s))%nat ->
  postB s (getany_loop fuel m will sm endp id s).
Proof.
  induction fuel as [|fuel IH]; intros m will sm endp id s Hp; [exact I|].
  cbn [getany_loop].
  destruct (N.of_nat (dpos s) <? endp); [|apply postB_refl; exact Hp].
  destruct (get_val U8 (VN id) s) as [v s1|s1|] eqn:E0.
  2:{ pose proof (get_val_spec U8 (VN id) s) as G. rewrite E0 in G.
      destruct G as [[Gp Gd Gs Gl] _]. specialize (Gl Hp). cbn. rewrite Gp, Gd. repeat split; lia. }
  2:{ exact I. }
  destruct (get_val_paid _ _ _ _ _ Hp E0) as [Gp [Gd [Gl _]]].
  assert (Hp1 : (dpos s1 <= length (ddata s1))%nat) by (rewrite Gd; lia).
  (* continuing from a state reached from s1 whose growth is paid for *)
  assert (K : forall s2 id', (dpos s2 <= length (ddata s2))%nat -> ddata s2 = ddata s1 ->
               (dpos s1 <= dpos s2)%nat -> (bsize (dp s2) + dpos s1 <= bsize (dp s) + dpos s2)%nat ->
               postB s (getany_loop fuel m will sm endp id' s2)).
  { intros s2 id' I2 D2 P2 L2.
    apply (postB_trans s s2); [congruence|lia|lia|]. apply IH. exact I2. }
  set (idv := valN v).
  destruct (match sm with
            | SubOpt => if idv =? SubscriptionID then None else lookup_prop m idv
            | _ => lookup_prop m idv end) as [[r t]|].
  - pose proof (get_postB r t s1 Hp1) as P.
    destruct (get r t s1) as [s2| |]; [|exact I|exact I].
    cbn [postB] in P. destruct P as [I2 [D2 [P2 L2]]]. apply K; try assumption. rewrite Gp in L2. lia.
  - destruct (match sm with SubOpt => idv =? SubscriptionID | _ => false end).
    + set (s1' := with_pkt (set_subid (dp s1) (Some 0)) s1).
      assert (Hp1' : (dpos s1' <= length (ddata s1'))%nat) by exact Hp1.
      assert (Ls1' : bsize (dp s1') = bsize (dp s)) by (unfold s1'; cbn [dp with_pkt]; rewrite bsize_set_subid, Gp; reflexivity).
      destruct (get_val Vb (VN 0) s1') as [v2 s2|s2|] eqn:E2; [| |exact I].
      * destruct (get_val_paid _ _ _ _ _ Hp1' E2) as [Gp2 [Gd2 [Gl2 _]]].
        change (dpos s1') with (dpos s1) in Gl2. change (ddata s1') with (ddata s1) in *.
        apply K.
        -- cbn [ddata dpos with_pkt]. rewrite Gd2. lia.
        -- cbn [ddata with_pkt]. exact Gd2.
        -- cbn [dpos with_pkt]. lia.
        -- cbn [dp dpos with_pkt]. rewrite bsize_set_subid, Gp2, Ls1'. lia.
      * pose proof (get_val_spec Vb (VN 0) s1') as G2. rewrite E2 in G2.
        destruct G2 as [[Gp2 Gd2 Gs2 Gl2] _]. specialize (Gl2 Hp1').
        change (dpos s1') with (dpos s1) in Gl2. change (ddata s1') with (ddata s1) in *.
        apply K; [rewrite Gd2; lia|exact Gd2|lia|rewrite Gp2, Ls1'; lia].
    + destruct (idv =? UserProperty).
      * pose proof (get_up_spec s1) as G2.
        destruct (get_with dec_userprop width_userprop s1) as [kv s2|s2|]; [| |contradiction].
        -- destruct G2 as [[Gp2 Gd2 Gs2 Gl2] [He [Hlt [Hdc [Hpos1 Hpos2]]]]]. specialize (Gl2 Hp1).
           pose proof (dec_userprop_size _ _ Hdc) as Hsz. rewrite skipn_length in Hsz.
           assert (Hadv : (length (fst kv) + length (snd kv) + dpos s1 <= dpos s2)%nat).
           { destruct (derr s2) eqn:E1.
             - rewrite Hpos2 by discriminate. lia.
             - rewrite Hpos1 by reflexivity. unfold width_userprop. lia. }
           destruct (add_uprop will kv (dp s2)) as [p'|] eqn:Ea; [|exact I].
           apply K; [cbn [ddata dpos with_pkt]; rewrite Gd2; lia|cbn [ddata with_pkt]; exact Gd2
                    |cbn [dpos with_pkt]; lia|].
           cbn [dp dpos with_pkt]. rewrite (bsize_add_uprop _ _ _ _ Ea), Gp2, Gp. lia.
        -- destruct G2 as [[Gp2 Gd2 Gs2 Gl2] _]. specialize (Gl2 Hp1).
           destruct (add_uprop will ([], []) (dp s2)) as [p'|] eqn:Ea; [|exact I].
           apply K; [cbn [ddata dpos with_pkt]; rewrite Gd2; lia|cbn [ddata with_pkt]; exact Gd2
                    |cbn [dpos with_pkt]; lia|].
           cbn [dp dpos with_pkt]. rewrite (bsize_add_uprop _ _ _ _ Ea), Gp2, Gp. cbn [fst snd length]. lia.
      * destruct (idv =? SubscriptionID).
        -- pose proof (get_val_spec Vb (VN 0) s1) as G2.
           destruct (get_val Vb (VN 0) s1) as [v2 s2|s2|]; [| |contradiction];
             destruct G2 as [[Gp2 Gd2 Gs2 Gl2] _]; specialize (Gl2 Hp1);
             destruct sm;
             (apply K; [cbn [ddata dpos with_pkt]; rewrite ?Gd2; lia|cbn [ddata with_pkt]; exact Gd2
                       |cbn [dpos with_pkt]; lia|]);
             cbn [dp dpos with_pkt]; rewrite ?bsize_set_subids, Gp2, Gp; lia.
        -- apply K; [cbn [ddata dpos with_err]; exact Hp1|reflexivity|cbn; lia|cbn [dp dpos with_err]; rewrite Gp; lia].
Qed.

Lemma getany_B m will sm s : (dpos s <= length (ddata s))%nat -> postB s (getany m will sm s).
Proof.
  intros Hp. unfold getany. destruct (at_end s); [apply postB_refl; exact Hp|].
  pose proof (get_val_spec Vb (VN 0) s) as G.
  destruct (get_val Vb (VN 0) s) as [v s1|s1|]; [| |contradiction];
    destruct G as [[Gp Gd Gs Gl] _]; specialize (Gl Hp);
    (apply (postB_trans s s1); [exact Gd|lia|rewrite Gp; lia|]); apply getany_loop_B; rewrite Gd; lia.
Qed.

(* the filter loops: the bytes of every appended filter are paid for (the
   filter appended while leaving with an error is empty) *)
Lemma bsize_filters_app q f o :
  bsize (set_filters q (filters q ++ [(f, o)])) = (bsize q + length f)%nat.
Proof.
  unfold bsize. cbn [vals wvals filters ufilters uprops wuprops set_filters].
  rewrite fltsize_app. unfold fltsize at 2, list_sum. cbn [map fold_right fst]. lia.
Qed.
Lemma bsize_ufilters_app q f :
  bsize (set_ufilters q (ufilters q ++ [f])) = (bsize q + length f)%nat.
Proof.
  unfold bsize. cbn [vals wvals filters ufilters uprops wuprops set_ufilters].
  rewrite uflsize_app. unfold uflsize at 2, list_sum. cbn [map fold_right]. lia.
Qed.

Lemma filter_loop_B : forall fuel s, (dpos s <= length (ddata s))%nat -> postB s (filter_loop fuel s).
Proof.
  induction fuel as [|fuel IH]; intros s Hp; [exact I|].
  cbn [filter_loop]. destruct (at_end s); [apply postB_refl; exact Hp|].
  destruct (get_val Bin (VS []) s) as [v s1|s1|] eqn:E0; [| |exact I].
  - destruct (get_val_paid _ _ _ _ _ Hp E0) as [Gp [Gd [Gl Gv]]]. cbn [vsize valS length] in Gv.
    change (vsize (VS [])) with 0%nat in Gv.
    assert (Hp1 : (dpos s1 <= length (ddata s1))%nat) by (rewrite Gd; lia).
    pose proof (get_val_spec U8 (VN 0) s1) as G2.
    destruct (get_val U8 (VN 0) s1) as [v2 s2|s2|]; [| |contradiction];
      destruct G2 as [[Gp2 Gd2 Gs2 Gl2] _]; specialize (Gl2 Hp1).
    + set (s3 := with_pkt (set_filters (dp s2) (filters (dp s2) ++ [(valS v, valN v2)])) s2).
      assert (L3 : bsize (dp s3) = (bsize (dp s) + vsize v)%nat).
      { unfold s3. cbn [dp with_pkt]. rewrite bsize_filters_app, Gp2, Gp. reflexivity. }
      replace (derr s3) with (derr s2) by reflexivity.
      assert (R3 : postB s (Run s3)).
      { cbn [postB]. change (dpos s3) with (dpos s2). change (ddata s3) with (ddata s2). rewrite Gd2, L3.
        split; [lia|]. split; [congruence|]. split; lia. }
      destruct (derr s2); [exact R3|]. destruct (at_end s3); [exact R3|].
      apply (postB_trans s s3); [unfold s3; cbn [ddata with_pkt]; congruence|change (dpos s3) with (dpos s2); lia
                                |rewrite L3; change (dpos s3) with (dpos s2); lia|].
      apply IH. change (dpos s3) with (dpos s2). change (ddata s3) with (ddata s2). rewrite Gd2. lia.
    + set (s3 := with_pkt (set_filters (dp s2) (filters (dp s2) ++ [(valS v, 0)])) s2).
      assert (L3 : bsize (dp s3) = (bsize (dp s) + vsize v)%nat).
      { unfold s3. cbn [dp with_pkt]. rewrite bsize_filters_app, Gp2, Gp. reflexivity. }
      replace (derr s3) with (derr s2) by reflexivity.
      assert (R3 : postB s (Run s3)).
      { cbn [postB]. change (dpos s3) with (dpos s2). change (ddata s3) with (ddata s2). rewrite Gd2, L3.
        split; [lia|]. split; [congruence|]. split; lia. }
      destruct (derr s2); [exact R3|]. destruct (at_end s3); [exact R3|].
      apply (postB_trans s s3); [unfold s3; cbn [ddata with_pkt]; congruence|change (dpos s3) with (dpos s2); lia
                                |rewrite L3; change (dpos s3) with (dpos s2); lia|].
      apply IH. change (dpos s3) with (dpos s2). change (ddata s3) with (ddata s2). rewrite Gd2. lia.
  - (* the filter could not be read: an error is set *)
    pose proof (get_val_spec Bin (VS []) s) as G. rewrite E0 in G.
    destruct G as [[Gp Gd Gs Gl] [He Hq]]. specialize (Gl Hp).
    assert (Hp1 : (dpos s1 <= length (ddata s1))%nat) by (rewrite Gd; lia).
    pose proof (get_val_spec U8 (VN 0) s1) as G2.
    destruct (get_val U8 (VN 0) s1) as [v2 s2|s2|]; [| |contradiction].
    + destruct G2 as [_ [He2 _]]. congruence.
    + destruct G2 as [[Gp2 Gd2 Gs2 Gl2] [He2 Hq2]]. specialize (Gl2 Hp1).
      set (s3 := with_pkt (set_filters (dp s2) (filters (dp s2) ++ [([], 0)])) s2).
      assert (L3 : bsize (dp s3) = bsize (dp s)).
      { unfold s3. cbn [dp with_pkt]. rewrite bsize_filters_app, Gp2, Gp. cbn [length]. lia. }
      replace (derr s3) with (derr s2) by reflexivity.
      destruct (derr s2) eqn:E2; [|congruence].
      cbn [postB]. change (dpos s3) with (dpos s2).
      change (ddata s3) with (ddata s2). rewrite L3, Gd2. split; [lia|]. split; [congruence|]. split; lia.
Qed.

Lemma ufilter_loop_B : forall fuel s, (dpos s <= length (ddata s))%nat -> postB s (ufilter_loop fuel s).
Proof.
  induction fuel as [|fuel IH]; intros s Hp; [exact I|].
  cbn [ufilter_loop]. destruct (at_end s); [apply postB_refl; exact Hp|].
  destruct (get_val Bin (VS []) s) as [v s1|s1|] eqn:E0; [| |exact I].
  - destruct (get_val_paid _ _ _ _ _ Hp E0) as [Gp [Gd [Gl Gv]]].
    change (vsize (VS [])) with 0%nat in Gv.
    set (s3 := with_pkt (set_ufilters (dp s1) (ufilters (dp s1) ++ [valS v])) s1).
    assert (L3 : bsize (dp s3) = (bsize (dp s) + vsize v)%nat).
    { unfold s3. cbn [dp with_pkt]. rewrite bsize_ufilters_app, Gp. reflexivity. }
    replace (derr s3) with (derr s1) by reflexivity.
    assert (R3 : postB s (Run s3)).
    { cbn [postB]. change (dpos s3) with (dpos s1). change (ddata s3) with (ddata s1). rewrite Gd, L3.
      split; [lia|]. split; [reflexivity|]. split; lia. }
    destruct (derr s1); [exact R3|]. destruct (at_end s3); [exact R3|].
    apply (postB_trans s s3); [change (ddata s3) with (ddata s1); exact Gd|change (dpos s3) with (dpos s1); lia
                              |rewrite L3; change (dpos s3) with (dpos s1); lia|].
    apply IH. change (dpos s3) with (dpos s1). change (ddata s3) with (ddata s1). rewrite Gd. lia.
  - pose proof (get_val_spec Bin (VS []) s) as G. rewrite E0 in G.
    destruct G as [[Gp Gd Gs Gl] [He Hq]]. specialize (Gl Hp).
    set (s3 := with_pkt (set_ufilters (dp s1) (ufilters (dp s1) ++ [[]])) s1).
    assert (L3 : bsize (dp s3) = bsize (dp s)).
    { unfold s3. cbn [dp with_pkt]. rewrite bsize_ufilters_app, Gp. cbn [length]. lia. }
    replace (derr s3) with (derr s1) by reflexivity.
    destruct (derr s1) eqn:E1; [|congruence].
    cbn [postB]. change (dpos s3) with (dpos s1).
    change (ddata s3) with (ddata s1). rewrite L3, Gd. split; [lia|]. split; [reflexivity|]. split; lia.
Qed.

(* the reason codes hold no byte strings *)
Lemma rcodes_loop_B : forall n acc s s', rcodes_loop n acc s = Run s' -> bsize (dp s') = bsize (dp s).
Proof.
  induction n as [|n IH]; intros acc s s' H.
  - cbn [rcodes_loop] in H. injection H as <-. cbn [dp with_pkt]. apply bsize_set_rcodes.
  - cbn [rcodes_loop] in H.
    pose proof (get_val_spec U8 (VN 0) s) as G.
    destruct (get_val U8 (VN 0) s) as [v s1|s1|]; [| |discriminate];
      destruct G as [[Gp Gd Gs Gl] _]; rewrite (IH _ _ _ H), Gp; reflexivity.
Qed.

(* ------------------------------------------------------------------ *)
(* decoder programs without the list loops and without Undefined's copy *)
Fixpoint plainB1 (d : dec) : bool :=
  match d with
  | DGet _ _ | DGetAny _ _ _ | DWillInit | DWillPayloadCopy => true
  | DIf _ ds => (fix all (l : list dec) : bool := match l with [] => true | x :: l' => plainB1 x && all l' end) ds
  | DFilterLoop | DUnsubFilterLoop | DReasonCodes | DUndefinedData _ => false
  end.
Fixpoint plainB (ds : list dec) : bool :=
  match ds with [] => true | d :: ds' => plainB1 d && plainB ds' end.

Lemma fsum_le cnt m m' : (forall f, vsize (m f) <= vsize (m' f))%nat -> (fsum cnt m <= fsum cnt m')%nat.
Proof.
  intros H. unfold fsum. induction all_flds as [|f l IH]; [apply Nat.le_refl|].
  cbn [map]. unfold list_sum in *. cbn [fold_right]. specialize (H f). destruct (cnt f); lia.
Qed.

Lemma bsize_will_init p : (bsize (will_init p) <= bsize p)%nat.
Proof.
  unfold bsize, will_init.
  cbn [vals wvals uprops wuprops filters ufilters set_wsubids set_wuprops set_hasWill set_wvals].
  assert (E : (fsum wcnt (upd no_vals F_fixed
              (VN (toggle (setqos (ctor_fixed KPublish) (will_qos (getN (M F_flags) p))) RETAIN
                          (has (getN (M F_flags) p) WillRetain)))) <= fsum wcnt (wvals p))%nat).
  { apply fsum_le. intros f. unfold upd, no_vals. destruct (fld_eqb f F_fixed); cbn; lia. }
  change (kvsize []) with 0%nat. lia.
Qed.

Lemma plainB1_B : forall d s, plainB1 d = true -> (dpos s <= length (ddata s))%nat -> postB s (run_dec1 d s).
Proof.
  fix IH 1. intros d s Hd Hp.
  assert (IHl : forall ds s, (fix all (l : list dec) : bool :=
                               match l with [] => true | x :: l' => plainB1 x && all l' end) ds = true ->
                 (dpos s <= length (ddata s))%nat -> postB s (run_dec ds s)).
  { induction ds as [|x ds IHds]; intros s0 Hx Hp0; [apply postB_refl; exact Hp0|].
    apply andb_prop in Hx as [Hx1 Hx2]. cbn [run_dec].
    pose proof (IH x s0 Hx1 Hp0) as P. destruct (run_dec1 x s0) as [s1| |]; [|exact I|exact I].
    cbn [postB] in P. destruct P as [I1 [D1 [P1 L1]]].
    apply (postB_trans s0 s1); try assumption. apply IHds; assumption. }
  destruct d as [r w|m will sm|c ds| | | | | |cp]; try discriminate Hd.
  - apply get_postB. exact Hp.
  - apply getany_B. exact Hp.
  - change (run_dec1 (DIf c ds) s) with (if eval_cond c (dp s) (env_of s) then run_dec ds s else Run s).
    destruct (eval_cond c (dp s) (env_of s)); [apply IHl; assumption|apply postB_refl; exact Hp].
  - cbn [run_dec1 postB dp ddata dpos with_pkt]. pose proof (bsize_will_init (dp s)). repeat split; lia.
  - cbn [run_dec1]. destruct (hasWill (dp s)); [|exact I]. cbn [postB dp ddata dpos with_pkt].
    assert (E : bsize (setf (W F_payload) (VS (getS (M F_willPayload) (dp s))) (dp s)) = bsize (dp s)).
    { unfold bsize. cbn [setf vals wvals uprops wuprops filters ufilters set_wvals].
      pose proof (fsum_upd wcnt (wvals (dp s)) F_payload (VS (getS (M F_willPayload) (dp s)))) as U.
      change (wcnt F_payload) with false in U. lia. }
    rewrite E. repeat split; lia.
Qed.

Lemma plainB_B : forall ds s, plainB ds = true -> (dpos s <= length (ddata s))%nat -> postB s (run_dec ds s).
Proof.
  induction ds as [|x ds IH]; intros s Hx Hp; [apply postB_refl; exact Hp|].
  cbn [plainB] in Hx. apply andb_prop in Hx as [Hx1 Hx2]. cbn [run_dec].
  pose proof (plainB1_B x s Hx1 Hp) as P. destruct (run_dec1 x s) as [s1| |]; [|exact I|exact I].
  cbn [postB] in P. destruct P as [I1 [D1 [P1 L1]]].
  apply (postB_trans s s1); try assumption. apply IH; assumption.
Qed.

Lemma bytes_prog pre last p0 data : plainB pre = true -> last_ok last = true ->
  match run_dec (pre ++ last) {| dp := p0; ddata := data; dpos := 0; derr := None; dsteps := 0 |} with
  | Run s => (bsize (dp s) <= bsize p0 + length data)%nat
  | _ => True
  end.
Proof.
  intros Hpre Hlast. rewrite run_dec_app'.
  set (s0 := {| dp := p0; ddata := data; dpos := 0; derr := None; dsteps := 0 |}).
  pose proof (plainB_B pre s0 Hpre ltac:(cbn; lia)) as P.
  destruct (run_dec pre s0) as [s1| |]; [|exact I|exact I].
  cbn [postB] in P. destruct P as [I1 [D1 [P1 L1]]].
  change (dp s0) with p0 in L1. change (dpos s0) with 0%nat in L1. change (ddata s0) with data in D1.
  destruct last as [|l0 [|l1 rest]]; try discriminate Hlast.
  - cbn [run_dec]. rewrite D1 in I1. lia.
  - destruct l0; try discriminate Hlast; cbn [run_dec run_dec1].
    + pose proof (filter_loop_B (S (length (ddata s1))) s1 I1) as E.
      destruct (filter_loop (S (length (ddata s1))) s1) as [s2| |]; [|exact I|exact I].
      cbn [postB] in E. destruct E as [I2 [D2 [P2 L2]]]. rewrite D2, D1 in I2. lia.
    + pose proof (ufilter_loop_B (S (length (ddata s1))) s1 I1) as E.
      destruct (ufilter_loop (S (length (ddata s1))) s1) as [s2| |]; [|exact I|exact I].
      cbn [postB] in E. destruct E as [I2 [D2 [P2 L2]]]. rewrite D2, D1 in I2. lia.
    + destruct (Nat.leb (dpos s1) (length (ddata s1))); [|exact I].
      destruct (rcodes_loop (length (ddata s1) - dpos s1) [] s1) as [s2| |] eqn:ER; [|exact I|exact I].
      rewrite (rcodes_loop_B _ _ _ _ ER). rewrite D1 in I1. lia.
  - destruct l0; discriminate Hlast.
Qed.

Lemma splitB_ok k : k <> KUndefined -> dec_of k = fst (split_of k) ++ snd (split_of k)
  /\ plainB (fst (split_of k)) = true /\ last_ok (snd (split_of k)) = true.
Proof. intros Hk. destruct k; try congruence; cbn [split_of fst snd]; rewrite ?app_nil_r; repeat split; reflexivity. Qed.

(* UnmarshalBinary never leaves the packet holding more bytes of strings and
   binary data than it held before plus the length of the data, whether it
   succeeds or fails *)
Theorem unmarshal_bytes_bound k p0 data :
  match unmarshal k p0 data with
  | UOk p | UErr _ p => (bsize p <= bsize p0 + length data)%nat
  | _ => True
  end.
Proof.
  destruct (kind_eqb k KUndefined) eqn:Ek.
  - assert (k = KUndefined) by (destruct k; try discriminate Ek; reflexivity). subst k.
    unfold unmarshal, unmarshal_steps. cbn [dec_of run_dec run_dec1 dp ddata derr with_pkt fst].
    destruct (bsize_setf (M F_data) (VS data) p0) as [_ B]. unfold vsize in B at 1. cbn [valS] in B. lia.
  - assert (Hk : k <> KUndefined) by (intros ->; discriminate Ek).
    destruct (splitB_ok k Hk) as [E [Hp Hl]].
    pose proof (bytes_prog _ _ p0 data Hp Hl) as B. rewrite <- E in B.
    unfold unmarshal, unmarshal_steps.
    destruct (run_dec (dec_of k) _) as [s| |]; cbn [fst]; try exact I.
    destruct (derr s); exact B.
Qed.
