(* The interpretation of the regenerated WellFormed statement lists
   (Model/WfIR.v, tied to the source by gen/SyncWf.v) is the model's
   wf_publish / wf_subscribe / wf_filter. *)
From MQ Require Import Model.Api Model.WfIR Model.Render.
From Coq Require Import List NArith Bool String.
Import ListNotations.

Lemma wf_filter_is_ir f :
  run_filter_prog wf_filter_ir f = option_map wferr_pair (wf_filter f).
Proof.
  unfold wf_filter_ir, wf_filter. cbn [run_filter_prog run_wsimple eval_wcond].
  destruct (fst f); [reflexivity|]. unfold OptQoS3. destruct (has (snd f) 3); reflexivity.
Qed.

Lemma wf_filters_is_ir l :
  first_filter_error wf_filter_ir l = option_map wferr_pair (wf_filters l).
Proof.
  induction l as [|f l IH]; [reflexivity|]. cbn [first_filter_error wf_filters].
  rewrite wf_filter_is_ir. destruct (wf_filter f); [reflexivity|]. cbn [option_map]. exact IH.
Qed.

Lemma wf_publish_is_ir p :
  run_wf wf_filter_ir wf_publish_ir p = option_map wferr_pair (wf_publish p).
Proof.
  unfold wf_publish_ir, wf_publish.
  cbn [run_wf run_wsimple eval_wcond].
  destruct (match getS (M F_topicName) p with [] => true | _ => false end);
    destruct (getN (M F_topicAlias) p =? 0)%N; cbn [andb]; try reflexivity;
    cbn [pick_case existsb];
    destruct (qos_of_fixed (getN (M F_fixed) p) =? 1)%N;
    destruct (qos_of_fixed (getN (M F_fixed) p) =? 2)%N;
    destruct (qos_of_fixed (getN (M F_fixed) p) =? 3)%N;
    cbn [orb run_wsimples run_wsimple eval_wcond];
    destruct (getN (M F_packetID) p =? 0)%N; reflexivity.
Qed.

Lemma wf_subscribe_is_ir p :
  run_wf wf_filter_ir wf_subscribe_ir p = option_map wferr_pair (wf_subscribe p).
Proof.
  unfold wf_subscribe_ir, wf_subscribe. cbn [run_wf run_wsimple eval_wcond].
  destruct (filters p) as [|f l] eqn:E; [reflexivity|].
  destruct (subid p) as [v|].
  - destruct (268435455 <? v)%N; [reflexivity|]. rewrite <- E, wf_filters_is_ir.
    destruct (wf_filters (filters p)); reflexivity.
  - rewrite <- E, wf_filters_is_ir. destruct (wf_filters (filters p)); reflexivity.
Qed.

(* the text String() appends after "malformed! " is "<reason> <ref>" *)
Lemma wf_text_is_pair e :
  wf_text e = (snd (wferr_pair e) ++ " " ++ fst (wferr_pair e))%string.
Proof. destruct e; reflexivity. Qed.
