(* The specification's field parsers accept what the library's field
   encoders write, and return the value written (per wire type, any
   suffix). Building blocks of C02/C03. *)
From MQ Require Import Model.Wire Proofs.BytesP Proofs.VbP Proofs.WireP Spec.Mqtt5.
From Coq Require Import ZArith Lia ZifyN ZifyNat ZifyBool.
Ltac Zify.zify_post_hook ::= Z.div_mod_to_equations.

Lemma spec_u8 n rest : n < 256 -> p_u8 (enc_u8 n ++ rest) = Some (n, rest).
Proof. intros H. unfold p_u8, enc_u8. cbn [app]. rewrite b2n_n2b_small by lia. reflexivity. Qed.

Lemma spec_u16 n rest : n < 65536 -> p_u16 (enc_u16 n ++ rest) = Some (n, rest).
Proof. intros H. unfold p_u16, enc_u16. cbn [app]. rewrite !b2n_n2b. do 2 f_equal. lia. Qed.

Lemma spec_u32 n rest : n < 4294967296 -> p_u32 (enc_u32 n ++ rest) = Some (n, rest).
Proof. intros H. unfold p_u32, enc_u32. cbn [app]. rewrite !b2n_n2b. do 2 f_equal. lia. Qed.

Lemma spec_str s rest : len s < 65536 -> p_str (enc_bin s ++ rest) = Some (s, rest).
Proof.
  intros H. unfold p_str, enc_bin. rewrite N.mod_small by lia. rewrite <- app_assoc.
  rewrite spec_u16 by lia. unfold take.
  rewrite (proj2 (N.leb_le _ _)) by (rewrite len_app; lia).
  replace (N.to_nat (len s)) with (length s) by (unfold len; lia).
  rewrite firstn_app, Nat.sub_diag, firstn_all. cbn [firstn]. rewrite app_nil_r.
  rewrite skipn_app, skipn_all, Nat.sub_diag. reflexivity.
Qed.

(* the library writes variable byte integers in the minimal form the
   specification demands *)
Lemma spec_var n rest : n < 268435456 -> p_var (enc_vb n ++ rest) = Some (n, rest).
Proof.
  intros H. unfold p_var.
  destruct (enc_vb_cases n H) as [[H1 E]|[[H1 E]|[[H1 E]|[H1 E]]]]; rewrite E; cbn [app];
    repeat match goal with
    | |- context [b2n (n2b ?x)] => rewrite (b2n_n2b_small x) by lia
    end;
    repeat match goal with
    | |- context [?x <? ?y] => (rewrite (ltb_t x y) by lia) || (rewrite (ltb_f x y) by lia)
    | |- context [?x =? 0] => rewrite (proj2 (N.eqb_neq x 0)) by lia
    end; do 2 f_equal; lia.
Qed.

(* and the specification's own encoder writes the same bytes *)
Lemma e_var_enc_vb n : n < 268435456 -> e_var n = enc_vb n.
Proof.
  intros H. unfold e_var.
  destruct (enc_vb_cases n H) as [[H1 E]|[[H1 E]|[[H1 E]|[H1 E]]]]; rewrite E; cbn [e_var_fuel];
    repeat match goal with
    | |- context [?x <? ?y] => (rewrite (ltb_t x y) by lia) || (rewrite (ltb_f x y) by lia)
    end; reflexivity.
Qed.
