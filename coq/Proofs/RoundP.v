(* Whole-packet round trips: what the encoder skeleton of a packet type
   writes, the decoder skeleton of that type reads back into a fresh
   packet whose observable fields equal those of the original, and whose
   re-encoding is byte-identical.  Built from the property-section round
   trip of PropsP and one-step lemmas for the mandatory fields. *)
From MQ Require Import Model.Codec Model.Api Proofs.BytesP Proofs.VbP Proofs.WireP Proofs.DecP
     Proofs.EncP Proofs.PropsP.
From Coq Require Import ZArith Lia ZifyN ZifyNat ZifyBool.
Ltac Zify.zify_post_hook ::= Z.div_mod_to_equations.

(* ------------------------------------------------------------------ *)
(* field references *)
Lemma fld_idx_inj a b : fld_idx a = fld_idx b -> a = b.
Proof. destruct a; destruct b; intros H; try reflexivity; discriminate H. Qed.

Lemma fld_eqb_true a b : fld_eqb a b = true <-> a = b.
Proof.
  unfold fld_eqb. rewrite N.eqb_eq. split; [apply fld_idx_inj|intros ->; reflexivity].
Qed.
Lemma fld_eqb_refl a : fld_eqb a a = true.
Proof. apply fld_eqb_true. reflexivity. Qed.

Definition fref_eqb (a b : fref) : bool :=
  match a, b with
  | M f, M g => fld_eqb f g
  | W f, W g => fld_eqb f g
  | _, _ => false
  end.
Lemma fref_eqb_true a b : fref_eqb a b = true <-> a = b.
Proof.
  destruct a as [f|f], b as [g|g]; cbn [fref_eqb]; rewrite ?fld_eqb_true;
    split; intros H; try discriminate H; try (inversion H; reflexivity); subst; reflexivity.
Qed.
Lemma fref_eqb_refl a : fref_eqb a a = true.
Proof. apply fref_eqb_true. reflexivity. Qed.

Lemma getf_setf r r' v p : getf r (setf r' v p) = if fref_eqb r r' then v else getf r p.
Proof. destruct r as [f|f], r' as [g|g]; reflexivity. Qed.

Lemma getf_setf_same r v p : getf r (setf r v p) = v.
Proof. rewrite getf_setf, fref_eqb_refl. reflexivity. Qed.

Lemma getf_setf_other r r' v p : fref_eqb r r' = false -> getf r (setf r' v p) = getf r p.
Proof. intros H. rewrite getf_setf, H. reflexivity. Qed.

(* ------------------------------------------------------------------ *)
(* what restore leaves in a field *)
Fixpoint nodup_refs (t : list entry) : bool :=
  match t with
  | [] => true
  | e :: t' => forallb (fun e' => negb (fref_eqb (eref e') (eref e))) t' && nodup_refs t'
  end.

Lemma getf_restore_other t p r : (forall e, In e t -> fref_eqb r (eref e) = false) ->
  forall acc, getf r (restore t p acc) = getf r acc.
Proof.
  induction t as [|e t IH]; intros H acc; [reflexivity|]. cbn [restore]. rewrite IH.
  - destruct (present p e); [|reflexivity]. apply getf_setf_other. apply H. left. reflexivity.
  - intros e' Hin. apply H. right. exact Hin.
Qed.

Lemma getf_restore_in t p : nodup_refs t = true -> forall e, In e t -> forall acc,
  getf (eref e) (restore t p acc) =
  if present p e then canon (ewt e) (getf (eref e) p) else getf (eref e) acc.
Proof.
  induction t as [|e0 t IH]; intros Hnd e Hin acc; [contradiction|].
  cbn [nodup_refs] in Hnd. apply andb_prop in Hnd as [Hh Ht]. rewrite forallb_forall in Hh.
  cbn [restore]. destruct Hin as [<-|Hin].
  - rewrite getf_restore_other.
    + destruct (present p e0); [apply getf_setf_same|reflexivity].
    + intros e' Hin'. apply negb_true_iff. rewrite <- (Hh e' Hin').
      f_equal. destruct (fref_eqb (eref e0) (eref e')) eqn:E.
      * apply fref_eqb_true in E. rewrite E. symmetry. apply fref_eqb_refl.
      * destruct (fref_eqb (eref e') (eref e0)) eqn:E'; [|reflexivity].
        apply fref_eqb_true in E'. rewrite E', fref_eqb_refl in E. discriminate E.
  - rewrite (IH Ht e Hin). destruct (present p e); [reflexivity|].
    destruct (present p e0); [|reflexivity]. apply getf_setf_other.
    apply negb_true_iff. apply (Hh e Hin).
Qed.

Lemma canon_idem w v : canon w (canon w v) = canon w v.
Proof. destruct w; reflexivity. Qed.

Lemma canon_zero w a b : is_zero w a = true -> is_zero w b = true -> canon w a = canon w b.
Proof.
  destruct w; cbn [is_zero canon]; intros Ha Hb;
    try (apply N.eqb_eq in Ha; apply N.eqb_eq in Hb; congruence).
  - apply negb_true_iff in Ha. apply negb_true_iff in Hb. congruence.
  - destruct (valS a); [|discriminate]. destruct (valS b); [reflexivity|discriminate].
  - destruct (valS a); [|discriminate]. destruct (valS b); [reflexivity|discriminate].
Qed.

(* after restoring into a packet whose fields of the map are zero, every
   field of the map agrees with the original up to the wire type's view *)
Lemma restore_agree t p acc : nodup_refs t = true ->
  (forall e, In e t -> is_zero (ewt e) (getf (eref e) acc) = true) ->
  forall e, In e t ->
  canon (ewt e) (getf (eref e) (restore t p acc)) = canon (ewt e) (getf (eref e) p).
Proof.
  intros Hnd Hz e Hin. rewrite (getf_restore_in t p Hnd e Hin).
  unfold present. destruct (is_zero (ewt e) (getf (eref e) p)) eqn:E; cbn [negb].
  - apply canon_zero; [apply Hz; exact Hin|exact E].
  - apply canon_idem.
Qed.

(* ------------------------------------------------------------------ *)
(* one buffer.get on an encoded mandatory field *)
Lemma encode_pos w v : w <> Raw -> (0 < length (encode w v))%nat.
Proof.
  intros Hw. destruct w; cbn [encode]; try congruence.
  - cbn; lia.
  - cbn; lia.
  - cbn; lia.
  - cbn; lia.
  - rewrite enc_bin_length. lia.
  - unfold enc_vb. cbn [vb_enc_loop]. destruct (0 <? valN v / 128); cbn [length]; lia.
Qed.

Lemma get_val_encoded' w v old s pre rest :
  w <> Raw -> valid_val w v -> (w = Bin -> valS v <> [] \/ valS old = []) ->
  derr s = None -> ddata s = pre ++ encode w v ++ rest -> dpos s = length pre ->
  get_val w old s =
  GOk (canon w v)
      {| dp := dp s; ddata := ddata s; dpos := dpos s + length (encode w v); derr := None;
         dsteps := S (dsteps s) |}.
Proof.
  intros Hw Hv Hne He Hd Hp. pose proof (encode_pos w v Hw) as Hlen. unfold get_val, get_with.
  cbn [derr tick ddata dpos]. rewrite He.
  assert (Hl : length (ddata s) = (length pre + length (encode w v) + length rest)%nat)
    by (rewrite Hd, !app_length; lia).
  rewrite (proj2 (Nat.leb_gt _ _)) by lia.
  rewrite Hd at 1. rewrite Hp, skipn_app_exact.
  rewrite decode_encode by assumption.
  assert (Ec : match w with
               | Bin => match valS v with [] => VS (valS old) | _ => VS (valS v) end
               | _ => canon w v end = canon w v).
  { destruct w; try reflexivity. specialize (Hne eq_refl). cbn [canon].
    destruct (valS v); [|reflexivity]. destruct Hne as [Hne|Hne]; [congruence|rewrite Hne; reflexivity]. }
  rewrite Ec. unfold width. rewrite encode_canon.
  unfold advance, tick. cbn [ddata dpos dp derr dsteps].
  rewrite (proj2 (Nat.ltb_ge _ _)) by lia. rewrite ?He, ?Hp. reflexivity.
Qed.

Lemma dget_step r w v acc d pre rest steps :
  w <> Raw -> valid_val w v -> ref_live acc r ->
  (w = Bin -> valS v <> [] \/ valS (getf r acc) = []) ->
  d = pre ++ encode w v ++ rest ->
  run_dec1 (DGet r w) (mk_state acc d (length pre) steps) =
  Run (mk_state (setf r (canon w v) acc) d (length (pre ++ encode w v)) (S steps)).
Proof.
  intros Hw Hv Hlive Hb Hd. cbn [run_dec1]. unfold get. cbn [dp mk_state].
  rewrite (getf_opt_live acc r Hlive).
  rewrite (get_val_encoded' w v (getf r acc) _ pre rest Hw Hv Hb); [|reflexivity|exact Hd|reflexivity].
  unfold with_pkt, mk_state. cbn [dp ddata dpos derr dsteps]. rewrite app_length. reflexivity.
Qed.

(* the payload: everything up to the end of the data *)
Lemma dget_raw_step r v acc d pre steps :
  ref_live acc r -> valS v <> [] -> d = pre ++ valS v ->
  run_dec1 (DGet r Raw) (mk_state acc d (length pre) steps) =
  Run (mk_state (setf r (VS (valS v)) acc) d (length d) (S steps)).
Proof.
  intros Hlive Hne Hd. cbn [run_dec1]. unfold get. cbn [dp mk_state].
  rewrite (getf_opt_live acc r Hlive). unfold get_val, get_with, tick, mk_state.
  cbn [derr ddata dpos dp dsteps].
  assert (Hl : length d = (length pre + length (valS v))%nat) by (rewrite Hd, app_length; reflexivity).
  assert (Hpos : (0 < length (valS v))%nat) by (destruct (valS v); [congruence|cbn; lia]).
  rewrite (proj2 (Nat.leb_gt _ _)) by lia.
  rewrite Hd at 1. rewrite <- (app_nil_r (valS v)) at 1. rewrite skipn_app_exact, app_nil_r.
  cbn [decode dec_raw]. unfold width. cbn [encode valS enc_raw].
  unfold advance. cbn [ddata dpos dp derr dsteps].
  rewrite (proj2 (Nat.ltb_ge _ _)) by lia.
  unfold with_pkt, mk_state. cbn [dp ddata dpos derr dsteps]. rewrite Hl. reflexivity.
Qed.

Lemma run_dec_cons d ds s s' : run_dec1 d s = Run s' -> run_dec (d :: ds) s = run_dec ds s'.
Proof. intros H. cbn [run_dec]. rewrite H. reflexivity. Qed.

Lemma run_dec_app a b s : run_dec (a ++ b) s =
  match run_dec a s with Run s' => run_dec b s' | x => x end.
Proof.
  revert s. induction a as [|d a IH]; intros s; [reflexivity|]. cbn [app run_dec].
  destruct (run_dec1 d s); try reflexivity. apply IH.
Qed.

Lemma run_list_dec_eq : forall ds s,
  (fix run_list (ds : list dec) (s : dstate) : res :=
     match ds with
     | [] => Run s
     | d' :: ds' => match run_dec1 d' s with Run s' => run_list ds' s' | x => x end
     end) ds s = run_dec ds s.
Proof. induction ds as [|d ds IH]; intros s; [reflexivity|]. cbn [run_dec]. destruct (run_dec1 d s); try reflexivity. Qed.

Lemma dif_step c ds s : run_dec1 (DIf c ds) s =
  if eval_cond c (dp s) (env_of s) then run_dec ds s else Run s.
Proof. cbn [run_dec1]. rewrite run_list_dec_eq. reflexivity. Qed.

(* ------------------------------------------------------------------ *)
(* Two packets the encoder cannot tell apart.  [vagree r w p p'] says the
   field r looks the same through wire type w. *)
Definition vagree (r : fref) (w : wt) (p p' : pkt) : Prop :=
  canon w (getf r p') = canon w (getf r p).
Definition live_agree (r : fref) (p p' : pkt) : Prop :=
  match r with M _ => True | W _ => hasWill p' = hasWill p end.

Lemma canon_valN w a b : canon w a = canon w b ->
  match w with U8 | U16 | U32 | Vb => valN a = valN b | WBool => valB a = valB b | _ => valS a = valS b end.
Proof. destruct w; cbn [canon]; intros H; injection H as H; exact H. Qed.

Fixpoint cond_agree (c : cond) (p p' : pkt) : Prop :=
  match c with
  | CHas r _ => vagree r U8 p p'
  | CQoS12 => vagree (M F_fixed) U8 p p'
  | CNonEmpty r => vagree r Bin p p'
  | CIsZero r => vagree r U8 p p'
  | CDataLenGt _ | CMoreData => True
  | CNot c => cond_agree c p p'
  | CAnd a b => cond_agree a p p' /\ cond_agree b p p'
  end.

Lemma eval_cond_agree c p p' e : cond_agree c p p' -> eval_cond c p' e = eval_cond c p e.
Proof.
  induction c as [r m| |r|r|n| |c IH|a IHa b IHb]; cbn [cond_agree eval_cond]; intros H.
  - unfold getN. apply (canon_valN U8) in H. rewrite H. reflexivity.
  - unfold getN. apply (canon_valN U8) in H. rewrite H. reflexivity.
  - unfold getS. apply (canon_valN Bin) in H. rewrite H. reflexivity.
  - unfold getN. apply (canon_valN U8) in H. rewrite H. reflexivity.
  - reflexivity.
  - reflexivity.
  - rewrite IH by exact H. reflexivity.
  - destruct H as [Ha Hb]. rewrite IHa, IHb by assumption. reflexivity.
Qed.

Fixpoint enc_agree (e : enc) (p p' : pkt) {struct e} : Prop :=
  let all := fix all (es : list enc) : Prop :=
    match es with [] => True | e' :: es' => enc_agree e' p p' /\ all es' end in
  match e with
  | EFill r w => vagree r w p p' /\ live_agree r p p'
  | EFillProp r w _ => vagree r w p p' /\ live_agree r p p'
  | EFillOpt r => vagree r U8 p p' /\ live_agree r p p'
  | EVbConst _ => True
  | EVbLen es => all es
  | EIf c a b => cond_agree c p p' /\ (if eval_cond c p no_env then all a else all b)
  | EIfEmpty s a b => all s /\ all a /\ all b
  | EUserProps will =>
      if will then hasWill p' = hasWill p /\ wuprops p' = wuprops p else uprops p' = uprops p
  | ESubIDs => subids p' = subids p
  | ESubID => subid p' = subid p
  | EFilters => filters p' = filters p
  | EUnsubFilters => ufilters p' = ufilters p
  | EReasonCodes => rcodes p' = rcodes p
  end.

Fixpoint encs_agree (es : list enc) (p p' : pkt) : Prop :=
  match es with [] => True | e :: es' => enc_agree e p p' /\ encs_agree es' p p' end.

Lemma getf_opt_agree r w p p' : vagree r w p p' -> live_agree r p p' ->
  forall f : value -> list byte, (forall a b, canon w a = canon w b -> f a = f b) ->
  option_map f (getf_opt r p') = option_map f (getf_opt r p).
Proof.
  intros Hv Hl f Hf. destruct r as [g|g]; cbn [getf_opt live_agree] in *.
  - cbn [option_map]. f_equal. apply Hf. exact Hv.
  - rewrite Hl. destruct (hasWill p); [|reflexivity]. cbn [option_map]. f_equal. apply Hf. exact Hv.
Qed.

Lemma encode_canon_eq w a b : canon w a = canon w b -> encode w a = encode w b.
Proof. intros H. rewrite <- (encode_canon w a), <- (encode_canon w b), H. reflexivity. Qed.
Lemma is_zero_canon_eq w a b : canon w a = canon w b -> is_zero w a = is_zero w b.
Proof. intros H. rewrite <- (is_zero_canon w a), <- (is_zero_canon w b), H. reflexivity. Qed.

Lemma run_enc1_agree : forall e p p', enc_agree e p p' -> run_enc1 e p' = run_enc1 e p.
Proof.
  fix IH 1. intros e p p'.
  assert (IHl : forall es,
    (fix all (es : list enc) : Prop :=
       match es with [] => True | e' :: es' => enc_agree e' p p' /\ all es' end) es ->
    run_enc es p' = run_enc es p).
  { induction es as [|e' es IHes]; [reflexivity|]. intros [H1 H2]. cbn [run_enc].
    rewrite (IH e' p p' H1), (IHes H2). reflexivity. }
  destruct e as [r w|r w id|r|n|es|c a b|s a b|will| | | | | ]; cbn [enc_agree]; intros H.
  - destruct H as [Hv Hl]. cbn [run_enc1]. apply (getf_opt_agree r w); try assumption.
    apply encode_canon_eq.
  - destruct H as [Hv Hl]. cbn [run_enc1]. apply (getf_opt_agree r w); try assumption.
    intros x y E. unfold enc_prop. rewrite (is_zero_canon_eq w x y E), (encode_canon_eq w x y E). reflexivity.
  - destruct H as [Hv Hl]. cbn [run_enc1]. apply (getf_opt_agree r U8); try assumption.
    intros x y E. apply (canon_valN U8) in E. rewrite E. reflexivity.
  - reflexivity.
  - rewrite !run_enc1_vblen. rewrite (IHl es H). reflexivity.
  - destruct H as [Hc Hab]. cbn [run_enc1]. rewrite !run_list_eq.
    rewrite (eval_cond_agree c p p' no_env Hc).
    destruct (eval_cond c p no_env); rewrite (IHl _ Hab); reflexivity.
  - destruct H as [Hs [Ha Hb]]. cbn [run_enc1]. rewrite !run_list_eq.
    rewrite (IHl s Hs), (IHl a Ha), (IHl b Hb). reflexivity.
  - cbn [run_enc1]. destruct will.
    + destruct H as [H1 H2]. rewrite H1, H2. reflexivity.
    + rewrite H. reflexivity.
  - cbn [run_enc1]. rewrite H. reflexivity.
  - cbn [run_enc1]. rewrite H. reflexivity.
  - cbn [run_enc1]. rewrite H. reflexivity.
  - cbn [run_enc1]. rewrite H. reflexivity.
  - cbn [run_enc1]. rewrite H. reflexivity.
Qed.

Lemma run_enc_agree es p p' : encs_agree es p p' -> run_enc es p' = run_enc es p.
Proof.
  induction es as [|e es IH]; [reflexivity|]. intros [H1 H2]. cbn [run_enc].
  rewrite (run_enc1_agree e p p' H1), (IH H2). reflexivity.
Qed.

(* ------------------------------------------------------------------ *)
(* the encoder of a property section *)
Definition section_encs (m : list entry) (will : bool) (sm : submode) : list enc :=
  enc_fields m ++ EUserProps will :: match sm with AddSub => [ESubIDs] | _ => [] end.

Lemma run_enc_section m will sm p :
  Forall (entry_ok p) m -> (will = true -> hasWill p = true) ->
  run_enc (section_encs m will sm) p = Some (section_bytes m will sm p).
Proof.
  intros Hok Hw. unfold section_encs, section_bytes. rewrite run_enc_app, (run_enc_fields p m Hok).
  cbn [run_enc run_enc1].
  assert (E : (if will
               then if hasWill p then Some (concat (map (enc_userprop UserProperty) (wuprops p))) else None
               else Some (concat (map (enc_userprop UserProperty) (uprops p))))
              = Some (ups_bytes (if will then wuprops p else uprops p))).
  { destruct will; [rewrite (Hw eq_refl)|]; reflexivity. }
  rewrite E. destruct sm; cbn [run_enc run_enc1 opt_app]; rewrite ?app_nil_r; reflexivity.
Qed.

(* fields and lists of the packet a section is read into *)
Lemma vals_append_ups will ups acc : vals (append_ups will ups acc) = vals acc /\
  wvals (append_ups will ups acc) = wvals acc.
Proof. unfold append_ups. destruct will; split; reflexivity. Qed.

Lemma getf_append_ups r will ups acc : getf r (append_ups will ups acc) = getf r acc.
Proof. unfold append_ups. destruct will, r; reflexivity. Qed.

Lemma getf_section_result r m will sm p acc :
  getf r (section_result m will sm p acc) = getf r (restore m p acc).
Proof.
  unfold section_result. cbn zeta.
  rewrite <- (getf_append_ups r will (if will then wuprops p else uprops p) (restore m p acc)).
  destruct sm; try reflexivity.
Qed.

Lemma hasWill_section_result m will sm p acc :
  hasWill (section_result m will sm p acc) = hasWill acc.
Proof.
  unfold section_result. cbn zeta. rewrite <- (hasWill_restore m p acc).
  destruct sm; apply hasWill_append_ups.
Qed.

Section RestoreLists.
  Variable A : Type.
  Variable proj : pkt -> A.
  Hypothesis proj_setf : forall r v q, proj (setf r v q) = proj q.
  Lemma proj_restore t p acc : proj (restore t p acc) = proj acc.
  Proof.
    revert acc. induction t as [|e t IH]; intros acc; [reflexivity|]. cbn [restore]. rewrite IH.
    destruct (present p e); [apply proj_setf|reflexivity].
  Qed.
End RestoreLists.

Lemma uprops_setf r v q : uprops (setf r v q) = uprops q. Proof. destruct r; reflexivity. Qed.
Lemma wuprops_setf r v q : wuprops (setf r v q) = wuprops q. Proof. destruct r; reflexivity. Qed.
Lemma subids_setf r v q : subids (setf r v q) = subids q. Proof. destruct r; reflexivity. Qed.
Lemma wsubids_setf r v q : wsubids (setf r v q) = wsubids q. Proof. destruct r; reflexivity. Qed.
Lemma subid_setf r v q : subid (setf r v q) = subid q. Proof. destruct r; reflexivity. Qed.
Lemma filters_setf r v q : filters (setf r v q) = filters q. Proof. destruct r; reflexivity. Qed.
Lemma ufilters_setf r v q : ufilters (setf r v q) = ufilters q. Proof. destruct r; reflexivity. Qed.
Lemma rcodes_setf r v q : rcodes (setf r v q) = rcodes q. Proof. destruct r; reflexivity. Qed.

Lemma uprops_section_result m will sm p acc :
  uprops (section_result m will sm p acc) =
  if will then uprops acc else uprops acc ++ uprops p.
Proof.
  unfold section_result. cbn zeta.
  assert (E : uprops (append_ups will (if will then wuprops p else uprops p) (restore m p acc)) =
              if will then uprops acc else uprops acc ++ uprops p).
  { unfold append_ups. destruct will; cbn [uprops set_wuprops set_uprops];
      rewrite (proj_restore _ uprops uprops_setf); reflexivity. }
  destruct sm; exact E.
Qed.

Lemma wuprops_section_result m will sm p acc :
  wuprops (section_result m will sm p acc) =
  if will then wuprops acc ++ wuprops p else wuprops acc.
Proof.
  unfold section_result. cbn zeta.
  assert (E : wuprops (append_ups will (if will then wuprops p else uprops p) (restore m p acc)) =
              if will then wuprops acc ++ wuprops p else wuprops acc).
  { unfold append_ups. destruct will; cbn [wuprops set_wuprops set_uprops];
      rewrite (proj_restore _ wuprops wuprops_setf); reflexivity. }
  destruct sm; exact E.
Qed.

Lemma subids_section_result m will sm p acc :
  subids (section_result m will sm p acc) =
  match sm with AddSub => subids acc ++ subids p | _ => subids acc end.
Proof.
  unfold section_result. cbn zeta.
  assert (E : subids (append_ups will (if will then wuprops p else uprops p) (restore m p acc)) = subids acc).
  { unfold append_ups. destruct will; cbn [subids set_wuprops set_uprops];
      rewrite (proj_restore _ subids subids_setf); reflexivity. }
  destruct sm; try exact E. cbn [subids set_subids]. rewrite E. reflexivity.
Qed.

(* the other list components are untouched *)
Lemma others_section_result m will sm p acc :
  let q := section_result m will sm p acc in
  wsubids q = wsubids acc /\ subid q = subid acc /\ filters q = filters acc /\
  ufilters q = ufilters acc /\ rcodes q = rcodes acc.
Proof.
  cbn zeta. unfold section_result. cbn zeta.
  set (a := append_ups will (if will then wuprops p else uprops p) (restore m p acc)).
  assert (E : wsubids a = wsubids acc /\ subid a = subid acc /\ filters a = filters acc /\
              ufilters a = ufilters acc /\ rcodes a = rcodes acc).
  { unfold a, append_ups. destruct will; cbn [wsubids subid filters ufilters rcodes set_wuprops set_uprops];
      rewrite (proj_restore _ wsubids wsubids_setf), (proj_restore _ subid subid_setf),
              (proj_restore _ filters filters_setf), (proj_restore _ ufilters ufilters_setf),
              (proj_restore _ rcodes rcodes_setf); repeat split; reflexivity. }
  destruct sm; exact E.
Qed.

(* ------------------------------------------------------------------ *)
(* The statement proved for each packet type. *)
From MQ Require Import Model.Stream Proofs.StreamP.

Definition roundtrip (k : kind) (p : pkt) : Prop :=
  exists body p',
    encode_pkt k p = Some (n2b (getN (M F_fixed) p) :: enc_vb (len body) ++ body)
    /\ len body < 268435456
    /\ decode_frame (n2b (getN (M F_fixed) p)) body = Some (Some (k, p'), None)
    /\ snapshot k p' = snapshot k p
    /\ encode_pkt k p' = encode_pkt k p.

(* remaining length within MQTT's limit *)
Definition remaining_ok (k : kind) (p : pkt) : Prop :=
  match body_of k with
  | Some b => match run_enc b p with Some body => len body < 268435456 | None => True end
  | None => True
  end.

Definition refs_of (m : list entry) : list (fref * wt) := map (fun e => (eref e, ewt e)) m.
Definition fields_valid (l : list (fref * wt)) (p : pkt) : Prop :=
  Forall (fun rw => valid_val (snd rw) (getf (fst rw) p)) l.

(* the computable part of entry_ok *)
Definition entry_okb (will : bool) (e : entry) : bool :=
  (eid e <? 256) && negb (eid e =? UserProperty) && negb (eid e =? SubscriptionID)
  && negb (match ewt e with Raw => true | _ => false end)
  && match eref e with M _ => true | W _ => will end.

Lemma entries_ok will m p : forallb (entry_okb will) m = true ->
  (will = true -> hasWill p = true) -> fields_valid (refs_of m) p -> Forall (entry_ok p) m.
Proof.
  intros Hb Hw Hv. apply Forall_forall. intros e Hin.
  rewrite forallb_forall in Hb. specialize (Hb e Hin). unfold entry_okb in Hb.
  apply andb_prop in Hb as [Hb H5]. apply andb_prop in Hb as [Hb H4].
  apply andb_prop in Hb as [Hb H3]. apply andb_prop in Hb as [H1 H2].
  unfold fields_valid, refs_of in Hv. rewrite Forall_map, Forall_forall in Hv. specialize (Hv e Hin).
  constructor.
  - apply N.ltb_lt. exact H1.
  - apply negb_true_iff in H2. apply N.eqb_neq. exact H2.
  - apply negb_true_iff in H3. apply N.eqb_neq. exact H3.
  - intros E. rewrite E in H4. discriminate H4.
  - exact Hv.
  - unfold ref_live. destruct (eref e); [exact I|]. apply Hw. exact H5.
Qed.

Lemma nodup_ids (m : list entry) : (forall e, In e m -> eid e < 256) ->
  NoDup (map (fun e => N.to_nat (eid e)) m) -> NoDup (map eid m).
Proof.
  intros _ H. induction m as [|e m IH]; [constructor|]. cbn [map] in *. inversion H as [|? ? Hni Hnd]; subst.
  constructor; [|apply IH; exact Hnd]. intros Hin. apply Hni.
  apply in_map_iff in Hin as [e' [E Hin]]. apply in_map_iff. exists e'. split; [rewrite E; reflexivity|exact Hin].
Qed.

Fixpoint nodupb_N (l : list N) : bool :=
  match l with [] => true | x :: l' => negb (existsb (N.eqb x) l') && nodupb_N l' end.
Lemma nodupb_N_ok l : nodupb_N l = true -> NoDup l.
Proof.
  induction l as [|x l IH]; [constructor|]. cbn [nodupb_N]. intros H. apply andb_prop in H as [H1 H2].
  constructor; [|apply IH; exact H2]. intros Hin. apply negb_true_iff in H1.
  assert (E : existsb (N.eqb x) l = true) by (apply existsb_exists; exists x; split; [exact Hin|apply N.eqb_refl]).
  congruence.
Qed.

Lemma live_of_okb will m acc : forallb (entry_okb will) m = true ->
  (will = true -> hasWill acc = true) -> forall e, In e m -> ref_live acc (eref e).
Proof.
  intros Hb Hw e Hin. rewrite forallb_forall in Hb. specialize (Hb e Hin). unfold entry_okb in Hb.
  apply andb_prop in Hb as [_ H5]. unfold ref_live. destruct (eref e); [exact I|]. apply Hw. exact H5.
Qed.

(* a property section as one decoder step *)
Lemma dgetany_step m will sm p acc d pre rest steps :
  sm <> SubOpt -> forallb (entry_okb will) m = true -> nodupb_N (map eid m) = true ->
  (will = true -> hasWill p = true) -> (will = true -> hasWill acc = true) ->
  fields_valid (refs_of m) p ->
  Forall up_ok (if will then wuprops p else uprops p) ->
  match sm with AddSub => Forall sid_ok (subids p) | _ => True end ->
  let P := section_bytes m will sm p in
  len P < 268435456 ->
  d = pre ++ enc_vb (len P) ++ P ++ rest ->
  exists steps',
    run_dec1 (DGetAny m will sm) (mk_state acc d (length pre) steps) =
    Run (mk_state (section_result m will sm p acc) d (length (pre ++ enc_vb (len P) ++ P)) steps').
Proof.
  intros Hsm Hb Hnd Hwp Hwa Hv Hups Hsids P HP Hd.
  destruct (getany_roundtrip m will sm p acc pre rest steps Hsm (nodupb_N_ok _ Hnd)
              (entries_ok will m p Hb Hwp Hv) Hups Hsids (live_of_okb will m acc Hb Hwa) Hwa HP) as [st E].
  exists st. cbn [run_dec1]. rewrite Hd. cbv zeta in E. fold P in E. rewrite E. rewrite !app_length.
  unfold mk_state. do 2 f_equal. lia.
Qed.

(* agreement of the packet a section was read into with the original *)
Lemma section_agree_in m will sm p acc : nodup_refs m = true ->
  forallb (fun e => is_zero (ewt e) (getf (eref e) acc)) m = true ->
  Forall (fun rw => vagree (fst rw) (snd rw) p (section_result m will sm p acc)) (refs_of m).
Proof.
  intros Hnd Hz. unfold refs_of. rewrite Forall_map. apply Forall_forall. intros e Hin. cbn [fst snd].
  unfold vagree. rewrite getf_section_result. apply restore_agree; try assumption.
  intros e' Hin'. rewrite forallb_forall in Hz. apply Hz. exact Hin'.
Qed.

Lemma section_agree_out m will sm p acc r w :
  forallb (fun e => negb (fref_eqb r (eref e))) m = true ->
  canon w (getf r acc) = canon w (getf r p) ->
  vagree r w p (section_result m will sm p acc).
Proof.
  intros Hn E. unfold vagree. rewrite getf_section_result, getf_restore_other; [exact E|].
  intros e Hin. rewrite forallb_forall in Hn. apply negb_true_iff. apply Hn. exact Hin.
Qed.

(* turn a list of agreements into equations on the projections *)
Fixpoint agree_all (l : list (fref * wt)) (p p' : pkt) : Prop :=
  match l with
  | [] => True
  | (r, w) :: l' =>
    match w with U8 | U16 | U32 | Vb => valN (getf r p') = valN (getf r p)
               | WBool => valB (getf r p') = valB (getf r p)
               | _ => valS (getf r p') = valS (getf r p) end /\ agree_all l' p p'
  end.
Lemma agree_all_of l p p' : Forall (fun rw => vagree (fst rw) (snd rw) p p') l -> agree_all l p p'.
Proof.
  induction 1 as [|[r w] l H _ IH]; [exact I|]. cbn [agree_all]. split; [|exact IH].
  apply canon_valN in H. exact H.
Qed.
Fixpoint vagree_all (l : list (fref * wt)) (p p' : pkt) : Prop :=
  match l with [] => True | (r, w) :: l' => vagree r w p p' /\ vagree_all l' p p' end.
Lemma vagree_all_of l p p' : Forall (fun rw => vagree (fst rw) (snd rw) p p') l -> vagree_all l p p'.
Proof. induction 1 as [|[r w] l H _ IH]; [exact I|]. split; assumption. Qed.

Ltac split_ands := repeat match goal with H : _ /\ _ |- _ => destruct H end.

Lemma encode_pkt_body k p b body : k <> KPingReq -> k <> KPingResp ->
  body_of k = Some b -> run_enc b p = Some body ->
  encode_pkt k p = Some (n2b (getN (M F_fixed) p) :: enc_vb (len body) ++ body).
Proof.
  intros H1 H2 Hb Hr. assert (H0 : k <> KUndefined) by (intros ->; discriminate Hb).
  destruct (enc_of_shape k H0 H1 H2) as [b' [Hb' He]]. rewrite Hb in Hb'. injection Hb' as <-.
  unfold encode_pkt. rewrite He, run_enc_app, Hr. cbn [run_enc]. rewrite run_enc1_vblen, Hr.
  cbn [run_enc1 getf_opt option_map opt_app encode enc_u8 app]. rewrite app_nil_r. reflexivity.
Qed.

Ltac rewrite_agree q :=
  repeat match goal with
  | H : valN (vals q _) = _ |- _ => rewrite ?H; clear H
  | H : valB (vals q _) = _ |- _ => rewrite ?H; clear H
  | H : valS (vals q _) = _ |- _ => rewrite ?H; clear H
  | H : valN (wvals q _) = _ |- _ => rewrite ?H; clear H
  | H : valB (wvals q _) = _ |- _ => rewrite ?H; clear H
  | H : valS (wvals q _) = _ |- _ => rewrite ?H; clear H
  end.

(* ------------------------------------------------------------------ *)
(* CONNACK *)
Definition connack_fields : list (fref * wt) :=
  (M F_flags, U8) :: (M F_reasonCode, U8) :: refs_of connack_map.
Definition connack_all := (M F_fixed, U8) :: connack_fields.

Record dom_connack (p : pkt) : Prop := {
  dca_fixed : getN (M F_fixed) p = 32;
  dca_fields : fields_valid connack_fields p;
  dca_ups : Forall up_ok (uprops p);
  dca_size : remaining_ok KConnAck p
}.

Lemma connack_map_ok : forallb (entry_okb false) connack_map = true
  /\ nodupb_N (map eid connack_map) = true /\ nodup_refs connack_map = true.
Proof. vm_compute. repeat split. Qed.

Theorem connack_roundtrip p : dom_connack p -> roundtrip KConnAck p.
Proof.
  intros [Hfx Hf Hups Hsize].
  assert (Hfl : valid_val U8 (getf (M F_flags) p)) by (inversion Hf; assumption).
  assert (Hrc : valid_val U8 (getf (M F_reasonCode) p))
    by (inversion Hf as [|? ? _ Hf1]; inversion Hf1; assumption).
  assert (Hm : fields_valid (refs_of connack_map) p)
    by (inversion Hf as [|? ? _ Hf1]; inversion Hf1; assumption).
  assert (Hok : Forall (entry_ok p) connack_map)
    by (apply (entries_ok false); [apply connack_map_ok|discriminate|exact Hm]).
  set (P := section_bytes connack_map false NoSub p).
  assert (EP : run_enc connack_props p = Some P)
    by (apply (run_enc_section connack_map false NoSub p Hok); discriminate).
  set (body := encode U8 (getf (M F_flags) p) ++ encode U8 (getf (M F_reasonCode) p) ++ enc_vb (len P) ++ P).
  assert (Ebody : run_enc connack_vh p = Some body).
  { unfold connack_vh. change (?a :: ?b :: ?c :: connack_props) with ([a; b; c] ++ connack_props).
    rewrite run_enc_app, EP. cbn [run_enc]. rewrite run_enc1_vblen, EP.
    cbn [run_enc1 getf_opt option_map opt_app]. unfold body. rewrite ?app_nil_r, <- ?app_assoc. reflexivity. }
  assert (HP : len P < 268435456).
  { unfold remaining_ok in Hsize. cbn [body_of] in Hsize. rewrite Ebody in Hsize.
    unfold body in Hsize. rewrite !len_app in Hsize. lia. }
  exists body.
  (* decode *)
  set (fresh := setf (M F_fixed) (VN 32) zero_pkt).
  set (a1 := setf (M F_flags) (canon U8 (getf (M F_flags) p)) fresh).
  set (a2 := setf (M F_reasonCode) (canon U8 (getf (M F_reasonCode) p)) a1).
  assert (D1 : run_dec1 (DGet (M F_flags) U8) (mk_state fresh body (length (@nil byte)) 0) =
               Run (mk_state a1 body (length ([] ++ encode U8 (getf (M F_flags) p))) 1)).
  { apply (dget_step _ _ _ _ _ _ (encode U8 (getf (M F_reasonCode) p) ++ enc_vb (len P) ++ P));
      try discriminate; try assumption; [exact I|reflexivity]. }
  assert (D2 : run_dec1 (DGet (M F_reasonCode) U8) (mk_state a1 body (length ([] ++ encode U8 (getf (M F_flags) p))) 1) =
               Run (mk_state a2 body (length (([] ++ encode U8 (getf (M F_flags) p)) ++ encode U8 (getf (M F_reasonCode) p))) 2)).
  { apply (dget_step _ _ _ _ _ _ (enc_vb (len P) ++ P)); try discriminate; try assumption; [exact I|].
    unfold body. rewrite <- ?app_assoc. reflexivity. }
  destruct (dgetany_step connack_map false NoSub p a2 body
              (([] ++ encode U8 (getf (M F_flags) p)) ++ encode U8 (getf (M F_reasonCode) p)) [] 2)
    as [st D3]; try discriminate; try assumption; try apply connack_map_ok; try exact I.
  { fold P. unfold body. rewrite ?app_nil_r, <- ?app_assoc. reflexivity. }
  fold P in D3.
  set (p' := section_result connack_map false NoSub p a2) in *.
  exists p'.
  assert (Hdec : unmarshal KConnAck fresh body = UOk p').
  { unfold unmarshal, unmarshal_steps. cbn [dec_of]. unfold dec_connack.
    change {| dp := fresh; ddata := body; dpos := 0; derr := None; dsteps := 0 |}
      with (mk_state fresh body (length (@nil byte)) 0).
    rewrite (run_dec_cons _ _ _ _ D1), (run_dec_cons _ _ _ _ D2), (run_dec_cons _ _ _ _ D3).
    reflexivity. }
  assert (Hag : Forall (fun rw => vagree (fst rw) (snd rw) p p') connack_all).
  { unfold connack_all, connack_fields. constructor; [|constructor; [|constructor]].
    - apply section_agree_out; [vm_compute; reflexivity|]. cbn [fst snd canon]. fold (getN (M F_fixed) p). rewrite Hfx. reflexivity.
    - apply section_agree_out; [vm_compute; reflexivity|]. cbn [fst snd]. apply canon_idem.
    - apply section_agree_out; [vm_compute; reflexivity|]. cbn [fst snd]. apply canon_idem.
    - apply section_agree_in; [apply connack_map_ok|vm_compute; reflexivity]. }
  assert (Hu : uprops p' = uprops p) by (unfold p'; rewrite uprops_section_result; reflexivity).
  clearbody p'.
  split; [|split; [|split; [|split]]].
  - apply (encode_pkt_body KConnAck p connack_vh); try discriminate; [reflexivity|exact Ebody].
  - unfold remaining_ok in Hsize. cbn [body_of] in Hsize. rewrite Ebody in Hsize. exact Hsize.
  - unfold decode_frame. rewrite Hfx. change (fresh_pkt (b2n (n2b 32))) with (KConnAck, fresh).
    cbv beta iota. rewrite Hdec. unfold body. cbn [encode enc_u8 app]. reflexivity.
  - apply agree_all_of in Hag. cbn in Hag. split_ands.
    unfold snapshot, oN, oB, oS, getN, getB, getS, getf. rewrite Hu. rewrite_agree p'. reflexivity.
  - unfold encode_pkt. cbn [enc_of]. apply run_enc_agree.
    apply vagree_all_of in Hag. cbn in Hag. split_ands.
    unfold enc_connack, connack_vh, connack_props, up.
    cbn [app encs_agree enc_agree live_agree].
    repeat split; assumption.
Qed.

(* ------------------------------------------------------------------ *)
(* Decoder steps relative to a position in the data. *)
Definition at_pos (d : list byte) (pos : nat) (rem : list byte) : Prop :=
  exists pre, d = pre ++ rem /\ length pre = pos.

Lemma at_pos_0 d : at_pos d 0 d.
Proof. exists []. split; reflexivity. Qed.

Lemma at_pos_app d pos x rest : at_pos d pos (x ++ rest) -> at_pos d (pos + length x) rest.
Proof.
  intros [pre [E L]]. exists (pre ++ x). split; [rewrite <- app_assoc; exact E|].
  rewrite app_length, L. reflexivity.
Qed.

Lemma at_pos_end d pos : at_pos d pos [] -> pos = length d.
Proof. intros [pre [E L]]. rewrite E, app_nil_r. symmetry. exact L. Qed.

Lemma at_pos_more d pos x rest : at_pos d pos (x :: rest) -> (pos < length d)%nat.
Proof. intros [pre [E L]]. rewrite E, app_length, L. cbn [length]. lia. Qed.

Lemma dget_at r w v acc d pos rest steps :
  w <> Raw -> valid_val w v -> ref_live acc r ->
  (w = Bin -> valS v <> [] \/ valS (getf r acc) = []) ->
  at_pos d pos (encode w v ++ rest) ->
  run_dec1 (DGet r w) (mk_state acc d pos steps) =
    Run (mk_state (setf r (canon w v) acc) d (pos + length (encode w v)) (S steps))
  /\ at_pos d (pos + length (encode w v)) rest.
Proof.
  intros Hw Hv Hl Hb Hat. split; [|apply at_pos_app; exact Hat].
  destruct Hat as [pre [E L]]. subst pos.
  rewrite (dget_step r w v acc d pre rest steps Hw Hv Hl Hb E). rewrite app_length. reflexivity.
Qed.

Lemma dget_raw_at r v acc d pos steps :
  ref_live acc r -> valS v <> [] -> at_pos d pos (valS v) ->
  run_dec1 (DGet r Raw) (mk_state acc d pos steps) =
    Run (mk_state (setf r (VS (valS v)) acc) d (length d) (S steps)).
Proof.
  intros Hl Hne [pre [E L]]. subst pos. apply dget_raw_step; assumption.
Qed.

Lemma dgetany_at m will sm p acc d pos rest steps :
  sm <> SubOpt -> forallb (entry_okb will) m = true -> nodupb_N (map eid m) = true ->
  (will = true -> hasWill p = true) -> (will = true -> hasWill acc = true) ->
  fields_valid (refs_of m) p ->
  Forall up_ok (if will then wuprops p else uprops p) ->
  match sm with AddSub => Forall sid_ok (subids p) | _ => True end ->
  let P := section_bytes m will sm p in
  len P < 268435456 ->
  at_pos d pos (enc_vb (len P) ++ P ++ rest) ->
  exists steps',
    run_dec1 (DGetAny m will sm) (mk_state acc d pos steps) =
      Run (mk_state (section_result m will sm p acc) d (pos + length (enc_vb (len P) ++ P)) steps')
    /\ at_pos d (pos + length (enc_vb (len P) ++ P)) rest.
Proof.
  intros Hsm Hb Hnd Hwp Hwa Hv Hups Hsids P HP Hat.
  assert (Hat' : at_pos d (pos + length (enc_vb (len P) ++ P)) rest)
    by (apply at_pos_app; rewrite <- app_assoc; exact Hat).
  destruct Hat as [pre [E L]]. subst pos.
  destruct (dgetany_step m will sm p acc d pre rest steps Hsm Hb Hnd Hwp Hwa Hv Hups Hsids HP E) as [st D].
  exists st. split; [|exact Hat']. rewrite D. rewrite (app_length pre). reflexivity.
Qed.

(* getAny at the end of the data returns at once *)
Lemma dgetany_end m will sm acc d pos steps : at_pos d pos [] ->
  run_dec1 (DGetAny m will sm) (mk_state acc d pos steps) = Run (mk_state acc d pos steps).
Proof.
  intros Hat. apply at_pos_end in Hat. cbn [run_dec1]. unfold getany, at_end, mk_state.
  cbn [dpos ddata]. rewrite Hat, Nat.eqb_refl. reflexivity.
Qed.

(* the closing step: the decoder list is exhausted *)
Lemma unmarshal_of_run k fresh body p' pos st :
  run_dec (dec_of k) (mk_state fresh body 0 0) = Run (mk_state p' body pos st) ->
  unmarshal k fresh body = UOk p'.
Proof. intros H. unfold unmarshal, unmarshal_steps. fold (mk_state fresh body 0 0). rewrite H. reflexivity. Qed.

Lemma roundtrip_intro k p b body fresh p' :
  k <> KPingReq -> k <> KPingResp -> body_of k = Some b -> run_enc b p = Some body ->
  remaining_ok k p ->
  fresh_pkt (b2n (n2b (getN (M F_fixed) p))) = (k, fresh) ->
  match body with [] => p' = fresh | _ => unmarshal k fresh body = UOk p' end ->
  snapshot k p' = snapshot k p ->
  (forall es, enc_of k = Some es -> encs_agree es p p') ->
  roundtrip k p.
Proof.
  intros H1 H2 Hb Hr Hsz Hf Hd Hs Ha. exists body, p'. split; [|split; [|split; [|split]]].
  - apply (encode_pkt_body k p b); assumption.
  - unfold remaining_ok in Hsz. rewrite Hb, Hr in Hsz. exact Hsz.
  - unfold decode_frame. rewrite Hf. destruct body as [|x body]; [rewrite Hd; reflexivity|].
    rewrite Hd. reflexivity.
  - exact Hs.
  - unfold encode_pkt. destruct (enc_of k) as [es|]; [|reflexivity]. apply run_enc_agree. apply Ha. reflexivity.
Qed.

(* ------------------------------------------------------------------ *)
(* PUBACK, PUBREC, PUBREL, PUBCOMP *)
Definition ack_fields : list (fref * wt) :=
  [(M F_packetID, U16); (M F_reasonCode, U8); (M F_reasonString, Bin)].

Record dom_ack (k : kind) (p : pkt) : Prop := {
  dak_fixed : getN (M F_fixed) p = ctor_fixed k;
  dak_fields : fields_valid ack_fields p;
  dak_ups : Forall up_ok (uprops p);
  dak_size : remaining_ok k p
}.

Lemma ack_map_ok : forallb (entry_okb false) ack_map = true
  /\ nodupb_N (map eid ack_map) = true /\ nodup_refs ack_map = true.
Proof. vm_compute. repeat split. Qed.

Lemma ups_bytes_nil ups : Forall up_ok ups -> ups_bytes ups = [] -> ups = [].
Proof.
  intros Hok E. pose proof (ups_le ups Hok) as H. rewrite E in H. cbn [length] in H.
  destruct ups; [reflexivity|cbn [length] in H; lia].
Qed.

Lemma enc_prop_nil w id v : enc_prop w id v = [] -> is_zero w v = true.
Proof. unfold enc_prop. destruct (is_zero w v); [reflexivity|discriminate]. Qed.

Lemma fresh_ack k : is_ack k = true ->
  fresh_pkt (b2n (n2b (ctor_fixed k))) = (k, setf (M F_fixed) (VN (ctor_fixed k)) zero_pkt).
Proof. destruct k; try discriminate; intros _; reflexivity. Qed.

Lemma run_enc1_ifempty sub a b p : run_enc1 (EIfEmpty sub a b) p =
  match run_enc sub p with None => None | Some [] => run_enc a p | Some _ => run_enc b p end.
Proof. cbn [run_enc1]. rewrite !run_list_eq. reflexivity. Qed.

Lemma ack_finish k p p' : is_ack k = true ->
  Forall (fun rw => vagree (fst rw) (snd rw) p p') ((M F_fixed, U8) :: ack_fields) ->
  uprops p' = uprops p ->
  snapshot k p' = snapshot k p /\ (forall es, enc_of k = Some es -> encs_agree es p p').
Proof.
  intros Hk Hag Hu. split.
  - apply agree_all_of in Hag. unfold ack_fields in Hag. cbn [agree_all getf] in Hag. split_ands.
    destruct k; try discriminate Hk; unfold snapshot, oN, oB, oS, getN, getB, getS, getf;
      rewrite Hu; rewrite_agree p'; reflexivity.
  - intros es Hes. assert (Henc_of : enc_of k = Some enc_ack) by (destruct k; try discriminate; reflexivity).
    rewrite Henc_of in Hes. injection Hes as <-.
    apply vagree_all_of in Hag. unfold ack_fields in Hag. cbn [vagree_all] in Hag. split_ands.
    unfold enc_ack, ack_vh, ack_props, up. cbn [app encs_agree enc_agree live_agree].
    repeat split; assumption.
Qed.

Ltac forall_cons :=
  repeat (apply Forall_cons; [unfold vagree; cbn [fst snd]|]); [..|apply Forall_nil].

Theorem ack_roundtrip k p : is_ack k = true -> dom_ack k p -> roundtrip k p.
Proof.
  intros Hk [Hfx Hf Hups Hsize].
  assert (Hpid : valid_val U16 (getf (M F_packetID) p)) by (inversion Hf; assumption).
  assert (Hrc : valid_val U8 (getf (M F_reasonCode) p))
    by (inversion Hf as [|? ? _ Hf1]; inversion Hf1; assumption).
  assert (Hm : fields_valid (refs_of ack_map) p)
    by (inversion Hf as [|? ? _ Hf1]; inversion Hf1 as [|? ? _ Hf2]; exact Hf2).
  assert (Hok : Forall (entry_ok p) ack_map)
    by (apply (entries_ok false); [apply ack_map_ok|discriminate|exact Hm]).
  set (P := section_bytes ack_map false NoSub p).
  assert (EP : run_enc ack_props p = Some P)
    by (apply (run_enc_section ack_map false NoSub p Hok); discriminate).
  assert (Hbody : body_of k = Some ack_vh) by (destruct k; try discriminate; reflexivity).
  assert (Hdec_of : dec_of k = dec_ack) by (destruct k; try discriminate; reflexivity).
  assert (Hk1 : k <> KPingReq) by (intros ->; discriminate).
  assert (Hk2 : k <> KPingResp) by (intros ->; discriminate).
  set (fresh := setf (M F_fixed) (VN (ctor_fixed k)) zero_pkt).
  assert (Hfresh : fresh_pkt (b2n (n2b (getN (M F_fixed) p))) = (k, fresh))
    by (rewrite Hfx; apply fresh_ack; exact Hk).
  set (pid := getf (M F_packetID) p) in *. set (rc := getf (M F_reasonCode) p) in *.
  set (a1 := setf (M F_packetID) (canon U16 pid) fresh).
  set (a2 := setf (M F_reasonCode) (canon U8 rc) a1).
  assert (Efix : canon U8 (getf (M F_fixed) fresh) = canon U8 (getf (M F_fixed) p)).
  { cbn [canon]. fold (getN (M F_fixed) p). rewrite Hfx. reflexivity. }
  (* the encoder's two forms *)
  assert (Evh : run_enc ack_vh p =
    Some (encode U16 pid ++ match P with
                            | [] => if valN rc =? 0 then [] else enc_u8 (valN rc)
                            | _ => encode U8 rc ++ enc_vb (len P) ++ P end)).
  { unfold ack_vh. cbn [run_enc]. rewrite run_enc1_ifempty, EP. destruct P.
    - cbn [run_enc run_enc1 getf_opt option_map opt_app]. rewrite ?app_nil_r. reflexivity.
    - rewrite run_enc_app, EP. cbn [run_enc]. rewrite run_enc1_vblen, EP.
      cbn [run_enc1 getf_opt option_map opt_app]. rewrite ?app_nil_r, <- ?app_assoc. reflexivity. }
  assert (HPcase : P = [] \/ P <> []) by (destruct P; [left; reflexivity|right; discriminate]).
  destruct HPcase as [EPv|HPne].
  - (* no properties *)
    rewrite EPv in Evh.
    assert (Hnil : field_bytes p ack_map = [] /\ ups_bytes (uprops p) = []).
    { unfold P, section_bytes in EPv. apply app_eq_nil in EPv as [E1 E2].
      apply app_eq_nil in E2 as [E2 _]. split; assumption. }
    destruct Hnil as [Hfb Hub].
    assert (Hu : uprops p = []) by (apply ups_bytes_nil; assumption).
    assert (Hrs : is_zero Bin (getf (M F_reasonString) p) = true).
    { unfold field_bytes, ack_map in Hfb. cbn [map concat eref ewt eid fst snd] in Hfb.
      rewrite app_nil_r in Hfb. apply enc_prop_nil in Hfb. exact Hfb. }
    destruct (valN rc =? 0) eqn:Erc.
    + (* two bytes *)
      rewrite app_nil_r in Evh.
      destruct (dget_at (M F_packetID) U16 pid fresh (encode U16 pid) 0 [] 0) as [D1 H1];
        try discriminate; try assumption; try exact I.
      { rewrite app_nil_r. apply at_pos_0. }
      destruct (ack_finish k p a1 Hk) as [Hs Ha].
      { forall_cons.
        - exact Efix.
        - apply canon_idem.
        - change (VN 0 = VN (valN rc)). rewrite (proj1 (N.eqb_eq _ _) Erc). reflexivity.
        - apply canon_zero; [reflexivity|exact Hrs]. }
      { rewrite Hu. reflexivity. }
      apply (roundtrip_intro k p ack_vh (encode U16 pid) fresh a1); try assumption.
      cbn [encode enc_u16]. apply (unmarshal_of_run k _ _ _ (0 + length (encode U16 pid)) 1).
      rewrite Hdec_of. unfold dec_ack. rewrite (run_dec_cons _ _ _ _ D1).
      cbn [run_dec]. rewrite dif_step. reflexivity.
    + (* three bytes: the reason code, no property length *)
      destruct (dget_at (M F_packetID) U16 pid fresh (encode U16 pid ++ enc_u8 (valN rc)) 0 (encode U8 rc) 0)
        as [D1 H1]; try discriminate; try assumption; try exact I.
      { apply at_pos_0. }
      destruct (dget_at (M F_reasonCode) U8 rc a1 (encode U16 pid ++ enc_u8 (valN rc))
                        (0 + length (encode U16 pid)) [] 1)
        as [D2 H2]; try discriminate; try assumption; try exact I.
      pose proof (dgetany_end ack_map false NoSub a2 _ _ 2 H2) as D3.
      destruct (ack_finish k p a2 Hk) as [Hs Ha].
      { forall_cons.
        - exact Efix.
        - apply canon_idem.
        - apply canon_idem.
        - apply canon_zero; [reflexivity|exact Hrs]. }
      { rewrite Hu. reflexivity. }
      apply (roundtrip_intro k p ack_vh (encode U16 pid ++ enc_u8 (valN rc)) fresh a2); try assumption.
      cbn [encode enc_u16 enc_u8 app].
      apply (unmarshal_of_run k _ _ _ (0 + length (encode U16 pid) + length (encode U8 rc)) 2).
      rewrite Hdec_of. unfold dec_ack. rewrite (run_dec_cons _ _ _ _ D1).
      cbn [run_dec]. rewrite dif_step.
      change (eval_cond (CDataLenGt 2) _ _) with true. cbv iota.
      rewrite (run_dec_cons _ _ _ _ D2), (run_dec_cons _ _ _ _ D3). reflexivity.
  - (* reason code, property length, properties *)
    assert (Evh' : run_enc ack_vh p = Some (encode U16 pid ++ encode U8 rc ++ enc_vb (len P) ++ P)).
    { rewrite Evh. destruct P; [congruence|reflexivity]. }
    assert (HP : len P < 268435456).
    { unfold remaining_ok in Hsize. rewrite Hbody, Evh' in Hsize. rewrite !len_app in Hsize. lia. }
    set (body := encode U16 pid ++ encode U8 rc ++ enc_vb (len P) ++ P) in *.
    destruct (dget_at (M F_packetID) U16 pid fresh body 0 (encode U8 rc ++ enc_vb (len P) ++ P) 0)
      as [D1 H1]; try discriminate; try assumption; try exact I.
    { apply at_pos_0. }
    fold a1 in D1.
    destruct (dget_at (M F_reasonCode) U8 rc a1 body (0 + length (encode U16 pid)) (enc_vb (len P) ++ P) 1)
      as [D2 H2]; try discriminate; try assumption; try exact I.
    fold a2 in D2.
    destruct (dgetany_at ack_map false NoSub p a2 body
                (0 + length (encode U16 pid) + length (encode U8 rc)) [] 2)
      as [st [D3 H3]]; try discriminate; try assumption; try apply ack_map_ok; try exact I.
    { fold P. rewrite app_nil_r. exact H2. }
    fold P in D3, H3.
    set (p' := section_result ack_map false NoSub p a2) in *.
    destruct (ack_finish k p p' Hk) as [Hs Ha].
    { apply Forall_cons; [|apply Forall_cons; [|apply Forall_cons; [|]]]; cbn [fst snd].
      - apply section_agree_out; [vm_compute; reflexivity|exact Efix].
      - apply section_agree_out; [vm_compute; reflexivity|apply canon_idem].
      - apply section_agree_out; [vm_compute; reflexivity|apply canon_idem].
      - apply section_agree_in; [apply ack_map_ok|vm_compute; reflexivity]. }
    { unfold p'. rewrite uprops_section_result. reflexivity. }
    apply (roundtrip_intro k p ack_vh body fresh p'); try assumption.
    assert (Hne : body <> []) by (unfold body; cbn [encode enc_u16 app]; discriminate).
    destruct body as [|b0 body0] eqn:Eb; [congruence|]. rewrite <- Eb in *.
    apply (unmarshal_of_run k _ _ _ (0 + length (encode U16 pid) + length (encode U8 rc)
                                       + length (enc_vb (len P) ++ P)) st).
    rewrite Hdec_of. unfold dec_ack. rewrite (run_dec_cons _ _ _ _ D1).
    cbn [run_dec]. rewrite dif_step.
    assert (Ec : eval_cond (CDataLenGt 2) (dp (mk_state a1 body (0 + length (encode U16 pid)) 1))
                           (env_of (mk_state a1 body (0 + length (encode U16 pid)) 1)) = true).
    { cbn [eval_cond env_of ce_len mk_state ddata]. apply Nat.ltb_lt.
      rewrite Eb. rewrite <- Eb. unfold body at 1. rewrite !app_length. cbn [encode enc_u16 enc_u8 length].
      pose proof (encode_pos Vb (VN (len P))). cbn [encode valN] in H. lia. }
    rewrite Ec. rewrite (run_dec_cons _ _ _ _ D2), (run_dec_cons _ _ _ _ D3). reflexivity.
Qed.

(* ------------------------------------------------------------------ *)
(* DISCONNECT and AUTH: optional reason code, then a property section *)
Section ReasonSection.
  Variable k : kind.
  Variable m : list entry.
  Let props := section_encs m false NoSub.
  Let rbody := [EFill (M F_reasonCode) U8; EVbLen props] ++ props.
  Let vh := [EIfEmpty props [EIf (CIsZero (M F_reasonCode)) [] rbody] rbody].
  Hypothesis Hbody : body_of k = Some vh.
  Hypothesis Hdec_of : dec_of k = [DGet (M F_reasonCode) U8; DGetAny m false NoSub].
  Hypothesis Hmap : forallb (entry_okb false) m = true /\ nodupb_N (map eid m) = true /\ nodup_refs m = true.
  Hypothesis Hnorc : forallb (fun e => negb (fref_eqb (M F_reasonCode) (eref e))) m = true.
  Hypothesis Hnofx : forallb (fun e => negb (fref_eqb (M F_fixed) (eref e))) m = true.

  Lemma reason_section p fresh :
    fresh = setf (M F_fixed) (VN (getN (M F_fixed) p)) zero_pkt ->
    fields_valid ((M F_reasonCode, U8) :: refs_of m) p -> Forall up_ok (uprops p) -> remaining_ok k p ->
    exists body p',
      run_enc vh p = Some body
      /\ match body with [] => p' = fresh | _ => unmarshal k fresh body = UOk p' end
      /\ Forall (fun rw => vagree (fst rw) (snd rw) p p') ((M F_fixed, U8) :: (M F_reasonCode, U8) :: refs_of m)
      /\ uprops p' = uprops p.
  Proof.
    intros Hfresh Hf Hups Hsize.
    destruct Hmap as [Hm1 [Hm2 Hm3]].
    assert (Hrc : valid_val U8 (getf (M F_reasonCode) p)) by (inversion Hf; assumption).
    assert (Hm : fields_valid (refs_of m) p) by (inversion Hf; assumption).
    assert (Hok : Forall (entry_ok p) m) by (apply (entries_ok false); [exact Hm1|discriminate|exact Hm]).
    set (P := section_bytes m false NoSub p).
    assert (EP : run_enc props p = Some P) by (apply (run_enc_section m false NoSub p Hok); discriminate).
    set (rc := getf (M F_reasonCode) p) in *.
    assert (Erb : run_enc rbody p = Some (encode U8 rc ++ enc_vb (len P) ++ P)).
    { unfold rbody. rewrite run_enc_app, EP. cbn [run_enc]. rewrite run_enc1_vblen, EP.
      cbn [run_enc1 getf_opt option_map opt_app]. rewrite ?app_nil_r, <- ?app_assoc. reflexivity. }
    assert (Efix : canon U8 (getf (M F_fixed) fresh) = canon U8 (getf (M F_fixed) p)).
    { rewrite Hfresh. reflexivity. }
    assert (Evh : run_enc vh p =
      Some (match P with
            | [] => if valN rc =? 0 then [] else encode U8 rc ++ enc_vb (len P) ++ P
            | _ => encode U8 rc ++ enc_vb (len P) ++ P end)).
    { unfold vh. cbn [run_enc]. rewrite run_enc1_ifempty, EP.
      assert (E1 : run_enc [EIf (CIsZero (M F_reasonCode)) [] rbody] p =
                   Some (if valN rc =? 0 then [] else encode U8 rc ++ enc_vb (len P) ++ P)).
      { cbn [run_enc run_enc1]. rewrite !run_list_eq, Erb. cbn [eval_cond]. fold (getN (M F_reasonCode) p).
        change (getN (M F_reasonCode) p) with (valN rc).
        destruct (valN rc =? 0); cbn [run_enc opt_app]; rewrite ?app_nil_r; reflexivity. }
      destruct P; [rewrite E1|rewrite Erb]; cbn [opt_app]; rewrite ?app_nil_r; reflexivity. }
    assert (Hcase : (P = [] /\ valN rc = 0) \/ run_enc vh p = Some (encode U8 rc ++ enc_vb (len P) ++ P)).
    { rewrite Evh. destruct P; [|right; reflexivity]. destruct (N.eqb_spec (valN rc) 0) as [E|E];
        [left; split; [reflexivity|exact E]|right; reflexivity]. }
    destruct Hcase as [[EPv Erc]|Evh'].
    - (* nothing after the header *)
      exists [], fresh. rewrite Evh, EPv, Erc. cbn [N.eqb]. split; [reflexivity|]. split; [reflexivity|].
      assert (Hnil : field_bytes p m = [] /\ ups_bytes (uprops p) = []).
      { unfold P, section_bytes in EPv. apply app_eq_nil in EPv as [E1 E2].
        apply app_eq_nil in E2 as [E2 _]. split; assumption. }
      destruct Hnil as [Hfb Hub].
      split; [|rewrite (ups_bytes_nil _ Hups Hub), Hfresh; reflexivity].
      apply Forall_cons; [exact Efix|]. apply Forall_cons.
      + unfold vagree. cbn [fst snd]. rewrite Hfresh. cbn [canon]. fold rc. rewrite Erc. reflexivity.
      + unfold refs_of. rewrite Forall_map. apply Forall_forall. intros e Hin. unfold vagree. cbn [fst snd].
        apply canon_zero.
        * rewrite Hfresh. rewrite forallb_forall in Hnofx. specialize (Hnofx e Hin).
          apply negb_true_iff in Hnofx.
          assert (E : getf (eref e) (setf (M F_fixed) (VN (getN (M F_fixed) p)) zero_pkt) = VN 0).
          { rewrite getf_setf.
            destruct (fref_eqb (eref e) (M F_fixed)) eqn:E'.
            - apply fref_eqb_true in E'. rewrite E', fref_eqb_refl in Hnofx. discriminate.
            - destruct (eref e); reflexivity. }
          rewrite E. destruct (ewt e); reflexivity.
        * apply enc_prop_nil with (id := eid e). unfold field_bytes in Hfb.
          apply in_split in Hin as [l1 [l2 ->]]. rewrite map_app, concat_app in Hfb.
          apply app_eq_nil in Hfb as [_ Hfb]. cbn [map concat] in Hfb.
          apply app_eq_nil in Hfb as [Hfb _]. exact Hfb.
    - (* reason code, property length, properties *)
      set (body := encode U8 rc ++ enc_vb (len P) ++ P) in *.
      assert (HP : len P < 268435456).
      { unfold remaining_ok in Hsize. rewrite Hbody, Evh' in Hsize. unfold body in Hsize.
        rewrite !len_app in Hsize. lia. }
      set (a1 := setf (M F_reasonCode) (canon U8 rc) fresh).
      destruct (dget_at (M F_reasonCode) U8 rc fresh body 0 (enc_vb (len P) ++ P) 0)
        as [D1 H1]; try discriminate; try assumption; try exact I.
      { apply at_pos_0. }
      fold a1 in D1.
      destruct (dgetany_at m false NoSub p a1 body (0 + length (encode U8 rc)) [] 1)
        as [st [D2 H2]]; try discriminate; try assumption; try exact I.
      { fold P. rewrite app_nil_r. exact H1. }
      fold P in D2, H2.
      set (p' := section_result m false NoSub p a1) in *.
      exists body, p'. split; [exact Evh'|]. split; [|split].
      + assert (Hne : body <> []) by (unfold body; cbn [encode enc_u8 app]; discriminate).
        destruct body as [|b0 body0] eqn:Eb; [congruence|]. rewrite <- Eb in *.
        apply (unmarshal_of_run k _ _ _ (0 + length (encode U8 rc) + length (enc_vb (len P) ++ P)) st).
        rewrite Hdec_of. rewrite (run_dec_cons _ _ _ _ D1), (run_dec_cons _ _ _ _ D2). reflexivity.
      + apply Forall_cons; [|apply Forall_cons]; cbn [fst snd].
        * apply section_agree_out; [exact Hnofx|]. unfold a1. rewrite getf_setf_other by reflexivity. exact Efix.
        * apply section_agree_out; [exact Hnorc|]. unfold a1. rewrite getf_setf_same. apply canon_idem.
        * apply section_agree_in; [exact Hm3|].
          apply forallb_forall. intros e Hin.
          rewrite forallb_forall in Hnofx, Hnorc. specialize (Hnofx e Hin). specialize (Hnorc e Hin).
          apply negb_true_iff in Hnofx, Hnorc.
          assert (E : getf (eref e) a1 = VN 0).
          { unfold a1. rewrite Hfresh, !getf_setf.
            destruct (fref_eqb (eref e) (M F_reasonCode)) eqn:E1.
            - apply fref_eqb_true in E1. rewrite E1, fref_eqb_refl in Hnorc. discriminate.
            - destruct (fref_eqb (eref e) (M F_fixed)) eqn:E2.
              + apply fref_eqb_true in E2. rewrite E2, fref_eqb_refl in Hnofx. discriminate.
              + destruct (eref e); reflexivity. }
          rewrite E. destruct (ewt e); reflexivity.
      + unfold p'. rewrite uprops_section_result. unfold a1. rewrite Hfresh. reflexivity.
  Qed.
End ReasonSection.

Lemma fresh_plain k : k <> KUndefined -> k <> KPublish ->
  fresh_pkt (b2n (n2b (ctor_fixed k))) = (k, setf (M F_fixed) (VN (ctor_fixed k)) zero_pkt).
Proof. destruct k; try congruence; intros _ _; reflexivity. Qed.

(* DISCONNECT *)
Record dom_disconnect (p : pkt) : Prop := {
  ddi_fixed : getN (M F_fixed) p = ctor_fixed KDisconnect;
  ddi_fields : fields_valid ((M F_reasonCode, U8) :: refs_of disconnect_map) p;
  ddi_ups : Forall up_ok (uprops p);
  ddi_size : remaining_ok KDisconnect p
}.

Lemma disconnect_map_ok : forallb (entry_okb false) disconnect_map = true
  /\ nodupb_N (map eid disconnect_map) = true /\ nodup_refs disconnect_map = true.
Proof. vm_compute. repeat split. Qed.

Theorem disconnect_roundtrip p : dom_disconnect p -> roundtrip KDisconnect p.
Proof.
  intros [Hfx Hf Hups Hsize].
  destruct (reason_section KDisconnect disconnect_map eq_refl eq_refl disconnect_map_ok eq_refl eq_refl
              p _ eq_refl Hf Hups Hsize) as [body [p' [Evh [Hdec [Hag Hu]]]]].
  rewrite Hfx in Hdec.
  apply (roundtrip_intro KDisconnect p disconnect_vh body (setf (M F_fixed) (VN (ctor_fixed KDisconnect)) zero_pkt) p');
    try discriminate; try assumption.
  - reflexivity.
  - rewrite Hfx. reflexivity.
  - apply agree_all_of in Hag. unfold refs_of, disconnect_map in Hag.
    cbn [agree_all getf map eref ewt fst snd] in Hag. split_ands.
    unfold snapshot, oN, oB, oS, getN, getB, getS, getf. rewrite Hu. rewrite_agree p'. reflexivity.
  - intros es Hes. injection Hes as <-.
    apply vagree_all_of in Hag. unfold refs_of, disconnect_map in Hag.
    cbn [vagree_all map eref ewt fst snd] in Hag. split_ands.
    unfold enc_disconnect, disconnect_vh, disconnect_body, disconnect_props, up.
    cbn [app encs_agree enc_agree live_agree cond_agree].
    repeat match goal with
    | |- _ /\ _ => split
    | |- True => exact I
    | |- context [if ?c then _ else _] => destruct c
    | _ => assumption
    end.
Qed.

(* AUTH *)
Record dom_auth (p : pkt) : Prop := {
  dau_fixed : getN (M F_fixed) p = ctor_fixed KAuth;
  dau_fields : fields_valid ((M F_reasonCode, U8) :: refs_of auth_map) p;
  dau_ups : Forall up_ok (uprops p);
  dau_size : remaining_ok KAuth p
}.

Lemma auth_map_ok : forallb (entry_okb false) auth_map = true
  /\ nodupb_N (map eid auth_map) = true /\ nodup_refs auth_map = true.
Proof. vm_compute. repeat split. Qed.

Theorem auth_roundtrip p : dom_auth p -> roundtrip KAuth p.
Proof.
  intros [Hfx Hf Hups Hsize].
  destruct (reason_section KAuth auth_map eq_refl eq_refl auth_map_ok eq_refl eq_refl
              p _ eq_refl Hf Hups Hsize) as [body [p' [Evh [Hdec [Hag Hu]]]]].
  rewrite Hfx in Hdec.
  apply (roundtrip_intro KAuth p auth_vh body (setf (M F_fixed) (VN (ctor_fixed KAuth)) zero_pkt) p');
    try discriminate; try assumption.
  - reflexivity.
  - rewrite Hfx. reflexivity.
  - apply agree_all_of in Hag. unfold refs_of, auth_map in Hag.
    cbn [agree_all getf map eref ewt fst snd] in Hag. split_ands.
    unfold snapshot, oN, oB, oS, getN, getB, getS, getf. rewrite Hu. rewrite_agree p'. reflexivity.
  - intros es Hes. injection Hes as <-.
    apply vagree_all_of in Hag. unfold refs_of, auth_map in Hag.
    cbn [vagree_all map eref ewt fst snd] in Hag. split_ands.
    unfold enc_auth, auth_vh, auth_body, auth_props, up.
    cbn [app encs_agree enc_agree live_agree cond_agree].
    repeat match goal with
    | |- _ /\ _ => split
    | |- True => exact I
    | |- context [if ?c then _ else _] => destruct c
    | _ => assumption
    end.
Qed.

(* ------------------------------------------------------------------ *)
(* SUBACK, UNSUBACK *)
Lemma rcodes_loop_enc : forall l acc p0 d pos steps,
  Forall (fun n => n < 256) l -> at_pos d pos (concat (map enc_u8 l)) ->
  rcodes_loop (length l) acc (mk_state p0 d pos steps) =
  Run (mk_state (set_rcodes p0 (acc ++ l)) d (pos + length l) (steps + length l)).
Proof.
  induction l as [|n l IH]; intros acc p0 d pos steps Hok Hat.
  - cbn [length rcodes_loop]. rewrite app_nil_r, !Nat.add_0_r. reflexivity.
  - inversion Hok as [|? ? Hn Hl]; subst. cbn [length rcodes_loop].
    cbn [map concat] in Hat.
    pose proof (at_pos_app d pos (enc_u8 n) _ Hat) as Hat'.
    destruct Hat as [pre [E L]].
    rewrite (get_val_encoded' U8 (VN n) (VN 0) (mk_state p0 d pos steps) pre (concat (map enc_u8 l)));
      try discriminate; try assumption; try reflexivity; [|symmetry; exact L].
    cbn [canon valN encode enc_u8 length dp ddata dpos dsteps mk_state].
    change {| dp := p0; ddata := d; dpos := pos + 1; derr := None; dsteps := S steps |}
      with (mk_state p0 d (pos + 1) (S steps)).
    rewrite (IH (acc ++ [n]) p0 d (pos + 1)%nat (S steps) Hl Hat').
    rewrite <- app_assoc. cbn [app]. unfold mk_state. do 2 f_equal; lia.
Qed.

Lemma dreasoncodes_at l p0 d pos steps :
  Forall (fun n => n < 256) l -> at_pos d pos (concat (map enc_u8 l)) ->
  run_dec1 DReasonCodes (mk_state p0 d pos steps) =
  Run (mk_state (set_rcodes p0 l) d (pos + length l) (steps + length l)).
Proof.
  intros Hok Hat. cbn [run_dec1].
  change (dpos (mk_state p0 d pos steps)) with pos. change (ddata (mk_state p0 d pos steps)) with d.
  assert (Hlen : length d = (pos + length l)%nat).
  { destruct Hat as [pre [E L]]. rewrite E, app_length, L. f_equal.
    clear. induction l as [|n l IH]; [reflexivity|]. cbn [map concat length enc_u8 app]. rewrite IH. reflexivity. }
  rewrite (proj2 (Nat.leb_le _ _)) by lia.
  replace (length d - pos)%nat with (length l) by lia.
  exact (rcodes_loop_enc l [] p0 d pos steps Hok Hat).
Qed.

Definition suback_fields : list (fref * wt) := [(M F_packetID, U16); (M F_reasonString, Bin)].

Record dom_suback (k : kind) (p : pkt) : Prop := {
  dsa_fixed : getN (M F_fixed) p = ctor_fixed k;
  dsa_fields : fields_valid suback_fields p;
  dsa_ups : Forall up_ok (uprops p);
  dsa_codes : Forall (fun n => n < 256) (rcodes p);
  dsa_size : remaining_ok k p
}.

Lemma suback_finish k p p' : is_suback k = true ->
  Forall (fun rw => vagree (fst rw) (snd rw) p p') ((M F_fixed, U8) :: suback_fields) ->
  uprops p' = uprops p -> rcodes p' = rcodes p ->
  snapshot k p' = snapshot k p /\ (forall es, enc_of k = Some es -> encs_agree es p p').
Proof.
  intros Hk Hag Hu Hr. split.
  - apply agree_all_of in Hag. unfold suback_fields in Hag. cbn [agree_all getf] in Hag. split_ands.
    destruct k; try discriminate Hk; unfold snapshot, oN, oB, oS, getN, getB, getS, getf;
      rewrite Hu, Hr; rewrite_agree p'; reflexivity.
  - intros es Hes. assert (Henc_of : enc_of k = Some enc_suback) by (destruct k; try discriminate; reflexivity).
    rewrite Henc_of in Hes. injection Hes as <-.
    apply vagree_all_of in Hag. unfold suback_fields in Hag. cbn [vagree_all] in Hag. split_ands.
    unfold enc_suback, suback_vh, suback_props, up. cbn [app encs_agree enc_agree live_agree].
    repeat split; assumption.
Qed.

Theorem suback_roundtrip k p : is_suback k = true -> dom_suback k p -> roundtrip k p.
Proof.
  intros Hk [Hfx Hf Hups Hcodes Hsize].
  assert (Hpid : valid_val U16 (getf (M F_packetID) p)) by (inversion Hf; assumption).
  assert (Hm : fields_valid (refs_of ack_map) p) by (inversion Hf as [|? ? _ Hf1]; exact Hf1).
  assert (Hok : Forall (entry_ok p) ack_map)
    by (apply (entries_ok false); [apply ack_map_ok|discriminate|exact Hm]).
  set (P := section_bytes ack_map false NoSub p).
  assert (EP : run_enc suback_props p = Some P)
    by (apply (run_enc_section ack_map false NoSub p Hok); discriminate).
  assert (Hbody : body_of k = Some (suback_vh ++ [EReasonCodes])) by (destruct k; try discriminate; reflexivity).
  assert (Hdec_of : dec_of k = dec_suback) by (destruct k; try discriminate; reflexivity).
  assert (Hk1 : k <> KPingReq) by (intros ->; discriminate).
  assert (Hk2 : k <> KPingResp) by (intros ->; discriminate).
  set (fresh := setf (M F_fixed) (VN (ctor_fixed k)) zero_pkt).
  assert (Hfresh : fresh_pkt (b2n (n2b (getN (M F_fixed) p))) = (k, fresh))
    by (rewrite Hfx; apply fresh_plain; intros ->; discriminate).
  set (pid := getf (M F_packetID) p) in *.
  set (a1 := setf (M F_packetID) (canon U16 pid) fresh).
  assert (Efix : canon U8 (getf (M F_fixed) fresh) = canon U8 (getf (M F_fixed) p)).
  { cbn [canon]. fold (getN (M F_fixed) p). rewrite Hfx. reflexivity. }
  set (RC := concat (map enc_u8 (rcodes p))).
  set (body := encode U16 pid ++ enc_vb (len P) ++ P ++ RC).
  assert (Evh : run_enc (suback_vh ++ [EReasonCodes]) p = Some body).
  { unfold suback_vh. rewrite <- app_assoc. change (?a :: ?b :: ?c ++ ?d) with ([a; b] ++ c ++ d).
    rewrite !run_enc_app, EP. cbn [run_enc]. rewrite run_enc1_vblen, EP.
    cbn [run_enc1 getf_opt option_map opt_app]. unfold body, RC. rewrite ?app_nil_r, <- ?app_assoc. reflexivity. }
  assert (HP : len P < 268435456).
  { unfold remaining_ok in Hsize. rewrite Hbody, Evh in Hsize. unfold body in Hsize.
    rewrite !len_app in Hsize. lia. }
  destruct (dget_at (M F_packetID) U16 pid fresh body 0 (enc_vb (len P) ++ P ++ RC) 0)
    as [D1 H1]; try discriminate; try assumption; try exact I.
  { apply at_pos_0. }
  fold a1 in D1.
  destruct (dgetany_at ack_map false NoSub p a1 body (0 + length (encode U16 pid)) RC 1)
    as [st [D2 H2]]; try discriminate; try assumption; try apply ack_map_ok; try exact I.
  fold P in D2, H2.
  set (a2 := section_result ack_map false NoSub p a1) in *.
  pose proof (dreasoncodes_at (rcodes p) a2 body _ st Hcodes H2) as D3.
  set (p' := set_rcodes a2 (rcodes p)) in *.
  destruct (suback_finish k p p' Hk) as [Hs Ha].
  { assert (Hag : Forall (fun rw => vagree (fst rw) (snd rw) p a2) ((M F_fixed, U8) :: suback_fields)).
    { apply Forall_cons; [|apply Forall_cons]; cbn [fst snd].
      - apply section_agree_out; [vm_compute; reflexivity|exact Efix].
      - apply section_agree_out; [vm_compute; reflexivity|apply canon_idem].
      - apply section_agree_in; [apply ack_map_ok|vm_compute; reflexivity]. }
    exact Hag. }
  { unfold p'. cbn [uprops set_rcodes]. unfold a2. rewrite uprops_section_result. reflexivity. }
  { reflexivity. }
  apply (roundtrip_intro k p (suback_vh ++ [EReasonCodes]) body fresh p'); try assumption.
  assert (Hne : body <> []) by (unfold body; cbn [encode enc_u16 app]; discriminate).
  destruct body as [|b0 body0] eqn:Eb; [congruence|]. rewrite <- Eb in *.
  eapply unmarshal_of_run.
  rewrite Hdec_of. unfold dec_suback.
  rewrite (run_dec_cons _ _ _ _ D1), (run_dec_cons _ _ _ _ D2), (run_dec_cons _ _ _ _ D3). reflexivity.
Qed.

(* ------------------------------------------------------------------ *)
(* PINGREQ, PINGRESP *)
Theorem ping_roundtrip k p : (k = KPingReq \/ k = KPingResp) ->
  getN (M F_fixed) p = ctor_fixed k -> roundtrip k p.
Proof.
  intros Hk Hfx. exists [], (setf (M F_fixed) (VN (ctor_fixed k)) zero_pkt).
  assert (He : enc_of k = Some enc_ping) by (destruct Hk as [-> | ->]; reflexivity).
  split; [|split; [|split; [|split]]].
  - unfold encode_pkt. rewrite He. apply ping_frame.
  - reflexivity.
  - unfold decode_frame. rewrite Hfx. destruct Hk as [-> | ->]; reflexivity.
  - destruct Hk as [-> | ->]; reflexivity.
  - unfold encode_pkt. rewrite He, !ping_frame. rewrite Hfx. destruct Hk as [-> | ->]; reflexivity.
Qed.

(* ------------------------------------------------------------------ *)
(* topic filter loops of UNSUBSCRIBE and SUBSCRIBE *)
Lemma set_ufilters_same p0 : set_ufilters p0 (ufilters p0) = p0.
Proof. destruct p0; reflexivity. Qed.
Lemma set_filters_same p0 : set_filters p0 (filters p0) = p0.
Proof. destruct p0; reflexivity. Qed.

Lemma at_end_true p0 d pos steps : at_pos d pos [] -> at_end (mk_state p0 d pos steps) = true.
Proof. intros H. apply at_pos_end in H. unfold at_end, mk_state. cbn [dpos ddata]. apply Nat.eqb_eq. exact H. Qed.
Lemma at_end_false p0 d pos steps x r : at_pos d pos (x :: r) -> at_end (mk_state p0 d pos steps) = false.
Proof. intros H. apply at_pos_more in H. unfold at_end, mk_state. cbn [dpos ddata]. apply Nat.eqb_neq. lia. Qed.

Lemma enc_bin_cons s : exists x r, enc_bin s = x :: r.
Proof. unfold enc_bin, enc_u16. cbn [app]. eexists. eexists. reflexivity. Qed.

Lemma ufilter_loop_enc : forall l fuel p0 d pos steps,
  Forall (fun f => len f < 65536) l -> at_pos d pos (concat (map enc_bin l)) ->
  (length l < fuel)%nat ->
  ufilter_loop fuel (mk_state p0 d pos steps) =
  Run (mk_state (set_ufilters p0 (ufilters p0 ++ l)) d (length d) (steps + length l)).
Proof.
  induction l as [|f l IH]; intros fuel p0 d pos steps Hok Hat Hfuel.
  - destruct fuel as [|fuel]; [lia|]. cbn [ufilter_loop map concat] in *.
    rewrite (at_end_true _ _ _ _ Hat). rewrite app_nil_r, set_ufilters_same, Nat.add_0_r.
    rewrite (at_pos_end _ _ Hat). reflexivity.
  - inversion Hok as [|? ? Hf Hl]; subst. destruct fuel as [|fuel]; [cbn in Hfuel; lia|].
    cbn [ufilter_loop]. cbn [map concat] in Hat.
    destruct (enc_bin_cons f) as [x [r Ex]].
    assert (Hne : at_end (mk_state p0 d pos steps) = false).
    { apply (at_end_false _ _ _ _ x (r ++ concat (map enc_bin l))). rewrite Ex in Hat. exact Hat. }
    rewrite Hne.
    pose proof (at_pos_app d pos (enc_bin f) _ Hat) as Hat'.
    destruct Hat as [pre [E L]].
    rewrite (get_val_encoded' Bin (VS f) (VS []) (mk_state p0 d pos steps) pre (concat (map enc_bin l)));
      try discriminate; try assumption; try reflexivity; [| |symmetry; exact L].
    2:{ intros _. right. reflexivity. }
    cbn [canon valS encode dp ddata dpos dsteps derr mk_state with_pkt].
    change (with_pkt (set_ufilters p0 (ufilters p0 ++ [f]))
              {| dp := p0; ddata := d; dpos := pos + length (enc_bin f); derr := None; dsteps := S steps |})
      with (mk_state (set_ufilters p0 (ufilters p0 ++ [f])) d (pos + length (enc_bin f)) (S steps)).
    destruct l as [|f' l'].
    + cbn [map concat] in Hat'. rewrite (at_end_true (set_ufilters p0 (ufilters p0 ++ [f])) d _ (S steps) Hat').
      rewrite (at_pos_end _ _ Hat'). cbn [length]. unfold mk_state. do 2 f_equal. lia.
    + destruct (enc_bin_cons f') as [x' [r' Ex']].
      assert (Hne' : at_end (mk_state (set_ufilters p0 (ufilters p0 ++ [f])) d (pos + length (enc_bin f)) (S steps)) = false).
      { apply (at_end_false _ _ _ _ x' (r' ++ concat (map enc_bin l'))).
        cbn [map concat] in Hat'. rewrite Ex' in Hat'. exact Hat'. }
      rewrite Hne'. rewrite (IH fuel _ d _ (S steps) Hl Hat'); [|cbn [length] in *; lia].
      cbn [ufilters set_ufilters]. rewrite <- app_assoc. cbn [app length].
      unfold mk_state. do 2 f_equal. lia.
Qed.

Lemma concat_enc_bin_len l : (length l <= length (concat (map enc_bin l)))%nat.
Proof.
  induction l as [|f l IH]; [cbn; lia|]. cbn [map concat length]. rewrite app_length, enc_bin_length. lia.
Qed.

Lemma dunsubfilters_at l p0 d pos steps :
  Forall (fun f => len f < 65536) l -> at_pos d pos (concat (map enc_bin l)) ->
  run_dec1 DUnsubFilterLoop (mk_state p0 d pos steps) =
  Run (mk_state (set_ufilters p0 (ufilters p0 ++ l)) d (length d) (steps + length l)).
Proof.
  intros Hok Hat. cbn [run_dec1]. change (ddata (mk_state p0 d pos steps)) with d.
  apply ufilter_loop_enc; try assumption.
  pose proof (concat_enc_bin_len l). destruct Hat as [pre [E L]]. rewrite E, app_length. lia.
Qed.

Definition filter_ok (f : list byte * N) : Prop := len (fst f) < 65536 /\ snd f < 256.

Lemma filter_loop_enc : forall l fuel p0 d pos steps,
  Forall filter_ok l -> at_pos d pos (concat (map enc_filter l)) ->
  (length l < fuel)%nat ->
  filter_loop fuel (mk_state p0 d pos steps) =
  Run (mk_state (set_filters p0 (filters p0 ++ l)) d (length d) (steps + 2 * length l)).
Proof.
  induction l as [|[f o] l IH]; intros fuel p0 d pos steps Hok Hat Hfuel.
  - destruct fuel as [|fuel]; [lia|]. cbn [filter_loop map concat] in *.
    rewrite (at_end_true _ _ _ _ Hat). rewrite app_nil_r, set_filters_same. cbn [length]. rewrite Nat.add_0_r.
    rewrite (at_pos_end _ _ Hat). reflexivity.
  - inversion Hok as [|? ? [Hf Ho] Hl]; subst. cbn [fst snd] in *.
    destruct fuel as [|fuel]; [cbn in Hfuel; lia|].
    cbn [filter_loop]. cbn [map concat] in Hat. unfold enc_filter at 1 in Hat. cbn [fst snd] in Hat.
    rewrite <- app_assoc in Hat.
    destruct (enc_bin_cons f) as [x [r Ex]].
    assert (Hne : at_end (mk_state p0 d pos steps) = false).
    { apply (at_end_false _ _ _ _ x (r ++ enc_u8 o ++ concat (map enc_filter l))). rewrite Ex in Hat. exact Hat. }
    rewrite Hne.
    pose proof (at_pos_app d pos (enc_bin f) _ Hat) as Hat1.
    pose proof (at_pos_app d _ (enc_u8 o) _ Hat1) as Hat2.
    destruct Hat as [pre [E L]].
    rewrite (get_val_encoded' Bin (VS f) (VS []) (mk_state p0 d pos steps) pre (enc_u8 o ++ concat (map enc_filter l)));
      try discriminate; try assumption; try reflexivity; [| |symmetry; exact L].
    2:{ intros _. right. reflexivity. }
    cbn [canon valS encode dp ddata dpos dsteps derr mk_state].
    destruct Hat1 as [pre1 [E1 L1]].
    rewrite (get_val_encoded' U8 (VN o) (VN 0)
               {| dp := p0; ddata := d; dpos := pos + length (enc_bin f); derr := None; dsteps := S steps |}
               pre1 (concat (map enc_filter l)));
      try discriminate; try assumption; try reflexivity; [|symmetry; exact L1].
    cbn [canon valN encode enc_u8 length dp ddata dpos dsteps derr].
    change (with_pkt (set_filters p0 (filters p0 ++ [(f, o)]))
             {| dp := p0; ddata := d; dpos := pos + length (enc_bin f) + 1; derr := None; dsteps := S (S steps) |})
      with (mk_state (set_filters p0 (filters p0 ++ [(f, o)])) d (pos + length (enc_bin f) + 1) (S (S steps))).
    cbn [enc_u8 length] in Hat2.
    destruct l as [|[f' o'] l'].
    + cbn [map concat] in Hat2. rewrite (at_end_true (set_filters p0 (filters p0 ++ [(f, o)])) d _ (S (S steps)) Hat2).
      rewrite (at_pos_end _ _ Hat2). cbn [length]. unfold mk_state. cbn [derr]. do 2 f_equal. lia.
    + destruct (enc_bin_cons f') as [x' [r' Ex']].
      assert (Hne' : at_end (mk_state (set_filters p0 (filters p0 ++ [(f, o)])) d
                                      (pos + length (enc_bin f) + 1) (S (S steps))) = false).
      { apply (at_end_false _ _ _ _ x' (r' ++ enc_u8 o' ++ concat (map enc_filter l'))).
        cbn [map concat] in Hat2. unfold enc_filter at 1 in Hat2. cbn [fst snd] in Hat2.
        rewrite <- app_assoc, Ex' in Hat2. exact Hat2. }
      rewrite Hne'. change (derr (mk_state (set_filters p0 (filters p0 ++ [(f, o)])) d
                                     (pos + length (enc_bin f) + 1) (S (S steps)))) with (@None err).
      cbv iota. rewrite (IH fuel _ d _ (S (S steps)) Hl Hat2); [|cbn [length] in *; lia].
      cbn [filters set_filters]. rewrite <- app_assoc. cbn [app length].
      unfold mk_state. do 2 f_equal. lia.
Qed.

Lemma concat_enc_filter_len l : (length l <= length (concat (map enc_filter l)))%nat.
Proof.
  induction l as [|f l IH]; [cbn; lia|]. cbn [map concat length]. unfold enc_filter at 1.
  rewrite !app_length, enc_bin_length. lia.
Qed.

Lemma dfilters_at l p0 d pos steps :
  Forall filter_ok l -> at_pos d pos (concat (map enc_filter l)) ->
  run_dec1 DFilterLoop (mk_state p0 d pos steps) =
  Run (mk_state (set_filters p0 (filters p0 ++ l)) d (length d) (steps + 2 * length l)).
Proof.
  intros Hok Hat. cbn [run_dec1]. change (ddata (mk_state p0 d pos steps)) with d.
  apply filter_loop_enc; try assumption.
  pose proof (concat_enc_filter_len l). destruct Hat as [pre [E L]]. rewrite E, app_length. lia.
Qed.

(* ------------------------------------------------------------------ *)
(* UNSUBSCRIBE *)
Record dom_unsubscribe (p : pkt) : Prop := {
  dun_fixed : getN (M F_fixed) p = ctor_fixed KUnsubscribe;
  dun_fields : fields_valid [(M F_packetID, U16)] p;
  dun_ups : Forall up_ok (uprops p);
  dun_filters : Forall (fun f => len f < 65536) (ufilters p);
  dun_size : remaining_ok KUnsubscribe p
}.

Theorem unsubscribe_roundtrip p : dom_unsubscribe p -> roundtrip KUnsubscribe p.
Proof.
  intros [Hfx Hf Hups Hfil Hsize].
  assert (Hpid : valid_val U16 (getf (M F_packetID) p)) by (inversion Hf; assumption).
  set (P := section_bytes [] false NoSub p).
  assert (EP : run_enc [up] p = Some P)
    by (apply (run_enc_section [] false NoSub p); [constructor|discriminate]).
  set (fresh := setf (M F_fixed) (VN (ctor_fixed KUnsubscribe)) zero_pkt).
  assert (Hfresh : fresh_pkt (b2n (n2b (getN (M F_fixed) p))) = (KUnsubscribe, fresh))
    by (rewrite Hfx; reflexivity).
  set (pid := getf (M F_packetID) p) in *.
  set (a1 := setf (M F_packetID) (canon U16 pid) fresh).
  assert (Efix : canon U8 (getf (M F_fixed) fresh) = canon U8 (getf (M F_fixed) p)).
  { cbn [canon]. fold (getN (M F_fixed) p). rewrite Hfx. reflexivity. }
  set (FB := concat (map enc_bin (ufilters p))).
  set (body := encode U16 pid ++ enc_vb (len P) ++ P ++ FB).
  assert (Evh : run_enc (unsubscribe_vh ++ [EUnsubFilters]) p = Some body).
  { unfold unsubscribe_vh. change ([?a; ?b; up] ++ ?d) with ([a; b] ++ [up] ++ d).
    rewrite !run_enc_app, EP. cbn [run_enc]. rewrite run_enc1_vblen, EP.
    cbn [run_enc1 getf_opt option_map opt_app]. unfold body, FB. rewrite ?app_nil_r, <- ?app_assoc. reflexivity. }
  assert (HP : len P < 268435456).
  { unfold remaining_ok in Hsize. cbn [body_of] in Hsize. rewrite Evh in Hsize. unfold body in Hsize.
    rewrite !len_app in Hsize. lia. }
  destruct (dget_at (M F_packetID) U16 pid fresh body 0 (enc_vb (len P) ++ P ++ FB) 0)
    as [D1 H1]; try discriminate; try assumption; try exact I.
  { apply at_pos_0. }
  fold a1 in D1.
  destruct (dgetany_at [] false NoSub p a1 body (0 + length (encode U16 pid)) FB 1)
    as [st [D2 H2]]; try discriminate; try assumption; try reflexivity; try exact I.
  { constructor. }
  fold P in D2, H2.
  set (a2 := section_result [] false NoSub p a1) in *.
  pose proof (dunsubfilters_at (ufilters p) a2 body _ st Hfil H2) as D3.
  assert (Huf : ufilters a2 = []).
  { unfold a2. destruct (others_section_result [] false NoSub p a1) as [_ [_ [_ [E _]]]]. rewrite E. reflexivity. }
  rewrite Huf in D3. cbn [app] in D3.
  set (p' := set_ufilters a2 (ufilters p)) in *.
  assert (Hag : Forall (fun rw => vagree (fst rw) (snd rw) p p') [(M F_fixed, U8); (M F_packetID, U16)]).
  { apply Forall_cons; [|apply Forall_cons; [|apply Forall_nil]]; unfold vagree; cbn [fst snd].
    - exact Efix.
    - apply canon_idem. }
  assert (Hu : uprops p' = uprops p).
  { unfold p'. cbn [uprops set_ufilters]. unfold a2. rewrite uprops_section_result. reflexivity. }
  assert (Hf' : ufilters p' = ufilters p) by reflexivity.
  clearbody p'.
  apply (roundtrip_intro KUnsubscribe p (unsubscribe_vh ++ [EUnsubFilters]) body fresh p');
    try discriminate; try assumption; try reflexivity.
  - assert (Hne : body <> []) by (unfold body; cbn [encode enc_u16 app]; discriminate).
    destruct body as [|b0 body0] eqn:Eb; [congruence|]. rewrite <- Eb in *.
    eapply unmarshal_of_run. cbn [dec_of]. unfold dec_unsubscribe.
    rewrite (run_dec_cons _ _ _ _ D1), (run_dec_cons _ _ _ _ D2), (run_dec_cons _ _ _ _ D3). reflexivity.
  - apply agree_all_of in Hag. cbn [agree_all getf] in Hag. split_ands.
    unfold snapshot, oN, oB, oS, getN, getB, getS, getf. rewrite Hu, Hf'. rewrite_agree p'. reflexivity.
  - intros es Hes. injection Hes as <-.
    apply vagree_all_of in Hag. cbn [vagree_all] in Hag. split_ands.
    unfold enc_unsubscribe, unsubscribe_vh, up. cbn [app encs_agree enc_agree live_agree].
    repeat split; assumption.
Qed.

(* ------------------------------------------------------------------ *)
(* SUBSCRIBE *)
Lemma dgetany_subopt_at p acc d pos rest steps :
  subopt_ok (subid p) -> Forall up_ok (uprops p) ->
  let P := subopt_bytes (subid p) ++ ups_bytes (uprops p) in
  len P < 268435456 ->
  at_pos d pos (enc_vb (len P) ++ P ++ rest) ->
  exists steps',
    run_dec1 (DGetAny [] false SubOpt) (mk_state acc d pos steps) =
      Run (mk_state (append_ups false (uprops p) (subopt_result (subid p) acc)) d
                    (pos + length (enc_vb (len P) ++ P)) steps')
    /\ at_pos d (pos + length (enc_vb (len P) ++ P)) rest.
Proof.
  intros Hso Hups P HP Hat.
  assert (Hat' : at_pos d (pos + length (enc_vb (len P) ++ P)) rest)
    by (apply at_pos_app; rewrite <- app_assoc; exact Hat).
  destruct Hat as [pre [E L]]. subst pos.
  destruct (getany_subopt p acc pre rest steps Hso Hups HP) as [st D]. cbv zeta in D. fold P in D.
  exists st. split; [|exact Hat']. cbn [run_dec1]. rewrite E, D. rewrite app_length.
  unfold mk_state. do 2 f_equal. lia.
Qed.

Record dom_subscribe (p : pkt) : Prop := {
  dsu_fixed : getN (M F_fixed) p = ctor_fixed KSubscribe;
  dsu_fields : fields_valid [(M F_packetID, U16)] p;
  dsu_subid : subopt_ok (subid p);
  dsu_ups : Forall up_ok (uprops p);
  dsu_filters : Forall filter_ok (filters p);
  dsu_size : remaining_ok KSubscribe p
}.

Theorem subscribe_roundtrip p : dom_subscribe p -> roundtrip KSubscribe p.
Proof.
  intros [Hfx Hf Hso Hups Hfil Hsize].
  assert (Hpid : valid_val U16 (getf (M F_packetID) p)) by (inversion Hf; assumption).
  set (P := subopt_bytes (subid p) ++ ups_bytes (uprops p)).
  assert (EP : run_enc subscribe_props p = Some P).
  { unfold subscribe_props, up. cbn [run_enc run_enc1]. unfold P, subopt_bytes, ups_bytes.
    destruct (subid p); cbn [opt_app]; rewrite ?app_nil_r; reflexivity. }
  set (fresh := setf (M F_fixed) (VN (ctor_fixed KSubscribe)) zero_pkt).
  assert (Hfresh : fresh_pkt (b2n (n2b (getN (M F_fixed) p))) = (KSubscribe, fresh))
    by (rewrite Hfx; reflexivity).
  set (pid := getf (M F_packetID) p) in *.
  set (a1 := setf (M F_packetID) (canon U16 pid) fresh).
  assert (Efix : canon U8 (getf (M F_fixed) fresh) = canon U8 (getf (M F_fixed) p)).
  { cbn [canon]. fold (getN (M F_fixed) p). rewrite Hfx. reflexivity. }
  set (FB := concat (map enc_filter (filters p))).
  set (body := encode U16 pid ++ enc_vb (len P) ++ P ++ FB).
  assert (Evh : run_enc (subscribe_vh ++ [EFilters]) p = Some body).
  { unfold subscribe_vh. rewrite <- app_assoc. change (?a :: ?b :: ?c ++ ?d) with ([a; b] ++ c ++ d).
    rewrite !run_enc_app, EP. cbn [run_enc]. rewrite run_enc1_vblen, EP.
    cbn [run_enc1 getf_opt option_map opt_app]. unfold body, FB. rewrite ?app_nil_r, <- ?app_assoc. reflexivity. }
  assert (HP : len P < 268435456).
  { unfold remaining_ok in Hsize. cbn [body_of] in Hsize. rewrite Evh in Hsize. unfold body in Hsize.
    rewrite !len_app in Hsize. lia. }
  destruct (dget_at (M F_packetID) U16 pid fresh body 0 (enc_vb (len P) ++ P ++ FB) 0)
    as [D1 H1]; try discriminate; try assumption; try exact I.
  { apply at_pos_0. }
  fold a1 in D1.
  destruct (dgetany_subopt_at p a1 body (0 + length (encode U16 pid)) FB 1 Hso Hups HP H1)
    as [st [D2 H2]].
  fold P in D2, H2.
  set (a2 := append_ups false (uprops p) (subopt_result (subid p) a1)) in *.
  pose proof (dfilters_at (filters p) a2 body _ st Hfil H2) as D3.
  assert (Hfa : filters a2 = []) by (unfold a2, append_ups, subopt_result; destruct (subid p); reflexivity).
  rewrite Hfa in D3. cbn [app] in D3.
  set (p' := set_filters a2 (filters p)) in *.
  assert (Hag : Forall (fun rw => vagree (fst rw) (snd rw) p p') [(M F_fixed, U8); (M F_packetID, U16)]).
  { apply Forall_cons; [|apply Forall_cons; [|apply Forall_nil]]; unfold vagree; cbn [fst snd];
      unfold p', a2, append_ups, subopt_result; destruct (subid p).
    - exact Efix.
    - exact Efix.
    - apply canon_idem.
    - apply canon_idem. }
  assert (Hu : uprops p' = uprops p).
  { unfold p', a2, append_ups, subopt_result. destruct (subid p); reflexivity. }
  assert (Hsi : subid p' = subid p).
  { unfold p', a2, append_ups, subopt_result. destruct (subid p); reflexivity. }
  assert (Hf' : filters p' = filters p) by reflexivity.
  clearbody p'.
  apply (roundtrip_intro KSubscribe p (subscribe_vh ++ [EFilters]) body fresh p');
    try discriminate; try assumption; try reflexivity.
  - assert (Hne : body <> []) by (unfold body; cbn [encode enc_u16 app]; discriminate).
    destruct body as [|b0 body0] eqn:Eb; [congruence|]. rewrite <- Eb in *.
    eapply unmarshal_of_run. cbn [dec_of]. unfold dec_subscribe.
    rewrite (run_dec_cons _ _ _ _ D1), (run_dec_cons _ _ _ _ D2), (run_dec_cons _ _ _ _ D3). reflexivity.
  - apply agree_all_of in Hag. cbn [agree_all getf] in Hag. split_ands.
    unfold snapshot, oN, oB, oS, getN, getB, getS, getf. rewrite Hu, Hf', Hsi. rewrite_agree p'. reflexivity.
  - intros es Hes. injection Hes as <-.
    apply vagree_all_of in Hag. cbn [vagree_all] in Hag. split_ands.
    unfold enc_subscribe, subscribe_vh, subscribe_props, up. cbn [app encs_agree enc_agree live_agree].
    repeat split; assumption.
Qed.

(* ------------------------------------------------------------------ *)
(* PUBLISH *)
Lemma fresh_publish fx : 48 <= fx < 64 ->
  fresh_pkt (b2n (n2b fx)) = (KPublish, setf (M F_fixed) (VN fx) zero_pkt).
Proof.
  intros H. rewrite b2n_n2b_small by lia. unfold fresh_pkt.
  assert (E : fx / 16 = 3) by lia. rewrite E. reflexivity.
Qed.

(* the optional packet identifier *)
Lemma dif_pid_at v acc d pos rest steps :
  valid_val U16 v ->
  let c := eval_cond CQoS12 acc no_env in
  at_pos d pos ((if c then encode U16 v else []) ++ rest) ->
  exists steps',
    run_dec1 (DIf CQoS12 [DGet (M F_packetID) U16]) (mk_state acc d pos steps) =
      Run (mk_state (if c then setf (M F_packetID) (canon U16 v) acc else acc) d
                    (pos + length (if c then encode U16 v else [])) steps')
    /\ at_pos d (pos + length (if c then encode U16 v else [])) rest.
Proof.
  intros Hv c Hat. rewrite dif_step.
  change (eval_cond CQoS12 (dp (mk_state acc d pos steps)) (env_of (mk_state acc d pos steps))) with c.
  destruct c.
  - destruct (dget_at (M F_packetID) U16 v acc d pos rest steps) as [D H]; try discriminate; try assumption; try exact I.
    exists (S steps). split; [|exact H]. cbn [run_dec]. rewrite D. reflexivity.
  - exists steps. cbn [length]. rewrite Nat.add_0_r. split; [reflexivity|exact Hat].
Qed.

(* the payload: whatever is left *)
Lemma dif_payload_at v acc d pos steps :
  at_pos d pos (valS v) ->
  exists steps',
    run_dec1 (DIf CMoreData [DGet (M F_payload) Raw]) (mk_state acc d pos steps) =
      Run (mk_state (match valS v with [] => acc | _ => setf (M F_payload) (VS (valS v)) acc end) d
                    (length d) steps').
Proof.
  intros Hat. rewrite dif_step. cbn [eval_cond env_of ce_pos ce_len]. 
  change (dpos (mk_state acc d pos steps)) with pos. change (ddata (mk_state acc d pos steps)) with d.
  destruct (valS v) as [|x r] eqn:E.
  - rewrite (at_pos_end _ _ Hat), Nat.ltb_irrefl. exists steps. reflexivity.
  - pose proof (at_pos_more _ _ _ _ Hat) as Hlt. rewrite (proj2 (Nat.ltb_lt _ _) Hlt).
    exists (S steps). cbn [run_dec]. rewrite (dget_raw_at (M F_payload) v acc d pos steps); try exact I.
    + rewrite E. reflexivity.
    + rewrite E. discriminate.
    + rewrite E. exact Hat.
Qed.

Lemma publish_map_ok : forallb (entry_okb false) publish_map = true
  /\ nodupb_N (map eid publish_map) = true /\ nodup_refs publish_map = true.
Proof. vm_compute. repeat split. Qed.

Definition publish_fields : list (fref * wt) :=
  (M F_topicName, Bin) :: (M F_packetID, U16) :: (M F_payload, Raw) :: refs_of publish_map.

Record dom_publish (p : pkt) : Prop := {
  dpu_fixed : 48 <= getN (M F_fixed) p < 64;
  dpu_topic : valid_val Bin (getf (M F_topicName) p);
  dpu_pid : valid_val U16 (getf (M F_packetID) p);
  dpu_pid0 : eval_cond CQoS12 p no_env = false -> getN (M F_packetID) p = 0;
  dpu_fields : fields_valid (refs_of publish_map) p;
  dpu_ups : Forall up_ok (uprops p);
  dpu_sids : Forall sid_ok (subids p);
  dpu_size : remaining_ok KPublish p
}.

Lemma publish_finish p p' :
  Forall (fun rw => vagree (fst rw) (snd rw) p p') ((M F_fixed, U8) :: publish_fields) ->
  uprops p' = uprops p -> subids p' = subids p ->
  snapshot KPublish p' = snapshot KPublish p /\ encs_agree enc_publish p p'.
Proof.
  intros Hag Hu Hs. split.
  - apply agree_all_of in Hag. unfold publish_fields, refs_of, publish_map in Hag.
    cbn [agree_all getf map eref ewt fst snd] in Hag. split_ands.
    unfold snapshot, snap_publish, oN, oB, oS, getN, getB, getS, getf.
    rewrite Hu, Hs. rewrite_agree p'. reflexivity.
  - apply vagree_all_of in Hag. unfold publish_fields, refs_of, publish_map in Hag.
    cbn [vagree_all map eref ewt fst snd] in Hag. split_ands.
    assert (Hpl : vagree (M F_payload) Bin p p').
    { match goal with H : vagree (M F_payload) Raw p p' |- _ => exact H end. }
    unfold enc_publish, publish_vh, publish_payload, publish_props, up.
    cbn [app encs_agree enc_agree live_agree cond_agree].
    repeat match goal with
    | |- _ /\ _ => split
    | |- True => exact I
    | |- context [if ?c then _ else _] => destruct c
    | _ => assumption
    end.
Qed.

Lemma run_enc1_if c a b p : run_enc1 (EIf c a b) p =
  if eval_cond c p no_env then run_enc a p else run_enc b p.
Proof. cbn [run_enc1]. rewrite !run_list_eq. reflexivity. Qed.

Theorem publish_roundtrip p : dom_publish p -> roundtrip KPublish p.
Proof.
  intros [Hfx Htopic Hpid Hpid0 Hm Hups Hsids Hsize].
  assert (Hok : Forall (entry_ok p) publish_map)
    by (apply (entries_ok false); [apply publish_map_ok|discriminate|exact Hm]).
  set (P := section_bytes publish_map false AddSub p).
  assert (EP : run_enc publish_props p = Some P)
    by (apply (run_enc_section publish_map false AddSub p Hok); discriminate).
  set (fx := getN (M F_fixed) p) in *.
  set (fresh := setf (M F_fixed) (VN fx) zero_pkt).
  assert (Hfresh : fresh_pkt (b2n (n2b fx)) = (KPublish, fresh)) by (apply fresh_publish; exact Hfx).
  set (topic := getf (M F_topicName) p) in *. set (pid := getf (M F_packetID) p) in *.
  set (pl := getf (M F_payload) p).
  set (c := eval_cond CQoS12 p no_env) in *.
  set (a1 := setf (M F_topicName) (canon Bin topic) fresh).
  assert (Ec : eval_cond CQoS12 a1 no_env = c) by reflexivity.
  set (a2 := if c then setf (M F_packetID) (canon U16 pid) a1 else a1).
  set (PID := if c then encode U16 pid else []).
  set (body := encode Bin topic ++ PID ++ enc_vb (len P) ++ P ++ valS pl).
  assert (Evh : run_enc (publish_vh ++ publish_payload) p = Some body).
  { unfold publish_vh, publish_payload. rewrite <- app_assoc.
    change (?a :: ?b :: ?e :: ?c ++ ?d) with ([a; b; e] ++ c ++ d).
    rewrite !run_enc_app, EP. cbn [run_enc]. rewrite run_enc1_vblen, EP, !run_enc1_if.
    cbn [run_enc1 getf_opt option_map opt_app]. fold c.
    assert (E1 : (if c then run_enc [EFill (M F_packetID) U16] p else run_enc [] p) = Some PID).
    { unfold PID. destruct c; cbn [run_enc run_enc1 getf_opt option_map opt_app]; rewrite ?app_nil_r; reflexivity. }
    rewrite E1.
    assert (E2 : (if eval_cond (CNonEmpty (M F_payload)) p no_env
                  then run_enc [EFill (M F_payload) Raw] p else run_enc [] p) = Some (valS pl)).
    { cbn [eval_cond]. unfold getS. change (getf (M F_payload) p) with pl.
      remember (valS pl) as plb eqn:E. destruct plb.
      - reflexivity.
      - cbn [run_enc run_enc1 getf_opt option_map opt_app encode enc_raw].
        change (vals p F_payload) with pl. rewrite <- E, app_nil_r. reflexivity. }
    rewrite E2. cbn [opt_app]. unfold body. rewrite ?app_nil_r, <- ?app_assoc. reflexivity. }
  assert (HP : len P < 268435456).
  { unfold remaining_ok in Hsize. cbn [body_of] in Hsize. rewrite Evh in Hsize. unfold body in Hsize.
    rewrite !len_app in Hsize. lia. }
  destruct (dget_at (M F_topicName) Bin topic fresh body 0 (PID ++ enc_vb (len P) ++ P ++ valS pl) 0)
    as [D1 H1]; try discriminate; try assumption; try exact I.
  { intros _. right. reflexivity. }
  { apply at_pos_0. }
  fold a1 in D1.
  destruct (dif_pid_at pid a1 body (0 + length (encode Bin topic)) (enc_vb (len P) ++ P ++ valS pl) 1 Hpid)
    as [st2 [D2 H2]].
  { rewrite Ec. exact H1. }
  rewrite Ec in D2, H2. fold a2 PID in D2, H2.
  assert (Ha2 : forallb (fun e => is_zero (ewt e) (getf (eref e) a2)) publish_map = true)
    by (unfold a2; destruct c; vm_compute; reflexivity).
  destruct (dgetany_at publish_map false AddSub p a2 body (0 + length (encode Bin topic) + length PID)
                       (valS pl) st2)
    as [st3 [D3 H3]]; try discriminate; try assumption; try apply publish_map_ok; try exact I.
  fold P in D3, H3.
  set (a3 := section_result publish_map false AddSub p a2) in *.
  destruct (dif_payload_at pl a3 body _ st3 H3) as [st4 D4].
  set (p' := match valS pl with [] => a3 | _ => setf (M F_payload) (VS (valS pl)) a3 end) in *.
  (* agreement *)
  assert (Hag3 : Forall (fun rw => vagree (fst rw) (snd rw) p a3)
                        ((M F_fixed, U8) :: (M F_topicName, Bin) :: (M F_packetID, U16) :: refs_of publish_map)).
  { apply Forall_cons; [|apply Forall_cons; [|apply Forall_cons]]; cbn [fst snd].
    - apply section_agree_out; [vm_compute; reflexivity|]. unfold a2. destruct c; reflexivity.
    - apply section_agree_out; [vm_compute; reflexivity|]. unfold a2. destruct c; apply canon_idem.
    - apply section_agree_out; [vm_compute; reflexivity|]. unfold a2. destruct c eqn:Ecv.
      + apply canon_idem.
      + change (VN 0 = VN (getN (M F_packetID) p)). rewrite (Hpid0 eq_refl). reflexivity.
    - apply section_agree_in; [apply publish_map_ok|exact Ha2]. }
  assert (Hpl3 : getf (M F_payload) a3 = VN 0).
  { unfold a3. rewrite getf_section_result, getf_restore_other.
    - unfold a2. destruct c; reflexivity.
    - intros e Hin. unfold publish_map in Hin. cbn [In] in Hin.
      repeat (destruct Hin as [<-|Hin]; [reflexivity|]). contradiction. }
  assert (Hag : Forall (fun rw => vagree (fst rw) (snd rw) p p') ((M F_fixed, U8) :: publish_fields)).
  { unfold publish_fields.
    assert (Hother : forall r w, fref_eqb r (M F_payload) = false -> vagree r w p a3 -> vagree r w p p').
    { intros r w Hr H. unfold vagree, p' in *. destruct (valS pl); [exact H|].
      rewrite getf_setf_other by exact Hr. exact H. }
    inversion Hag3 as [|? ? G1 Hag3a]; subst. inversion Hag3a as [|? ? G2 Hag3b]; subst.
    inversion Hag3b as [|? ? G3 Hag3c]; subst. cbn [fst snd] in *.
    apply Forall_cons; [|apply Forall_cons; [|apply Forall_cons; [|apply Forall_cons]]]; cbn [fst snd].
    - apply Hother; [reflexivity|exact G1].
    - apply Hother; [reflexivity|exact G2].
    - apply Hother; [reflexivity|exact G3].
    - unfold vagree, p'. fold pl. destruct (valS pl) eqn:E.
      + rewrite Hpl3. cbn [canon]. rewrite E. reflexivity.
      + rewrite getf_setf_same. cbn [canon valS]. rewrite E. reflexivity.
    - apply Forall_forall. intros rw Hin. rewrite Forall_forall in Hag3c. specialize (Hag3c rw Hin).
      apply Hother; [|exact Hag3c]. unfold refs_of, publish_map in Hin. cbn [map In eref ewt fst snd] in Hin.
      repeat (destruct Hin as [<-|Hin]; [reflexivity|]). contradiction. }
  assert (Hu : uprops p' = uprops p).
  { assert (E : uprops a3 = uprops p) by (unfold a3; rewrite uprops_section_result; unfold a2; destruct c; reflexivity).
    unfold p'. destruct (valS pl); [exact E|]. rewrite uprops_setf. exact E. }
  assert (Hsi : subids p' = subids p).
  { assert (E : subids a3 = subids p) by (unfold a3; rewrite subids_section_result; unfold a2; destruct c; reflexivity).
    unfold p'. destruct (valS pl); [exact E|]. rewrite subids_setf. exact E. }
  destruct (publish_finish p p' Hag Hu Hsi) as [Hs Ha].
  clearbody p'.
  apply (roundtrip_intro KPublish p (publish_vh ++ publish_payload) body fresh p');
    try discriminate; try assumption; try reflexivity.
  - assert (Hne : body <> []) by (unfold body; cbn [encode app]; unfold enc_bin, enc_u16; cbn [app]; discriminate).
    destruct body as [|b0 body0] eqn:Eb; [congruence|]. rewrite <- Eb in *.
    eapply unmarshal_of_run. cbn [dec_of]. unfold dec_publish.
    rewrite (run_dec_cons _ _ _ _ D1), (run_dec_cons _ _ _ _ D2), (run_dec_cons _ _ _ _ D3),
            (run_dec_cons _ _ _ _ D4). reflexivity.
  - intros es Hes. injection Hes as <-. exact Ha.
Qed.

(* ------------------------------------------------------------------ *)
(* CONNECT *)
Definition will_fixed (flags : N) : N :=
  toggle (setqos (ctor_fixed KPublish) (will_qos flags)) RETAIN (has flags WillRetain).

Lemma getf_section_other r m will sm p acc :
  forallb (fun e => negb (fref_eqb r (eref e))) m = true ->
  getf r (section_result m will sm p acc) = getf r acc.
Proof.
  intros H. rewrite getf_section_result. apply getf_restore_other.
  intros e Hin. rewrite forallb_forall in H. apply negb_true_iff. apply H. exact Hin.
Qed.

Lemma getf_will_init_M f a : getf (M f) (will_init a) = getf (M f) a.
Proof. reflexivity. Qed.
Lemma getf_will_init_W f a : getf (W f) (will_init a) =
  upd no_vals F_fixed (VN (will_fixed (getN (M F_flags) a))) f.
Proof. reflexivity. Qed.

Lemma hasWill_will_init a : hasWill (will_init a) = true. Proof. reflexivity. Qed.

Ltac getf_down :=
  repeat first
    [ rewrite getf_setf_same
    | rewrite getf_setf_other by reflexivity
    | rewrite getf_section_other by reflexivity
    | rewrite getf_will_init_M ].

Lemma restore_agree_ref m p acc r w : nodup_refs m = true ->
  forallb (fun e => is_zero (ewt e) (getf (eref e) acc)) m = true ->
  In (r, w) (refs_of m) ->
  canon w (getf r (restore m p acc)) = canon w (getf r p).
Proof.
  intros Hnd Hz Hin. unfold refs_of in Hin. apply in_map_iff in Hin as [e [E Hin]].
  injection E as <- <-. apply restore_agree; try assumption.
  intros e' Hin'. rewrite forallb_forall in Hz. apply Hz. exact Hin'.
Qed.

(* an optional string guarded by a bit of the connect flags *)
Lemma dif_bin_at mask r v acc d pos rest steps :
  valid_val Bin v -> ref_live acc r -> valS (getf r acc) = [] ->
  let c := has (getN (M F_flags) acc) mask in
  at_pos d pos ((if c then encode Bin v else []) ++ rest) ->
  exists steps',
    run_dec1 (DIf (CHas (M F_flags) mask) [DGet r Bin]) (mk_state acc d pos steps) =
      Run (mk_state (if c then setf r (canon Bin v) acc else acc) d
                    (pos + length (if c then encode Bin v else [])) steps')
    /\ at_pos d (pos + length (if c then encode Bin v else [])) rest.
Proof.
  intros Hv Hl Hz c Hat. rewrite dif_step.
  change (eval_cond (CHas (M F_flags) mask) (dp (mk_state acc d pos steps)) (env_of (mk_state acc d pos steps))) with c.
  destruct c.
  - destruct (dget_at r Bin v acc d pos rest steps) as [D H]; try discriminate; try assumption.
    { intros _. right. exact Hz. }
    exists (S steps). split; [|exact H]. cbn [run_dec]. rewrite D. reflexivity.
  - exists steps. cbn [length]. rewrite Nat.add_0_r. split; [reflexivity|exact Hat].
Qed.

Lemma connect_map_ok : forallb (entry_okb false) connect_map = true
  /\ nodupb_N (map eid connect_map) = true /\ nodup_refs connect_map = true.
Proof. vm_compute. repeat split. Qed.
Lemma will_map_ok : forallb (entry_okb true) will_map = true
  /\ nodupb_N (map eid will_map) = true /\ nodup_refs will_map = true.
Proof. vm_compute. repeat split. Qed.

(* the will block of the decoder *)
Definition will_block (p a : pkt) : pkt :=
  let a7 := will_init a in
  let a8 := section_result will_map true NoSub p a7 in
  let a9 := setf (W F_topicName) (canon Bin (getf (W F_topicName) p)) a8 in
  let a10 := setf (M F_willPayload) (canon Bin (getf (M F_willPayload) p)) a9 in
  setf (W F_payload) (VS (getS (M F_willPayload) a10)) a10.

Definition will_bytes (p : pkt) : list byte :=
  let P := section_bytes will_map true NoSub p in
  enc_vb (len P) ++ P ++ encode Bin (getf (W F_topicName) p) ++ encode Bin (getf (M F_willPayload) p).

Lemma dif_will_at p acc d pos rest steps :
  hasWill p = true -> fields_valid (refs_of will_map) p -> Forall up_ok (wuprops p) ->
  valid_val Bin (getf (W F_topicName) p) -> valid_val Bin (getf (M F_willPayload) p) ->
  valS (getf (M F_willPayload) acc) = [] ->
  len (section_bytes will_map true NoSub p) < 268435456 ->
  let c := has (getN (M F_flags) acc) WillFlag in
  at_pos d pos ((if c then will_bytes p else []) ++ rest) ->
  exists steps',
    run_dec1 (DIf (CHas (M F_flags) WillFlag)
                  [DWillInit; DGetAny will_map true NoSub; DGet (W F_topicName) Bin;
                   DGet (M F_willPayload) Bin; DWillPayloadCopy]) (mk_state acc d pos steps) =
      Run (mk_state (if c then will_block p acc else acc) d
                    (pos + length (if c then will_bytes p else [])) steps')
    /\ at_pos d (pos + length (if c then will_bytes p else [])) rest.
Proof.
  intros Hw Hm Hups Htopic Hwp Hz HP c Hat. rewrite dif_step.
  change (eval_cond (CHas (M F_flags) WillFlag) (dp (mk_state acc d pos steps)) (env_of (mk_state acc d pos steps))) with c.
  destruct c.
  2:{ exists steps. cbn [length]. rewrite Nat.add_0_r. split; [reflexivity|exact Hat]. }
  unfold will_bytes in *. cbv zeta in *.
  set (P := section_bytes will_map true NoSub p) in *.
  set (a7 := will_init acc).
  assert (D0 : run_dec1 DWillInit (mk_state acc d pos steps) = Run (mk_state a7 d pos steps)) by reflexivity.
  rewrite <- !app_assoc in Hat.
  destruct (dgetany_at will_map true NoSub p a7 d pos
              (encode Bin (getf (W F_topicName) p) ++ encode Bin (getf (M F_willPayload) p) ++ rest) steps)
    as [st1 [D1 H1]]; try discriminate; try assumption; try apply will_map_ok; try exact I; try reflexivity.
  { intros _. exact Hw. }
  fold P in D1, H1.
  set (a8 := section_result will_map true NoSub p a7) in *.
  assert (Hw8 : hasWill a8 = true) by (unfold a8; rewrite hasWill_section_result; reflexivity).
  destruct (dget_at (W F_topicName) Bin (getf (W F_topicName) p) a8 d (pos + length (enc_vb (len P) ++ P))
              (encode Bin (getf (M F_willPayload) p) ++ rest) st1) as [D2 H2];
    try discriminate; try assumption.
  { intros _. right. unfold a8. rewrite getf_section_other by reflexivity. reflexivity. }
  set (a9 := setf (W F_topicName) (canon Bin (getf (W F_topicName) p)) a8) in *.
  destruct (dget_at (M F_willPayload) Bin (getf (M F_willPayload) p) a9 d
              (pos + length (enc_vb (len P) ++ P) + length (encode Bin (getf (W F_topicName) p)))
              rest (S st1)) as [D3 H3];
    try discriminate; try assumption; try exact I.
  { intros _. right. unfold a9, a8, a7. getf_down. exact Hz. }
  set (a10 := setf (M F_willPayload) (canon Bin (getf (M F_willPayload) p)) a9) in *.
  exists (S (S st1)). split.
  - cbn [run_dec]. rewrite D0, D1, D2, D3. cbn [run_dec1].
    assert (Hw10 : hasWill (dp (mk_state a10 d (pos + length (enc_vb (len P) ++ P) +
                     length (encode Bin (getf (W F_topicName) p)) +
                     length (encode Bin (getf (M F_willPayload) p))) (S (S st1)))) = true).
    { cbn [dp mk_state]. unfold a10, a9. rewrite !hasWill_setf. exact Hw8. }
    rewrite Hw10. unfold with_pkt, mk_state. cbn [dp ddata dpos derr dsteps].
    unfold will_block. cbv zeta. fold a7 a8 a9 a10. do 2 f_equal. rewrite !app_length. lia.
  - rewrite !app_length. rewrite !app_length in H3. rewrite <- !Nat.add_assoc in *. exact H3.
Qed.

Definition connect_head : list (fref * wt) :=
  [(M F_protocolName, Bin); (M F_protocolVersion, U8); (M F_flags, U8); (M F_keepAlive, U16);
   (M F_clientID, Bin); (M F_username, Bin); (M F_password, Bin)].
Definition connect_all : list (fref * wt) :=
  (M F_fixed, U8) :: connect_head ++ refs_of connect_map ++ [(M F_willDelayInterval, U32)].
Definition will_all : list (fref * wt) :=
  [(W F_fixed, U8); (W F_topicName, Bin); (W F_packetID, U16); (W F_topicAlias, U16);
   (W F_payload, Bin); (M F_willPayload, Bin);
   (W F_payloadFormat, WBool); (W F_messageExpiryInterval, U32); (W F_contentType, Bin);
   (W F_responseTopic, Bin); (W F_correlationData, Bin)].

Lemma connect_finish p p' :
  Forall (fun rw => vagree (fst rw) (snd rw) p p') connect_all ->
  uprops p' = uprops p -> hasWill p' = hasWill p ->
  has (getN (M F_flags) p) WillFlag = hasWill p ->
  (hasWill p = true ->
     Forall (fun rw => vagree (fst rw) (snd rw) p p') will_all /\ wuprops p' = wuprops p /\ wsubids p' = wsubids p) ->
  snapshot KConnect p' = snapshot KConnect p /\ encs_agree enc_connect p p'.
Proof.
  intros Hag Hu Hw Hwf Hwill. split.
  - apply agree_all_of in Hag. unfold connect_all, connect_head, refs_of, connect_map in Hag.
    cbn [agree_all getf map app eref ewt fst snd] in Hag. split_ands.
    unfold snapshot, oN, oB, oS, getN, getB, getS, getf.
    rewrite Hu, Hw. rewrite_agree p'.
    destruct (hasWill p) eqn:E; [|reflexivity].
    destruct (Hwill eq_refl) as [Hag2 [Hwu Hws]].
    apply agree_all_of in Hag2. unfold will_all in Hag2. cbn [agree_all getf] in Hag2. split_ands.
    unfold snap_publish, will_pkt, oN, oB, oS, getN, getB, getS, getf. cbn [vals uprops subids].
    rewrite Hwu, Hws. rewrite_agree p'. reflexivity.
  - apply vagree_all_of in Hag. unfold connect_all, connect_head, refs_of, connect_map in Hag.
    cbn [vagree_all map app eref ewt fst snd] in Hag. split_ands.
    unfold enc_connect, connect_vh, connect_payload, connect_props, will_props, up.
    cbn [app encs_agree enc_agree live_agree cond_agree eval_cond].
    rewrite Hwf.
    repeat match goal with
    | |- _ /\ _ => split
    | |- True => exact I
    | _ => assumption
    end;
    match goal with
    | |- context [if hasWill p then _ else _] =>
        destruct (hasWill p) eqn:E; [|exact I];
        destruct (Hwill eq_refl) as [Hag2 [Hwu Hws]];
        apply vagree_all_of in Hag2; unfold will_all in Hag2; cbn [vagree_all] in Hag2; split_ands;
        repeat match goal with
        | |- _ /\ _ => split
        | |- True => exact I
        | _ => assumption
        end
    | |- context [if ?c then _ else _] => destruct c; repeat split; try assumption; exact I
    end.
Qed.

Record will_dom (p : pkt) : Prop := {
  wd_fields : fields_valid (refs_of will_map) p;
  wd_ups : Forall up_ok (wuprops p);
  wd_topic : valid_val Bin (getf (W F_topicName) p);
  wd_payload : valid_val Bin (getf (M F_willPayload) p);
  wd_fixed : getN (W F_fixed) p = will_fixed (getN (M F_flags) p);
  wd_copy : getS (W F_payload) p = getS (M F_willPayload) p;
  wd_pid : getN (W F_packetID) p = 0;
  wd_alias : getN (W F_topicAlias) p = 0;
  wd_subids : wsubids p = []
}.

Record dom_connect (p : pkt) : Prop := {
  dco_fixed : getN (M F_fixed) p = ctor_fixed KConnect;
  dco_head : fields_valid connect_head p;
  dco_map : fields_valid (refs_of connect_map) p;
  dco_ups : Forall up_ok (uprops p);
  dco_user : has (getN (M F_flags) p) UsernameFlag = false -> getS (M F_username) p = [];
  dco_pass : has (getN (M F_flags) p) PasswordFlag = false -> getS (M F_password) p = [];
  dco_willflag : has (getN (M F_flags) p) WillFlag = hasWill p;
  dco_nowill : hasWill p = false -> getN (M F_willDelayInterval) p = 0;
  dco_will : hasWill p = true -> will_dom p;
  dco_size : remaining_ok KConnect p
}.

Theorem connect_roundtrip p : dom_connect p -> roundtrip KConnect p.
Proof.
  intros [Hfx Hhead Hm Hups Huser Hpass Hwf Hnowill Hwill Hsize].
  unfold connect_head in Hhead.
  assert (Hv : valid_val Bin (getf (M F_protocolName) p) /\ valid_val U8 (getf (M F_protocolVersion) p)
               /\ valid_val U8 (getf (M F_flags) p) /\ valid_val U16 (getf (M F_keepAlive) p)
               /\ valid_val Bin (getf (M F_clientID) p) /\ valid_val Bin (getf (M F_username) p)
               /\ valid_val Bin (getf (M F_password) p)).
  { unfold fields_valid in Hhead.
    repeat match goal with H : Forall _ (_ :: _) |- _ => inversion_clear H end. cbn [fst snd] in *.
    repeat split; assumption. }
  destruct Hv as [Hname [Hver [Hfl [Hka [Hcid [Husr Hpw]]]]]]. clear Hhead.
  assert (Hok : Forall (entry_ok p) connect_map)
    by (apply (entries_ok false); [apply connect_map_ok|discriminate|exact Hm]).
  set (P1 := section_bytes connect_map false NoSub p).
  assert (EP1 : run_enc connect_props p = Some P1)
    by (apply (run_enc_section connect_map false NoSub p Hok); discriminate).
  set (fl := getN (M F_flags) p) in *.
  set (cw := has fl WillFlag) in *. set (cu := has fl UsernameFlag) in *. set (cp := has fl PasswordFlag) in *.
  set (name := getf (M F_protocolName) p) in *. set (ver := getf (M F_protocolVersion) p) in *.
  set (flv := getf (M F_flags) p) in *. set (ka := getf (M F_keepAlive) p) in *.
  set (cid := getf (M F_clientID) p) in *. set (usr := getf (M F_username) p) in *.
  set (pw := getf (M F_password) p) in *.
  set (WILL := if cw then will_bytes p else []).
  set (USER := if cu then encode Bin usr else []).
  set (PASS := if cp then encode Bin pw else []).
  set (body := encode Bin name ++ encode U8 ver ++ encode U8 flv ++ encode U16 ka ++ enc_vb (len P1) ++ P1
               ++ encode Bin cid ++ WILL ++ USER ++ PASS).
  (* encoder *)
  assert (Evh : run_enc (connect_vh ++ connect_payload) p = Some body).
  { unfold connect_vh, connect_payload. rewrite <- app_assoc.
    change (?a :: ?b :: ?e :: ?f :: ?g :: ?c ++ ?d) with ([a; b; e; f; g] ++ c ++ d).
    rewrite !run_enc_app, EP1. cbn [run_enc]. rewrite run_enc1_vblen, EP1, !run_enc1_if.
    cbn [eval_cond]. fold fl cw cu cp.
    assert (E1 : (if cw then run_enc ([EVbLen will_props] ++ will_props ++
                                      [EFill (W F_topicName) Bin; EFill (M F_willPayload) Bin]) p
                  else run_enc [] p) = Some WILL).
    { unfold WILL. destruct cw eqn:Ecw; [|reflexivity].
      assert (Hw : hasWill p = true) by (rewrite <- Hwf; reflexivity).
      destruct (Hwill Hw) as [Hwm _ _ _ _ _ _ _ _].
      assert (Hok2 : Forall (entry_ok p) will_map)
        by (apply (entries_ok true); [apply will_map_ok|intros _; exact Hw|exact Hwm]).
      assert (EP2 : run_enc will_props p = Some (section_bytes will_map true NoSub p))
        by (apply (run_enc_section will_map true NoSub p Hok2); intros _; exact Hw).
      rewrite !run_enc_app, EP2. cbn [run_enc]. rewrite run_enc1_vblen, EP2.
      cbn [run_enc1 getf_opt option_map opt_app]. rewrite Hw. cbn [option_map opt_app].
      unfold will_bytes. cbv zeta. rewrite ?app_nil_r, <- ?app_assoc. reflexivity. }
    rewrite E1.
    assert (E2 : (if cu then run_enc [EFill (M F_username) Bin] p else run_enc [] p) = Some USER).
    { unfold USER. destruct cu; cbn [run_enc run_enc1 getf_opt option_map opt_app]; rewrite ?app_nil_r; reflexivity. }
    assert (E3 : (if cp then run_enc [EFill (M F_password) Bin] p else run_enc [] p) = Some PASS).
    { unfold PASS. destruct cp; cbn [run_enc run_enc1 getf_opt option_map opt_app]; rewrite ?app_nil_r; reflexivity. }
    rewrite E2, E3. cbn [run_enc1 getf_opt option_map opt_app]. unfold body.
    rewrite ?app_nil_r, <- ?app_assoc. reflexivity. }
  assert (HP1 : len P1 < 268435456).
  { unfold remaining_ok in Hsize. cbn [body_of] in Hsize. rewrite Evh in Hsize. unfold body in Hsize.
    rewrite !len_app in Hsize. lia. }
  assert (HP2 : cw = true -> len (section_bytes will_map true NoSub p) < 268435456).
  { intros Ecw. unfold remaining_ok in Hsize. cbn [body_of] in Hsize. rewrite Evh in Hsize.
    unfold body, WILL, will_bytes in Hsize. rewrite Ecw in Hsize. cbv zeta in Hsize.
    rewrite !len_app in Hsize. lia. }
  (* decoder *)
  set (fresh := setf (M F_fixed) (VN (ctor_fixed KConnect)) zero_pkt).
  assert (Hfresh : fresh_pkt (b2n (n2b (getN (M F_fixed) p))) = (KConnect, fresh))
    by (rewrite Hfx; reflexivity).
  set (a1 := setf (M F_protocolName) (canon Bin name) fresh).
  set (a2 := setf (M F_protocolVersion) (canon U8 ver) a1).
  set (a3 := setf (M F_flags) (canon U8 flv) a2).
  set (a4 := setf (M F_keepAlive) (canon U16 ka) a3).
  destruct (dget_at (M F_protocolName) Bin name fresh body 0
              (encode U8 ver ++ encode U8 flv ++ encode U16 ka ++ enc_vb (len P1) ++ P1
               ++ encode Bin cid ++ WILL ++ USER ++ PASS) 0)
    as [D1 H1]; try discriminate; try assumption; try exact I.
  { intros _. right. reflexivity. }
  { apply at_pos_0. }
  fold a1 in D1.
  destruct (dget_at (M F_protocolVersion) U8 ver a1 body (0 + length (encode Bin name))
              (encode U8 flv ++ encode U16 ka ++ enc_vb (len P1) ++ P1
               ++ encode Bin cid ++ WILL ++ USER ++ PASS) 1)
    as [D2 H2]; try discriminate; try assumption; try exact I.
  fold a2 in D2.
  destruct (dget_at (M F_flags) U8 flv a2 body (0 + length (encode Bin name) + length (encode U8 ver))
              (encode U16 ka ++ enc_vb (len P1) ++ P1 ++ encode Bin cid ++ WILL ++ USER ++ PASS) 2)
    as [D3 H3]; try discriminate; try assumption; try exact I.
  fold a3 in D3.
  destruct (dget_at (M F_keepAlive) U16 ka a3 body
              (0 + length (encode Bin name) + length (encode U8 ver) + length (encode U8 flv))
              (enc_vb (len P1) ++ P1 ++ encode Bin cid ++ WILL ++ USER ++ PASS) 3)
    as [D4 H4]; try discriminate; try assumption; try exact I.
  fold a4 in D4.
  set (pos4 := (0 + length (encode Bin name) + length (encode U8 ver) + length (encode U8 flv)
                + length (encode U16 ka))%nat) in *.
  destruct (dgetany_at connect_map false NoSub p a4 body pos4 (encode Bin cid ++ WILL ++ USER ++ PASS) 4)
    as [st5 [D5 H5]]; try discriminate; try assumption; try apply connect_map_ok; try exact I.
  fold P1 in D5, H5.
  set (a5 := section_result connect_map false NoSub p a4) in *.
  set (pos5 := (pos4 + length (enc_vb (len P1) ++ P1))%nat) in *.
  destruct (dget_at (M F_clientID) Bin cid a5 body pos5 (WILL ++ USER ++ PASS) st5)
    as [D6 H6]; try discriminate; try assumption; try exact I.
  { intros _. right. unfold a5. getf_down. reflexivity. }
  set (a6 := setf (M F_clientID) (canon Bin cid) a5) in *.
  set (pos6 := (pos5 + length (encode Bin cid))%nat) in *.
  assert (Hfl6 : getN (M F_flags) a6 = fl).
  { unfold getN, a6, a5. getf_down. unfold a4. getf_down. unfold a3. getf_down. reflexivity. }
  assert (Hw6 : cw = true -> hasWill p = true) by (intros E; rewrite <- Hwf; exact E).
  (* the will *)
  assert (D7 : exists st7,
    run_dec1 (DIf (CHas (M F_flags) WillFlag)
                  [DWillInit; DGetAny will_map true NoSub; DGet (W F_topicName) Bin;
                   DGet (M F_willPayload) Bin; DWillPayloadCopy]) (mk_state a6 body pos6 (S st5)) =
      Run (mk_state (if cw then will_block p a6 else a6) body (pos6 + length WILL) st7)
    /\ at_pos body (pos6 + length WILL) (USER ++ PASS)).
  { destruct cw eqn:Ecw.
    - destruct (Hwill (Hw6 eq_refl)) as [Hwm Hwu Hwt Hwp _ _ _ _ _].
      destruct (dif_will_at p a6 body pos6 (USER ++ PASS) (S st5) (Hw6 eq_refl) Hwm Hwu Hwt Hwp) as [st7 [D H]].
      + unfold a6, a5. getf_down. reflexivity.
      + apply HP2. reflexivity.
      + rewrite Hfl6. fold cw. rewrite Ecw. exact H6.
      + rewrite Hfl6 in D, H. fold cw in D, H. rewrite Ecw in D, H. exists st7. split; assumption.
    - exists (S st5). unfold WILL in *. cbn [length]. rewrite Nat.add_0_r. split; [|exact H6].
      rewrite dif_step.
      change (eval_cond (CHas (M F_flags) WillFlag) (dp (mk_state a6 body pos6 (S st5)))
                        (env_of (mk_state a6 body pos6 (S st5)))) with (has (getN (M F_flags) a6) WillFlag).
      rewrite Hfl6. fold cw. rewrite Ecw. reflexivity. }
  destruct D7 as [st7 [D7 H7]].
  set (aw := if cw then will_block p a6 else a6) in *.
  set (pos7 := (pos6 + length WILL)%nat) in *.
  assert (Hflw : getN (M F_flags) aw = fl).
  { unfold aw. destruct cw; [|exact Hfl6]. unfold getN, will_block. cbv zeta. getf_down. exact Hfl6. }
  assert (Hliveall : forall a r, match r with M _ => True | W _ => False end -> ref_live a r)
    by (intros a [f|f] H; [exact I|contradiction]).
  destruct (dif_bin_at UsernameFlag (M F_username) usr aw body pos7 PASS st7 Husr I) as [st8 [D8 H8]].
  { unfold aw. destruct cw.
    - unfold will_block. cbv zeta. getf_down. unfold a6, a5. getf_down. reflexivity.
    - unfold a6, a5. getf_down. reflexivity. }
  { rewrite Hflw. exact H7. }
  rewrite Hflw in D8, H8. fold cu USER in D8, H8.
  set (au := if cu then setf (M F_username) (canon Bin usr) aw else aw) in *.
  set (pos8 := (pos7 + length USER)%nat) in *.
  assert (Hflu : getN (M F_flags) au = fl).
  { unfold au. destruct cu; [|exact Hflw]. unfold getN. getf_down. exact Hflw. }
  destruct (dif_bin_at PasswordFlag (M F_password) pw au body pos8 [] st8 Hpw I) as [st9 [D9 H9]].
  { unfold au. destruct cu; getf_down; unfold aw; destruct cw;
      try (unfold will_block; cbv zeta; getf_down); unfold a6, a5; getf_down; reflexivity. }
  { rewrite Hflu, app_nil_r. exact H8. }
  rewrite Hflu in D9, H9. fold cp PASS in D9, H9.
  set (p' := if cp then setf (M F_password) (canon Bin pw) au else au) in *.
  assert (Hdec : unmarshal KConnect fresh body = UOk p').
  { eapply unmarshal_of_run. cbn [dec_of]. unfold dec_connect.
    rewrite (run_dec_cons _ _ _ _ D1), (run_dec_cons _ _ _ _ D2), (run_dec_cons _ _ _ _ D3),
            (run_dec_cons _ _ _ _ D4), (run_dec_cons _ _ _ _ D5), (run_dec_cons _ _ _ _ D6),
            (run_dec_cons _ _ _ _ D7), (run_dec_cons _ _ _ _ D8), (run_dec_cons _ _ _ _ D9). reflexivity. }
  (* what the later steps leave alone *)
  assert (Efix : canon U8 (getf (M F_fixed) fresh) = canon U8 (getf (M F_fixed) p)).
  { cbn [canon]. fold (getN (M F_fixed) p). rewrite Hfx. reflexivity. }
  assert (Ha4 : forallb (fun e => is_zero (ewt e) (getf (eref e) a4)) connect_map = true)
    by (vm_compute; reflexivity).
  assert (Hag6 : Forall (fun rw => vagree (fst rw) (snd rw) p a6)
            ((M F_fixed, U8) :: (M F_protocolName, Bin) :: (M F_protocolVersion, U8) :: (M F_flags, U8)
             :: (M F_keepAlive, U16) :: (M F_clientID, Bin) :: refs_of connect_map)).
  { repeat (apply Forall_cons; [unfold vagree; cbn [fst snd]; unfold a6, a5; getf_down;
                                first [exact Efix | apply canon_idem]|]).
    apply Forall_forall. intros rw Hin. unfold vagree.
    assert (E : getf (fst rw) a6 = getf (fst rw) a5).
    { unfold a6. apply getf_setf_other. unfold refs_of, connect_map in Hin.
      cbn [map In eref ewt fst snd] in Hin. repeat (destruct Hin as [<-|Hin]; [reflexivity|]). contradiction. }
    rewrite E. pose proof (section_agree_in connect_map false NoSub p a4 (proj2 (proj2 connect_map_ok)) Ha4) as G.
    rewrite Forall_forall in G. exact (G rw Hin). }
  assert (T : Forall (fun r => getf r p' = getf r a6)
            ([M F_fixed; M F_protocolName; M F_protocolVersion; M F_flags; M F_keepAlive; M F_clientID]
             ++ map fst (refs_of connect_map))).
  { unfold refs_of, connect_map. cbn [map app eref ewt fst snd].
    repeat (apply Forall_cons; [unfold p', au, aw; destruct cp, cu, cw;
                                try (unfold will_block; cbv zeta); getf_down; reflexivity|]).
    apply Forall_nil. }
  assert (Hag_a : Forall (fun rw => vagree (fst rw) (snd rw) p p')
            ((M F_fixed, U8) :: (M F_protocolName, Bin) :: (M F_protocolVersion, U8) :: (M F_flags, U8)
             :: (M F_keepAlive, U16) :: (M F_clientID, Bin) :: refs_of connect_map)).
  { apply Forall_forall. intros rw Hin. rewrite Forall_forall in Hag6, T.
    unfold vagree. rewrite (T (fst rw)); [exact (Hag6 rw Hin)|].
    change (In (fst rw) (map fst ((M F_fixed, U8) :: (M F_protocolName, Bin) :: (M F_protocolVersion, U8)
              :: (M F_flags, U8) :: (M F_keepAlive, U16) :: (M F_clientID, Bin) :: refs_of connect_map))).
    apply in_map. exact Hin. }
  (* user name and password *)
  assert (Hz_user : valS (getf (M F_username) aw) = []).
  { unfold aw. destruct cw; try (unfold will_block; cbv zeta); getf_down; unfold a6, a5; getf_down; reflexivity. }
  assert (Hag_user : vagree (M F_username) Bin p p').
  { unfold vagree. assert (E : getf (M F_username) p' = getf (M F_username) au)
      by (unfold p'; destruct cp; getf_down; reflexivity).
    rewrite E. unfold au. destruct cu eqn:Ecu.
    - getf_down. apply canon_idem.
    - cbn [canon]. rewrite Hz_user. fold usr. change (valS usr) with (getS (M F_username) p).
      rewrite (Huser eq_refl). reflexivity. }
  assert (Hz_pass : valS (getf (M F_password) au) = []).
  { unfold au. destruct cu; getf_down; unfold aw; destruct cw;
      try (unfold will_block; cbv zeta); getf_down; unfold a6, a5; getf_down; reflexivity. }
  assert (Hag_pass : vagree (M F_password) Bin p p').
  { unfold vagree, p'. destruct cp eqn:Ecp.
    - getf_down. apply canon_idem.
    - cbn [canon]. rewrite Hz_pass. change (valS (getf (M F_password) p)) with (getS (M F_password) p).
      rewrite (Hpass eq_refl). reflexivity. }
  (* lists *)
  assert (Hu6 : uprops a6 = uprops p).
  { unfold a6. rewrite uprops_setf. unfold a5. rewrite uprops_section_result. reflexivity. }
  assert (Huw : uprops aw = uprops p).
  { unfold aw. destruct cw; [|exact Hu6]. unfold will_block. cbv zeta.
    rewrite !uprops_setf, uprops_section_result. exact Hu6. }
  assert (Hu : uprops p' = uprops p).
  { unfold p', au. destruct cp, cu; rewrite ?uprops_setf; exact Huw. }
  assert (Hw6' : hasWill a6 = false).
  { unfold a6. rewrite hasWill_setf. unfold a5. rewrite hasWill_section_result. reflexivity. }
  assert (Hww : hasWill aw = cw).
  { unfold aw. destruct cw; [|exact Hw6']. unfold will_block. cbv zeta.
    rewrite !hasWill_setf, hasWill_section_result. reflexivity. }
  assert (Hhw : hasWill p' = hasWill p).
  { rewrite <- Hwf. fold fl cw. unfold p', au. destruct cp, cu; rewrite ?hasWill_setf; exact Hww. }
  (* will delay interval and the will *)
  assert (Hz7 : forallb (fun e => is_zero (ewt e) (getf (eref e) (will_init a6))) will_map = true).
  { apply forallb_forall. intros e Hin. unfold will_map in Hin. cbn [In] in Hin.
    destruct Hin as [<-|Hin].
    { cbn [eref ewt fst snd]. rewrite getf_will_init_M. unfold a6, a5. getf_down. reflexivity. }
    repeat (destruct Hin as [<-|Hin]; [reflexivity|]). contradiction. }
  assert (Hthru_w : forall f, getf (W f) p' = getf (W f) aw).
  { intros f. unfold p', au. destruct cp, cu; reflexivity. }
  assert (Hag_delay : vagree (M F_willDelayInterval) U32 p p').
  { unfold vagree.
    assert (E : getf (M F_willDelayInterval) p' = getf (M F_willDelayInterval) aw)
      by (unfold p', au; destruct cp, cu; getf_down; reflexivity).
    rewrite E. unfold aw. destruct cw eqn:Ecw.
    - unfold will_block. cbv zeta. getf_down. rewrite getf_section_result.
      apply (restore_agree_ref will_map p (will_init a6)); [apply will_map_ok|exact Hz7|].
      left. reflexivity.
    - assert (E0 : getf (M F_willDelayInterval) a6 = VN 0) by (unfold a6, a5; getf_down; reflexivity).
      rewrite E0. cbn [canon]. fold (getN (M F_willDelayInterval) p).
      rewrite Hnowill; [reflexivity|symmetry; exact Hwf]. }
  assert (Hwillpart : hasWill p = true ->
     Forall (fun rw => vagree (fst rw) (snd rw) p p') will_all /\ wuprops p' = wuprops p /\ wsubids p' = wsubids p).
  { intros Hw. assert (Ecw : cw = true) by (rewrite Hwf; exact Hw).
    destruct (Hwill Hw) as [Hwm Hwu Hwt Hwp Hwfx Hwcopy Hwpid Hwalias Hwsub].
    assert (Eaw : aw = will_block p a6) by (unfold aw; rewrite Ecw; reflexivity).
    assert (Hin_w : forall r w, In (r, w) (refs_of will_map) ->
                    canon w (getf r (section_result will_map true NoSub p (will_init a6))) = canon w (getf r p)).
    { intros r w Hin. rewrite getf_section_result.
      apply (restore_agree_ref will_map p (will_init a6)); [apply will_map_ok|exact Hz7|exact Hin]. }
    split; [|split].
    - unfold will_all.
      repeat (apply Forall_cons; [unfold vagree; cbn [fst snd]|]); [..|apply Forall_nil].
      + rewrite Hthru_w, Eaw. unfold will_block. cbv zeta. getf_down. rewrite getf_will_init_W.
        rewrite Hfl6. cbn [canon]. fold (getN (W F_fixed) p). rewrite Hwfx. reflexivity.
      + rewrite Hthru_w, Eaw. unfold will_block. cbv zeta. getf_down. apply canon_idem.
      + rewrite Hthru_w, Eaw. unfold will_block. cbv zeta. getf_down. rewrite getf_will_init_W.
        cbn [canon]. fold (getN (W F_packetID) p). rewrite Hwpid. reflexivity.
      + rewrite Hthru_w, Eaw. unfold will_block. cbv zeta. getf_down. rewrite getf_will_init_W.
        cbn [canon]. fold (getN (W F_topicAlias) p). rewrite Hwalias. reflexivity.
      + rewrite Hthru_w, Eaw. unfold will_block. cbv zeta. getf_down. unfold getS. getf_down.
        cbn [canon valS]. fold (getS (W F_payload) p). rewrite Hwcopy. reflexivity.
      + assert (E : getf (M F_willPayload) p' = getf (M F_willPayload) aw)
          by (unfold p', au; destruct cp, cu; getf_down; reflexivity).
        rewrite E, Eaw. unfold will_block. cbv zeta. getf_down. apply canon_idem.
      + rewrite Hthru_w, Eaw. unfold will_block. cbv zeta. getf_down. apply Hin_w. cbn. tauto.
      + rewrite Hthru_w, Eaw. unfold will_block. cbv zeta. getf_down. apply Hin_w. cbn. tauto.
      + rewrite Hthru_w, Eaw. unfold will_block. cbv zeta. getf_down. apply Hin_w. cbn. tauto.
      + rewrite Hthru_w, Eaw. unfold will_block. cbv zeta. getf_down. apply Hin_w. cbn. tauto.
      + rewrite Hthru_w, Eaw. unfold will_block. cbv zeta. getf_down. apply Hin_w. cbn. tauto.
    - assert (E : wuprops p' = wuprops aw) by (unfold p', au; destruct cp, cu; rewrite ?wuprops_setf; reflexivity).
      rewrite E, Eaw. unfold will_block. cbv zeta. rewrite !wuprops_setf, wuprops_section_result. reflexivity.
    - assert (E : wsubids p' = wsubids aw) by (unfold p', au; destruct cp, cu; rewrite ?wsubids_setf; reflexivity).
      rewrite E, Eaw, Hwsub. unfold will_block. cbv zeta. rewrite !wsubids_setf.
      destruct (others_section_result will_map true NoSub p (will_init a6)) as [E1 _]. rewrite E1. reflexivity. }
  assert (Hag : Forall (fun rw => vagree (fst rw) (snd rw) p p') connect_all).
  { unfold connect_all, connect_head. cbn [app].
    inversion Hag_a as [|? ? G0 G]; subst. inversion G as [|? ? G1 G']; subst. inversion G' as [|? ? G2 G'']; subst.
    inversion G'' as [|? ? G3 G3']; subst. inversion G3' as [|? ? G4 G4']; subst. inversion G4' as [|? ? G5 G6]; subst.
    repeat (apply Forall_cons; [assumption|]).
    apply Forall_app. split; [exact G6|]. apply Forall_cons; [exact Hag_delay|apply Forall_nil]. }
  destruct (connect_finish p p' Hag Hu Hhw Hwf Hwillpart) as [Hs Ha].
  clearbody p'.
  apply (roundtrip_intro KConnect p (connect_vh ++ connect_payload) body fresh p');
    try discriminate; try assumption; try reflexivity.
  intros es Hes. injection Hes as <-. exact Ha.
Qed.

(* ------------------------------------------------------------------ *)
(* All fifteen packet types. *)
Definition dom (k : kind) (p : pkt) : Prop :=
  match k with
  | KUndefined => False
  | KConnect => dom_connect p
  | KConnAck => dom_connack p
  | KPublish => dom_publish p
  | KPubAck | KPubRec | KPubRel | KPubComp => dom_ack k p
  | KSubscribe => dom_subscribe p
  | KSubAck | KUnsubAck => dom_suback k p
  | KUnsubscribe => dom_unsubscribe p
  | KPingReq | KPingResp => getN (M F_fixed) p = ctor_fixed k
  | KDisconnect => dom_disconnect p
  | KAuth => dom_auth p
  end.

Theorem roundtrip_all k p : dom k p -> roundtrip k p.
Proof.
  destruct k; cbn [dom]; intros H.
  - contradiction.
  - apply connect_roundtrip; exact H.
  - apply connack_roundtrip; exact H.
  - apply publish_roundtrip; exact H.
  - apply ack_roundtrip; [reflexivity|exact H].
  - apply ack_roundtrip; [reflexivity|exact H].
  - apply ack_roundtrip; [reflexivity|exact H].
  - apply ack_roundtrip; [reflexivity|exact H].
  - apply subscribe_roundtrip; exact H.
  - apply suback_roundtrip; [reflexivity|exact H].
  - apply unsubscribe_roundtrip; exact H.
  - apply suback_roundtrip; [reflexivity|exact H].
  - apply ping_roundtrip; [left; reflexivity|exact H].
  - apply ping_roundtrip; [right; reflexivity|exact H].
  - apply disconnect_roundtrip; exact H.
  - apply auth_roundtrip; exact H.
Qed.
