(* The specification's strict decoder accepts nothing but what its encoder
   writes: spec_decode d = Some f  ->  d = spec_encode f  and f is valid.
   With spec_roundtrip this makes "structurally valid frame" and "encoding
   of a valid abstract frame" the same set.  About Spec/Mqtt5.v only. *)
From MQ Require Import Model.Wire Proofs.BytesP Proofs.VbP Proofs.WireP Proofs.SpecWireP Proofs.PropsP
     Proofs.RoundP Proofs.AcceptP Proofs.SpecRoundP Spec.Mqtt5.
From Coq Require Import ZArith Lia ZifyN ZifyNat ZifyBool.
Ltac Zify.zify_post_hook ::= Z.div_mod_to_equations.

Lemma some_pair_inj {A B} (a c : A) (b d : B) : Some (a, b) = Some (c, d) -> a = c /\ b = d.
Proof. intros H. injection H as -> ->. split; reflexivity. Qed.

Lemma p_u8_inv d n r : p_u8 d = Some (n, r) -> d = e_u8 n ++ r /\ n < 256.
Proof.
  unfold p_u8. destruct d as [|b d]; [discriminate|]. intros H. injection H as <- <-.
  unfold e_u8. rewrite n2b_b2n. split; [reflexivity|apply b2n_lt].
Qed.

Lemma n2b_mod n : n2b (n mod 256) = n2b n.
Proof. apply b2n_inj. rewrite !b2n_n2b. apply N.mod_mod. discriminate. Qed.

Lemma p_u16_inv d n r : p_u16 d = Some (n, r) -> d = e_u16 n ++ r /\ n < 65536.
Proof.
  unfold p_u16. destruct d as [|a [|b d]]; try discriminate. intros H. injection H as <- <-.
  pose proof (b2n_lt a). pose proof (b2n_lt b). split; [|lia].
  unfold e_u16. cbn [app]. f_equal; [|f_equal].
  - rewrite <- (n2b_b2n a) at 1. f_equal. lia.
  - rewrite <- (n2b_b2n b) at 1. rewrite <- (n2b_mod (b2n a * 256 + b2n b)). f_equal. lia.
Qed.

Lemma p_u32_inv d n r : p_u32 d = Some (n, r) -> d = e_u32 n ++ r /\ n < 4294967296.
Proof.
  unfold p_u32. destruct d as [|a [|b [|c [|e d]]]]; try discriminate. intros H. injection H as <- <-.
  pose proof (b2n_lt a). pose proof (b2n_lt b). pose proof (b2n_lt c). pose proof (b2n_lt e). split; [|lia].
  unfold e_u32. cbn [app].
  set (n := b2n a * 16777216 + b2n b * 65536 + b2n c * 256 + b2n e).
  f_equal; [|f_equal; [|f_equal; [|f_equal]]].
  - rewrite <- (n2b_b2n a) at 1. f_equal. unfold n. lia.
  - rewrite <- (n2b_b2n b) at 1. rewrite <- (n2b_mod (n / 65536)). f_equal. unfold n. lia.
  - rewrite <- (n2b_b2n c) at 1. rewrite <- (n2b_mod (n / 256)). f_equal. unfold n. lia.
  - rewrite <- (n2b_b2n e) at 1. rewrite <- (n2b_mod n). f_equal. unfold n. lia.
Qed.

Lemma take_inv n d a r : take n d = Some (a, r) -> d = a ++ r /\ len a = n.
Proof.
  unfold take. destruct (N.leb_spec n (len d)); [|discriminate]. intros E. injection E as <- <-.
  split; [symmetry; apply firstn_skipn|]. unfold len in *. rewrite firstn_length. lia.
Qed.

Lemma p_str_inv d s r : p_str d = Some (s, r) -> d = e_str s ++ r /\ len s < 65536.
Proof.
  unfold p_str. destruct (p_u16 d) as [[l r0]|] eqn:E; [|discriminate]. intros H.
  destruct (p_u16_inv _ _ _ E) as [-> Hl]. destruct (take_inv _ _ _ _ H) as [-> Hs].
  unfold e_str. rewrite Hs. rewrite <- app_assoc. split; [reflexivity|lia].
Qed.

(* minimal variable byte integers are the encoder's *)
Lemma p_var_inv d n r : p_var d = Some (n, r) -> d = e_var n ++ r /\ n < 268435456.
Proof.
  unfold p_var. destruct d as [|a d]; [discriminate|].
  pose proof (b2n_lt a) as Ha.
  destruct (N.ltb_spec (b2n a) 128) as [H1|H1].
  { intros E. apply some_pair_inj in E as [<- <-]. split; [|lia]. rewrite e_var_enc_vb by lia. rewrite enc_vb_1 by lia.
    rewrite n2b_b2n. reflexivity. }
  destruct d as [|b d]; [discriminate|]. pose proof (b2n_lt b) as Hb.
  destruct (N.ltb_spec (b2n b) 128) as [H2|H2].
  { destruct (N.eqb_spec (b2n b) 0) as [E0|E0]; [discriminate|]. intros E. apply some_pair_inj in E as [<- <-].
    set (n := b2n a - 128 + 128 * b2n b). assert (Hn : 128 <= n < 16384) by (unfold n; lia).
    split; [|lia]. rewrite e_var_enc_vb by lia. rewrite (enc_vb_2 n Hn). cbn [app].
    f_equal; [|f_equal].
    - rewrite <- (n2b_b2n a) at 1. f_equal. unfold n. lia.
    - rewrite <- (n2b_b2n b) at 1. f_equal. unfold n. lia. }
  destruct d as [|c d]; [discriminate|]. pose proof (b2n_lt c) as Hc.
  destruct (N.ltb_spec (b2n c) 128) as [H3|H3].
  { destruct (N.eqb_spec (b2n c) 0) as [E0|E0]; [discriminate|]. intros E. apply some_pair_inj in E as [<- <-].
    set (n := b2n a - 128 + 128 * (b2n b - 128) + 16384 * b2n c).
    assert (Hn : 16384 <= n < 2097152) by (unfold n; lia).
    split; [|lia]. rewrite e_var_enc_vb by lia. rewrite (enc_vb_3 n Hn). cbn [app].
    f_equal; [|f_equal; [|f_equal]].
    - rewrite <- (n2b_b2n a) at 1. f_equal. unfold n. lia.
    - rewrite <- (n2b_b2n b) at 1. f_equal. unfold n. lia.
    - rewrite <- (n2b_b2n c) at 1. f_equal. unfold n. lia. }
  destruct d as [|e d]; [discriminate|]. pose proof (b2n_lt e) as He.
  destruct (N.ltb_spec (b2n e) 128) as [H4|H4]; [|discriminate].
  destruct (N.eqb_spec (b2n e) 0) as [E0|E0]; [discriminate|]. intros E. apply some_pair_inj in E as [<- <-].
  set (n := b2n a - 128 + 128 * (b2n b - 128) + 16384 * (b2n c - 128) + 2097152 * b2n e).
  assert (Hn : 2097152 <= n < 268435456) by (unfold n; lia).
  split; [|lia]. rewrite e_var_enc_vb by lia. rewrite (enc_vb_4 n Hn). cbn [app].
  f_equal; [|f_equal; [|f_equal; [|f_equal]]].
  - rewrite <- (n2b_b2n a) at 1. f_equal. unfold n. lia.
  - rewrite <- (n2b_b2n b) at 1. f_equal. unfold n. lia.
  - rewrite <- (n2b_b2n c) at 1. f_equal. unfold n. lia.
  - rewrite <- (n2b_b2n e) at 1. f_equal. unfold n. lia.
Qed.

Lemma p_pval_inv t d v r : p_pval t d = Some (v, r) ->
  d = e_pval v ++ r /\ pval_type v = t /\ pval_ok v.
Proof.
  destruct t; cbn [p_pval].
  - destruct (p_u8 d) as [[n r0]|] eqn:E; [|discriminate]. intros H. apply some_pair_inj in H as [<- <-].
    destruct (p_u8_inv _ _ _ E) as [-> Hn]. repeat split. exact Hn.
  - destruct (p_u16 d) as [[n r0]|] eqn:E; [|discriminate]. intros H. apply some_pair_inj in H as [<- <-].
    destruct (p_u16_inv _ _ _ E) as [-> Hn]. repeat split. exact Hn.
  - destruct (p_u32 d) as [[n r0]|] eqn:E; [|discriminate]. intros H. apply some_pair_inj in H as [<- <-].
    destruct (p_u32_inv _ _ _ E) as [-> Hn]. repeat split. exact Hn.
  - destruct (p_var d) as [[n r0]|] eqn:E; [|discriminate]. intros H. apply some_pair_inj in H as [<- <-].
    destruct (p_var_inv _ _ _ E) as [-> Hn]. repeat split. exact Hn.
  - destruct (p_str d) as [[s r0]|] eqn:E; [|discriminate]. intros H. apply some_pair_inj in H as [<- <-].
    destruct (p_str_inv _ _ _ E) as [-> Hn]. repeat split. exact Hn.
  - destruct (p_str d) as [[s r0]|] eqn:E; [|discriminate]. intros H. apply some_pair_inj in H as [<- <-].
    destruct (p_str_inv _ _ _ E) as [-> Hn]. repeat split. exact Hn.
  - destruct (p_str d) as [[k r0]|] eqn:E; [|discriminate].
    destruct (p_str r0) as [[v0 r1]|] eqn:E2; [|discriminate]. intros H. apply some_pair_inj in H as [<- <-].
    destruct (p_str_inv _ _ _ E) as [-> Hk]. destruct (p_str_inv _ _ _ E2) as [-> Hv].
    cbn [e_pval pval_type pval_ok]. rewrite <- app_assoc. repeat split; assumption.
Qed.

Lemma mem_id_true id acc : mem_id id acc = false -> ~ In id (map ap_id acc).
Proof.
  induction acc as [|a acc IH]; cbn [mem_id map In]; [tauto|]. intros H.
  apply orb_false_iff in H as [H1 H2]. apply N.eqb_neq in H1. intros [E|E]; [contradiction|exact (IH H2 E)].
Qed.

Lemma NoDup_app_one {A} (l : list A) x : NoDup l -> ~ In x l -> NoDup (l ++ [x]).
Proof.
  induction l as [|y l IH]; intros Hnd Hni; [constructor; [intros []|constructor]|].
  cbn [app]. apply NoDup_cons_iff in Hnd as [Hy Hl]. constructor.
  - intros Hin. apply in_app_or in Hin as [Hin|[E|[]]]; [contradiction|]. apply Hni. left. symmetry. exact E.
  - apply IH; [exact Hl|]. intros Hin. apply Hni. right. exact Hin.
Qed.

Lemma bool_prop_type id : is_bool_prop id = true -> prop_type id = Some PTByte.
Proof.
  destruct id as [|p]; [discriminate|].
  do 6 (destruct p as [p|p|]; try discriminate; try (intros _; reflexivity)).
Qed.

Lemma p_props_body_inv where_ : forall fuel acc d ps,
  p_props_body fuel where_ acc d = Some ps ->
  NoDup (map ap_id (filter (nonrep where_) (rev acc))) ->
  exists ps', ps = rev acc ++ ps' /\ d = e_props_raw ps' /\ Forall (sprop_ok where_) ps'
              /\ NoDup (map ap_id (filter (nonrep where_) (rev acc ++ ps'))).
Proof.
  induction fuel as [|fuel IH]; intros acc d ps H Hnd; [discriminate|].
  cbn [p_props_body] in H. destruct d as [|b r].
  - injection H as <-. exists []. rewrite app_nil_r. repeat split; [constructor|exact Hnd].
  - destruct (allowed where_ (b2n b)) eqn:Ea; [|discriminate]. cbn [negb] in H.
    destruct (mem_id (b2n b) acc && negb (repeatable where_ (b2n b))) eqn:Em; [discriminate|].
    destruct (prop_type (b2n b)) as [t|] eqn:Et; [|discriminate].
    destruct (p_pval t r) as [[v r']|] eqn:Ev; [|discriminate].
    destruct (p_pval_inv _ _ _ _ Ev) as [-> [Hty Hpv]].
    set (bad := match v with
                | VByte n => is_bool_prop (b2n b) && (1 <? n)
                | VVar n => (b2n b =? 11) && (n =? 0)
                | _ => false end) in H.
    destruct bad eqn:Ebad; [discriminate|].
    set (ap := {| ap_id := b2n b; ap_val := v |}) in *.
    assert (Hnd' : NoDup (map ap_id (filter (nonrep where_) (rev (ap :: acc))))).
    { cbn [rev]. rewrite filter_app, map_app. cbn [filter]. unfold nonrep at 2. cbn [ap_id ap].
      destruct (repeatable where_ (b2n b)) eqn:Er; cbn [negb map]; [rewrite app_nil_r; exact Hnd|].
      rewrite andb_true_r in Em. apply mem_id_true in Em.
      apply NoDup_app_one; [exact Hnd|]. intros Hin. apply Em.
      apply in_map_iff in Hin as [a [Ea' Hina]]. apply filter_In in Hina as [Hina _].
      apply in_map_iff. exists a. split; [exact Ea'|]. apply in_rev. exact Hina. }
    destruct (IH (ap :: acc) r' ps H Hnd') as [ps' [E1 [E2 [Hok Hnd'']]]].
    exists (ap :: ps'). cbn [rev] in E1, Hnd''. rewrite <- app_assoc in E1, Hnd''. cbn [app] in E1, Hnd''.
    split; [exact E1|]. split; [|split; [|exact Hnd'']].
    + rewrite e_props_raw_cons. unfold e_prop, ap. cbn [ap_id ap_val]. rewrite n2b_b2n, E2. reflexivity.
    + constructor; [|exact Hok]. unfold sprop_ok, ap. cbn [ap_id ap_val]. rewrite Hty.
      split; [exact Ea|]. split; [exact Et|]. split; [exact Hpv|]. unfold bad in Ebad. split.
      * intros Hb. pose proof (bool_prop_type _ Hb) as Hbt. rewrite Hbt in Et. injection Et as <-.
        destruct v; try discriminate Hty. cbn [pnumval]. rewrite Hb in Ebad. cbn [andb] in Ebad.
        apply N.ltb_ge in Ebad. exact Ebad.
      * intros E11. destruct v; cbn [pnumval]; try (rewrite E11 in Et; cbn in Et; rewrite <- Hty in Et; discriminate Et).
        rewrite E11 in Ebad. cbn [N.eqb Pos.eqb andb] in Ebad. apply N.eqb_neq. exact Ebad.
Qed.

Lemma p_props_inv where_ d ps r : p_props where_ d = Some (ps, r) ->
  d = e_props ps ++ r /\ sprops_ok where_ ps /\ len (e_props_raw ps) < 268435456.
Proof.
  unfold p_props. destruct (p_var d) as [[l r0]|] eqn:Ev; [|discriminate].
  destruct (take l r0) as [[pd r1]|] eqn:Et; [|discriminate].
  destruct (p_props_body (S (length pd)) where_ [] pd) as [ps0|] eqn:Eb; [|discriminate].
  intros H. apply some_pair_inj in H as [<- <-].
  destruct (p_var_inv _ _ _ Ev) as [-> Hl]. destruct (take_inv _ _ _ _ Et) as [-> Hlen].
  destruct (p_props_body_inv where_ _ _ _ _ Eb) as [ps' [E1 [E2 [Hok Hnd]]]]; [constructor|].
  cbn [rev app] in E1, Hnd. subst ps0 pd. unfold e_props. cbv zeta. rewrite Hlen, <- app_assoc.
  split; [reflexivity|]. split; [split; assumption|lia].
Qed.

Lemma p_filters_inv : forall fuel d fs, p_filters fuel d = Some fs ->
  d = concat (map (fun f => e_str (fst f) ++ e_u8 (snd f)) fs)
  /\ Forall (fun f => len (fst f) < 65536 /\ opts_ok (snd f)) fs.
Proof.
  induction fuel as [|fuel IH]; intros d fs H; [discriminate|]. cbn [p_filters] in H.
  destruct d as [|x d0]; [injection H as <-; split; [reflexivity|constructor]|].
  destruct (p_str (x :: d0)) as [[f r]|] eqn:Es; [|discriminate].
  destruct (p_u8 r) as [[o r']|] eqn:Eo; [|discriminate].
  destruct (bit o 6 || bit o 7 || (o mod 4 =? 3) || ((o / 16) mod 4 =? 3)) eqn:Eb; [discriminate|].
  destruct (p_filters fuel r') as [fs'|] eqn:Ef; [|discriminate]. injection H as <-.
  destruct (p_str_inv _ _ _ Es) as [E1 Hf]. destruct (p_u8_inv _ _ _ Eo) as [-> Ho].
  destruct (IH _ _ Ef) as [-> Hok]. rewrite E1. cbn [map concat fst snd]. rewrite <- app_assoc.
  split; [reflexivity|]. constructor; [|exact Hok]. cbn [fst snd]. split; [exact Hf|split; [exact Ho|exact Eb]].
Qed.

Lemma p_strings_inv : forall fuel d fs, p_strings fuel d = Some fs ->
  d = concat (map e_str fs) /\ Forall (fun f => len f < 65536) fs.
Proof.
  induction fuel as [|fuel IH]; intros d fs H; [discriminate|]. cbn [p_strings] in H.
  destruct d as [|x d0]; [injection H as <-; split; [reflexivity|constructor]|].
  destruct (p_str (x :: d0)) as [[f r]|] eqn:Es; [|discriminate].
  destruct (p_strings fuel r) as [fs'|] eqn:Ef; [|discriminate]. injection H as <-.
  destruct (p_str_inv _ _ _ Es) as [E1 Hf]. destruct (IH _ _ Ef) as [-> Hok]. rewrite E1.
  split; [reflexivity|]. constructor; assumption.
Qed.

Lemma p_opt_inv b d o r : p_opt b d = Some (o, r) ->
  d = e_opt o ++ r /\ opt_ok o /\ b = match o with Some _ => true | None => false end.
Proof.
  unfold p_opt. destruct b.
  - destruct (p_str d) as [[s r0]|] eqn:E; [|discriminate]. intros H. apply some_pair_inj in H as [<- <-].
    destruct (p_str_inv _ _ _ E) as [-> Hs]. repeat split. exact Hs.
  - intros H. apply some_pair_inj in H as [<- <-]. repeat split.
Qed.

Lemma codes_of_bytes (l : list byte) : l = concat (map e_u8 (map b2n l)) /\ Forall (fun n => n < 256) (map b2n l).
Proof.
  induction l as [|b l [IH1 IH2]]; [split; [reflexivity|constructor]|]. cbn [map concat e_u8 app].
  rewrite n2b_b2n, <- IH1. split; [reflexivity|]. constructor; [apply b2n_lt|exact IH2].
Qed.

(* ------------------------------------------------------------------ *)
(* bodies *)
Ltac fin := repeat (first [assumption | reflexivity | lia | discriminate | split]).
Lemma d_connack_inv fl d b : d_body 2 fl d = Some b -> fl = 0 -> d = e_body b /\ sbody_ok 2 fl b.
Proof.
  cbn [d_body]. intros H ->.
  destruct (p_u8 d) as [[af r]|] eqn:E1; [|discriminate].
  destruct (N.ltb_spec 1 af) as [Ha|Ha]; [discriminate|].
  destruct (p_u8 r) as [[rc r2]|] eqn:E2; [|discriminate].
  destruct (p_props 2 r2) as [[ps [|x r3]]|] eqn:E3; try discriminate. injection H as <-.
  destruct (p_u8_inv _ _ _ E1) as [-> _]. destruct (p_u8_inv _ _ _ E2) as [-> Hrc].
  destruct (p_props_inv _ _ _ _ E3) as [-> [Hps HR]]. rewrite app_nil_r.
  split; [reflexivity|]. cbn [sbody_ok]. fin.
Qed.

Lemma d_publish_inv fl d b : d_body 3 fl d = Some b -> fl < 16 -> d = e_body b /\ sbody_ok 3 fl b.
Proof.
  cbn [d_body]. intros H Hfl. cbv zeta in H.
  destruct (N.eqb_spec ((fl / 2) mod 4) 3) as [Hq|Hq]; [discriminate|].
  destruct (p_str d) as [[topic r]|] eqn:E1; [|discriminate].
  destruct (p_str_inv _ _ _ E1) as [-> Htopic].
  destruct (N.eqb_spec ((fl / 2) mod 4) 0) as [Hq0|Hq0].
  - destruct (p_props 3 r) as [[ps payload]|] eqn:E3; [|discriminate]. injection H as <-.
    destruct (p_props_inv _ _ _ _ E3) as [-> [Hps HR]]. cbn [e_body app].
    split; [reflexivity|]. cbn [sbody_ok]. fin.
  - destruct (p_u16 r) as [[i r2]|] eqn:E2; [|discriminate].
    destruct (p_props 3 r2) as [[ps payload]|] eqn:E3; [|discriminate]. injection H as <-.
    destruct (p_u16_inv _ _ _ E2) as [-> Hi]. destruct (p_props_inv _ _ _ _ E3) as [-> [Hps HR]].
    split; [reflexivity|]. cbn [sbody_ok]. fin.
Qed.

Lemma d_ack_inv t fl d b : (t = 4 \/ t = 5 \/ t = 6 \/ t = 7) -> fl = (if t =? 6 then 2 else 0) ->
  d_body t fl d = Some b -> d = e_body b /\ sbody_ok t fl b.
Proof.
  intros Ht Hfl H.
  assert (Hd : d_body t fl d =
               match p_u16 d with
               | Some (pid, []) => Some (BAck pid 2 0 [])
               | Some (pid, r) =>
                 match p_u8 r with
                 | Some (rc, []) => Some (BAck pid 3 rc [])
                 | Some (rc, r) =>
                   match p_props t r with
                   | Some (props, []) => Some (BAck pid 4 rc props)
                   | _ => None end
                 | None => None end
               | None => None end).
  { destruct Ht as [-> |[-> |[-> | ->]]]; reflexivity. }
  rewrite Hd in H. clear Hd.
  destruct (p_u16 d) as [[pid r]|] eqn:E1; [|discriminate]. destruct (p_u16_inv _ _ _ E1) as [-> Hpid].
  destruct r as [|x r].
  { injection H as <-. cbn [e_body N.eqb Pos.eqb]. split; [reflexivity|]. cbn [sbody_ok ack_frame_ok].
    fin. }
  destruct (p_u8 (x :: r)) as [[rc r2]|] eqn:E2; [|discriminate]. destruct (p_u8_inv _ _ _ E2) as [E2' Hrc].
  rewrite E2'. destruct r2 as [|y r2].
  { injection H as <-. cbn [e_body N.eqb Pos.eqb]. split; [reflexivity|]. cbn [sbody_ok ack_frame_ok].
    fin. }
  destruct (p_props t (y :: r2)) as [[ps [|z r3]]|] eqn:E3; try discriminate. injection H as <-.
  destruct (p_props_inv _ _ _ _ E3) as [E3' [Hps HR]]. rewrite E3', app_nil_r.
  cbn [e_body N.eqb Pos.eqb]. split; [reflexivity|]. cbn [sbody_ok ack_frame_ok]. fin.
Qed.

Lemma d_subscribe_inv fl d b : d_body 8 fl d = Some b -> fl = 2 -> d = e_body b /\ sbody_ok 8 fl b.
Proof.
  cbn [d_body]. intros H ->.
  destruct (p_u16 d) as [[pid r]|] eqn:E1; [|discriminate]. destruct (p_u16_inv _ _ _ E1) as [-> Hpid].
  destruct (p_props 8 r) as [[ps r2]|] eqn:E2; [|discriminate]. destruct (p_props_inv _ _ _ _ E2) as [-> [Hps HR]].
  destruct (p_filters (S (length r2)) r2) as [[|f fs]|] eqn:E3; try discriminate. injection H as <-.
  destruct (p_filters_inv _ _ _ E3) as [-> Hfs].
  split; [reflexivity|]. cbn [sbody_ok]. fin.
Qed.

Lemma d_suback_inv t fl d b : (t = 9 \/ t = 11) -> fl = 0 -> d_body t fl d = Some b -> d = e_body b /\ sbody_ok t fl b.
Proof.
  intros Ht -> H.
  assert (Hd : d_body t 0 d =
               match p_u16 d with
               | Some (pid, r) =>
                 match p_props t r with
                 | Some (props, c :: cs) => Some (BSuback pid props (map b2n (c :: cs)))
                 | _ => None end
               | None => None end).
  { destruct Ht as [-> | ->]; reflexivity. }
  rewrite Hd in H. clear Hd.
  destruct (p_u16 d) as [[pid r]|] eqn:E1; [|discriminate]. destruct (p_u16_inv _ _ _ E1) as [-> Hpid].
  destruct (p_props t r) as [[ps [|c cs]]|] eqn:E2; try discriminate. injection H as <-.
  destruct (p_props_inv _ _ _ _ E2) as [-> [Hps HR]].
  destruct (codes_of_bytes (c :: cs)) as [Ec Hc].
  change (b2n c :: map b2n cs) with (map b2n (c :: cs)). cbn [e_body]. rewrite <- Ec.
  split; [reflexivity|]. cbn [sbody_ok]. fin.
Qed.

Lemma d_unsubscribe_inv fl d b : d_body 10 fl d = Some b -> fl = 2 -> d = e_body b /\ sbody_ok 10 fl b.
Proof.
  cbn [d_body]. intros H ->.
  destruct (p_u16 d) as [[pid r]|] eqn:E1; [|discriminate]. destruct (p_u16_inv _ _ _ E1) as [-> Hpid].
  destruct (p_props 10 r) as [[ps r2]|] eqn:E2; [|discriminate]. destruct (p_props_inv _ _ _ _ E2) as [-> [Hps HR]].
  destruct (p_strings (S (length r2)) r2) as [[|f fs]|] eqn:E3; try discriminate. injection H as <-.
  destruct (p_strings_inv _ _ _ E3) as [-> Hfs].
  split; [reflexivity|]. cbn [sbody_ok]. fin.
Qed.

Lemma d_disc_inv t fl d b : (t = 14 \/ t = 15) -> fl = 0 -> d_body t fl d = Some b -> d = e_body b /\ sbody_ok t fl b.
Proof.
  intros Ht -> H.
  assert (Hd : d_body t 0 d =
               match d with
               | [] => Some (BDisc 0 0 [])
               | _ =>
                 match p_u8 d with
                 | Some (rc, []) => if t =? 14 then Some (BDisc 1 rc []) else None
                 | Some (rc, r) =>
                   match p_props t r with
                   | Some (props, []) => Some (BDisc 2 rc props)
                   | _ => None end
                 | None => None end
               end).
  { destruct Ht as [-> | ->]; reflexivity. }
  rewrite Hd in H. clear Hd.
  destruct d as [|x d].
  { injection H as <-. split; [reflexivity|]. cbn [sbody_ok]. fin. }
  destruct (p_u8 (x :: d)) as [[rc r]|] eqn:E1; [|discriminate]. destruct (p_u8_inv _ _ _ E1) as [E1' Hrc].
  rewrite E1'. destruct r as [|y r].
  { destruct (N.eqb_spec t 14) as [E14|E14]; [|discriminate]. injection H as <-.
    cbn [e_body N.eqb Pos.eqb]. split; [reflexivity|]. cbn [sbody_ok]. fin. }
  destruct (p_props t (y :: r)) as [[ps [|z r3]]|] eqn:E3; try discriminate. injection H as <-.
  destruct (p_props_inv _ _ _ _ E3) as [E3' [Hps HR]]. rewrite E3', app_nil_r.
  cbn [e_body N.eqb Pos.eqb]. split; [reflexivity|]. cbn [sbody_ok]. fin.
Qed.

Lemma bytes_eqb_true a b : bytes_eqb a b = true -> a = b.
Proof.
  unfold bytes_eqb. revert b. induction a as [|x a IH]; intros [|y b] H; cbn [list_eqb] in H; try discriminate; [reflexivity|].
  apply andb_prop in H as [H1 H2]. apply Byte.byte_dec_bl in H1. subst y. f_equal. apply IH. exact H2.
Qed.

Lemma d_connect_inv fl d b : d_body 1 fl d = Some b -> fl = 0 -> d = e_body b /\ sbody_ok 1 fl b.
Proof.
  cbn [d_body]. intros H ->.
  destruct (take 6 d) as [[name r]|] eqn:E0; [|discriminate]. destruct (take_inv _ _ _ _ E0) as [-> Hname].
  destruct (bytes_eqb name mqtt_name) eqn:En; [|discriminate]. cbn [negb] in H. apply bytes_eqb_true in En. subst name.
  destruct (p_u8 r) as [[ver r1]|] eqn:E1; [|discriminate]. destruct (p_u8_inv _ _ _ E1) as [-> _].
  destruct ver as [|p]; [discriminate H|].
  destruct p as [p|p|]; [|discriminate H|discriminate H].
  destruct p as [p|p|]; [discriminate H| |discriminate H].
  destruct p as [p|p|]; [discriminate H|discriminate H|].
  change (N.pos 5) with 5 in *.
  destruct (p_u8 r1) as [[flags r2]|] eqn:E2; [|discriminate]. destruct (p_u8_inv _ _ _ E2) as [-> Hfl].
  cbv zeta in H. unfold bit in H.
  destruct (N.testbit flags 0) eqn:B0; [discriminate|]. cbn [orb] in H.
  destruct (N.eqb_spec ((flags / 8) mod 4) 3) as [Hq|Hq]; [discriminate|]. cbn [orb] in H.
  destruct (negb (N.testbit flags 2) && (negb ((flags / 8) mod 4 =? 0) || N.testbit flags 5)) eqn:Ec; [discriminate|].
  destruct (p_u16 r2) as [[ka r3]|] eqn:E3; [|discriminate]. destruct (p_u16_inv _ _ _ E3) as [-> Hka].
  destruct (p_props 1 r3) as [[ps r4]|] eqn:E4; [|discriminate]. destruct (p_props_inv _ _ _ _ E4) as [-> [Hps HR]].
  destruct (p_str r4) as [[cid r5]|] eqn:E5; [|discriminate]. destruct (p_str_inv _ _ _ E5) as [-> Hcid].
  destruct (N.testbit flags 2) eqn:B2.
  - destruct (p_props 100 r5) as [[wp r6]|] eqn:E6; [|discriminate]. destruct (p_props_inv _ _ _ _ E6) as [-> [Hwps HwR]].
    destruct (p_str r6) as [[wt r7]|] eqn:E7; [|discriminate]. destruct (p_str_inv _ _ _ E7) as [-> Hwt].
    destruct (p_str r7) as [[wpl r8]|] eqn:E8; [|discriminate]. destruct (p_str_inv _ _ _ E8) as [-> Hwpl].
    destruct (p_opt (N.testbit flags 7) r8) as [[user r9]|] eqn:E9; [|discriminate].
    destruct (p_opt_inv _ _ _ _ E9) as [-> [Hus Hub]].
    destruct (p_opt (N.testbit flags 6) r9) as [[pass [|x r10]]|] eqn:E10; try discriminate.
    destruct (p_opt_inv _ _ _ _ E10) as [-> [Hpa Hpb]]. injection H as <-.
    cbn [e_body w_props w_topic w_payload]. rewrite app_nil_r, <- ?app_assoc.
    split; [reflexivity|]. cbn [sbody_ok]. split; [reflexivity|]. split; [reflexivity|].
    split; [|split; [exact B0|discriminate]].
    constructor; try assumption; cbn [w_props w_topic w_payload]; fin.
  - destruct (p_opt (N.testbit flags 7) r5) as [[user r9]|] eqn:E9; [|discriminate].
    destruct (p_opt_inv _ _ _ _ E9) as [-> [Hus Hub]].
    destruct (p_opt (N.testbit flags 6) r9) as [[pass [|x r10]]|] eqn:E10; try discriminate.
    destruct (p_opt_inv _ _ _ _ E10) as [-> [Hpa Hpb]]. injection H as <-.
    cbn [e_body app]. rewrite app_nil_r, <- ?app_assoc.
    split; [reflexivity|]. cbn [sbody_ok]. split; [reflexivity|]. split; [reflexivity|].
    cbn [negb andb] in Ec. apply orb_false_iff in Ec as [Ec1 Ec2]. apply negb_false_iff in Ec1. apply N.eqb_eq in Ec1.
    split; [|split; [exact B0|intros _; split; assumption]].
    constructor; try assumption; fin.
Qed.

(* ------------------------------------------------------------------ *)
Theorem d_body_inv t fl d b : t < 16 -> fl < 16 -> flags_ok t fl = true ->
  d_body t fl d = Some b -> d = e_body b /\ sbody_ok t fl b.
Proof.
  intros Ht Hfl Hok H.
  assert (Hc : t = 1 \/ t = 2 \/ t = 3 \/ (t = 4 \/ t = 5 \/ t = 6 \/ t = 7) \/ t = 8 \/ (t = 9 \/ t = 11)
               \/ t = 10 \/ (t = 12 \/ t = 13) \/ (t = 14 \/ t = 15) \/ t = 0) by lia.
  destruct Hc as [->|[->|[->|[Ht4|[->|[Ht9|[->|[Ht12|[Ht14| ->]]]]]]]]].
  - apply d_connect_inv; [exact H|]. apply N.eqb_eq. exact Hok.
  - apply d_connack_inv; [exact H|]. apply N.eqb_eq. exact Hok.
  - apply d_publish_inv; assumption.
  - apply d_ack_inv; [exact Ht4| |exact H].
    destruct Ht4 as [-> |[-> |[-> | ->]]]; apply N.eqb_eq; exact Hok.
  - apply d_subscribe_inv; [exact H|]. apply N.eqb_eq. exact Hok.
  - apply d_suback_inv; [exact Ht9| |exact H]. destruct Ht9 as [-> | ->]; apply N.eqb_eq; exact Hok.
  - apply d_unsubscribe_inv; [exact H|]. apply N.eqb_eq. exact Hok.
  - assert (Efl : fl = 0) by (destruct Ht12 as [-> | ->]; apply N.eqb_eq; exact Hok). subst fl.
    destruct Ht12 as [-> | ->]; cbn [d_body] in H; (destruct d; [|discriminate]); injection H as <-;
      (split; [reflexivity|]); cbn [sbody_ok]; fin.
  - apply d_disc_inv; [exact Ht14| |exact H]. destruct Ht14 as [-> | ->]; apply N.eqb_eq; exact Hok.
  - discriminate Hok.
Qed.

Theorem spec_decode_inv d f : spec_decode d = Some f -> d = spec_encode f /\ sframe_ok f.
Proof.
  unfold spec_decode. destruct d as [|b0 r]; [discriminate|]. cbv zeta.
  destruct (flags_ok (b2n b0 / 16) (b2n b0 mod 16)) eqn:Ef; [|discriminate]. cbn [negb].
  destruct (p_var r) as [[rl body]|] eqn:Ev; [|discriminate].
  destruct (len body =? rl) eqn:El; [|discriminate]. cbn [negb]. apply N.eqb_eq in El.
  destruct (d_body (b2n b0 / 16) (b2n b0 mod 16) body) as [b|] eqn:Eb; [|discriminate].
  intros H. injection H as <-.
  pose proof (b2n_lt b0) as Hb.
  destruct (p_var_inv _ _ _ Ev) as [-> Hrl].
  assert (Ht : b2n b0 / 16 < 16) by lia. assert (Hfl : b2n b0 mod 16 < 16) by lia.
  destruct (d_body_inv _ _ _ _ Ht Hfl Ef Eb) as [-> Hok].
  unfold spec_encode, sframe_ok. cbn [af_type af_flags af_body]. cbv zeta.
  split; [|split; [exact Hok|rewrite El; exact Hrl]].
  rewrite El. f_equal. rewrite <- (n2b_b2n b0) at 1. f_equal. lia.
Qed.

(* decoder and encoder of the specification model define the same language *)
Theorem spec_language d f : spec_decode d = Some f <-> (d = spec_encode f /\ sframe_ok f).
Proof.
  split; [apply spec_decode_inv|]. intros [-> H]. apply spec_roundtrip. exact H.
Qed.

(* ------------------------------------------------------------------ *)
(* valid frames are the frames of AcceptP *)
Lemma sframe_frame_ok f : sframe_ok f -> frame_ok f.
Proof.
  destruct f as [t fl b]. unfold sframe_ok, frame_ok. cbn [af_type af_flags af_body].
  intros [Hb _]. destruct b; cbn [sbody_ok] in Hb.
  - destruct Hb as [-> [-> [H _]]]. fin.
  - exact Hb.
  - exact Hb.
  - exact Hb.
  - destruct Hb as [-> [-> [H1 [H2 [H3 [_ H4]]]]]].
    split; [reflexivity|]. split; [reflexivity|]. split; [exact H1|]. split; [exact H2|]. split; [exact H3|].
    apply Forall_forall. intros x Hx. rewrite Forall_forall in H4. destruct (H4 x Hx) as [G1 [G2 _]].
    split; assumption.
  - destruct Hb as [H0 [-> [H1 [H2 [H3 [_ H4]]]]]]. fin.
  - destruct Hb as [-> [-> [H1 [H2 [H3 [_ H4]]]]]]. fin.
  - exact Hb.
  - destruct Hb as [Ht [-> [Hrc Hf]]]. split; [exact Ht|]. split; [reflexivity|]. split; [exact Hrc|].
    unfold disc_frame_ok. destruct form as [|[[]|[]|]]; try contradiction; try exact Hf.
Qed.
