(* Read-only programs do not race and compute what they compute alone. *)
From MQ Require Import Model.Conc.
From Coq Require Import List Arith Lia.
Import ListNotations.

Section P.
  Variable loc val out : Type.
  Variable loc_eqb : loc -> loc -> bool.
  Notation prog := (prog loc val out).
  Notation mstate := (mstate loc val out).

  Lemma nth_set_nth_same : forall (l : list prog) n p, (n < length l)%nat -> nth_error (set_nth loc val out n p l) n = Some p.
  Proof. induction l as [|x l IH]; intros n p H; [simpl in H; lia|]. destruct n; [reflexivity|]. simpl. apply IH. simpl in H. lia. Qed.

  Lemma nth_set_nth_other : forall (l : list prog) n m p, n <> m -> nth_error (set_nth loc val out n p l) m = nth_error l m.
  Proof.
    induction l as [|x l IH]; intros n m p H; [reflexivity|].
    destruct n, m; try reflexivity; try congruence. simpl. apply IH. congruence.
  Qed.

  Lemma set_nth_length : forall (l : list prog) n p, length (set_nth loc val out n p l) = length l.
  Proof. induction l as [|x l IH]; intros n p; [reflexivity|]. destruct n; simpl; [reflexivity|]. rewrite IH. reflexivity. Qed.

  Definition all_ro (s : mstate) : Prop := Forall (read_only loc val out) (threads loc val out s).
  Definition no_writes (tr : list (access loc)) : Prop := Forall (fun a => is_write loc a = false) tr.

  Lemma Forall_set_nth (P : prog -> Prop) : forall l n p, Forall P l -> P p -> Forall P (set_nth loc val out n p l).
  Proof.
    induction l as [|x l IH]; intros n p H Hp; [constructor|].
    inversion H; subst. destruct n; constructor; auto.
  Qed.

  (* one step of a machine whose threads are all read-only: memory unchanged,
     threads still read-only, no write recorded *)
  Lemma step_ro t (s : mstate) : all_ro s -> no_writes (trace loc val out s) ->
    let s' := step loc val out loc_eqb t s in
    all_ro s' /\ mem loc val out s' = mem loc val out s /\ no_writes (trace loc val out s').
  Proof.
    intros Hro Hnw. unfold step.
    destruct (nth_error (threads loc val out s) t) as [p|] eqn:E; [|auto].
    assert (Hp : read_only loc val out p).
    { unfold all_ro in Hro. rewrite Forall_forall in Hro. apply Hro. eapply nth_error_In; eauto. }
    destruct p as [o|l k|l v k]; [auto| |inversion Hp].
    inversion Hp as [|l' k' Hk]; subst. cbn. repeat split; auto.
    - apply Forall_set_nth; auto.
    - unfold no_writes. apply Forall_app. split; [exact Hnw|]. constructor; [reflexivity|constructor].
  Qed.

  Theorem run_ro : forall sched (s : mstate), all_ro s -> no_writes (trace loc val out s) ->
    let s' := run loc val out loc_eqb sched s in
    all_ro s' /\ mem loc val out s' = mem loc val out s /\ no_writes (trace loc val out s').
  Proof.
    induction sched as [|t sched IH]; intros s Hro Hnw; [cbn; auto|].
    cbn [run fold_left]. destruct (step_ro t s Hro Hnw) as [H1 [H2 H3]].
    destruct (IH _ H1 H3) as [G1 [G2 G3]]. fold (run loc val out loc_eqb sched (step loc val out loc_eqb t s)).
    repeat split; auto. rewrite <- H2. exact G2.
  Qed.

  Lemma no_writes_race_free tr : no_writes tr -> race_free loc loc_eqb tr.
  Proof.
    intros H a b Ha Hb. unfold no_writes in H. rewrite Forall_forall in H.
    unfold races. rewrite (H a Ha), (H b Hb). cbn. apply Bool.andb_false_r.
  Qed.

  (* a thread that has finished under the schedule finished with the output
     it computes alone on the initial store *)
  Lemma alone_step : forall fuel m (p : prog) o, alone loc val out fuel m p = Some o -> alone loc val out (S fuel) m p = Some o.
  Proof.
    induction fuel as [|fuel IH]; intros m p o H; [discriminate|].
    destruct p; cbn in *; auto.
  Qed.

  Definition outputs_agree (m0 : loc -> val) (init cur : list prog) : Prop :=
    forall t o, nth_error cur t = Some (Done loc val out o) ->
      exists p0 fuel, nth_error init t = Some p0 /\ alone loc val out fuel m0 p0 = Some o.

  (* the invariant: every current thread is a residual of its initial
     program along reads of the (unchanged) initial store *)
  Inductive residual (m0 : loc -> val) : prog -> prog -> Prop :=
  | res_refl p : residual m0 p p
  | res_rd p l k q : residual m0 p (Rd loc val out l k) -> q = k (m0 l) -> residual m0 p q.

  Lemma residual_alone m0 p q : residual m0 p q -> forall o fuel,
    alone loc val out fuel m0 q = Some o -> exists fuel', alone loc val out fuel' m0 p = Some o.
  Proof.
    induction 1 as [p|p l k q H IH E]; intros o fuel Ha; [eexists; eauto|].
    subst q. apply (IH o (S fuel)). cbn. exact Ha.
  Qed.

  Theorem outputs_sequential : forall sched (s : mstate), all_ro s ->
    forall init, Forall2 (residual (mem loc val out s)) init (threads loc val out s) ->
    Forall2 (residual (mem loc val out s)) init (threads loc val out (run loc val out loc_eqb sched s)).
  Proof.
    induction sched as [|t sched IH]; intros s Hro init HR; [exact HR|].
    cbn [run fold_left].
    assert (Hnw0 : True) by exact I.
    pose proof (step_ro t s Hro) as St.
    unfold step in *.
    destruct (nth_error (threads loc val out s) t) as [p|] eqn:E.
    2:{ apply IH; assumption. }
    assert (Hp : read_only loc val out p).
    { unfold all_ro in Hro. rewrite Forall_forall in Hro. apply Hro. eapply nth_error_In; eauto. }
    destruct p as [o|l k|l v k]; [apply IH; assumption| |inversion Hp].
    inversion Hp as [|l' k' Hk]; subst.
    set (s1 := {| threads := set_nth loc val out t (k (mem loc val out s l)) (threads loc val out s);
                  mem := mem loc val out s; trace := trace loc val out s ++ [ARead loc t l] |}).
    assert (Hro1 : all_ro s1) by (apply Forall_set_nth; auto).
    change (mem loc val out s) with (mem loc val out s1).
    apply IH; [exact Hro1|]. cbn [mem threads s1].
    (* update position t of the Forall2 *)
    clear -HR E. revert init t HR E.
    induction (threads loc val out s) as [|x cur IHc]; intros init t HR E; [destruct t; discriminate|].
    inversion HR as [|p0 x' init' cur' Hx Hrest]; subst.
    destruct t as [|t].
    - cbn in E. injection E as ->. cbn. constructor; [|exact Hrest].
      eapply res_rd; [exact Hx|reflexivity].
    - cbn in E. cbn. constructor; [exact Hx|]. apply IHc; assumption.
  Qed.

  Theorem read_only_schedules : forall progs m0 sched,
    Forall (read_only loc val out) progs ->
    let s := run loc val out loc_eqb sched {| threads := progs; mem := m0; trace := [] |} in
    race_free loc loc_eqb (trace loc val out s)
    /\ mem loc val out s = m0
    /\ forall t o, nth_error (threads loc val out s) t = Some (Done loc val out o) ->
         exists p0 fuel, nth_error progs t = Some p0 /\ alone loc val out fuel m0 p0 = Some o.
  Proof.
    intros progs m0 sched Hro.
    set (s0 := {| threads := progs; mem := m0; trace := [] |}).
    assert (Hro0 : all_ro s0) by exact Hro.
    assert (Hnw0 : no_writes (trace loc val out s0)) by constructor.
    destruct (run_ro sched s0 Hro0 Hnw0) as [H1 [H2 H3]].
    split; [apply no_writes_race_free; exact H3|]. split; [exact H2|].
    intros t o Ht.
    assert (HR : Forall2 (residual m0) progs (threads loc val out (run loc val out loc_eqb sched s0))).
    { apply (outputs_sequential sched s0 Hro0 progs). cbn.
      clear. induction progs; constructor; [apply res_refl|assumption]. }
    clear -HR Ht. revert t Ht. induction HR as [|p0 q init cur Hq Hrest IH]; intros t Ht; [destruct t; discriminate|].
    destruct t as [|t].
    - cbn in Ht. injection Ht as ->. destruct (residual_alone m0 p0 _ Hq o 1 eq_refl) as [fuel Hf].
      exists p0, fuel. split; [reflexivity|exact Hf].
    - cbn in Ht. destruct (IH t Ht) as [p1 [fuel [E1 E2]]]. exists p1, fuel. split; [exact E1|exact E2].
  Qed.
End P.
