(* The regenerated encoder and decoder of a wire type against each other: what
   the statement list of T.fill writes at a position, the statement list of
   T.UnmarshalBinary reads back from that position. *)
From MQ Require Import Model.WireIR Model.WireDecIR Proofs.FillP Proofs.WireIRP Proofs.WireDecIRP Proofs.WireP.
From Coq Require Import Lia Arith.
Local Open Scope nat_scope.

Lemma skipn_put buf i bs : i + List.length bs <= List.length buf ->
  skipn i (put buf i bs) = bs ++ skipn (i + List.length bs) buf.
Proof.
  intros H. unfold put. rewrite skipn_app.
  rewrite skipn_all2 by (rewrite firstn_length; lia).
  rewrite firstn_length. replace (i - Nat.min i (List.length buf)) with 0 by lia. reflexivity.
Qed.

(* given the model's round trip of the wire type over any suffix (Proofs/WireP.v) *)
Theorem wire_roundtrip_progs w v id buf i old v' :
  (forall rest, decode w old (encode w v ++ rest) = Ok v') ->
  i + List.length (encode w v) <= List.length buf ->
  exists b', run_fill (prog_fill w) (wenv_of w v id) buf i = Some (b', List.length (encode w v)) /\
             lift (value_of w) (run_wdec (dprog_of w) (wv_of w old) (skipn i b')) = Ok v'.
Proof.
  intros Hrt Hroom. unfold prog_fill. rewrite wire_fill_is_prog.
  destruct (wfill_ok w v buf i) as (b' & E & _ & Hput).
  exists b'. split; [exact E|]. rewrite (Hput Hroom), skipn_put by exact Hroom.
  rewrite wire_dec_is_prog. apply Hrt.
Qed.


(* the premise holds for every wire type inside MQTT's limits (Proofs/WireP.v) *)
Theorem wire_roundtrip_premises :
  (forall n old rest, (n < 256)%N -> decode U8 old (encode U8 (VN n) ++ rest) = Ok (VN n)) /\
  (forall n old rest, (n < 65536)%N -> decode U16 old (encode U16 (VN n) ++ rest) = Ok (VN n)) /\
  (forall n old rest, (n < 4294967296)%N -> decode U32 old (encode U32 (VN n) ++ rest) = Ok (VN n)) /\
  (forall b old rest, decode WBool old (encode WBool (VB b) ++ rest) = Ok (VB b)) /\
  (forall s old rest, (len s < 65536)%N -> s <> [] -> decode Bin old (encode Bin (VS s) ++ rest) = Ok (VS s)) /\
  (forall n old rest, (n < 268435456)%N -> decode Vb old (encode Vb (VN n) ++ rest) = Ok (VN n)).
Proof.
  repeat split; intros; cbn [decode encode valN valB valS].
  - rewrite dec_enc_u8 by assumption. reflexivity.
  - rewrite dec_enc_u16 by assumption. reflexivity.
  - rewrite dec_enc_u32 by assumption. reflexivity.
  - rewrite dec_enc_bool. reflexivity.
  - rewrite dec_enc_bin by assumption. destruct s; [congruence|reflexivity].
  - rewrite dec_enc_vb by assumption. reflexivity.
Qed.
