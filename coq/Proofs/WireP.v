(* Round trips of the wire types over an arbitrary suffix. *)
From MQ Require Import Model.Wire Proofs.BytesP Proofs.VbP.
From Coq Require Import ZArith Lia ZifyN ZifyNat ZifyBool.
Ltac Zify.zify_post_hook ::= Z.div_mod_to_equations.

Lemma dec_enc_u8 n rest : n < 256 -> dec_u8 (enc_u8 n ++ rest) = Ok n.
Proof. intros H. unfold enc_u8, dec_u8. cbn [app]. rewrite b2n_n2b_small by lia. reflexivity. Qed.

Lemma dec_enc_u16 n rest : n < 65536 -> dec_u16 (enc_u16 n ++ rest) = Ok n.
Proof. intros H. unfold enc_u16, dec_u16. cbn [app]. rewrite !b2n_n2b. f_equal. lia. Qed.

Lemma dec_enc_u32 n rest : n < 4294967296 -> dec_u32 (enc_u32 n ++ rest) = Ok n.
Proof. intros H. unfold enc_u32, dec_u32. cbn [app]. rewrite !b2n_n2b. f_equal. lia. Qed.

Lemma dec_enc_bool b rest : dec_bool (enc_bool b ++ rest) = Ok b.
Proof. destruct b; reflexivity. Qed.

Lemma len_0_nil' {A} (l : list A) : len l = 0 -> l = [].
Proof. destruct l; [reflexivity|]. rewrite len_cons. lia. Qed.

(* strings and binary data of at most 65 535 bytes; an empty value leaves
   the destination as it was *)
Lemma dec_enc_bin old s rest : len s < 65536 ->
  dec_bin old (enc_bin s ++ rest) = Ok (match s with [] => old | _ => s end).
Proof.
  intros H. unfold dec_bin, enc_bin. rewrite N.mod_small by lia. rewrite <- app_assoc.
  rewrite dec_enc_u16 by lia.
  assert (L : len (enc_u16 (len s) ++ s ++ rest) = 2 + len s + len rest).
  { rewrite !len_app. unfold enc_u16. rewrite !len_cons, len_nil. lia. }
  rewrite L. rewrite (proj2 (N.ltb_ge _ _)) by lia.
  destruct (N.eqb_spec (len s) 0) as [Hz|Hz].
  - apply len_0_nil' in Hz. subst s. reflexivity.
  - unfold slice. unfold enc_u16. cbn [app length].
    rewrite (proj2 (Nat.leb_le _ _)) by lia.
    rewrite (proj2 (Nat.leb_le _ _)) by (rewrite app_length; unfold len; lia).
    cbn [andb skipn]. f_equal.
    + replace (N.to_nat (len s) + 2 - 2)%nat with (length s) by (unfold len; lia).
      rewrite firstn_app, Nat.sub_diag, firstn_all. cbn [firstn]. rewrite app_nil_r.
      destruct s; [rewrite len_nil in Hz; lia|reflexivity].
Qed.

Lemma dec_enc_vb n rest : n < 268435456 -> dec_vb (enc_vb n ++ rest) = Ok n.
Proof. exact (dec_enc_vb n rest). Qed.

Lemma enc_bin_length s : length (enc_bin s) = (2 + length s)%nat.
Proof. unfold enc_bin, enc_u16. rewrite app_length. reflexivity. Qed.

(* user properties *)
Lemma dec_enc_userprop k v rest : len k < 65536 -> len v < 65536 ->
  dec_userprop (enc_bin k ++ enc_bin v ++ rest) = Ok (k, v).
Proof.
  intros Hk Hv. unfold dec_userprop. rewrite dec_enc_bin by assumption.
  assert (E : match k with [] => [] | _ :: _ => k end = k) by (destruct k; reflexivity). rewrite E.
  assert (Ld : length (enc_bin k ++ enc_bin v ++ rest) = (2 + length k + (2 + length v + length rest))%nat)
    by (rewrite !app_length, !enc_bin_length; lia).
  assert (Sk : skipn (length k + 2) (enc_bin k ++ enc_bin v ++ rest) = enc_bin v ++ rest).
  { rewrite skipn_app. rewrite skipn_all2 by (rewrite enc_bin_length; lia).
    rewrite enc_bin_length. replace (length k + 2 - (2 + length k))%nat with 0%nat by lia. reflexivity. }
  unfold slice. rewrite (proj2 (Nat.leb_le _ _)) by lia. rewrite Nat.leb_refl. cbn [andb].
  rewrite Sk. rewrite firstn_all2 by (rewrite Ld, !app_length, enc_bin_length; lia).
  rewrite dec_enc_bin by assumption. destruct v; reflexivity.
Qed.
