(* Dispatch on the first byte; header flags preserved (C16). *)
From MQ Require Import Model.Stream Proofs.BytesP Proofs.StreamP Proofs.DecP Proofs.FrameFieldP.
From Coq Require Import ZArith Lia ZifyN ZifyNat ZifyBool.
Ltac Zify.zify_post_hook ::= Z.div_mod_to_equations.

Definition all_bytes : list byte := map (fun i => n2b (N.of_nat i)) (seq 0 256).

Lemma in_all_bytes b : In b all_bytes.
Proof.
  unfold all_bytes. apply in_map_iff. exists (N.to_nat (b2n b)). split.
  - rewrite N2Nat.id. apply n2b_b2n.
  - apply in_seq. pose proof (b2n_lt b). lia.
Qed.

Lemma forall_bytes (P : byte -> bool) : forallb P all_bytes = true -> forall b, P b = true.
Proof. intros H b. rewrite forallb_forall in H. apply H. apply in_all_bytes. Qed.

(* DUP, QoS, RETAIN of a PUBLISH are the low four bits of the first byte *)
Lemma publish_flags_of_byte b :
  let fx := b2n b in
  has fx DUP = ((fx / 8) mod 2 =? 1) /\ has fx RETAIN = (fx mod 2 =? 1)
  /\ qos_of_fixed fx = (fx / 2) mod 4.
Proof.
  pose proof (forall_bytes
    (fun b => let fx := b2n b in
       Bool.eqb (has fx DUP) ((fx / 8) mod 2 =? 1) && Bool.eqb (has fx RETAIN) (fx mod 2 =? 1)
       && (qos_of_fixed fx =? (fx / 2) mod 4))) as H.
  specialize (H ltac:(vm_compute; reflexivity) b). cbn zeta in *.
  apply andb_prop in H as [H H3]. apply andb_prop in H as [H1 H2].
  apply eqb_prop in H1, H2. apply N.eqb_eq in H3. auto.
Qed.

Lemma fresh_pkt_kind b : fst (fresh_pkt b) = kind_of_nibble (b / 16).
Proof. unfold fresh_pkt. reflexivity. Qed.

Lemma enc_of_head k : k <> KUndefined ->
  exists rest, enc_of k = Some (EFill (M F_fixed) U8 :: rest).
Proof. destruct k; try congruence; intros _; eexists; reflexivity. Qed.

Lemma enc_first_byte k p bs : k <> KUndefined -> encode_pkt k p = Some bs ->
  exists t, bs = n2b (getN (M F_fixed) p) :: t.
Proof.
  intros Hk. unfold encode_pkt. destruct (enc_of_head k Hk) as [rest ->].
  cbn [run_enc run_enc1 getf_opt option_map encode enc_u8].
  destruct (run_enc rest p) as [t|]; cbn; [|discriminate].
  intros H; injection H as <-. eexists; reflexivity.
Qed.

Theorem dispatch b0 body k p :
  decode_frame b0 body = Some (Some (k, p), None) ->
  k = kind_of_nibble (b2n b0 / 16)
  /\ (k = KUndefined -> getS (M F_data) p = body)
  /\ (k <> KUndefined ->
      getN (M F_fixed) p = b2n b0 /\
      forall bs, encode_pkt k p = Some bs -> exists t, bs = b0 :: t).
Proof.
  unfold decode_frame. pose proof (fresh_pkt_kind (b2n b0)) as Hk.
  destruct (fresh_pkt (b2n b0)) as [k0 p0] eqn:Ef. cbn in Hk. intros H.
  assert (Hp0 : k0 <> KUndefined -> vals p0 F_fixed = VN (b2n b0)).
  { unfold fresh_pkt in Ef. injection Ef as Ek Ep. rewrite <- Ep, Ek. intros Hn.
    destruct k0; try congruence; reflexivity. }
  assert (Hp0u : k0 = KUndefined -> p0 = zero_pkt).
  { unfold fresh_pkt in Ef. injection Ef as Ek Ep. rewrite <- Ep, Ek. intros ->. reflexivity. }
  assert (Hfix : k = k0 /\ (k0 = KUndefined -> getS (M F_data) p = body) /\
                 (k0 <> KUndefined -> vals p F_fixed = VN (b2n b0))).
  { destruct body as [|x body'].
    - injection H as <- <-. split; [reflexivity|]. split; [|exact Hp0].
      intros E. rewrite (Hp0u E). reflexivity.
    - destruct (unmarshal k0 p0 (x :: body')) as [p1|e p1| |] eqn:U; try discriminate.
      injection H as <- <-. split; [reflexivity|]. split.
      + intros ->. unfold unmarshal, unmarshal_steps in U. cbn in U. injection U as <-. reflexivity.
      + intros Hn. rewrite (unmarshal_keeps_fixed _ _ _ _ U). exact (Hp0 Hn). }
  destruct Hfix as [-> [Hu Hf]]. split; [exact Hk|]. split; [exact Hu|].
  intros Hn. specialize (Hf Hn). unfold getN. cbn [getf]. rewrite Hf. cbn [valN].
  split; [reflexivity|]. intros bs E.
  destruct (enc_first_byte k0 p bs Hn E) as [t ->]. exists t.
  unfold getN. cbn [getf]. rewrite Hf. cbn [valN]. rewrite n2b_b2n. reflexivity.
Qed.
