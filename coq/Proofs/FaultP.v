(* Readers that fail or end inside a frame (C08). *)
From MQ Require Import Model.Stream Proofs.BytesP Proofs.VbP Proofs.StreamP Proofs.DecP Proofs.ReadP.
From Coq Require Import ZArith Lia ZifyN ZifyNat ZifyBool.
Ltac Zify.zify_post_hook ::= Z.div_mod_to_equations.

(* [quietlast p e]: the chunks of p report no error, except that the last
   one may report e together with its bytes *)
Fixpoint quietlast (p : script) (e : err) : bool :=
  match p with
  | [] => true
  | [Chunk _ x] => match x with None => true | Some x' => err_eqb x' e end
  | Chunk _ x :: p' => match x with None => quietlast p' e | Some _ => false end
  end.

(* what io.ReadFull turns the reader's failure into *)
Definition full_err (e : err) (got : list byte) : err :=
  match e with
  | EEOF => match got with [] => EEOF | _ => EUnexpectedEOF end
  | x => x
  end.

(* a failed transport keeps failing: after p, every Read yields (0, e) *)
Definition failing (p : script) (e : err) (tail : script) : script :=
  p ++ Chunk [] (Some e) :: tail.

Lemma err_eqb_eq a b : err_eqb a b = true -> a = b.
Proof.
  destruct a, b; cbn; intros H; try discriminate; try reflexivity;
    apply N.eqb_eq in H; subst; reflexivity.
Qed.

Lemma read_full_loop_short : forall p fuel need acc tr e tail,
  quietlast p e = true -> len acc + len (sbytes p) < need ->
  (script_size (failing p e tail) < fuel)%nat ->
  exists rest tr',
    read_full_loop fuel need acc (failing p e tail) tr =
    Some (acc ++ sbytes p, Some (full_err e (acc ++ sbytes p)), rest, tr').
Proof.
  unfold failing.
  induction p as [|[bs x] p IH]; intros fuel need acc tr e tail Hq Hlen Hfuel.
  - destruct fuel as [|fuel]; [cbn in Hfuel; lia|].
    cbn [app read_full_loop read_call sbytes]. rewrite len_nil in *.
    rewrite (proj2 (N.leb_le 0 _)) by lia. rewrite !app_nil_r.
    rewrite (proj2 (N.leb_gt need (len acc))) by lia.
    destruct e; do 2 eexists; reflexivity.
  - destruct fuel as [|fuel]; [cbn in Hfuel; lia|].
    cbn [sbytes] in Hlen. rewrite len_app in Hlen.
    cbn [app read_full_loop read_call].
    rewrite (proj2 (N.leb_le (len bs) (need - len acc))) by lia.
    rewrite (proj2 (N.leb_gt need (len (acc ++ bs)))) by (rewrite len_app; lia).
    cbn [script_size app] in Hfuel.
    destruct x as [x|].
    + (* the error comes with the last bytes of p *)
      destruct p as [|c p']; [|cbn in Hq; destruct c; discriminate].
      cbn in Hq. apply err_eqb_eq in Hq. subst x.
      cbn [sbytes]. rewrite app_nil_r.
      destruct e; do 2 eexists; reflexivity.
    + assert (Hq' : quietlast p e = true) by (destruct p; [reflexivity|exact Hq]).
      destruct (IH fuel need (acc ++ bs) (tr ++ [need - len acc]) e tail Hq') as [rest [tr' E]].
      * rewrite len_app. lia.
      * lia.
      * rewrite E. cbn [sbytes]. rewrite <- app_assoc. do 2 eexists; reflexivity.
Qed.

(* io.ReadFull on a reader that fails after fewer bytes than asked for
   reports the failure (io.EOF becomes ErrUnexpectedEOF after a partial
   read) and returns what was delivered *)
Lemma read_full_short p e tail need :
  quietlast p e = true -> len (sbytes p) < need ->
  exists rest tr,
    read_full need (failing p e tail) =
    Some (sbytes p, Some (full_err e (sbytes p)), rest, tr).
Proof.
  intros Hq Hlen. unfold read_full.
  destruct (read_full_loop_short p (S (script_size (failing p e tail))) need [] [] e tail Hq) as [rest [tr E]].
  - rewrite len_nil. lia.
  - lia.
  - exists rest, tr. exact E.
Qed.

Definition errors_is (got want : err) : bool := err_eqb got want.

(* the reported error is the reader's: errors.Is(err, E) for a transport
   error; io.EOF for a stream that ends before any byte *)
Lemma full_err_is e got :
  (forall t, e = EReader t -> errors_is (full_err e got) e = true) /\
  (e = EEOF -> got = [] -> errors_is (full_err e got) EEOF = true).
Proof.
  split.
  - intros t ->. cbn. apply N.eqb_refl.
  - intros -> ->. reflexivity.
Qed.

(* the stream fails before the first byte *)
Lemma read_packet_cut_0 p e tail : quietlast p e = true -> sbytes p = [] ->
  exists r, read_packet (failing p e tail) = RP r /\ r_pkt r = None /\
            r_err r = Some (full_err e []) /\ r_got r = [].
Proof.
  intros Hq Hb. unfold read_packet.
  destruct (read_full_short p e tail 1 Hq) as [rest [tr E]]; [rewrite Hb, len_nil; lia|].
  rewrite E, Hb. eexists. split; [reflexivity|]. cbn. auto.
Qed.

(* the header arrives, the stream fails inside the body *)
Lemma read_packet_cut_body b0 hdr got s p e tail :
  wf_vb hdr = true -> vb_value hdr <> 0 ->
  sbytes s = b0 :: hdr ++ got -> avail (1 + len hdr) s = true ->
  sdrop (1 + len hdr) s = failing p e tail -> quietlast p e = true ->
  len (sbytes p) < vb_value hdr ->
  exists r, read_packet s = RP r /\ r_pkt r = None /\
            r_err r = Some (full_err e (sbytes p)) /\ r_got r = b0 :: hdr ++ sbytes p.
Proof.
  intros W Hnz Hs Hav Hd Hq Hlen.
  assert (A1 : avail 1 s = true) by (apply (avail_mono s _ 1 Hav); lia).
  destruct (read_full_avail s 1) as [t1 E1]; [lia|exact A1|].
  unfold read_packet. rewrite E1, Hs, firstn_1_cons.
  destruct (vb_stream_wf hdr got (sdrop 1 s) W) as [t2 E2].
  { rewrite sbytes_sdrop by exact A1. rewrite Hs. reflexivity. }
  { apply avail_sdrop. exact Hav. }
  rewrite E2. rewrite sdrop_sdrop by exact A1.
  destruct (fresh_pkt (b2n b0)) as [k p0].
  rewrite (proj2 (N.eqb_neq _ _) Hnz).
  rewrite Hd.
  destruct (read_full_short p e tail (vb_value hdr) Hq Hlen) as [rest [t3 E3]].
  rewrite E3. eexists. split; [reflexivity|]. cbn. auto.
Qed.
