(* Readers that fail or end inside a frame (C08). *)
From MQ Require Import Model.Stream Proofs.BytesP Proofs.VbP Proofs.StreamP Proofs.DecP Proofs.ReadP.
From Coq Require Import ZArith Lia ZifyN ZifyNat ZifyBool.
Ltac Zify.zify_post_hook ::= Z.div_mod_to_equations.

(* [quietlast p e]: the chunks of p report no error, except that the last
   one may report e together with its bytes *)
Fixpoint quietlast (p : script) (e : err) : bool :=
  match p with
  | [] => true
  | [Chunk _ x] => match x with None => true | Some x' => err_eqb x' e end
  | Chunk _ x :: p' => match x with None => quietlast p' e | Some _ => false end
  end.

(* what io.ReadFull turns the reader's failure into *)
Definition full_err (e : err) (got : list byte) : err :=
  match e with
  | EEOF => match got with [] => EEOF | _ => EUnexpectedEOF end
  | x => x
  end.

(* a failed transport keeps failing: after p, every Read yields (0, e) *)
Definition failing (p : script) (e : err) (tail : script) : script :=
  p ++ Chunk [] (Some e) :: tail.

Lemma err_eqb_eq a b : err_eqb a b = true -> a = b.
Proof.
  destruct a, b; cbn; intros H; try discriminate; try reflexivity;
    apply N.eqb_eq in H; subst; reflexivity.
Qed.

Lemma read_full_loop_short : forall p fuel need acc tr e tail,
  quietlast p e = true -> len acc + len (sbytes p) < need ->
  (script_size (failing p e tail) < fuel)%nat ->
  exists rest tr',
    read_full_loop fuel need acc (failing p e tail) tr =
    Some (acc ++ sbytes p, Some (full_err e (acc ++ sbytes p)), rest, tr').
Proof.
  unfold failing.
  induction p as [|[bs x] p IH]; intros fuel need acc tr e tail Hq Hlen Hfuel.
  - destruct fuel as [|fuel]; [cbn in Hfuel; lia|].
    cbn [app read_full_loop read_call sbytes]. rewrite len_nil in *.
    rewrite (proj2 (N.leb_le 0 _)) by lia. rewrite !app_nil_r.
    rewrite (proj2 (N.leb_gt need (len acc))) by lia.
    destruct e; do 2 eexists; reflexivity.
  - destruct fuel as [|fuel]; [cbn in Hfuel; lia|].
    cbn [sbytes] in Hlen. rewrite len_app in Hlen.
    cbn [app read_full_loop read_call].
    rewrite (proj2 (N.leb_le (len bs) (need - len acc))) by lia.
    rewrite (proj2 (N.leb_gt need (len (acc ++ bs)))) by (rewrite len_app; lia).
    cbn [script_size app] in Hfuel.
    destruct x as [x|].
    + (* the error comes with the last bytes of p *)
      destruct p as [|c p']; [|cbn in Hq; destruct c; discriminate].
      cbn in Hq. apply err_eqb_eq in Hq. subst x.
      cbn [sbytes]. rewrite app_nil_r.
      destruct e; do 2 eexists; reflexivity.
    + assert (Hq' : quietlast p e = true) by (destruct p; [reflexivity|exact Hq]).
      destruct (IH fuel need (acc ++ bs) (tr ++ [need - len acc]) e tail Hq') as [rest [tr' E]].
      * rewrite len_app. lia.
      * lia.
      * rewrite E. cbn [sbytes]. rewrite <- app_assoc. do 2 eexists; reflexivity.
Qed.

(* io.ReadFull on a reader that fails after fewer bytes than asked for
   reports the failure (io.EOF becomes ErrUnexpectedEOF after a partial
   read) and returns what was delivered *)
Lemma read_full_short p e tail need :
  quietlast p e = true -> len (sbytes p) < need ->
  exists rest tr,
    read_full need (failing p e tail) =
    Some (sbytes p, Some (full_err e (sbytes p)), rest, tr).
Proof.
  intros Hq Hlen. unfold read_full.
  destruct (read_full_loop_short p (S (script_size (failing p e tail))) need [] [] e tail Hq) as [rest [tr E]].
  - rewrite len_nil. lia.
  - lia.
  - exists rest, tr. exact E.
Qed.

Definition errors_is (got want : err) : bool := err_eqb got want.

(* the reported error is the reader's: errors.Is(err, E) for a transport
   error; io.EOF for a stream that ends before any byte *)
Lemma full_err_is e got :
  (forall t, e = EReader t -> errors_is (full_err e got) e = true) /\
  (e = EEOF -> got = [] -> errors_is (full_err e got) EEOF = true).
Proof.
  split.
  - intros t ->. cbn. apply N.eqb_refl.
  - intros -> ->. reflexivity.
Qed.

(* the stream fails before the first byte *)
Lemma read_packet_cut_0 p e tail : quietlast p e = true -> sbytes p = [] ->
  exists r, read_packet (failing p e tail) = RP r /\ r_pkt r = None /\
            r_err r = Some (full_err e []) /\ r_got r = [].
Proof.
  intros Hq Hb. unfold read_packet.
  destruct (read_full_short p e tail 1 Hq) as [rest [tr E]]; [rewrite Hb, len_nil; lia|].
  rewrite E, Hb. eexists. split; [reflexivity|]. cbn. auto.
Qed.

(* the header arrives, the stream fails inside the body *)
Lemma read_packet_cut_body b0 hdr got s p e tail :
  wf_vb hdr = true -> vb_value hdr <> 0 ->
  sbytes s = b0 :: hdr ++ got -> avail (1 + len hdr) s = true ->
  sdrop (1 + len hdr) s = failing p e tail -> quietlast p e = true ->
  len (sbytes p) < vb_value hdr ->
  exists r, read_packet s = RP r /\ r_pkt r = None /\
            r_err r = Some (full_err e (sbytes p)) /\ r_got r = b0 :: hdr ++ sbytes p.
Proof.
  intros W Hnz Hs Hav Hd Hq Hlen.
  assert (A1 : avail 1 s = true) by (apply (avail_mono s _ 1 Hav); lia).
  destruct (read_full_avail s 1) as [t1 E1]; [lia|exact A1|].
  unfold read_packet. rewrite E1, Hs, firstn_1_cons.
  destruct (vb_stream_wf hdr got (sdrop 1 s) W) as [t2 E2].
  { rewrite sbytes_sdrop by exact A1. rewrite Hs. reflexivity. }
  { apply avail_sdrop. exact Hav. }
  rewrite E2. rewrite sdrop_sdrop by exact A1.
  destruct (fresh_pkt (b2n b0)) as [k p0].
  rewrite (proj2 (N.eqb_neq _ _) Hnz).
  rewrite Hd.
  destruct (read_full_short p e tail (vb_value hdr) Hq Hlen) as [rest [t3 E3]].
  rewrite E3. eexists. split; [reflexivity|]. cbn. auto.
Qed.

(* ------------------------------------------------------------------ *)
(* the stream ends or fails inside the remaining-length field: after the
   first byte and 0..3 continuation bytes *)
Lemma vb_stream_loop_cut : forall cs fuel mult value s tr got rest p e tail,
  forallb cont cs = true -> (length cs < fuel)%nat ->
  mult * 128 ^ N.of_nat (length cs) <= 128 * 128 * 128 * 128 ->
  sbytes s = cs ++ rest -> avail (len cs) s = true ->
  sdrop (len cs) s = failing p e tail -> quietlast p e = true -> sbytes p = [] ->
  exists r tr',
    vb_stream_loop fuel mult value s tr got = Some (Err (full_err e []), r, tr', got ++ cs).
Proof.
  induction cs as [|c cs IH]; intros fuel mult value s tr got rest p e tail Hc Hfuel Hm Hs Hav Hd Hq Hp.
  - destruct fuel as [|fuel]; [cbn in Hfuel; lia|].
    rewrite len_nil, sdrop_0 in Hd. subst s. cbn [vb_stream_loop].
    destruct (read_full_short p e tail 1 Hq) as [r [t E]]; [rewrite Hp, len_nil; lia|].
    rewrite E, Hp. exists r. eexists. rewrite !app_nil_r. reflexivity.
  - destruct fuel as [|fuel]; [cbn in Hfuel; lia|].
    cbn [forallb] in Hc. apply andb_prop in Hc as [Hc1 Hcs]. unfold cont in Hc1. apply N.leb_le in Hc1.
    rewrite len_cons in Hav, Hd.
    assert (A1 : avail 1 s = true) by (apply (avail_mono s _ 1 Hav); lia).
    destruct (read_full_avail s 1) as [t E]; [lia|exact A1|].
    cbn [vb_stream_loop]. rewrite E, Hs. cbn [app]. rewrite firstn_1_cons.
    cbn [length] in Hm. rewrite Nat2N.inj_succ, N.pow_succ_r' in Hm.
    assert (Hpow : 1 <= 128 ^ N.of_nat (length cs)).
    { assert (H0 : 128 ^ N.of_nat (length cs) <> 0) by (apply N.pow_nonzero; discriminate). lia. }
    rewrite (proj2 (N.ltb_ge _ _)) by nia.
    rewrite (proj2 (N.ltb_ge _ _)) by lia.
    destruct (IH fuel (mult * 128) (value + b2n c mod 128 * mult) (sdrop 1 s) (tr ++ t) (got ++ [c]) rest p e tail)
      as [r [tr' E']]; try assumption.
    + cbn [length] in Hfuel. lia.
    + nia.
    + rewrite sbytes_sdrop by exact A1. rewrite Hs. reflexivity.
    + apply avail_sdrop. exact Hav.
    + rewrite sdrop_sdrop by exact A1. exact Hd.
    + exists r, tr'. rewrite E'. rewrite <- app_assoc. reflexivity.
Qed.

Lemma read_packet_cut_header b0 cs rest s p e tail :
  forallb cont cs = true -> (length cs <= 3)%nat ->
  sbytes s = b0 :: cs ++ rest -> avail (1 + len cs) s = true ->
  sdrop (1 + len cs) s = failing p e tail -> quietlast p e = true -> sbytes p = [] ->
  exists r, read_packet s = RP r /\ r_pkt r = None /\
            r_err r = Some (full_err e []) /\ r_got r = b0 :: cs.
Proof.
  intros Hc Hl Hs Hav Hd Hq Hp.
  assert (A1 : avail 1 s = true) by (apply (avail_mono s _ 1 Hav); lia).
  destruct (read_full_avail s 1) as [t1 E1]; [lia|exact A1|].
  unfold read_packet. rewrite E1, Hs, firstn_1_cons.
  unfold vb_stream.
  destruct (vb_stream_loop_cut cs 6 1 0 (sdrop 1 s) [] [] rest p e tail Hc) as [r [t2 E2]]; try assumption.
  - lia.
  - assert (H : 128 ^ N.of_nat (length cs) <= 128 ^ 3) by (apply N.pow_le_mono_r; lia). lia.
  - rewrite sbytes_sdrop by exact A1. rewrite Hs. reflexivity.
  - apply avail_sdrop. exact Hav.
  - rewrite sdrop_sdrop by exact A1. exact Hd.
  - rewrite E2. eexists. split; [reflexivity|]. cbn. auto.
Qed.

(* ------------------------------------------------------------------ *)
(* a packet comes only out of a whole frame *)
Fixpoint vbshape (hdr : list byte) : Prop :=
  match hdr with
  | [] => False
  | [a] => cont a = false
  | a :: r => cont a = true /\ vbshape r
  end.

Lemma vb_stream_loop_ok : forall fuel mult value s tr got v s' tr' g',
  vb_stream_loop fuel mult value s tr got = Some (Ok v, s', tr', g') ->
  exists hdr, g' = got ++ hdr /\ vbshape hdr /\ v = value + mult * vb_value hdr
              /\ mult * 128 ^ N.of_nat (length hdr - 1) <= 128 * 128 * 128.
Proof.
  induction fuel as [|fuel IH]; intros mult value s tr got v s' tr' g' H; [discriminate|].
  cbn [vb_stream_loop] in H.
  destruct (read_full 1 s) as [[[[bs e] s1] t]|] eqn:E; [|discriminate].
  destruct e as [e|]; [discriminate|].
  destruct (read_full_1 _ _ _ _ E) as [b ->].
  destruct (128 * 128 * 128 <? mult) eqn:Em; [discriminate|]. apply N.ltb_ge in Em.
  destruct (b2n b <? 128) eqn:Eb.
  - injection H as <- <- <- <-. exists [b]. split; [reflexivity|]. split.
    + cbn [vbshape]. unfold cont. apply N.leb_gt. apply N.ltb_lt. exact Eb.
    + cbn [vb_value length Nat.sub]. apply N.ltb_lt in Eb. split; [rewrite N.mod_small by lia; lia|].
      cbn. lia.
  - destruct (IH _ _ _ _ _ _ _ _ _ H) as [hdr [Eg [Hsh [Ev Hm]]]].
    exists (b :: hdr). split; [rewrite Eg, <- app_assoc; reflexivity|]. split; [|split].
    + destruct hdr as [|x r]; [contradiction|]. cbn [vbshape]. split; [|exact Hsh].
      unfold cont. apply N.leb_le. apply N.ltb_ge. exact Eb.
    + rewrite Ev. cbn [vb_value]. lia.
    + destruct hdr as [|x r]; [contradiction|]. cbn [length Nat.sub] in *. rewrite Nat.sub_0_r in *.
      rewrite Nat2N.inj_succ, N.pow_succ_r'. lia.
Qed.

Lemma vbshape_wf hdr : vbshape hdr -> (length hdr <= 4)%nat -> wf_vb hdr = true.
Proof.
  intros H Hl. destruct hdr as [|a [|b [|c [|d [|e t]]]]]; cbn [vbshape wf_vb] in *; try contradiction.
  - rewrite H. reflexivity.
  - destruct H as [-> ->]. reflexivity.
  - destruct H as [-> [-> ->]]. reflexivity.
  - destruct H as [-> [-> [-> ->]]]. reflexivity.
  - cbn [length] in Hl. lia.
Qed.

Lemma vb_stream_ok s v s' tr g : vb_stream s = Some (Ok v, s', tr, g) -> wf_vb g = true /\ vb_value g = v.
Proof.
  unfold vb_stream. intros H. destruct (vb_stream_loop_ok _ _ _ _ _ _ _ _ _ _ H) as [hdr [Eg [Hsh [Ev Hm]]]].
  cbn [app] in Eg. subst g. split; [|lia]. apply vbshape_wf; [exact Hsh|].
  destruct (Nat.le_gt_cases (length hdr) 4) as [Hle|Hgt]; [exact Hle|exfalso].
  assert (H4 : 128 ^ 4 <= 128 ^ N.of_nat (length hdr - 1)) by (apply N.pow_le_mono_r; lia).
  assert (E4 : 128 ^ 4 = 268435456) by reflexivity. lia.
Qed.

Lemma read_packet_got_frame s r : read_packet s = RP r -> r_pkt r <> None ->
  exists b0 hdr body, r_got r = b0 :: hdr ++ body /\ wf_vb hdr = true /\ len body = vb_value hdr.
Proof.
  unfold read_packet. intros H Hp.
  destruct (read_full 1 s) as [[[[bs e] s1] t1]|] eqn:E1; [|discriminate].
  destruct e as [e|]; [injection H as <-; contradiction Hp; reflexivity|].
  destruct (read_full_1 _ _ _ _ E1) as [b0 ->].
  destruct (vb_stream s1) as [[[[o s2] t2] g2]|] eqn:E2; [|discriminate].
  destruct o as [rl|e|]; [|injection H as <-; contradiction Hp; reflexivity|discriminate].
  destruct (vb_stream_ok _ _ _ _ _ E2) as [W V].
  destruct (fresh_pkt (b2n b0)) as [k p0].
  destruct (rl =? 0) eqn:Erl.
  - injection H as <-. cbn [r_got]. exists b0, g2, []. apply N.eqb_eq in Erl.
    split; [rewrite app_nil_r; reflexivity|]. split; [exact W|]. rewrite V, Erl. reflexivity.
  - destruct (read_full rl s2) as [[[[body e] s3] t3]|] eqn:E3; [|discriminate].
    destruct e as [e|]; [injection H as <-; contradiction Hp; reflexivity|].
    assert (Hlen : len body = rl).
    { unfold read_full in E3. apply read_full_loop_len in E3; [|rewrite len_nil; lia]. apply E3. reflexivity. }
    destruct (unmarshal k p0 body); try discriminate.
    + injection H as <-. cbn [r_got]. exists b0, g2, body. split; [reflexivity|]. split; [exact W|]. rewrite V. exact Hlen.
    + injection H as <-. contradiction Hp. reflexivity.
Qed.
