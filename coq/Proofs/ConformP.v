(* Everything the encoders write is a frame the specification's strict
   decoder accepts, and its reading is what the accessors return. *)
From MQ Require Import Model.Codec Model.Api Model.Stream Proofs.BytesP Proofs.VbP Proofs.WireP Proofs.DecP
     Proofs.EncP Proofs.PropsP Proofs.RoundP Proofs.DomP Proofs.SpecWireP Proofs.AcceptP Proofs.SpecRoundP
     Spec.Mqtt5 Spec.Glue.
From Coq Require Import ZArith Lia ZifyN ZifyNat ZifyBool.
Ltac Zify.zify_post_hook ::= Z.div_mod_to_equations.

(* ------------------------------------------------------------------ *)
(* the abstract properties a section of the library carries *)
Definition to_pval (w : wt) (id : N) (v : value) : pval :=
  match w with
  | U8 => VByte (valN v)
  | WBool => VByte (if valB v then 1 else 0)
  | U16 => VTwo (valN v)
  | U32 => VFour (valN v)
  | Vb => VVar (valN v)
  | Bin | Raw => match prop_type id with Some PTBin => VBinary (valS v) | _ => VStr (valS v) end
  end.

Definition props_of (m : list entry) (p : pkt) : list aprop :=
  map (fun e => {| ap_id := eid e; ap_val := to_pval (ewt e) (eid e) (getf (eref e) p) |})
      (filter (present p) m).
Definition ups_props (ups : list (list byte * list byte)) : list aprop :=
  map (fun kv => {| ap_id := 38; ap_val := VPair (fst kv) (snd kv) |}) ups.
Definition sids_props (l : list N) : list aprop := map (fun n => {| ap_id := 11; ap_val := VVar n |}) l.

Definition section_props (m : list entry) (will : bool) (sm : submode) (p : pkt) : list aprop :=
  props_of m p ++ ups_props (if will then wuprops p else uprops p)
  ++ match sm with AddSub => sids_props (subids p) | _ => [] end.

Lemma e_pval_to_pval w id v : w <> Raw -> valid_val w v -> e_pval (to_pval w id v) = encode w v.
Proof.
  intros Hw Hv. destruct w; try congruence; cbn [to_pval e_pval encode valid_val] in *; try reflexivity.
  - destruct (valB v); reflexivity.
  - destruct (prop_type id) as [[]|]; cbn [e_pval]; apply e_str_enc_bin; exact Hv.
  - apply e_var_enc_vb. exact Hv.
Qed.

Lemma field_bytes_props m p : Forall (entry_ok p) m -> field_bytes p m = e_props_raw (props_of m p).
Proof.
  induction 1 as [|e m He _ IH]; [reflexivity|]. unfold field_bytes, props_of in *. cbn [map concat filter].
  unfold present at 1. unfold enc_prop at 1.
  destruct (is_zero (ewt e) (getf (eref e) p)); cbn [negb]; [exact IH|].
  cbn [map]. rewrite e_props_raw_cons. unfold e_prop at 1. cbn [ap_id ap_val].
  rewrite (e_pval_to_pval _ _ _ (eo_wt _ _ He) (eo_val _ _ He)). rewrite IH. reflexivity.
Qed.

Lemma ups_bytes_props ups : Forall up_ok ups -> ups_bytes ups = e_props_raw (ups_props ups).
Proof.
  induction 1 as [|kv ups [Hk [Hlk Hlv]] _ IH]; [reflexivity|]. unfold ups_bytes, ups_props in *.
  cbn [map concat]. rewrite e_props_raw_cons. rewrite (enc_userprop_bytes kv Hk). unfold e_prop. cbn [ap_id ap_val e_pval].
  rewrite (e_str_enc_bin _ Hlk), (e_str_enc_bin _ Hlv), IH. reflexivity.
Qed.

Lemma sids_bytes_props l : Forall sid_ok l -> sids_bytes l = e_props_raw (sids_props l).
Proof.
  induction 1 as [|n l [Hn0 Hn] _ IH]; [reflexivity|]. unfold sids_bytes, sids_props in *.
  cbn [map concat]. rewrite e_props_raw_cons. unfold enc_prop at 1. cbn [is_zero valN].
  rewrite (proj2 (N.eqb_neq _ _)) by lia. unfold e_prop. cbn [ap_id ap_val e_pval encode valN].
  rewrite (e_var_enc_vb n Hn), IH. reflexivity.
Qed.

Lemma e_props_raw_app a b : e_props_raw (a ++ b) = e_props_raw a ++ e_props_raw b.
Proof. unfold e_props_raw. rewrite map_app, concat_app. reflexivity. Qed.

Lemma section_bytes_props (m : list entry) (will : bool) (sm : submode) (p : pkt) :
  Forall (entry_ok p) m -> Forall up_ok (if will then wuprops p else uprops p) ->
  match sm with AddSub => Forall sid_ok (subids p) | _ => True end ->
  section_bytes m will sm p = e_props_raw (section_props m will sm p).
Proof.
  intros Hm Hu Hs. unfold section_bytes, section_props. rewrite !e_props_raw_app.
  rewrite (field_bytes_props m p Hm), (ups_bytes_props _ Hu).
  destruct sm; try reflexivity. rewrite (sids_bytes_props _ Hs). reflexivity.
Qed.

(* the property length written is the specification's *)
Lemma section_e_props (m : list entry) (will : bool) (sm : submode) (p : pkt) :
  Forall (entry_ok p) m -> Forall up_ok (if will then wuprops p else uprops p) ->
  match sm with AddSub => Forall sid_ok (subids p) | _ => True end ->
  len (section_bytes m will sm p) < 268435456 ->
  enc_vb (len (section_bytes m will sm p)) ++ section_bytes m will sm p = e_props (section_props m will sm p).
Proof.
  intros Hm Hu Hs Hl. unfold e_props. cbv zeta. rewrite <- (section_bytes_props m will sm p Hm Hu Hs).
  rewrite (e_var_enc_vb _ Hl). reflexivity.
Qed.

(* ------------------------------------------------------------------ *)
(* the library's property maps against tables 2-4, the other way round *)
Definition entry_spec_ok (where_ : N) (e : entry) : bool :=
  allowed where_ (eid e)
  && match ewt e, prop_type (eid e) with
     | U8, Some PTByte | WBool, Some PTByte | U16, Some PTTwo | U32, Some PTFour | Vb, Some PTVar
     | Bin, Some PTStr | Bin, Some PTBin => true
     | _, _ => false
     end
  && (negb (is_bool_prop (eid e)) || match ewt e with WBool => true | _ => false end)
  && negb (eid e =? 38) && negb (eid e =? 11).

Lemma props_of_sprop where_ m p : forallb (entry_spec_ok where_) m = true -> Forall (entry_ok p) m ->
  Forall (sprop_ok where_) (props_of m p).
Proof.
  intros Hb Hok. unfold props_of. apply Forall_forall. intros ap Hin.
  apply in_map_iff in Hin as [e [<- Hin]]. apply filter_In in Hin as [Hin _].
  rewrite forallb_forall in Hb. specialize (Hb e Hin). rewrite Forall_forall in Hok. specialize (Hok e Hin).
  unfold entry_spec_ok in Hb.
  apply andb_prop in Hb as [Hb H5]. apply andb_prop in Hb as [Hb H4]. apply andb_prop in Hb as [Hb H3].
  apply andb_prop in Hb as [H1 H2].
  apply negb_true_iff in H5. apply N.eqb_neq in H5.
  unfold sprop_ok. cbn [ap_id ap_val].
  pose proof (eo_val _ _ Hok) as Hv. pose proof (eo_wt _ _ Hok) as Hw.
  split; [exact H1|]. split; [|split; [|split]].
  - destruct (ewt e), (prop_type (eid e)) as [[]|] eqn:Et; try discriminate H2; cbn [to_pval pval_type];
      rewrite ?Et; reflexivity.
  - destruct (ewt e); try congruence; cbn [to_pval pval_ok valid_val] in *; try exact Hv.
    + destruct (valB (getf (eref e) p)); reflexivity.
    + destruct (prop_type (eid e)) as [[]|]; exact Hv.
  - intros Hbool. rewrite Hbool in H3. cbn [negb orb] in H3.
    destruct (ewt e); try discriminate H3. cbn [to_pval pnumval]. destruct (valB _); lia.
  - intros E. contradiction.
Qed.

Definition where_ups_ok (where_ : N) : Prop := allowed where_ 38 = true.

Lemma ups_props_sprop where_ ups : where_ups_ok where_ -> Forall up_ok ups -> Forall (sprop_ok where_) (ups_props ups).
Proof.
  intros Hw Hok. unfold ups_props. apply Forall_forall. intros ap Hin.
  apply in_map_iff in Hin as [kv [<- Hin]]. rewrite Forall_forall in Hok. destruct (Hok kv Hin) as [_ [Hk Hv]].
  unfold sprop_ok. cbn [ap_id ap_val pval_type pval_ok pnumval].
  split; [exact Hw|]. split; [reflexivity|]. split; [split; assumption|]. split; [discriminate|discriminate].
Qed.

Lemma sids_props_sprop l : Forall sid_ok l -> Forall (sprop_ok 3) (sids_props l).
Proof.
  intros Hok. unfold sids_props. apply Forall_forall. intros ap Hin.
  apply in_map_iff in Hin as [n [<- Hin]]. rewrite Forall_forall in Hok. destruct (Hok n Hin) as [Hn0 Hn].
  unfold sprop_ok. cbn [ap_id ap_val pval_type pval_ok pnumval].
  split; [reflexivity|]. split; [reflexivity|]. split; [exact Hn|]. split; [discriminate|intros _; lia].
Qed.

Lemma filter_nonrep_ups where_ ups : filter (nonrep where_) (ups_props ups) = [].
Proof. induction ups as [|kv ups IH]; [reflexivity|]. cbn [ups_props map filter]. exact IH. Qed.
Lemma filter_nonrep_sids l : filter (nonrep 3) (sids_props l) = [].
Proof. induction l as [|n l IH]; [reflexivity|]. cbn [sids_props map filter]. exact IH. Qed.

Lemma props_of_ids m p : NoDup (map eid m) -> NoDup (map ap_id (props_of m p)).
Proof.
  intros H. unfold props_of. rewrite map_map. cbn [ap_id].
  induction m as [|e m IH]; [constructor|]. cbn [map filter] in *. apply NoDup_cons_iff in H as [Hni Hnd].
  destruct (present p e); [|apply IH; exact Hnd]. cbn [map]. constructor; [|apply IH; exact Hnd].
  intros Hin. apply Hni. apply in_map_iff in Hin as [e' [E Hin]]. apply filter_In in Hin as [Hin _].
  apply in_map_iff. exists e'. split; assumption.
Qed.

Lemma nodup_map_filter {A B} (f : A -> B) (P : A -> bool) l : NoDup (map f l) -> NoDup (map f (filter P l)).
Proof.
  induction l as [|x l IH]; intros H; [constructor|]. cbn [map filter] in *. apply NoDup_cons_iff in H as [Hni Hnd].
  destruct (P x); [|apply IH; exact Hnd]. cbn [map]. constructor; [|apply IH; exact Hnd].
  intros Hin. apply Hni. apply in_map_iff in Hin as [y [E Hy]]. apply filter_In in Hy as [Hy _].
  apply in_map_iff. exists y. split; assumption.
Qed.

Lemma section_sprops where_ (m : list entry) (will : bool) (sm : submode) (p : pkt) :
  forallb (entry_spec_ok where_) m = true -> nodupb_N (map eid m) = true -> where_ups_ok where_ ->
  (sm = AddSub -> where_ = 3) -> sm <> SubOpt ->
  Forall (entry_ok p) m -> Forall up_ok (if will then wuprops p else uprops p) ->
  match sm with AddSub => Forall sid_ok (subids p) | _ => True end ->
  sprops_ok where_ (section_props m will sm p).
Proof.
  intros Hb Hnd Hw Hsm Hso Hm Hu Hs. unfold section_props. split.
  - apply Forall_app. split; [apply props_of_sprop; assumption|]. apply Forall_app. split.
    + apply ups_props_sprop; assumption.
    + destruct sm; try constructor. rewrite (Hsm eq_refl). apply sids_props_sprop. exact Hs.
  - rewrite !filter_app, filter_nonrep_ups.
    assert (E : filter (nonrep where_) match sm with AddSub => sids_props (subids p) | _ => [] end = []).
    { destruct sm; try reflexivity. rewrite (Hsm eq_refl). apply filter_nonrep_sids. }
    rewrite E, !app_nil_r. apply nodup_map_filter. apply props_of_ids. apply nodupb_N_ok. exact Hnd.
Qed.

(* ------------------------------------------------------------------ *)
(* the specification's reading of a section equals the accessors *)
Lemma getp_app id a b : getp id (a ++ b) = match getp id a with Some x => Some x | None => getp id b end.
Proof.
  induction a as [|x a IH]; [reflexivity|]. cbn [app getp]. destruct (ap_id x =? id); [reflexivity|exact IH].
Qed.

Lemma getp_ups id ups : id <> 38 -> getp id (ups_props ups) = None.
Proof.
  intros H. induction ups as [|kv ups IH]; [reflexivity|]. cbn [ups_props map getp ap_id].
  rewrite (proj2 (N.eqb_neq 38 id)) by (intros E; apply H; symmetry; exact E). exact IH.
Qed.
Lemma getp_sids id l : id <> 11 -> getp id (sids_props l) = None.
Proof.
  intros H. induction l as [|n l IH]; [reflexivity|]. cbn [sids_props map getp ap_id].
  rewrite (proj2 (N.eqb_neq 11 id)) by (intros E; apply H; symmetry; exact E). exact IH.
Qed.

Lemma getp_props_of m p id r w : NoDup (map eid m) -> In (id, r, w) m ->
  getp id (props_of m p) = if is_zero w (getf r p) then None else Some (to_pval w id (getf r p)).
Proof.
  induction m as [|e m IH]; intros Hnd Hin; [contradiction|].
  cbn [map] in Hnd. apply NoDup_cons_iff in Hnd as [Hni Hnd].
  unfold props_of in *. cbn [filter]. destruct Hin as [->|Hin].
  - unfold present at 1. cbn [ewt eref snd fst]. destruct (is_zero w (getf r p)) eqn:Ez; cbn [negb].
    + assert (G : forall l, ~ In id (map eid l) ->
                  getp id (map (fun e => {| ap_id := eid e; ap_val := to_pval (ewt e) (eid e) (getf (eref e) p) |})
                               (filter (present p) l)) = None).
      { induction l as [|x l IHl]; intros Hx; [reflexivity|]. cbn [filter map In] in *.
        assert (H1 : eid x <> id) by (intros E; apply Hx; left; exact E).
        assert (H2 : ~ In id (map eid l)) by (intros E; apply Hx; right; exact E).
        destruct (present p x); [cbn [map getp ap_id]; rewrite (proj2 (N.eqb_neq (eid x) id) H1)|]; apply IHl; exact H2. }
      apply G. exact Hni.
    + cbn [map getp ap_id eid fst]. rewrite N.eqb_refl. reflexivity.
  - assert (Hne : eid e <> id).
    { intros E. apply Hni. rewrite E. apply in_map_iff. exists (id, r, w). split; [reflexivity|exact Hin]. }
    destruct (present p e); [cbn [map getp ap_id]; rewrite (proj2 (N.eqb_neq _ _) Hne)|]; apply IH; assumption.
Qed.

Lemma getp_section (m : list entry) (will : bool) (sm : submode) (p : pkt) id r w :
  NoDup (map eid m) -> In (id, r, w) m -> id <> 38 -> id <> 11 ->
  getp id (section_props m will sm p) = if is_zero w (getf r p) then None else Some (to_pval w id (getf r p)).
Proof.
  intros Hnd Hin H38 H11. unfold section_props. rewrite !getp_app, (getp_props_of m p id r w Hnd Hin).
  destruct (is_zero w (getf r p)); [|reflexivity]. rewrite (getp_ups id _ H38).
  destruct sm; try reflexivity. apply getp_sids. exact H11.
Qed.

Section SpecObs.
  Variable m : list entry.
  Variable will : bool.
  Variable sm : submode.
  Variable p : pkt.
  Hypothesis Hnd : NoDup (map eid m).
  Let ps := section_props m will sm p.

  Lemma sobs_num id r w : In (id, r, w) m -> id <> 38 -> id <> 11 ->
    match w with U8 | U16 | U32 | Vb => True | _ => False end -> pnum id ps = ON (valN (getf r p)).
  Proof.
    intros Hin H38 H11 Hw. unfold pnum, ps. rewrite (getp_section m will sm p id r w Hnd Hin H38 H11).
    destruct w; try contradiction; cbn [is_zero]; destruct (N.eqb_spec (valN (getf r p)) 0) as [E|E];
      cbn [to_pval]; rewrite ?E; reflexivity.
  Qed.

  Lemma sobs_bool id r : In (id, r, WBool) m -> id <> 38 -> id <> 11 -> pbool id ps = OB (valB (getf r p)).
  Proof.
    intros Hin H38 H11. unfold pbool, ps. rewrite (getp_section m will sm p id r WBool Hnd Hin H38 H11).
    cbn [is_zero to_pval]. destruct (valB (getf r p)); reflexivity.
  Qed.

  Lemma sobs_str id r : In (id, r, Bin) m -> id <> 38 -> id <> 11 -> pstr id ps = OS (valS (getf r p)).
  Proof.
    intros Hin H38 H11. unfold pstr, ps. rewrite (getp_section m will sm p id r Bin Hnd Hin H38 H11).
    cbn [is_zero to_pval]. destruct (valS (getf r p)) eqn:E; [reflexivity|].
    destruct (prop_type id) as [[]|]; reflexivity.
  Qed.

  Lemma ppairs_props_of : ppairs (props_of m p) = [].
  Proof.
    unfold props_of. induction (filter (present p) m) as [|e l IH]; [reflexivity|]. cbn [map ppairs ap_val].
    destruct (ewt e); cbn [to_pval]; try exact IH; destruct (prop_type (eid e)) as [[]|]; exact IH.
  Qed.

  Lemma ppairs_app a b : ppairs (a ++ b) = ppairs a ++ ppairs b.
  Proof. induction a as [|x a IH]; [reflexivity|]. cbn [app ppairs]. destruct (ap_val x); rewrite IH; reflexivity. Qed.

  Lemma ppairs_ups ups : ppairs (ups_props ups) = map (fun kv => OL [OS (fst kv); OS (snd kv)]) ups.
  Proof. induction ups as [|kv ups IH]; [reflexivity|]. cbn [ups_props map ppairs ap_val]. fold (ups_props ups). rewrite IH. reflexivity. Qed.

  Lemma ppairs_sids l : ppairs (sids_props l) = [].
  Proof. induction l as [|n l IH]; [reflexivity|]. cbn [sids_props map ppairs ap_val]. exact IH. Qed.

  Lemma sobs_pairs : OL (ppairs ps) = oprops (if will then wuprops p else uprops p).
  Proof.
    unfold ps, section_props. rewrite !ppairs_app, ppairs_props_of, ppairs_ups.
    destruct sm; rewrite ?ppairs_sids, ?app_nil_r; reflexivity.
  Qed.
End SpecObs.

Lemma pvars_app id a b : pvars id (a ++ b) = pvars id a ++ pvars id b.
Proof.
  induction a as [|x a IH]; [reflexivity|]. cbn [app pvars]. destruct (ap_val x); try exact IH.
  destruct (ap_id x =? id); [cbn [app]; rewrite IH; reflexivity|exact IH].
Qed.

Lemma pvars_props_of m p : forallb (fun e => negb (eid e =? 11)) m = true -> pvars 11 (props_of m p) = [].
Proof.
  intros H. unfold props_of. induction m as [|e l IH]; [reflexivity|]. cbn [forallb] in H. apply andb_prop in H as [H1 H2].
  cbn [filter]. destruct (present p e); [|apply IH; exact H2]. cbn [map pvars ap_val ap_id].
  destruct (to_pval (ewt e) (eid e) (getf (eref e) p)); try (apply IH; exact H2).
  apply negb_true_iff in H1. rewrite H1. apply IH. exact H2.
Qed.
Lemma pvars_ups ups : pvars 11 (ups_props ups) = [].
Proof. induction ups as [|kv ups IH]; [reflexivity|]. cbn [ups_props map pvars ap_val]. exact IH. Qed.
Lemma pvars_sids l : pvars 11 (sids_props l) = map ON l.
Proof. induction l as [|n l IH]; [reflexivity|]. cbn [sids_props map pvars ap_val ap_id N.eqb Pos.eqb]. fold (sids_props l). rewrite IH. reflexivity. Qed.

(* ------------------------------------------------------------------ *)
Definition conforms (k : kind) (p : pkt) : Prop :=
  exists bs f, encode_pkt k p = Some bs /\ spec_decode bs = Some f
    /\ af_type f = kind_nibble k /\ frame_obs f = snapshot k p.

Lemma conforms_intro k p b body f :
  k <> KPingReq -> k <> KPingResp -> body_of k = Some b -> run_enc b p = Some body ->
  getN (M F_fixed) p = af_type f * 16 + af_flags f -> body = e_body (af_body f) ->
  sframe_ok f -> af_type f = kind_nibble k -> frame_obs f = snapshot k p -> conforms k p.
Proof.
  intros H1 H2 Hb Hr Hfx Hbody Hok Ht Hobs.
  exists (n2b (getN (M F_fixed) p) :: enc_vb (len body) ++ body), f.
  split; [apply (encode_pkt_body k p b); assumption|]. split; [|split; assumption].
  rewrite <- (spec_roundtrip f Hok). f_equal. unfold spec_encode. cbv zeta. rewrite <- Hbody, Hfx.
  destruct Hok as [_ Hl]. rewrite <- Hbody in Hl. rewrite (e_var_enc_vb _ Hl). reflexivity.
Qed.

Lemma remaining_len k p b body : body_of k = Some b -> run_enc b p = Some body -> remaining_ok k p ->
  len body < 268435456.
Proof. intros Hb Hr H. unfold remaining_ok in H. rewrite Hb, Hr in H. exact H. Qed.

(* ------------------------------------------------------------------ *)
(* CONNACK *)
Lemma connack_spec_ok : forallb (entry_spec_ok 2) connack_map = true.
Proof. vm_compute. reflexivity. Qed.

Theorem conform_connack p : dom_connack p -> getN (M F_flags) p <= 1 -> conforms KConnAck p.
Proof.
  intros [Hfx Hf Hups Hsize] Hflags.
  assert (Hfl : valid_val U8 (getf (M F_flags) p)) by (inversion Hf; assumption).
  assert (Hrc : valid_val U8 (getf (M F_reasonCode) p))
    by (inversion Hf as [|? ? _ Hf1]; inversion Hf1; assumption).
  assert (Hm : fields_valid (refs_of connack_map) p)
    by (inversion Hf as [|? ? _ Hf1]; inversion Hf1; assumption).
  assert (Hok : Forall (entry_ok p) connack_map)
    by (apply (entries_ok false); [apply connack_map_ok|discriminate|exact Hm]).
  set (P := section_bytes connack_map false NoSub p).
  assert (EP : run_enc connack_props p = Some P)
    by (apply (run_enc_section connack_map false NoSub p Hok); discriminate).
  set (body := encode U8 (getf (M F_flags) p) ++ encode U8 (getf (M F_reasonCode) p) ++ enc_vb (len P) ++ P).
  assert (Ebody : run_enc connack_vh p = Some body).
  { unfold connack_vh. change (?a :: ?b :: ?c :: connack_props) with ([a; b; c] ++ connack_props).
    rewrite run_enc_app, EP. cbn [run_enc]. rewrite run_enc1_vblen, EP.
    cbn [run_enc1 getf_opt option_map opt_app]. unfold body. rewrite ?app_nil_r, <- ?app_assoc. reflexivity. }
  pose proof (remaining_len KConnAck p connack_vh body eq_refl Ebody Hsize) as Hlb.
  assert (HP : len P < 268435456) by (unfold body in Hlb; rewrite !len_app in Hlb; lia).
  set (ps := section_props connack_map false NoSub p).
  assert (Hps : sprops_ok 2 ps).
  { apply section_sprops; try assumption; try reflexivity; try discriminate; try exact I;
      first [exact connack_spec_ok | apply connack_map_ok]. }
  assert (EPs : enc_vb (len P) ++ P = e_props ps) by (apply section_e_props; try assumption; exact I).
  assert (EPr : P = e_props_raw ps) by (apply section_bytes_props; try assumption; exact I).
  set (f := {| af_type := 2; af_flags := 0;
               af_body := BConnack (getN (M F_flags) p) (getN (M F_reasonCode) p) ps |}).
  apply (conforms_intro KConnAck p connack_vh body f); try discriminate; try reflexivity; try assumption.
  - unfold body, f. cbn [af_body e_body]. rewrite <- EPs. reflexivity.
  - split.
    + unfold f. cbn [af_type af_flags af_body sbody_ok]. rewrite <- EPr.
      split; [reflexivity|]. split; [reflexivity|]. split; [exact Hflags|]. split; [exact Hrc|]. split; [exact Hps|exact HP].
    + unfold f. cbn [af_body e_body]. rewrite <- EPs. exact Hlb.
  - assert (Hnd : NoDup (map eid connack_map)) by (apply nodupb_N_ok; apply connack_map_ok).
    unfold f, frame_obs. cbn [af_body]. unfold snapshot, oN, oB, oS, getN, getB, getS.
    fold (getN (M F_flags) p). rewrite (has_bit0 _ Hflags).
    unfold ps.
    rewrite (sobs_num connack_map false NoSub p Hnd 17 (M F_sessionExpiryInterval) U32) by (cbn; tauto || discriminate || exact I).
    rewrite (sobs_num connack_map false NoSub p Hnd 33 (M F_receiveMax) U16) by (cbn; tauto || discriminate || exact I).
    rewrite (sobs_num connack_map false NoSub p Hnd 36 (M F_maxQoS) U8) by (cbn; tauto || discriminate || exact I).
    rewrite (sobs_bool connack_map false NoSub p Hnd 37 (M F_retainAvailable)) by (cbn; tauto || discriminate).
    rewrite (sobs_num connack_map false NoSub p Hnd 39 (M F_maxPacketSize) U32) by (cbn; tauto || discriminate || exact I).
    rewrite (sobs_str connack_map false NoSub p Hnd 18 (M F_assignedClientID)) by (cbn; tauto || discriminate).
    rewrite (sobs_num connack_map false NoSub p Hnd 34 (M F_topicAliasMax) U16) by (cbn; tauto || discriminate || exact I).
    rewrite (sobs_str connack_map false NoSub p Hnd 31 (M F_reasonString)) by (cbn; tauto || discriminate).
    rewrite (sobs_bool connack_map false NoSub p Hnd 40 (M F_wildcardSubAvailable)) by (cbn; tauto || discriminate).
    rewrite (sobs_bool connack_map false NoSub p Hnd 41 (M F_subIdentifiersAvailable)) by (cbn; tauto || discriminate).
    rewrite (sobs_bool connack_map false NoSub p Hnd 42 (M F_sharedSubAvailable)) by (cbn; tauto || discriminate).
    rewrite (sobs_num connack_map false NoSub p Hnd 19 (M F_serverKeepAlive) U16) by (cbn; tauto || discriminate || exact I).
    rewrite (sobs_str connack_map false NoSub p Hnd 26 (M F_responseInformation)) by (cbn; tauto || discriminate).
    rewrite (sobs_str connack_map false NoSub p Hnd 28 (M F_serverReference)) by (cbn; tauto || discriminate).
    rewrite (sobs_str connack_map false NoSub p Hnd 21 (M F_authMethod)) by (cbn; tauto || discriminate).
    rewrite (sobs_str connack_map false NoSub p Hnd 22 (M F_authData)) by (cbn; tauto || discriminate).
    rewrite (sobs_pairs connack_map false NoSub p). reflexivity.
Qed.

(* ------------------------------------------------------------------ *)
(* PUBACK, PUBREC, PUBREL, PUBCOMP *)
Lemma ack_spec_ok t : In t [4; 5; 6; 7; 9; 11] -> forallb (entry_spec_ok t) ack_map = true /\ where_ups_ok t.
Proof. intros H. cbn [In] in H. destruct H as [<-|[<-|[<-|[<-|[<-|[<-|[]]]]]]]; split; vm_compute; reflexivity. Qed.

Lemma section_props_nil (m : list entry) (will : bool) (sm : submode) (p : pkt) :
  Forall (entry_ok p) m -> Forall up_ok (if will then wuprops p else uprops p) ->
  match sm with AddSub => Forall sid_ok (subids p) | _ => True end ->
  section_bytes m will sm p = [] -> section_props m will sm p = [].
Proof.
  intros Hm Hu Hs E. rewrite (section_bytes_props m will sm p Hm Hu Hs) in E.
  pose proof (props_count (section_props m will sm p)) as H. rewrite E in H. cbn [length] in H.
  destruct (section_props m will sm p); [reflexivity|cbn [length] in H; lia].
Qed.

Theorem conform_ack k p : is_ack k = true -> dom_ack k p -> conforms k p.
Proof.
  intros Hk [Hfx Hf Hups Hsize].
  assert (Hpid : valid_val U16 (getf (M F_packetID) p)) by (inversion Hf; assumption).
  assert (Hrc : valid_val U8 (getf (M F_reasonCode) p))
    by (inversion Hf as [|? ? _ Hf1]; inversion Hf1; assumption).
  assert (Hm : fields_valid (refs_of ack_map) p)
    by (inversion Hf as [|? ? _ Hf1]; inversion Hf1 as [|? ? _ Hf2]; exact Hf2).
  assert (Hok : Forall (entry_ok p) ack_map)
    by (apply (entries_ok false); [apply ack_map_ok|discriminate|exact Hm]).
  set (P := section_bytes ack_map false NoSub p).
  assert (EP : run_enc ack_props p = Some P)
    by (apply (run_enc_section ack_map false NoSub p Hok); discriminate).
  assert (Hbody : body_of k = Some ack_vh) by (destruct k; try discriminate; reflexivity).
  assert (Hk1 : k <> KPingReq) by (intros ->; discriminate).
  assert (Hk2 : k <> KPingResp) by (intros ->; discriminate).
  set (pid := getf (M F_packetID) p) in *. set (rc := getf (M F_reasonCode) p) in *.
  assert (Evh : run_enc ack_vh p =
    Some (encode U16 pid ++ match P with
                            | [] => if valN rc =? 0 then [] else enc_u8 (valN rc)
                            | _ => encode U8 rc ++ enc_vb (len P) ++ P end)).
  { unfold ack_vh. cbn [run_enc]. rewrite run_enc1_ifempty, EP. destruct P.
    - cbn [run_enc run_enc1 getf_opt option_map opt_app]. rewrite ?app_nil_r. reflexivity.
    - rewrite run_enc_app, EP. cbn [run_enc]. rewrite run_enc1_vblen, EP.
      cbn [run_enc1 getf_opt option_map opt_app]. rewrite ?app_nil_r, <- ?app_assoc. reflexivity. }
  set (ps := section_props ack_map false NoSub p).
  assert (Ht : In (kind_nibble k) [4; 5; 6; 7; 9; 11]) by (destruct k; try discriminate Hk; cbn; tauto).
  destruct (ack_spec_ok _ Ht) as [Hspec Hwu].
  assert (Hps : sprops_ok (kind_nibble k) ps).
  { apply section_sprops; try assumption; try reflexivity; try discriminate; try exact I; try apply ack_map_ok. }
  assert (EPr : P = e_props_raw ps) by (apply section_bytes_props; try assumption; exact I).
  assert (Htf : kind_nibble k * 16 + (ctor_fixed k - kind_nibble k * 16) = ctor_fixed k)
    by (destruct k; try discriminate Hk; reflexivity).
  assert (Hfl6 : ctor_fixed k - kind_nibble k * 16 = (if kind_nibble k =? 6 then 2 else 0))
    by (destruct k; try discriminate Hk; reflexivity).
  assert (Ht4 : kind_nibble k = 4 \/ kind_nibble k = 5 \/ kind_nibble k = 6 \/ kind_nibble k = 7)
    by (destruct k; try discriminate Hk; cbn; tauto).
  assert (Hnd : NoDup (map eid ack_map)) by (apply nodupb_N_ok; apply ack_map_ok).
  assert (Hobs : forall form, frame_obs {| af_type := kind_nibble k; af_flags := ctor_fixed k - kind_nibble k * 16;
                                           af_body := BAck (valN pid) form (valN rc) ps |} = snapshot k p).
  { intros form. unfold frame_obs. cbn [af_body]. unfold ps.
    rewrite (sobs_str ack_map false NoSub p Hnd 31 (M F_reasonString)) by (cbn; tauto || discriminate).
    rewrite (sobs_pairs ack_map false NoSub p).
    destruct k; try discriminate Hk; reflexivity. }
  assert (HPcase : P = [] \/ P <> []) by (destruct P; [left; reflexivity|right; discriminate]).
  destruct HPcase as [EPv|HPne].
  - rewrite EPv in Evh.
    assert (Eps : ps = []) by (apply section_props_nil; try assumption; exact I).
    destruct (valN rc =? 0) eqn:Erc.
    + rewrite app_nil_r in Evh. apply N.eqb_eq in Erc.
      apply (conforms_intro k p ack_vh (encode U16 pid)
               {| af_type := kind_nibble k; af_flags := ctor_fixed k - kind_nibble k * 16;
                  af_body := BAck (valN pid) 2 (valN rc) ps |}); try assumption; cbn [af_type af_flags af_body].
      * rewrite Htf. exact Hfx.
      * cbn [e_body N.eqb Pos.eqb]. rewrite app_nil_r. reflexivity.
      * split; cbn [af_type af_flags af_body sbody_ok e_body N.eqb Pos.eqb].
        -- split; [exact Ht4|]. split; [exact Hfl6|]. split; [exact Hpid|]. split; [exact Hrc|].
           cbn [ack_frame_ok]. split; assumption.
        -- rewrite app_nil_r. cbn. reflexivity.
      * reflexivity.
      * apply Hobs.
    + apply N.eqb_neq in Erc.
      apply (conforms_intro k p ack_vh (encode U16 pid ++ enc_u8 (valN rc))
               {| af_type := kind_nibble k; af_flags := ctor_fixed k - kind_nibble k * 16;
                  af_body := BAck (valN pid) 3 (valN rc) ps |}); try assumption; cbn [af_type af_flags af_body].
      * rewrite Htf. exact Hfx.
      * cbn [e_body N.eqb Pos.eqb]. rewrite app_nil_r. reflexivity.
      * split; cbn [af_type af_flags af_body sbody_ok e_body N.eqb Pos.eqb].
        -- split; [exact Ht4|]. split; [exact Hfl6|]. split; [exact Hpid|]. split; [exact Hrc|].
           cbn [ack_frame_ok]. exact Eps.
        -- rewrite app_nil_r. cbn. reflexivity.
      * reflexivity.
      * apply Hobs.
  - assert (Evh' : run_enc ack_vh p = Some (encode U16 pid ++ encode U8 rc ++ enc_vb (len P) ++ P)).
    { rewrite Evh. destruct P; [congruence|reflexivity]. }
    pose proof (remaining_len k p ack_vh _ Hbody Evh' Hsize) as Hlb.
    assert (HP : len P < 268435456) by (rewrite !len_app in Hlb; lia).
    assert (EPs : enc_vb (len P) ++ P = e_props ps) by (apply section_e_props; try assumption; exact I).
    apply (conforms_intro k p ack_vh (encode U16 pid ++ encode U8 rc ++ enc_vb (len P) ++ P)
             {| af_type := kind_nibble k; af_flags := ctor_fixed k - kind_nibble k * 16;
                af_body := BAck (valN pid) 4 (valN rc) ps |}); try assumption; cbn [af_type af_flags af_body].
    + rewrite Htf. exact Hfx.
    + cbn [e_body N.eqb Pos.eqb]. rewrite <- EPs. reflexivity.
    + split; cbn [af_type af_flags af_body sbody_ok e_body N.eqb Pos.eqb].
      * split; [exact Ht4|]. split; [exact Hfl6|]. split; [exact Hpid|]. split; [exact Hrc|].
        cbn [ack_frame_ok]. rewrite <- EPr. split; assumption.
      * rewrite <- EPs. exact Hlb.
    + reflexivity.
    + apply Hobs.
Qed.

(* ------------------------------------------------------------------ *)
(* DISCONNECT, AUTH *)
Section ReasonConform.
  Variable k : kind.
  Variable m : list entry.
  Let props := section_encs m false NoSub.
  Let rbody := [EFill (M F_reasonCode) U8; EVbLen props] ++ props.
  Let vh := [EIfEmpty props [EIf (CIsZero (M F_reasonCode)) [] rbody] rbody].
  Hypothesis Hbody : body_of k = Some vh.
  Hypothesis Hk : kind_nibble k = 14 \/ kind_nibble k = 15.
  Hypothesis Hmap : forallb (entry_okb false) m = true /\ nodupb_N (map eid m) = true /\ nodup_refs m = true.
  Hypothesis Hspec : forallb (entry_spec_ok (kind_nibble k)) m = true.
  Hypothesis Hwu : where_ups_ok (kind_nibble k).

  Lemma reason_conform p :
    getN (M F_fixed) p = kind_nibble k * 16 ->
    fields_valid ((M F_reasonCode, U8) :: refs_of m) p -> Forall up_ok (uprops p) -> remaining_ok k p ->
    exists form,
      let f := {| af_type := kind_nibble k; af_flags := 0;
                  af_body := BDisc form (getN (M F_reasonCode) p) (section_props m false NoSub p) |} in
      exists body, run_enc vh p = Some body /\ body = e_body (af_body f) /\ sframe_ok f.
  Proof.
    intros Hfx Hf Hups Hsize.
    destruct Hmap as [Hm1 [Hm2 Hm3]].
    assert (Hrc : valid_val U8 (getf (M F_reasonCode) p)) by (inversion Hf; assumption).
    assert (Hm : fields_valid (refs_of m) p) by (inversion Hf; assumption).
    assert (Hok : Forall (entry_ok p) m) by (apply (entries_ok false); [exact Hm1|discriminate|exact Hm]).
    set (P := section_bytes m false NoSub p).
    assert (EP : run_enc props p = Some P) by (apply (run_enc_section m false NoSub p Hok); discriminate).
    set (rc := getf (M F_reasonCode) p) in *.
    assert (Erb : run_enc rbody p = Some (encode U8 rc ++ enc_vb (len P) ++ P)).
    { unfold rbody. rewrite run_enc_app, EP. cbn [run_enc]. rewrite run_enc1_vblen, EP.
      cbn [run_enc1 getf_opt option_map opt_app]. rewrite ?app_nil_r, <- ?app_assoc. reflexivity. }
    assert (Evh : run_enc vh p =
      Some (match P with
            | [] => if valN rc =? 0 then [] else encode U8 rc ++ enc_vb (len P) ++ P
            | _ => encode U8 rc ++ enc_vb (len P) ++ P end)).
    { unfold vh. cbn [run_enc]. rewrite run_enc1_ifempty, EP.
      assert (E1 : run_enc [EIf (CIsZero (M F_reasonCode)) [] rbody] p =
                   Some (if valN rc =? 0 then [] else encode U8 rc ++ enc_vb (len P) ++ P)).
      { cbn [run_enc]. rewrite run_enc1_if, Erb. cbn [eval_cond].
        change (getN (M F_reasonCode) p) with (valN rc).
        destruct (valN rc =? 0); cbn [run_enc opt_app]; rewrite ?app_nil_r; reflexivity. }
      destruct P; [rewrite E1|rewrite Erb]; cbn [opt_app]; rewrite ?app_nil_r; reflexivity. }
    set (ps := section_props m false NoSub p).
    assert (Hps : sprops_ok (kind_nibble k) ps).
    { apply section_sprops; try assumption; try reflexivity; try discriminate; try exact I. }
    assert (EPr : P = e_props_raw ps) by (apply section_bytes_props; try assumption; exact I).
    assert (Hcase : (P = [] /\ valN rc = 0) \/ run_enc vh p = Some (encode U8 rc ++ enc_vb (len P) ++ P)).
    { rewrite Evh. destruct P; [|right; reflexivity]. destruct (N.eqb_spec (valN rc) 0) as [E|E];
        [left; split; [reflexivity|exact E]|right; reflexivity]. }
    destruct Hcase as [[EPv Erc]|Evh'].
    - assert (Eps : ps = []) by (apply section_props_nil; try assumption; exact I).
      exists 0. cbv zeta. exists []. rewrite Evh, EPv, Erc. cbn [N.eqb].
      split; [reflexivity|]. split; [reflexivity|]. split; [|cbn; reflexivity].
      cbn [af_type af_flags af_body sbody_ok]. split; [exact Hk|]. split; [reflexivity|].
      split; [exact Hrc|]. split; [exact Erc|exact Eps].
    - pose proof (remaining_len k p vh _ Hbody Evh' Hsize) as Hlb.
      assert (HP : len P < 268435456) by (rewrite !len_app in Hlb; lia).
      assert (EPs : enc_vb (len P) ++ P = e_props ps) by (apply section_e_props; try assumption; exact I).
      exists 2. cbv zeta. exists (encode U8 rc ++ enc_vb (len P) ++ P).
      split; [exact Evh'|]. split; [cbn [af_body e_body N.eqb Pos.eqb]; rewrite <- EPs; reflexivity|].
      split; [|cbn [af_body e_body N.eqb Pos.eqb]; rewrite <- EPs; exact Hlb].
      cbn [af_type af_flags af_body sbody_ok]. split; [exact Hk|]. split; [reflexivity|].
      split; [exact Hrc|]. rewrite <- EPr. split; assumption.
  Qed.
End ReasonConform.

Lemma disconnect_spec_ok : forallb (entry_spec_ok 14) disconnect_map = true.
Proof. vm_compute. reflexivity. Qed.

Theorem conform_disconnect p : dom_disconnect p -> conforms KDisconnect p.
Proof.
  intros [Hfx Hf Hups Hsize].
  destruct (reason_conform KDisconnect disconnect_map eq_refl (or_introl eq_refl) disconnect_map_ok disconnect_spec_ok eq_refl
              p Hfx Hf Hups Hsize) as [form [body [Evh [Eb Hok]]]].
  apply (conforms_intro KDisconnect p disconnect_vh body
           {| af_type := 14; af_flags := 0;
              af_body := BDisc form (getN (M F_reasonCode) p) (section_props disconnect_map false NoSub p) |});
    try discriminate; try reflexivity; try assumption.
  assert (Hnd : NoDup (map eid disconnect_map)) by (apply nodupb_N_ok; apply disconnect_map_ok).
  unfold frame_obs. cbn [af_body af_type N.eqb Pos.eqb].
  rewrite (sobs_num disconnect_map false NoSub p Hnd 17 (M F_sessionExpiryInterval) U32) by (cbn; tauto || discriminate).
  rewrite (sobs_str disconnect_map false NoSub p Hnd 31 (M F_reasonString)) by (cbn; tauto || discriminate).
  rewrite (sobs_str disconnect_map false NoSub p Hnd 28 (M F_serverReference)) by (cbn; tauto || discriminate).
  rewrite (sobs_pairs disconnect_map false NoSub p). reflexivity.
Qed.

Lemma auth_spec_ok : forallb (entry_spec_ok 15) auth_map = true.
Proof. vm_compute. reflexivity. Qed.

Theorem conform_auth p : dom_auth p -> conforms KAuth p.
Proof.
  intros [Hfx Hf Hups Hsize].
  destruct (reason_conform KAuth auth_map eq_refl (or_intror eq_refl) auth_map_ok auth_spec_ok eq_refl
              p Hfx Hf Hups Hsize) as [form [body [Evh [Eb Hok]]]].
  apply (conforms_intro KAuth p auth_vh body
           {| af_type := 15; af_flags := 0;
              af_body := BDisc form (getN (M F_reasonCode) p) (section_props auth_map false NoSub p) |});
    try discriminate; try reflexivity; try assumption.
  assert (Hnd : NoDup (map eid auth_map)) by (apply nodupb_N_ok; apply auth_map_ok).
  unfold frame_obs. cbn [af_body af_type N.eqb Pos.eqb].
  rewrite (sobs_str auth_map false NoSub p Hnd 31 (M F_reasonString)) by (cbn; tauto || discriminate).
  rewrite (sobs_str auth_map false NoSub p Hnd 21 (M F_authMethod)) by (cbn; tauto || discriminate).
  rewrite (sobs_str auth_map false NoSub p Hnd 22 (M F_authData)) by (cbn; tauto || discriminate).
  rewrite (sobs_pairs auth_map false NoSub p). reflexivity.
Qed.

(* ------------------------------------------------------------------ *)
(* SUBACK, UNSUBACK *)
Theorem conform_suback k p : is_suback k = true -> dom_suback k p -> rcodes p <> [] -> conforms k p.
Proof.
  intros Hk [Hfx Hf Hups Hcodes Hsize] Hne.
  assert (Hpid : valid_val U16 (getf (M F_packetID) p)) by (inversion Hf; assumption).
  assert (Hm : fields_valid (refs_of ack_map) p) by (inversion Hf as [|? ? _ Hf1]; exact Hf1).
  assert (Hok : Forall (entry_ok p) ack_map)
    by (apply (entries_ok false); [apply ack_map_ok|discriminate|exact Hm]).
  set (P := section_bytes ack_map false NoSub p).
  assert (EP : run_enc suback_props p = Some P)
    by (apply (run_enc_section ack_map false NoSub p Hok); discriminate).
  assert (Hbody : body_of k = Some (suback_vh ++ [EReasonCodes])) by (destruct k; try discriminate; reflexivity).
  assert (Hk1 : k <> KPingReq) by (intros ->; discriminate).
  assert (Hk2 : k <> KPingResp) by (intros ->; discriminate).
  set (pid := getf (M F_packetID) p) in *.
  set (RC := concat (map enc_u8 (rcodes p))).
  set (body := encode U16 pid ++ enc_vb (len P) ++ P ++ RC).
  assert (Evh : run_enc (suback_vh ++ [EReasonCodes]) p = Some body).
  { unfold suback_vh. rewrite <- app_assoc. change (?a :: ?b :: ?c ++ ?d) with ([a; b] ++ c ++ d).
    rewrite !run_enc_app, EP. cbn [run_enc]. rewrite run_enc1_vblen, EP.
    cbn [run_enc1 getf_opt option_map opt_app]. unfold body, RC. rewrite ?app_nil_r, <- ?app_assoc. reflexivity. }
  pose proof (remaining_len k p _ body Hbody Evh Hsize) as Hlb.
  assert (HP : len P < 268435456) by (unfold body in Hlb; rewrite !len_app in Hlb; lia).
  set (ps := section_props ack_map false NoSub p).
  assert (Ht : In (kind_nibble k) [4; 5; 6; 7; 9; 11]) by (destruct k; try discriminate Hk; cbn; tauto).
  destruct (ack_spec_ok _ Ht) as [Hspec Hwu].
  assert (Hps : sprops_ok (kind_nibble k) ps).
  { apply section_sprops; try assumption; try reflexivity; try discriminate; try exact I; try apply ack_map_ok. }
  assert (EPr : P = e_props_raw ps) by (apply section_bytes_props; try assumption; exact I).
  assert (EPs : enc_vb (len P) ++ P = e_props ps) by (apply section_e_props; try assumption; exact I).
  assert (Hnd : NoDup (map eid ack_map)) by (apply nodupb_N_ok; apply ack_map_ok).
  set (f := {| af_type := kind_nibble k; af_flags := 0; af_body := BSuback (valN pid) ps (rcodes p) |}).
  assert (Ebd : e_u16 (valN pid) ++ e_props ps ++ concat (map e_u8 (rcodes p)) = body).
  { unfold body. rewrite <- EPs. rewrite <- !app_assoc. reflexivity. }
  apply (conforms_intro k p (suback_vh ++ [EReasonCodes]) body f); try assumption.
  - unfold f. cbn [af_type af_flags]. rewrite Hfx. destruct k; try discriminate Hk; reflexivity.
  - unfold f. cbn [af_body e_body]. symmetry. exact Ebd.
  - split.
    + unfold f. cbn [af_type af_flags af_body sbody_ok]. rewrite <- EPr.
      split; [destruct k; try discriminate Hk; cbn; tauto|]. split; [reflexivity|]. split; [exact Hpid|].
      split; [exact Hps|]. split; [exact HP|]. split; [exact Hne|exact Hcodes].
    + unfold f. cbn [af_body e_body]. rewrite Ebd. exact Hlb.
  - reflexivity.
  - unfold f, frame_obs. cbn [af_body]. unfold ps.
    rewrite (sobs_str ack_map false NoSub p Hnd 31 (M F_reasonString)) by (cbn; tauto || discriminate).
    rewrite (sobs_pairs ack_map false NoSub p).
    destruct k; try discriminate Hk; reflexivity.
Qed.

(* ------------------------------------------------------------------ *)
(* UNSUBSCRIBE *)
Lemma concat_enc_bin_e_str l : Forall (fun f => len f < 65536) l -> concat (map enc_bin l) = concat (map e_str l).
Proof. induction 1 as [|f l Hf _ IH]; [reflexivity|]. cbn [map concat]. rewrite (e_str_enc_bin f Hf), IH. reflexivity. Qed.

Theorem conform_unsubscribe p : dom_unsubscribe p -> ufilters p <> [] -> conforms KUnsubscribe p.
Proof.
  intros [Hfx Hf Hups Hfil Hsize] Hne.
  assert (Hpid : valid_val U16 (getf (M F_packetID) p)) by (inversion Hf; assumption).
  set (P := section_bytes [] false NoSub p).
  assert (EP : run_enc [up] p = Some P)
    by (apply (run_enc_section [] false NoSub p); [constructor|discriminate]).
  set (pid := getf (M F_packetID) p) in *.
  set (FB := concat (map enc_bin (ufilters p))).
  set (body := encode U16 pid ++ enc_vb (len P) ++ P ++ FB).
  assert (Evh : run_enc (unsubscribe_vh ++ [EUnsubFilters]) p = Some body).
  { unfold unsubscribe_vh. change ([?a; ?b; up] ++ ?d) with ([a; b] ++ [up] ++ d).
    rewrite !run_enc_app, EP. cbn [run_enc]. rewrite run_enc1_vblen, EP.
    cbn [run_enc1 getf_opt option_map opt_app]. unfold body, FB. rewrite ?app_nil_r, <- ?app_assoc. reflexivity. }
  pose proof (remaining_len KUnsubscribe p _ body eq_refl Evh Hsize) as Hlb.
  assert (HP : len P < 268435456) by (unfold body in Hlb; rewrite !len_app in Hlb; lia).
  set (ps := section_props [] false NoSub p).
  assert (Hps : sprops_ok 10 ps).
  { apply section_sprops; try assumption; try reflexivity; try discriminate; try exact I; constructor. }
  assert (EPr : P = e_props_raw ps) by (apply section_bytes_props; try assumption; try exact I; constructor).
  assert (EPs : enc_vb (len P) ++ P = e_props ps) by (apply section_e_props; try assumption; try exact I; constructor).
  set (f := {| af_type := 10; af_flags := 2; af_body := BUnsubscribe (valN pid) ps (ufilters p) |}).
  assert (Ebd : e_u16 (valN pid) ++ e_props ps ++ concat (map e_str (ufilters p)) = body).
  { unfold body, FB. rewrite <- EPs, (concat_enc_bin_e_str _ Hfil). rewrite <- !app_assoc. reflexivity. }
  apply (conforms_intro KUnsubscribe p (unsubscribe_vh ++ [EUnsubFilters]) body f); try discriminate; try reflexivity;
    try assumption.
  - unfold f. cbn [af_body e_body]. symmetry. exact Ebd.
  - split.
    + unfold f. cbn [af_type af_flags af_body sbody_ok]. rewrite <- EPr.
      split; [reflexivity|]. split; [reflexivity|]. split; [exact Hpid|]. split; [exact Hps|].
      split; [exact HP|]. split; [exact Hne|exact Hfil].
    + unfold f. cbn [af_body e_body]. rewrite Ebd. exact Hlb.
  - unfold f, frame_obs. cbn [af_body]. unfold ps. rewrite (sobs_pairs [] false NoSub p). reflexivity.
Qed.

(* ------------------------------------------------------------------ *)
(* SUBSCRIBE *)
Definition subopt_props (o : option N) : list aprop :=
  match o with Some n => [{| ap_id := 11; ap_val := VVar n |}] | None => [] end.
Definition subscribe_section (p : pkt) : list aprop := subopt_props (subid p) ++ ups_props (uprops p).

Theorem conform_subscribe p : dom_subscribe p -> filters p <> [] ->
  Forall (fun f => opts_ok (snd f)) (filters p) -> conforms KSubscribe p.
Proof.
  intros [Hfx Hf Hso Hups Hfil Hsize] Hne Hopts.
  assert (Hpid : valid_val U16 (getf (M F_packetID) p)) by (inversion Hf; assumption).
  set (P := subopt_bytes (subid p) ++ ups_bytes (uprops p)).
  assert (EP : run_enc subscribe_props p = Some P).
  { unfold subscribe_props, up. cbn [run_enc run_enc1]. unfold P, subopt_bytes, ups_bytes.
    destruct (subid p); cbn [opt_app]; rewrite ?app_nil_r; reflexivity. }
  set (pid := getf (M F_packetID) p) in *.
  set (FB := concat (map enc_filter (filters p))).
  set (body := encode U16 pid ++ enc_vb (len P) ++ P ++ FB).
  assert (Evh : run_enc (subscribe_vh ++ [EFilters]) p = Some body).
  { unfold subscribe_vh. rewrite <- app_assoc. change (?a :: ?b :: ?c ++ ?d) with ([a; b] ++ c ++ d).
    rewrite !run_enc_app, EP. cbn [run_enc]. rewrite run_enc1_vblen, EP.
    cbn [run_enc1 getf_opt option_map opt_app]. unfold body, FB. rewrite ?app_nil_r, <- ?app_assoc. reflexivity. }
  pose proof (remaining_len KSubscribe p _ body eq_refl Evh Hsize) as Hlb.
  assert (HP : len P < 268435456) by (unfold body in Hlb; rewrite !len_app in Hlb; lia).
  set (ps := subscribe_section p).
  assert (EPr : P = e_props_raw ps).
  { unfold P, ps, subscribe_section. rewrite e_props_raw_app, (ups_bytes_props _ Hups). f_equal.
    unfold subopt_bytes, subopt_props. destruct (subid p) as [n|]; [|reflexivity].
    destruct Hso as [Hn0 Hn]. unfold enc_prop. cbn [is_zero valN]. rewrite (proj2 (N.eqb_neq _ _)) by lia.
    unfold e_props_raw, e_prop. cbn [map concat ap_id ap_val e_pval encode valN]. rewrite (e_var_enc_vb n Hn), app_nil_r.
    reflexivity. }
  assert (EPs : enc_vb (len P) ++ P = e_props ps).
  { unfold e_props. cbv zeta. rewrite <- EPr, (e_var_enc_vb _ HP). reflexivity. }
  assert (Hps : sprops_ok 8 ps).
  { unfold ps, subscribe_section. split.
    - apply Forall_app. split; [|apply ups_props_sprop; [reflexivity|exact Hups]].
      unfold subopt_props. destruct (subid p) as [n|]; [|constructor]. destruct Hso as [Hn0 Hn].
      constructor; [|constructor]. unfold sprop_ok. cbn [ap_id ap_val pval_type pval_ok pnumval].
      split; [reflexivity|]. split; [reflexivity|]. split; [exact Hn|]. split; [discriminate|intros _; lia].
    - rewrite filter_app, filter_nonrep_ups, app_nil_r. unfold subopt_props.
      destruct (subid p); cbn [filter nonrep repeatable ap_id map]; [constructor; [intros []|constructor]|constructor]. }
  set (f := {| af_type := 8; af_flags := 2; af_body := BSubscribe (valN pid) ps (filters p) |}).
  assert (EFB : FB = concat (map (fun f => e_str (fst f) ++ e_u8 (snd f)) (filters p))).
  { unfold FB. clear -Hfil. induction Hfil as [|x l [Hx _] _ IH]; [reflexivity|]. cbn [map concat].
    unfold enc_filter at 1. rewrite <- (e_str_enc_bin _ Hx), IH. reflexivity. }
  assert (Ebd : e_u16 (valN pid) ++ e_props ps ++ concat (map (fun f => e_str (fst f) ++ e_u8 (snd f)) (filters p)) = body).
  { unfold body. rewrite <- EPs, EFB. rewrite <- !app_assoc. reflexivity. }
  apply (conforms_intro KSubscribe p (subscribe_vh ++ [EFilters]) body f); try discriminate; try reflexivity;
    try assumption.
  - unfold f. cbn [af_body e_body]. symmetry. exact Ebd.
  - split.
    + unfold f. cbn [af_type af_flags af_body sbody_ok]. rewrite <- EPr.
      split; [reflexivity|]. split; [reflexivity|]. split; [exact Hpid|]. split; [exact Hps|].
      split; [exact HP|]. split; [exact Hne|].
      apply Forall_forall. intros x Hx. rewrite Forall_forall in Hfil, Hopts.
      split; [exact (proj1 (Hfil x Hx))|exact (Hopts x Hx)].
    + unfold f. cbn [af_body e_body]. rewrite Ebd. exact Hlb.
  - unfold f, frame_obs, snapshot. cbn [af_body]. unfold ps, subscribe_section.
    assert (E1 : getp 11 (subopt_props (subid p) ++ ups_props (uprops p)) =
                 match subid p with Some n => Some (VVar n) | None => None end).
    { rewrite getp_app. unfold subopt_props. destruct (subid p); [reflexivity|]. cbn [getp]. apply getp_ups. discriminate. }
    rewrite E1.
    assert (E2 : ppairs (subopt_props (subid p) ++ ups_props (uprops p)) =
                 map (fun kv => OL [OS (fst kv); OS (snd kv)]) (uprops p)).
    { rewrite ppairs_app, ppairs_ups. unfold subopt_props. destruct (subid p); reflexivity. }
    rewrite E2. unfold oN, oprops, getN.
    assert (E3 : subid_int (subid p) = match match subid p with Some n => Some (VVar n) | None => None end with
                                       | Some (VVar n) => Z.of_N n | _ => (-1)%Z end).
    { destruct (subid p) as [n|]; [|reflexivity]. destruct Hso as [_ Hn]. unfold subid_int.
      rewrite (proj2 (N.ltb_lt _ _)) by lia. reflexivity. }
    rewrite E3. reflexivity.
Qed.

(* ------------------------------------------------------------------ *)
(* PUBLISH *)
Lemma publish_spec_ok : forallb (entry_spec_ok 3) publish_map = true.
Proof. vm_compute. reflexivity. Qed.

Theorem conform_publish p : dom_publish p -> ((getN (M F_fixed) p - 48) / 2) mod 4 <> 3 -> conforms KPublish p.
Proof.
  intros [Hfx Htopic Hpid Hpid0 Hm Hups Hsids Hsize] Hq.
  assert (Hok : Forall (entry_ok p) publish_map)
    by (apply (entries_ok false); [apply publish_map_ok|discriminate|exact Hm]).
  set (P := section_bytes publish_map false AddSub p).
  assert (EP : run_enc publish_props p = Some P)
    by (apply (run_enc_section publish_map false AddSub p Hok); discriminate).
  set (fx := getN (M F_fixed) p) in *. set (fl := fx - 48) in *.
  assert (Efx : fx = 48 + fl) by (unfold fl; lia).
  assert (Hfl : fl < 16) by (unfold fl; lia).
  destruct (publish_flag_bits fl Hfl Hq) as [Bdup [Bret [Bqos [Bc _]]]]. rewrite <- Efx in *.
  set (topic := getf (M F_topicName) p) in *. set (pid := getf (M F_packetID) p) in *.
  set (pl := getf (M F_payload) p).
  set (c := eval_cond CQoS12 p no_env) in *.
  assert (Ec : c = negb ((fl / 2) mod 4 =? 0)) by exact Bc.
  set (PID := if c then encode U16 pid else []).
  set (body := encode Bin topic ++ PID ++ enc_vb (len P) ++ P ++ valS pl).
  assert (Evh : run_enc (publish_vh ++ publish_payload) p = Some body).
  { unfold publish_vh, publish_payload. rewrite <- app_assoc.
    change (?a :: ?b :: ?e :: ?c ++ ?d) with ([a; b; e] ++ c ++ d).
    rewrite !run_enc_app, EP. cbn [run_enc]. rewrite run_enc1_vblen, EP, !run_enc1_if.
    cbn [run_enc1 getf_opt option_map opt_app]. fold c.
    assert (E1 : (if c then run_enc [EFill (M F_packetID) U16] p else run_enc [] p) = Some PID).
    { unfold PID. destruct c; cbn [run_enc run_enc1 getf_opt option_map opt_app]; rewrite ?app_nil_r; reflexivity. }
    rewrite E1.
    assert (E2 : (if eval_cond (CNonEmpty (M F_payload)) p no_env
                  then run_enc [EFill (M F_payload) Raw] p else run_enc [] p) = Some (valS pl)).
    { cbn [eval_cond]. unfold getS. change (getf (M F_payload) p) with pl.
      remember (valS pl) as plb eqn:E. destruct plb.
      - reflexivity.
      - cbn [run_enc run_enc1 getf_opt option_map opt_app encode enc_raw].
        change (vals p F_payload) with pl. rewrite <- E, app_nil_r. reflexivity. }
    rewrite E2. cbn [opt_app]. unfold body. rewrite ?app_nil_r, <- ?app_assoc. reflexivity. }
  pose proof (remaining_len KPublish p _ body eq_refl Evh Hsize) as Hlb.
  assert (HP : len P < 268435456) by (unfold body in Hlb; rewrite !len_app in Hlb; lia).
  set (ps := section_props publish_map false AddSub p).
  assert (Hps : sprops_ok 3 ps).
  { apply section_sprops; try assumption; try reflexivity; try discriminate; try exact I;
      first [exact publish_spec_ok | apply publish_map_ok]. }
  assert (EPr : P = e_props_raw ps) by (apply section_bytes_props; assumption).
  assert (EPs : enc_vb (len P) ++ P = e_props ps) by (apply section_e_props; assumption).
  set (f := {| af_type := 3; af_flags := fl;
               af_body := BPublish (valS topic) (if c then Some (valN pid) else None) ps (valS pl) |}).
  assert (Ebd : e_body (af_body f) = body).
  { unfold f, body, PID. cbn [af_body e_body]. rewrite (e_str_enc_bin _ Htopic), <- EPs.
    destruct c; rewrite <- !app_assoc; reflexivity. }
  apply (conforms_intro KPublish p (publish_vh ++ publish_payload) body f); try discriminate; try reflexivity;
    try assumption.
  - symmetry. exact Ebd.
  - split; [|rewrite Ebd; exact Hlb].
    unfold f. cbn [af_type af_flags af_body sbody_ok]. rewrite <- EPr.
    split; [reflexivity|]. split; [exact Hfl|]. split; [exact Hq|]. split; [exact Htopic|].
    split; [|split; [exact Hps|exact HP]].
    rewrite Ec. destruct ((fl / 2) mod 4 =? 0) eqn:E0; cbn [negb].
    + apply N.eqb_eq. exact E0.
    + split; [exact Hpid|apply N.eqb_neq; exact E0].
  - assert (Hnd : NoDup (map eid publish_map)) by (apply nodupb_N_ok; apply publish_map_ok).
    unfold f, frame_obs, snapshot, snap_publish. cbn [af_body af_flags].
    unfold ps.
    rewrite (sobs_bool publish_map false AddSub p Hnd 1 (M F_payloadFormat)) by (cbn; tauto || discriminate).
    rewrite (sobs_num publish_map false AddSub p Hnd 2 (M F_messageExpiryInterval) U32) by (cbn; tauto || discriminate || exact I).
    rewrite (sobs_num publish_map false AddSub p Hnd 35 (M F_topicAlias) U16) by (cbn; tauto || discriminate || exact I).
    rewrite (sobs_str publish_map false AddSub p Hnd 8 (M F_responseTopic)) by (cbn; tauto || discriminate).
    rewrite (sobs_str publish_map false AddSub p Hnd 9 (M F_correlationData)) by (cbn; tauto || discriminate).
    rewrite (sobs_str publish_map false AddSub p Hnd 3 (M F_contentType)) by (cbn; tauto || discriminate).
    rewrite (sobs_pairs publish_map false AddSub p).
    assert (Ev : pvars 11 (section_props publish_map false AddSub p) = map ON (subids p)).
    { unfold section_props. rewrite !pvars_app, pvars_props_of by reflexivity. rewrite pvars_ups, pvars_sids. reflexivity. }
    rewrite Ev. fold fx. rewrite Bdup, Bret, Bqos.
    assert (Epid : ON (match (if c then Some (valN pid) else None) with Some i => i | None => 0 end) = oN F_packetID p).
    { unfold oN. destruct c eqn:Ecv; [reflexivity|]. rewrite (Hpid0 eq_refl). reflexivity. }
    rewrite Epid. reflexivity.
Qed.

(* ------------------------------------------------------------------ *)
(* CONNECT *)
Lemma connect_spec_ok : forallb (entry_spec_ok 1) connect_map = true.
Proof. vm_compute. reflexivity. Qed.
Lemma will_spec_ok : forallb (entry_spec_ok 100) will_map = true.
Proof. vm_compute. reflexivity. Qed.

Record wf_connect (p : pkt) : Prop := {
  wc_name : getS (M F_protocolName) p = mqtt5;
  wc_version : getN (M F_protocolVersion) p = 5;
  wc_reserved : N.testbit (getN (M F_flags) p) 0 = false;
  wc_wqos : (getN (M F_flags) p / 8) mod 4 <> 3;
  wc_nowill : hasWill p = false -> (getN (M F_flags) p / 8) mod 4 = 0 /\ N.testbit (getN (M F_flags) p) 5 = false
}.

Theorem conform_connect p : dom_connect p -> wf_connect p -> conforms KConnect p.
Proof.
  intros [Hfx Hhead Hm Hups Huser Hpass Hwf Hnowill Hwill Hsize] [Wname Wver Wres Wq Wnw].
  unfold connect_head in Hhead.
  assert (Hv : valid_val Bin (getf (M F_protocolName) p) /\ valid_val U8 (getf (M F_protocolVersion) p)
               /\ valid_val U8 (getf (M F_flags) p) /\ valid_val U16 (getf (M F_keepAlive) p)
               /\ valid_val Bin (getf (M F_clientID) p) /\ valid_val Bin (getf (M F_username) p)
               /\ valid_val Bin (getf (M F_password) p)).
  { unfold fields_valid in Hhead.
    repeat match goal with H : Forall _ (_ :: _) |- _ => inversion_clear H end. cbn [fst snd] in *.
    repeat split; assumption. }
  destruct Hv as [Hname [Hver [Hfl [Hka [Hcid [Husr Hpw]]]]]]. clear Hhead.
  assert (Hok : Forall (entry_ok p) connect_map)
    by (apply (entries_ok false); [apply connect_map_ok|discriminate|exact Hm]).
  set (P1 := section_bytes connect_map false NoSub p).
  assert (EP1 : run_enc connect_props p = Some P1)
    by (apply (run_enc_section connect_map false NoSub p Hok); discriminate).
  set (fl := getN (M F_flags) p) in *.
  destruct (connect_flag_bits fl Hfl) as [Bw [Bu [Bp [Bc Bwill]]]].
  destruct (Bwill Wq) as [Wdup [Wret Wqos]]. clear Bwill.
  set (cw := has fl WillFlag) in *. set (cu := has fl UsernameFlag) in *. set (cp := has fl PasswordFlag) in *.
  set (name := getf (M F_protocolName) p) in *. set (ver := getf (M F_protocolVersion) p) in *.
  set (flv := getf (M F_flags) p) in *. set (ka := getf (M F_keepAlive) p) in *.
  set (cid := getf (M F_clientID) p) in *. set (usr := getf (M F_username) p) in *.
  set (pw := getf (M F_password) p) in *.
  set (WILL := if cw then will_bytes p else []).
  set (USER := if cu then encode Bin usr else []).
  set (PASS := if cp then encode Bin pw else []).
  set (body := encode Bin name ++ encode U8 ver ++ encode U8 flv ++ encode U16 ka ++ enc_vb (len P1) ++ P1
               ++ encode Bin cid ++ WILL ++ USER ++ PASS).
  assert (Hwp : cw = true -> hasWill p = true) by (intros E; rewrite <- Hwf; exact E).
  assert (Evh : run_enc (connect_vh ++ connect_payload) p = Some body).
  { unfold connect_vh, connect_payload. rewrite <- app_assoc.
    change (?a :: ?b :: ?e :: ?f :: ?g :: ?c ++ ?d) with ([a; b; e; f; g] ++ c ++ d).
    rewrite !run_enc_app, EP1. cbn [run_enc]. rewrite run_enc1_vblen, EP1, !run_enc1_if.
    cbn [eval_cond]. fold fl cw cu cp.
    assert (E1 : (if cw then run_enc ([EVbLen will_props] ++ will_props ++
                                      [EFill (W F_topicName) Bin; EFill (M F_willPayload) Bin]) p
                  else run_enc [] p) = Some WILL).
    { unfold WILL. destruct cw eqn:Ecw; [|reflexivity].
      assert (Hw : hasWill p = true) by (apply Hwp; reflexivity).
      destruct (Hwill Hw) as [Hwm _ _ _ _ _ _ _ _].
      assert (Hok2 : Forall (entry_ok p) will_map)
        by (apply (entries_ok true); [apply will_map_ok|intros _; exact Hw|exact Hwm]).
      assert (EP2 : run_enc will_props p = Some (section_bytes will_map true NoSub p))
        by (apply (run_enc_section will_map true NoSub p Hok2); intros _; exact Hw).
      rewrite !run_enc_app, EP2. cbn [run_enc]. rewrite run_enc1_vblen, EP2.
      cbn [run_enc1 getf_opt option_map opt_app]. rewrite Hw. cbn [option_map opt_app].
      unfold will_bytes. cbv zeta. rewrite ?app_nil_r, <- ?app_assoc. reflexivity. }
    rewrite E1.
    assert (E2 : (if cu then run_enc [EFill (M F_username) Bin] p else run_enc [] p) = Some USER).
    { unfold USER. destruct cu; cbn [run_enc run_enc1 getf_opt option_map opt_app]; rewrite ?app_nil_r; reflexivity. }
    assert (E3 : (if cp then run_enc [EFill (M F_password) Bin] p else run_enc [] p) = Some PASS).
    { unfold PASS. destruct cp; cbn [run_enc run_enc1 getf_opt option_map opt_app]; rewrite ?app_nil_r; reflexivity. }
    rewrite E2, E3. cbn [run_enc1 getf_opt option_map opt_app]. unfold body.
    rewrite ?app_nil_r, <- ?app_assoc. reflexivity. }
  pose proof (remaining_len KConnect p _ body eq_refl Evh Hsize) as Hlb.
  assert (HP1 : len P1 < 268435456) by (unfold body in Hlb; rewrite !len_app in Hlb; lia).
  set (ps := section_props connect_map false NoSub p).
  assert (Hps : sprops_ok 1 ps).
  { apply section_sprops; try assumption; try reflexivity; try discriminate; try exact I;
      first [exact connect_spec_ok | apply connect_map_ok]. }
  assert (EPr : P1 = e_props_raw ps) by (apply section_bytes_props; try assumption; exact I).
  assert (EPs : enc_vb (len P1) ++ P1 = e_props ps) by (apply section_e_props; try assumption; exact I).
  set (wps := section_props will_map true NoSub p).
  set (will := if cw then Some {| w_props := wps; w_topic := getS (W F_topicName) p;
                                  w_payload := getS (M F_willPayload) p |} else None).
  set (user := if cu then Some (valS usr) else None).
  set (pass := if cp then Some (valS pw) else None).
  set (f := {| af_type := 1; af_flags := 0;
               af_body := BConnect fl (valN ka) ps (valS cid) will user pass |}).
  (* the will part *)
  assert (Hwillfacts : cw = true ->
     sprops_ok 100 wps /\ len (e_props_raw wps) < 268435456
     /\ len (getS (W F_topicName) p) < 65536 /\ len (getS (M F_willPayload) p) < 65536
     /\ WILL = e_props wps ++ e_str (getS (W F_topicName) p) ++ e_str (getS (M F_willPayload) p)).
  { intros Ecw. assert (Hw : hasWill p = true) by (apply Hwp; exact Ecw).
    destruct (Hwill Hw) as [Hwm Hwu Hwt Hwpl _ _ _ _ _].
    assert (Hok2 : Forall (entry_ok p) will_map)
      by (apply (entries_ok true); [apply will_map_ok|intros _; exact Hw|exact Hwm]).
    assert (Hl2 : len (section_bytes will_map true NoSub p) < 268435456).
    { unfold body, WILL, will_bytes in Hlb. rewrite Ecw in Hlb. cbv zeta in Hlb. rewrite !len_app in Hlb. lia. }
    split; [|split; [|split; [exact Hwt|split; [exact Hwpl|]]]].
    - apply section_sprops; try assumption; try reflexivity; try discriminate; try exact I;
        first [exact will_spec_ok | apply will_map_ok].
    - unfold wps. rewrite <- (section_bytes_props will_map true NoSub p Hok2 Hwu I). exact Hl2.
    - unfold WILL, will_bytes. rewrite Ecw. cbv zeta.
      unfold getS. rewrite (e_str_enc_bin _ Hwt), (e_str_enc_bin _ Hwpl).
      unfold wps. rewrite <- (section_e_props will_map true NoSub p Hok2 Hwu I Hl2). rewrite <- !app_assoc. reflexivity. }
  assert (Ebd : e_body (af_body f) = body).
  { unfold f, body. cbn [af_body e_body]. rewrite mqtt_name_bin.
    assert (En : encode Bin name = enc_bin mqtt5)
      by (cbn [encode]; change (valS name) with (getS (M F_protocolName) p); rewrite Wname; reflexivity).
    assert (Ev : encode U8 ver = e_u8 5)
      by (cbn [encode]; change (valN ver) with (getN (M F_protocolVersion) p); rewrite Wver; reflexivity).
    rewrite En, Ev, <- EPs, (e_str_enc_bin _ Hcid).
    assert (EW : match will with
                 | Some w => e_props (w_props w) ++ e_str (w_topic w) ++ e_str (w_payload w)
                 | None => [] end = WILL).
    { unfold will. destruct cw eqn:Ecw; [|reflexivity]. destruct (Hwillfacts eq_refl) as [_ [_ [_ [_ E]]]].
      cbn [w_props w_topic w_payload]. symmetry. exact E. }
    rewrite EW.
    assert (EU : e_opt user = USER).
    { unfold user, USER. destruct cu; [|reflexivity]. cbn [e_opt encode]. apply e_str_enc_bin. exact Husr. }
    assert (EPa : e_opt pass = PASS).
    { unfold pass, PASS. destruct cp; [|reflexivity]. cbn [e_opt encode]. apply e_str_enc_bin. exact Hpw. }
    rewrite EU, EPa. rewrite <- !app_assoc. reflexivity. }
  apply (conforms_intro KConnect p (connect_vh ++ connect_payload) body f); try discriminate; try reflexivity;
    try assumption.
  - symmetry. exact Ebd.
  - split; [|rewrite Ebd; exact Hlb].
    unfold f. cbn [af_type af_flags af_body sbody_ok].
    split; [reflexivity|]. split; [reflexivity|]. split; [|split; [exact Wres|]].
    + constructor; try assumption.
      * rewrite <- EPr. split; assumption.
      * unfold will. destruct cw eqn:Ecw.
        -- destruct (Hwillfacts eq_refl) as [G1 [G2 [G3 [G4 _]]]]. cbn [w_props w_topic w_payload].
           split; [rewrite <- Bw; reflexivity|]. split; [exact G1|split; [exact G2|split; [exact G3|exact G4]]].
        -- rewrite <- Bw. reflexivity.
      * unfold user. rewrite <- Bu. destruct cu; (split; [first [exact Husr | exact I]|reflexivity]).
      * unfold pass. rewrite <- Bp. destruct cp; (split; [first [exact Hpw | exact I]|reflexivity]).
    + unfold will. destruct cw eqn:Ecw; [discriminate|]. intros _. apply Wnw. rewrite <- Hwf. reflexivity.
  - assert (Hnd : NoDup (map eid connect_map)) by (apply nodupb_N_ok; apply connect_map_ok).
    assert (Hndw : NoDup (map eid will_map)) by (apply nodupb_N_ok; apply will_map_ok).
    unfold f, frame_obs, snapshot. cbn [af_body]. unfold ps.
    rewrite (sobs_num connect_map false NoSub p Hnd 17 (M F_sessionExpiryInterval) U32) by (cbn; tauto || discriminate || exact I).
    rewrite (sobs_num connect_map false NoSub p Hnd 33 (M F_receiveMax) U16) by (cbn; tauto || discriminate || exact I).
    rewrite (sobs_num connect_map false NoSub p Hnd 39 (M F_maxPacketSize) U32) by (cbn; tauto || discriminate || exact I).
    rewrite (sobs_num connect_map false NoSub p Hnd 34 (M F_topicAliasMax) U16) by (cbn; tauto || discriminate || exact I).
    rewrite (sobs_bool connect_map false NoSub p Hnd 25 (M F_requestResponseInfo)) by (cbn; tauto || discriminate).
    rewrite (sobs_bool connect_map false NoSub p Hnd 23 (M F_requestProblemInfo)) by (cbn; tauto || discriminate).
    rewrite (sobs_str connect_map false NoSub p Hnd 21 (M F_authMethod)) by (cbn; tauto || discriminate).
    rewrite (sobs_str connect_map false NoSub p Hnd 22 (M F_authData)) by (cbn; tauto || discriminate).
    rewrite (sobs_pairs connect_map false NoSub p).
    unfold oN, oB, oS. fold fl. rewrite Bc.
    fold (getN (M F_protocolVersion) p). rewrite Wver. fold (getS (M F_protocolName) p). rewrite Wname.
    assert (EUs : opt_s user = OS (getS (M F_username) p)).
    { unfold user, opt_s. destruct cu eqn:Ecu; [reflexivity|]. rewrite (Huser eq_refl). reflexivity. }
    assert (EPa : opt_s pass = OS (getS (M F_password) p)).
    { unfold pass, opt_s. destruct cp eqn:Ecp; [reflexivity|]. rewrite (Hpass eq_refl). reflexivity. }
    rewrite EUs, EPa.
    unfold will. destruct cw eqn:Ecw.
    + assert (Hw : hasWill p = true) by (apply Hwp; reflexivity). rewrite Hw.
      destruct (Hwill Hw) as [_ _ _ _ Hwfx Hwcopy Hwpid Hwalias Hwsub]. cbn [w_props w_topic w_payload].
      unfold wps.
      rewrite (sobs_num will_map true NoSub p Hndw 24 (M F_willDelayInterval) U32) by (cbn; tauto || discriminate || exact I).
      rewrite (sobs_bool will_map true NoSub p Hndw 1 (W F_payloadFormat)) by (cbn; tauto || discriminate).
      rewrite (sobs_num will_map true NoSub p Hndw 2 (W F_messageExpiryInterval) U32) by (cbn; tauto || discriminate || exact I).
      rewrite (sobs_str will_map true NoSub p Hndw 8 (W F_responseTopic)) by (cbn; tauto || discriminate).
      rewrite (sobs_str will_map true NoSub p Hndw 9 (W F_correlationData)) by (cbn; tauto || discriminate).
      rewrite (sobs_str will_map true NoSub p Hndw 3 (W F_contentType)) by (cbn; tauto || discriminate).
      rewrite (sobs_pairs will_map true NoSub p).
      unfold snap_publish, will_pkt, oN, oB, oS, getN, getB, getS, getf. cbn [vals uprops subids].
      change (valN (wvals p F_fixed)) with (getN (W F_fixed) p). rewrite Hwfx. fold fl. rewrite Wdup, Wret, Wqos.
      change (valN (wvals p F_packetID)) with (getN (W F_packetID) p). rewrite Hwpid.
      change (valN (wvals p F_topicAlias)) with (getN (W F_topicAlias) p). rewrite Hwalias.
      change (valS (wvals p F_payload)) with (getS (W F_payload) p). rewrite Hwcopy, Hwsub. reflexivity.
    + assert (Hw : hasWill p = false) by (rewrite <- Hwf; reflexivity). rewrite Hw.
      fold (getN (M F_willDelayInterval) p). rewrite (Hnowill Hw). reflexivity.
Qed.

(* ------------------------------------------------------------------ *)
(* PINGREQ, PINGRESP *)
Theorem conform_ping k p : (k = KPingReq \/ k = KPingResp) -> getN (M F_fixed) p = ctor_fixed k -> conforms k p.
Proof.
  intros Hk Hfx. exists [n2b (ctor_fixed k); x00], {| af_type := kind_nibble k; af_flags := 0; af_body := BPing |}.
  assert (He : enc_of k = Some enc_ping) by (destruct Hk as [-> | ->]; reflexivity).
  split; [|split; [|split]].
  - unfold encode_pkt. rewrite He, ping_frame, Hfx. reflexivity.
  - destruct Hk as [-> | ->]; reflexivity.
  - reflexivity.
  - destruct Hk as [-> | ->]; reflexivity.
Qed.

(* ------------------------------------------------------------------ *)
(* all fifteen types *)
Definition wf (k : kind) (p : pkt) : Prop :=
  match k with
  | KConnect => wf_connect p
  | KConnAck => getN (M F_flags) p <= 1
  | KPublish => ((getN (M F_fixed) p - 48) / 2) mod 4 <> 3
  | KSubscribe => filters p <> [] /\ Forall (fun f => opts_ok (snd f)) (filters p)
  | KSubAck | KUnsubAck => rcodes p <> []
  | KUnsubscribe => ufilters p <> []
  | _ => True
  end.

Theorem conform_all k p : dom k p -> wf k p -> conforms k p.
Proof.
  destruct k; cbn [dom wf]; intros Hd Hw.
  - contradiction.
  - apply conform_connect; assumption.
  - apply conform_connack; assumption.
  - apply conform_publish; assumption.
  - apply conform_ack; [reflexivity|exact Hd].
  - apply conform_ack; [reflexivity|exact Hd].
  - apply conform_ack; [reflexivity|exact Hd].
  - apply conform_ack; [reflexivity|exact Hd].
  - destruct Hw as [H1 H2]. apply conform_subscribe; assumption.
  - apply conform_suback; [reflexivity|exact Hd|exact Hw].
  - apply conform_unsubscribe; assumption.
  - apply conform_suback; [reflexivity|exact Hd|exact Hw].
  - apply conform_ping; [left; reflexivity|exact Hd].
  - apply conform_ping; [right; reflexivity|exact Hd].
  - apply conform_disconnect; exact Hd.
  - apply conform_auth; exact Hd.
Qed.
