(* The interpretation of the regenerated String() item lists (Model/StringIR.v,
   tied to the source by gen/SyncString.v) is Render.string_toks, for the
   fourteen packet types whose String method is inside the translator's idiom. *)
From MQ Require Import Model.Api Model.AccIR Model.Render Model.StringIR.
From Coq Require Import List String.

Lemma run_string_is_string_toks k p : string_ir k <> None ->
  run_string_of k p = string_toks k p.
Proof.
  intros Hk. unfold run_string_of, string_toks, size_toks.
  destruct k; cbn [string_ir] in *; try congruence;
    match goal with |- context [encode_pkt ?k p] => destruct (encode_pkt k p) as [bs|] end;
    try reflexivity.
Qed.
