(* ReadPacket is total: it never panics, never runs out of fuel and
   returns exactly one of (packet, error). *)
From MQ Require Import Model.Stream Proofs.BytesP Proofs.StreamP Proofs.DecP.
From Coq Require Import ZArith Lia ZifyN ZifyNat ZifyBool.
Ltac Zify.zify_post_hook ::= Z.div_mod_to_equations.

Lemma read_call_len n s : let '(bs, _, _) := read_call n s in len bs <= n.
Proof.
  unfold read_call. destruct s as [|[bs e] s]; [rewrite len_nil; lia|].
  destruct (N.leb_spec (len bs) n); [assumption|].
  unfold len. rewrite firstn_length. lia.
Qed.

Lemma read_full_loop_len : forall fuel need acc s tr bs e s' tr',
  len acc <= need ->
  read_full_loop fuel need acc s tr = Some (bs, e, s', tr') ->
  len bs <= need /\ (e = None -> len bs = need).
Proof.
  induction fuel as [|fuel IH]; intros need acc s tr bs e s' tr' Ha H; [discriminate|].
  cbn [read_full_loop] in H.
  pose proof (read_call_len (need - len acc) s) as L.
  destruct (read_call (need - len acc) s) as [[b x] s1].
  assert (La : len (acc ++ b) <= need) by (rewrite len_app; lia).
  destruct (N.leb_spec need (len (acc ++ b))).
  - injection H as <- <- <- <-. split; [assumption|intros _; lia].
  - destruct x as [x|].
    + destruct x; injection H as <- <- <- <-; (split; [assumption|discriminate]).
    + eapply IH; [exact La|exact H].
Qed.

Lemma read_full_1 s bs s' tr : read_full 1 s = Some (bs, None, s', tr) -> exists b, bs = [b].
Proof.
  unfold read_full. intros H.
  apply read_full_loop_len in H; [|rewrite len_nil; lia].
  destruct H as [_ H]. specialize (H eq_refl).
  destruct bs as [|b [|c t]]; [rewrite len_nil in H; lia|exists b; reflexivity|].
  rewrite !len_cons in H. lia.
Qed.

Lemma read_full_some need s : read_full need s <> None.
Proof. unfold read_full. apply read_full_loop_fuel. lia. Qed.

(* the streaming vbint decoder returns (never panics, never needs more
   than five rounds) *)
Lemma vb_stream_total s : exists o s' tr got, vb_stream s = Some (o, s', tr, got) /\ o <> Panic.
Proof.
  unfold vb_stream.
  (* explicit unrolling: mult = 1, 128, 128^2, 128^3, 128^4 *)
  assert (R : forall s tr got mult value (k : nat),
     (k <= 4)%nat -> mult = 128 ^ N.of_nat k ->
     exists o s' tr' got', vb_stream_loop (6 - k) mult value s tr got = Some (o, s', tr', got') /\ o <> Panic).
  { intros s0 tr got mult value k. remember (4 - k)%nat as j eqn:Hj.
    revert s0 tr got mult value k Hj.
    induction j as [|j IHj]; intros s0 tr got mult value k Hj Hk Hm.
    - assert (k = 4)%nat by lia. subst k. cbn [Nat.sub vb_stream_loop].
      pose proof (read_full_some 1 s0) as Hr.
      destruct (read_full 1 s0) as [[[[bs e] s1] t]|] eqn:E; [|congruence].
      destruct e as [e|]; [do 4 eexists; split; [reflexivity|discriminate]|].
      destruct (read_full_1 _ _ _ _ E) as [b ->].
      subst mult. replace (128 * 128 * 128 <? 128 ^ N.of_nat 4) with true by reflexivity.
      do 4 eexists; split; [reflexivity|discriminate].
    - replace (6 - k)%nat with (S (6 - S k)) by lia. cbn [vb_stream_loop].
      pose proof (read_full_some 1 s0) as Hr.
      destruct (read_full 1 s0) as [[[[bs e] s1] t]|] eqn:E; [|congruence].
      destruct e as [e|]; [do 4 eexists; split; [reflexivity|discriminate]|].
      destruct (read_full_1 _ _ _ _ E) as [b ->].
      destruct (128 * 128 * 128 <? mult); [do 4 eexists; split; [reflexivity|discriminate]|].
      destruct (b2n b <? 128); [do 4 eexists; split; [reflexivity|discriminate]|].
      apply (IHj s1 _ _ (mult * 128) _ (S k)); [lia|lia|].
      subst mult. replace (N.of_nat (S k)) with (N.of_nat k + 1) by lia.
      rewrite N.pow_add_r. reflexivity. }
  apply (R s [] [] 1 0 0%nat); [lia|reflexivity].
Qed.

Theorem read_packet_total s :
  exists r, read_packet s = RP r /\
    ((r_pkt r <> None /\ r_err r = None) \/ (r_pkt r = None /\ r_err r <> None)).
Proof.
  unfold read_packet.
  pose proof (read_full_some 1 s) as Hr.
  destruct (read_full 1 s) as [[[[bs e] s1] t1]|] eqn:E1; [|congruence].
  destruct e as [e|].
  { eexists; split; [reflexivity|]. right. cbn. split; [reflexivity|discriminate]. }
  destruct (read_full_1 _ _ _ _ E1) as [b0 ->].
  destruct (vb_stream_total s1) as [o [s2 [t2 [g2 [E2 Ho]]]]]. rewrite E2.
  destruct o as [rl|e|]; [| |congruence].
  2:{ eexists; split; [reflexivity|]. right. cbn. split; [reflexivity|discriminate]. }
  destruct (fresh_pkt (b2n b0)) as [k p0].
  destruct (rl =? 0).
  { eexists; split; [reflexivity|]. left. cbn. split; [discriminate|reflexivity]. }
  pose proof (read_full_some rl s2) as Hr3.
  destruct (read_full rl s2) as [[[[body e] s3] t3]|] eqn:E3; [|congruence].
  destruct e as [e|].
  { eexists; split; [reflexivity|]. right. cbn. split; [reflexivity|discriminate]. }
  destruct (unmarshal_total k p0 body) as [U1 U2].
  destruct (unmarshal k p0 body) as [p|e p| |]; [| |congruence|congruence].
  - eexists; split; [reflexivity|]. left. cbn. split; [discriminate|reflexivity].
  - eexists; split; [reflexivity|]. right. cbn. split; [reflexivity|discriminate].
Qed.
