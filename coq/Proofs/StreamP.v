(* io.ReadFull over scripted readers: what is read depends only on the
   bytes the reader delivers, not on how it chunks them. *)
From MQ Require Import Model.Stream Proofs.BytesP.
From Coq Require Import ZArith Lia ZifyN ZifyNat ZifyBool.
Ltac Zify.zify_post_hook ::= Z.div_mod_to_equations.

(* all bytes the script will ever deliver *)
Fixpoint sbytes (s : script) : list byte :=
  match s with [] => [] | Chunk bs _ :: s' => bs ++ sbytes s' end.

(* the reader delivers n bytes and reports no error before the n-th
   (an error in the same call as the n-th byte is allowed) *)
Fixpoint avail (n : N) (s : script) : bool :=
  match s with
  | [] => n =? 0
  | Chunk bs e :: s' =>
    if n <=? len bs then true
    else match e with None => avail (n - len bs) s' | Some _ => false end
  end.

(* the reader after n bytes have been taken from it *)
Fixpoint sdrop (n : N) (s : script) : script :=
  if n =? 0 then s else
  match s with
  | [] => []
  | Chunk bs e :: s' =>
    if len bs <=? n then sdrop (n - len bs) s'
    else Chunk (skipn (N.to_nat n) bs) e :: s'
  end.

Lemma sdrop_0 s : sdrop 0 s = s.
Proof. destruct s as [|[bs e] s]; reflexivity. Qed.

Lemma firstn_len_app {A} (a b : list A) n : n = length a -> firstn n (a ++ b) = a.
Proof. intros ->. rewrite firstn_app, Nat.sub_diag, firstn_all. simpl. apply app_nil_r. Qed.

Lemma len_firstn_lt {A} (l : list A) k : k < len l -> len (firstn (N.to_nat k) l) = k.
Proof. unfold len. intros H. rewrite firstn_length. lia. Qed.

Lemma read_full_loop_avail : forall s fuel need acc tr,
  len acc < need -> avail (need - len acc) s = true ->
  (script_size s < fuel)%nat ->
  exists tr',
    read_full_loop fuel need acc s tr =
    Some (acc ++ firstn (N.to_nat (need - len acc)) (sbytes s), None,
          sdrop (need - len acc) s, tr').
Proof.
  induction s as [|[bs e] s IH]; intros fuel need acc tr Hlt Hav Hfuel.
  - simpl in Hav. apply N.eqb_eq in Hav. lia.
  - destruct fuel as [|fuel]; [simpl in Hfuel; lia|].
    cbn [read_full_loop read_call].
    set (k := need - len acc) in *.
    cbn [avail] in Hav. cbn [script_size] in Hfuel.
    destruct (N.leb_spec (len bs) k) as [Hle|Hgt].
    + (* the whole chunk fits *)
      destruct (N.leb_spec need (len (acc ++ bs))) as [Hdone|Hmore].
      * (* and completes the request *)
        rewrite len_app in Hdone. assert (Hk : k = len bs) by lia.
        assert (E1 : firstn (N.to_nat k) (sbytes (Chunk bs e :: s)) = bs).
        { cbn [sbytes]. apply firstn_len_app. unfold len in Hk. lia. }
        assert (E2 : sdrop k (Chunk bs e :: s) = s).
        { cbn [sdrop]. rewrite (proj2 (N.eqb_neq k 0)) by lia.
          rewrite (proj2 (N.leb_le (len bs) k)) by lia.
          replace (k - len bs) with 0 by lia. apply sdrop_0. }
        rewrite E1, E2. eexists. reflexivity.
      * rewrite len_app in Hmore.
        assert (Hk : len bs < k) by lia.
        rewrite (proj2 (N.leb_gt k (len bs))) in Hav by lia.
        destruct e as [x|]; [discriminate|].
        destruct (IH fuel need (acc ++ bs) (tr ++ [k])) as [tr' E].
        -- rewrite len_app. lia.
        -- rewrite len_app. replace (need - (len acc + len bs)) with (k - len bs) by lia. exact Hav.
        -- lia.
        -- rewrite E. rewrite len_app.
           replace (need - (len acc + len bs)) with (k - len bs) by lia.
           assert (E1 : firstn (N.to_nat k) (sbytes (Chunk bs None :: s)) =
                        bs ++ firstn (N.to_nat (k - len bs)) (sbytes s)).
           { cbn [sbytes]. rewrite firstn_app.
             replace (N.to_nat k - length bs)%nat with (N.to_nat (k - len bs)) by (unfold len; lia).
             rewrite firstn_all2 by (unfold len in Hk; lia). reflexivity. }
           assert (E2 : sdrop k (Chunk bs None :: s) = sdrop (k - len bs) s).
           { cbn [sdrop]. rewrite (proj2 (N.eqb_neq k 0)) by lia.
             rewrite (proj2 (N.leb_le (len bs) k)) by lia. reflexivity. }
           rewrite E1, E2, app_assoc. eexists. reflexivity.
    + (* the chunk is larger than what is asked for *)
      assert (Hl : len (acc ++ firstn (N.to_nat k) bs) = need).
      { rewrite len_app, len_firstn_lt by lia. lia. }
      rewrite (proj2 (N.leb_le need _)) by lia.
      assert (E1 : firstn (N.to_nat k) (sbytes (Chunk bs e :: s)) = firstn (N.to_nat k) bs).
      { cbn [sbytes]. rewrite firstn_app.
        replace (N.to_nat k - length bs)%nat with 0%nat by (unfold len in Hgt; lia).
        simpl. apply app_nil_r. }
      assert (E2 : sdrop k (Chunk bs e :: s) = Chunk (skipn (N.to_nat k) bs) e :: s).
      { cbn [sdrop]. rewrite (proj2 (N.eqb_neq k 0)) by lia.
        rewrite (proj2 (N.leb_gt (len bs) k)) by lia. reflexivity. }
      rewrite E1, E2. eexists. reflexivity.
Qed.

Lemma read_full_avail s need : 0 < need -> avail need s = true ->
  exists tr, read_full need s =
             Some (firstn (N.to_nat need) (sbytes s), None, sdrop need s, tr).
Proof.
  intros Hpos Hav. unfold read_full.
  destruct (read_full_loop_avail s (S (script_size s)) need [] []) as [tr E].
  - rewrite len_nil. lia.
  - rewrite len_nil, N.sub_0_r. exact Hav.
  - lia.
  - rewrite len_nil, N.sub_0_r in E. simpl app in E. eexists. exact E.
Qed.

(* the fuel of read_full is never exhausted *)
Lemma read_full_loop_fuel : forall s fuel need acc tr,
  (script_size s < fuel)%nat -> read_full_loop fuel need acc s tr <> None.
Proof.
  induction s as [|[bs e] s IH]; intros fuel need acc tr Hfuel.
  - destruct fuel; [lia|]. cbn [read_full_loop read_call].
    destruct (need <=? len (acc ++ [])); [discriminate|].
    destruct (acc ++ []); discriminate.
  - destruct fuel as [|fuel]; [lia|]. cbn [script_size] in Hfuel.
    cbn [read_full_loop read_call].
    destruct (len bs <=? need - len acc) eqn:Hc.
    + destruct (need <=? len (acc ++ bs)); [discriminate|].
      destruct e as [[]|]; try discriminate.
      apply IH. lia.
    + apply N.leb_gt in Hc.
      rewrite (proj2 (N.leb_le need _)); [discriminate|].
      rewrite len_app, len_firstn_lt by lia. lia.
Qed.

(* ------------------------------------------------------------------ *)
(* algebra of avail / sdrop / sbytes *)

Lemma avail_0 s : avail 0 s = true.
Proof. destruct s as [|[bs e] s]; [reflexivity|]. cbn [avail]. rewrite (proj2 (N.leb_le 0 _)) by lia. reflexivity. Qed.

Lemma avail_mono : forall s n m, avail n s = true -> m <= n -> avail m s = true.
Proof.
  induction s as [|[bs e] s IH]; intros n m H Hm.
  - simpl in *. apply N.eqb_eq in H. apply N.eqb_eq. lia.
  - cbn [avail] in *.
    destruct (N.leb_spec m (len bs)); [reflexivity|].
    destruct (N.leb_spec n (len bs)); [lia|].
    destruct e; [discriminate|]. apply (IH (n - len bs)); [assumption|lia].
Qed.

Lemma skipn_app_le {A} (a b : list A) n : (length a <= n)%nat ->
  skipn n (a ++ b) = skipn (n - length a) b.
Proof. intros H. rewrite skipn_app. rewrite skipn_all2 by lia. reflexivity. Qed.

Lemma sbytes_sdrop : forall s a, avail a s = true ->
  sbytes (sdrop a s) = skipn (N.to_nat a) (sbytes s).
Proof.
  induction s as [|[bs e] s IH]; intros a H.
  - simpl in H. apply N.eqb_eq in H. subst. reflexivity.
  - cbn [sdrop]. destruct (N.eqb_spec a 0) as [->|Ha]; [reflexivity|].
    cbn [avail] in H. cbn [sbytes].
    destruct (N.leb_spec (len bs) a) as [Hle|Hgt].
    + destruct (N.leb_spec a (len bs)) as [Hle2|Hgt2].
      * assert (a = len bs) by lia. subst a. rewrite N.sub_diag, sdrop_0.
        rewrite skipn_app_le by (unfold len; lia).
        replace (N.to_nat (len bs) - length bs)%nat with 0%nat by (unfold len; lia).
        reflexivity.
      * destruct e; [discriminate|]. rewrite IH by assumption.
        rewrite skipn_app_le by (unfold len in *; lia).
        f_equal. unfold len. lia.
    + cbn [sbytes]. rewrite skipn_app.
      replace (N.to_nat a - length bs)%nat with 0%nat by (unfold len in *; lia).
      reflexivity.
Qed.

Lemma skipn_skipn' {A} (l : list A) : forall a b, skipn a (skipn b l) = skipn (b + a) l.
Proof.
  induction l as [|x l IH]; intros a b; [rewrite !skipn_nil; reflexivity|].
  destruct b as [|b]; [reflexivity|]. simpl. apply IH.
Qed.

Lemma len_skipn {A} (l : list A) k : len (skipn (N.to_nat k) l) = len l - k.
Proof. unfold len. rewrite skipn_length. lia. Qed.

Lemma avail_sdrop : forall s a b, avail (a + b) s = true -> avail b (sdrop a s) = true.
Proof.
  induction s as [|[bs e] s IH]; intros a b H.
  - simpl in H. apply N.eqb_eq in H. assert (a = 0 /\ b = 0) as [-> ->] by lia. reflexivity.
  - cbn [sdrop]. destruct (N.eqb_spec a 0) as [->|Ha]; [exact H|].
    cbn [avail] in H.
    destruct (N.leb_spec (len bs) a) as [Hle|Hgt].
    + destruct (N.leb_spec (a + b) (len bs)) as [Hle2|Hgt2].
      * assert (b = 0 /\ a = len bs) as [-> ->] by lia.
        rewrite N.sub_diag, sdrop_0. apply avail_0.
      * destruct e; [discriminate|]. apply IH.
        replace (a - len bs + b) with (a + b - len bs) by lia. exact H.
    + cbn [avail]. rewrite len_skipn.
      destruct (N.leb_spec (a + b) (len bs)) as [Hle2|Hgt2].
      * rewrite (proj2 (N.leb_le b (len bs - a))) by lia. reflexivity.
      * rewrite (proj2 (N.leb_gt b (len bs - a))) by lia.
        destruct e; [discriminate|].
        replace (b - (len bs - a)) with (a + b - len bs) by lia. exact H.
Qed.

Lemma sdrop_sdrop : forall s a b, avail a s = true ->
  sdrop b (sdrop a s) = sdrop (a + b) s.
Proof.
  induction s as [|[bs e] s IH]; intros a b H.
  - simpl in H. apply N.eqb_eq in H. subst a. rewrite sdrop_0. reflexivity.
  - destruct (N.eqb_spec a 0) as [->|Ha]; [rewrite sdrop_0; reflexivity|].
    destruct (N.eqb_spec b 0) as [->|Hb]; [rewrite sdrop_0, N.add_0_r; reflexivity|].
    cbn [avail] in H.
    cbn [sdrop]. rewrite (proj2 (N.eqb_neq a 0)), (proj2 (N.eqb_neq (a + b) 0)) by lia.
    destruct (N.leb_spec (len bs) a) as [Hle|Hgt].
    + rewrite (proj2 (N.leb_le (len bs) (a + b))) by lia.
      destruct (N.leb_spec a (len bs)) as [Hle2|Hgt2].
      * assert (a = len bs) by lia. subst a. rewrite N.sub_diag, sdrop_0.
        f_equal. lia.
      * destruct e; [discriminate|]. rewrite IH by assumption. f_equal. lia.
    + cbn [sdrop]. rewrite (proj2 (N.eqb_neq b 0)) by lia. rewrite len_skipn.
      destruct (N.leb_spec (len bs - a) b) as [Q|Q].
      * rewrite (proj2 (N.leb_le (len bs) (a + b))) by lia. f_equal. lia.
      * rewrite (proj2 (N.leb_gt (len bs) (a + b))) by lia.
        rewrite skipn_skipn'.
        replace (N.to_nat a + N.to_nat b)%nat with (N.to_nat (a + b)) by lia. reflexivity.
Qed.

(* reading n then m bytes *)
Lemma firstn_skipn_app {A} (l : list A) a b :
  firstn a l ++ firstn b (skipn a l) = firstn (a + b) l.
Proof.
  revert l; induction a as [|a IH]; intros l; [reflexivity|].
  destruct l as [|x l]; [simpl; rewrite firstn_nil; reflexivity|].
  simpl. f_equal. apply IH.
Qed.

(* ------------------------------------------------------------------ *)
(* vbint.ReadFrom as a function of the delivered bytes *)
From MQ Require Import Proofs.VbP.

Fixpoint vb_pure (fuel : nat) (mult value : N) (d : list byte)
  : option (outcome N * list byte) :=
  match fuel with
  | O => None
  | S f =>
    match d with
    | [] => None
    | b :: d' =>
      let value' := value + (b2n b mod 128) * mult in
      if 128 * 128 * 128 <? mult then Some (Err ESizeExceeded, [b])
      else if b2n b <? 128 then Some (Ok value', [b])
      else match vb_pure f (mult * 128) value' d' with
           | Some (o, c) => Some (o, b :: c)
           | None => None
           end
    end
  end.

Lemma firstn_1_cons {A} (x : A) l : firstn (N.to_nat 1) (x :: l) = [x].
Proof. reflexivity. Qed.

Lemma vb_stream_loop_pure : forall fuel mult value s tr got o c,
  vb_pure fuel mult value (sbytes s) = Some (o, c) ->
  avail (len c) s = true ->
  exists tr', vb_stream_loop fuel mult value s tr got =
              Some (o, sdrop (len c) s, tr', got ++ c).
Proof.
  induction fuel as [|fuel IH]; intros mult value s tr got o c Hp Hav; [discriminate|].
  cbn [vb_pure] in Hp. destruct (sbytes s) as [|b d'] eqn:Hs; [discriminate|].
  assert (Hc1 : 1 <= len c).
  { destruct (128 * 128 * 128 <? mult); [injection Hp as <- <-; rewrite len_cons; lia|].
    destruct (b2n b <? 128); [injection Hp as <- <-; rewrite len_cons; lia|].
    destruct (vb_pure fuel (mult * 128) _ d') as [[o' c']|]; [|discriminate].
    injection Hp as <- <-. rewrite len_cons. lia. }
  destruct (read_full_avail s 1) as [t E]; [lia|apply (avail_mono s (len c)); assumption|].
  cbn [vb_stream_loop]. rewrite E, Hs, firstn_1_cons.
  destruct (128 * 128 * 128 <? mult).
  { injection Hp as <- <-. eexists. reflexivity. }
  destruct (b2n b <? 128).
  { injection Hp as <- <-. eexists. reflexivity. }
  destruct (vb_pure fuel (mult * 128) (value + b2n b mod 128 * mult) d') as [[o' c']|] eqn:Hp'; [|discriminate].
  injection Hp as <- <-.
  rewrite len_cons in Hav.
  destruct (IH (mult * 128) (value + b2n b mod 128 * mult) (sdrop 1 s) (tr ++ t) (got ++ [b]) o' c') as [tr' E'].
  - rewrite sbytes_sdrop by (apply (avail_mono s (1 + len c')); [assumption|lia]).
    rewrite Hs. exact Hp'.
  - apply avail_sdrop. exact Hav.
  - rewrite E'. rewrite sdrop_sdrop by (apply (avail_mono s (1 + len c')); [assumption|lia]).
    rewrite len_cons, <- app_assoc. eexists. reflexivity.
Qed.

(* a terminated 1..4 byte header, whatever follows *)
Lemma vb_pure_wf bs rest : wf_vb bs = true ->
  vb_pure 6 1 0 (bs ++ rest) = Some (Ok (vb_value bs), bs).
Proof.
  unfold wf_vb, cont. intros H.
  destruct bs as [|a [|b [|c [|d [|e t]]]]]; try discriminate;
    cbn [app vb_pure vb_value];
    repeat match goal with
    | |- context [?x <? ?y] =>
        (rewrite (ltb_t x y) by lia) || (rewrite (ltb_f x y) by lia)
    end; do 2 f_equal; f_equal; lia.
Qed.

(* four continuation bytes and a fifth byte: rejected after five bytes *)
Lemma vb_pure_five a b c d e rest :
  cont a = true -> cont b = true -> cont c = true -> cont d = true ->
  vb_pure 6 1 0 (a :: b :: c :: d :: e :: rest) = Some (Err ESizeExceeded, [a; b; c; d; e]).
Proof.
  unfold cont. intros Ha Hb Hc Hd. cbn [vb_pure].
  repeat match goal with
  | |- context [?x <? ?y] =>
      (rewrite (ltb_t x y) by lia) || (rewrite (ltb_f x y) by lia)
  end. reflexivity.
Qed.

Lemma vb_stream_wf bs rest s : wf_vb bs = true -> sbytes s = bs ++ rest ->
  avail (len bs) s = true ->
  exists tr, vb_stream s = Some (Ok (vb_value bs), sdrop (len bs) s, tr, bs).
Proof.
  intros W Hs Hav. unfold vb_stream.
  destruct (vb_stream_loop_pure 6 1 0 s [] [] (Ok (vb_value bs)) bs) as [tr E].
  - rewrite Hs. apply vb_pure_wf. exact W.
  - exact Hav.
  - exists tr. exact E.
Qed.

(* ------------------------------------------------------------------ *)
(* ReadPacket on any delivery of one frame followed by anything *)

(* what a frame decodes to; None = the decoder panics or runs out of fuel
   (excluded by the C04/C05 theorems) *)
Definition decode_frame (b0 : byte) (body : list byte)
  : option (option (kind * pkt) * option err) :=
  let '(k, p0) := fresh_pkt (b2n b0) in
  match body with
  | [] => Some (Some (k, p0), None)
  | _ => match unmarshal k p0 body with
         | UOk p => Some (Some (k, p), None)
         | UErr e _ => Some (None, Some e)
         | _ => None
         end
  end.

Lemma len_0_nil {A} (l : list A) : len l = 0 -> l = [].
Proof. destruct l; [reflexivity|]. rewrite len_cons. lia. Qed.

Theorem read_packet_frame b0 hdr body rest s po eo :
  wf_vb hdr = true -> len body = vb_value hdr ->
  sbytes s = b0 :: hdr ++ body ++ rest ->
  avail (len (b0 :: hdr ++ body)) s = true ->
  decode_frame b0 body = Some (po, eo) ->
  exists tr,
    read_packet s =
    RP {| r_pkt := po; r_err := eo; r_rest := sdrop (len (b0 :: hdr ++ body)) s;
          r_trace := tr; r_got := b0 :: hdr ++ body |}.
Proof.
  intros W Hlen Hs Hav Hd.
  rewrite len_cons, len_app in Hav.
  assert (A1 : avail 1 s = true) by (apply (avail_mono s _ 1 Hav); lia).
  destruct (read_full_avail s 1) as [t1 E1]; [lia|exact A1|].
  unfold read_packet. rewrite E1, Hs, firstn_1_cons.
  destruct (vb_stream_wf hdr (body ++ rest) (sdrop 1 s) W) as [t2 E2].
  { rewrite sbytes_sdrop by exact A1. rewrite Hs. reflexivity. }
  { apply avail_sdrop. apply (avail_mono s _ _ Hav). lia. }
  rewrite E2.
  rewrite sdrop_sdrop by exact A1.
  unfold decode_frame in Hd. destruct (fresh_pkt (b2n b0)) as [k p0].
  destruct (N.eqb_spec (vb_value hdr) 0) as [Hz|Hnz].
  - rewrite Hz in Hlen. apply len_0_nil in Hlen. subst body.
    injection Hd as <- <-. rewrite app_nil_r, len_cons. simpl app.
    eexists. reflexivity.
  - destruct (read_full_avail (sdrop (1 + len hdr) s) (vb_value hdr)) as [t3 E3]; [lia| |].
    { apply avail_sdrop. rewrite <- Hlen. replace (1 + len hdr + len body) with (1 + (len hdr + len body)) by lia. exact Hav. }
    rewrite E3.
    assert (A2 : avail (1 + len hdr) s = true) by (apply (avail_mono s _ _ Hav); lia).
    rewrite sbytes_sdrop by exact A2. rewrite Hs.
    replace (skipn (N.to_nat (1 + len hdr)) (b0 :: hdr ++ body ++ rest)) with (body ++ rest).
    2:{ replace (N.to_nat (1 + len hdr)) with (S (length hdr)) by (unfold len; lia).
        cbn [skipn]. rewrite skipn_app_le by lia. rewrite Nat.sub_diag. reflexivity. }
    rewrite firstn_len_app by (unfold len in Hlen; lia).
    rewrite sdrop_sdrop by exact A2.
    destruct body as [|x body']; [rewrite len_nil in Hlen; lia|].
    replace (1 + len hdr + vb_value hdr) with (len (b0 :: hdr ++ x :: body')).
    2:{ rewrite len_cons, len_app. lia. }
    destruct (unmarshal k p0 (x :: body')) as [p|e p| |]; try discriminate;
      injection Hd as <- <-; eexists; unfold fail; simpl app; reflexivity.
Qed.
