(* C09 for whole frames: a valid frame cut strictly inside a field - with
   the remaining length equal to the shortened size - is rejected. Built on
   the per-field lemmas of RejectP, the decoding of complete fields from
   RoundP/AcceptP, and error stickiness. *)
From MQ Require Import Model.Codec Model.Api Model.Stream Proofs.BytesP Proofs.VbP Proofs.WireP Proofs.DecP
     Proofs.EncP Proofs.PropsP Proofs.RoundP Proofs.DomP Proofs.StreamP Proofs.SpecWireP Proofs.FrameFieldP
     Proofs.RejectP Proofs.AcceptP Spec.Mqtt5 Spec.Glue.
From Coq Require Import ZArith Lia ZifyN ZifyNat ZifyBool.
Ltac Zify.zify_post_hook ::= Z.div_mod_to_equations.

(* ------------------------------------------------------------------ *)
(* one field *)
Lemma decode_cut w v old k : w <> Raw -> valid_val w v -> (0 < k < length (encode w v))%nat ->
  is_err (decode w old (firstn k (encode w v))).
Proof.
  intros Hw Hv Hk. destruct w; try congruence; cbn [encode valid_val] in *.
  - cbn [enc_u8 length] in Hk. lia.
  - apply cut_u16. cbn [enc_u16 length] in Hk. exact Hk.
  - apply cut_u32. cbn [enc_u32 length] in Hk. exact Hk.
  - cbn [enc_bool length] in Hk. lia.
  - apply cut_bin; [exact Hv|]. rewrite enc_bin_length in Hk. exact Hk.
  - apply cut_vb; assumption.
Qed.

(* buffer.get on a field of which only the first k bytes are there *)
Lemma get_val_cut w v old s pre k : w <> Raw -> valid_val w v -> (k < length (encode w v))%nat ->
  derr s = None -> ddata s = pre ++ firstn k (encode w v) -> dpos s = length pre ->
  exists s', get_val w old s = GNo s' /\ derr s' <> None.
Proof.
  intros Hw Hv Hk He Hd Hp.
  destruct k as [|k].
  - cbn [firstn] in Hd. rewrite app_nil_r in Hd.
    destruct (get_at_end w old s He) as [s' [E1 E2]]; [rewrite Hd, Hp; lia|].
    exists s'. split; [exact E1|]. rewrite E2. discriminate.
  - destruct (decode_cut w v old (S k) Hw Hv ltac:(lia)) as [e Ed].
    unfold get_val, get_with. cbn [derr tick ddata dpos]. rewrite He.
    assert (Hl : (dpos s < length (ddata s))%nat).
    { rewrite Hd, Hp, app_length, firstn_length. lia. }
    rewrite (proj2 (Nat.leb_gt _ _) Hl).
    assert (Es : skipn (dpos s) (ddata s) = firstn (S k) (encode w v)) by (rewrite Hd, Hp; apply skipn_app_exact).
    rewrite Es, Ed.
    eexists. split; [reflexivity|]. discriminate.
Qed.

Lemma dget_cut r w v acc d pre k steps : w <> Raw -> valid_val w v -> ref_live acc r ->
  (k < length (encode w v))%nat -> d = pre ++ firstn k (encode w v) ->
  exists s', run_dec1 (DGet r w) (mk_state acc d (length pre) steps) = Run s' /\ derr s' <> None.
Proof.
  intros Hw Hv Hl Hk Hd. cbn [run_dec1]. unfold get.
  change (dp (mk_state acc d (length pre) steps)) with acc. rewrite (getf_opt_live acc r Hl).
  destruct (get_val_cut w v (getf r acc) (mk_state acc d (length pre) steps) pre k Hw Hv Hk) as [s' [E He]];
    try reflexivity; [exact Hd|].
  rewrite E. exists s'. split; [reflexivity|exact He].
Qed.

(* at a position: the cut field is what remains of the data *)
Lemma dget_cut_at r w v acc d pos k steps : w <> Raw -> valid_val w v -> ref_live acc r ->
  (k < length (encode w v))%nat -> at_pos d pos (firstn k (encode w v)) ->
  exists s', run_dec1 (DGet r w) (mk_state acc d pos steps) = Run s' /\ derr s' <> None.
Proof.
  intros Hw Hv Hl Hk [pre [E L]]. subst pos. apply (dget_cut r w v acc d pre k steps); assumption.
Qed.

(* ------------------------------------------------------------------ *)
(* an error stays through the property loop *)
Lemma getany_loop_err fuel m will sm endp id s : derr s <> None -> fuel <> O ->
  exists s', getany_loop fuel m will sm endp id s = Run s' /\ derr s' <> None.
Proof.
  intros He Hf. destruct fuel as [|fuel]; [congruence|].
  cbn [getany_loop]. destruct (N.of_nat (dpos s) <? endp); [|exists s; split; [reflexivity|exact He]].
  unfold get_val, get_with. cbn [derr tick]. destruct (derr s) eqn:E; [|congruence].
  eexists. split; [reflexivity|]. cbn [derr tick]. rewrite E. discriminate.
Qed.

Lemma firstn_app_ge {A} (a b : list A) j : (length a <= j)%nat -> firstn j (a ++ b) = a ++ firstn (j - length a) b.
Proof. intros H. rewrite firstn_app, firstn_all2 by exact H. reflexivity. Qed.

Lemma firstn_app_lt {A} (a b : list A) j : (j <= length a)%nat -> firstn j (a ++ b) = firstn j a.
Proof. intros H. rewrite firstn_app. replace (j - length a)%nat with 0%nat by lia. cbn [firstn]. apply app_nil_r. Qed.

(* one property of which only the first j bytes are there, the data ending with them *)
Lemma prop_cut m will sm endp fuel id0 acc d pre steps ap j :
  lookup_prop m UserProperty = None -> (sm = AddSub -> lookup_prop m SubscriptionID = None) ->
  prop_ok m will sm ap -> (will = true -> hasWill acc = true) ->
  (j < length (e_prop ap))%nat -> d = pre ++ firstn j (e_prop ap) -> N.of_nat (length pre) < endp ->
  fuel <> O ->
  exists s', getany_loop (S fuel) m will sm endp id0 (mk_state acc d (length pre) steps) = Run s' /\ derr s' <> None.
Proof.
  intros H38 H11 Hap Hw Hj Hd Hend Hfuel. unfold e_prop in *.
  cbn [getany_loop]. unfold mk_state at 1. cbn [dpos]. rewrite (proj2 (N.ltb_lt _ _) Hend).
  destruct j as [|j].
  { (* nothing of it: the identifier cannot be read *)
    cbn [firstn] in Hd. rewrite app_nil_r in Hd.
    destruct (get_at_end U8 (VN id0) (mk_state acc d (length pre) steps) eq_refl) as [s1 [E1 E2]];
      [cbn [ddata dpos mk_state]; rewrite Hd; lia|].
    rewrite E1. exists s1. split; [reflexivity|rewrite E2; discriminate]. }
  cbn [firstn] in Hd. cbn [length] in Hj.
  assert (Hid : ap_id ap < 256).
  { unfold prop_ok in Hap. destruct (ap_val ap) eqn:Ev;
      try (destruct (N.eqb_spec (ap_id ap) 11) as [E|E]; [rewrite E; reflexivity|
           destruct Hap as [r [w [_ [H _]]]]; exact H]).
    destruct Hap as [E _]. rewrite E. reflexivity. }
  pose proof (get_val_encoded U8 (VN (ap_id ap)) (VN id0) (mk_state acc d (length pre) steps) pre
                              (firstn j (e_pval (ap_val ap)))) as G1.
  cbn [encode enc_u8 valN canon] in G1. unfold mk_state in G1 at 1 2 3 4 5.
  cbn [derr ddata dpos dp dsteps] in G1. unfold mk_state at 1.
  rewrite G1; [|discriminate|exact Hid|discriminate|reflexivity|rewrite Hd; reflexivity|reflexivity|cbn; lia].
  clear G1. cbn [valN].
  change (ddata (mk_state acc d (length pre) steps)) with d.
  change (dpos (mk_state acc d (length pre) steps)) with (length pre).
  change (dsteps (mk_state acc d (length pre) steps)) with steps.
  change (enc_u8 (ap_id ap)) with [n2b (ap_id ap)].
  set (s1 := {| dp := acc; ddata := d; dpos := length pre + length [n2b (ap_id ap)]; derr := None; dsteps := S steps |}).
  assert (Hd1 : d = (pre ++ [n2b (ap_id ap)]) ++ firstn j (e_pval (ap_val ap)))
    by (rewrite Hd, <- app_assoc; reflexivity).
  assert (Hp1 : dpos s1 = length (pre ++ [n2b (ap_id ap)])) by (unfold s1; cbn [dpos]; rewrite app_length; reflexivity).
  destruct (is_pair (ap_val ap)) eqn:Ep.
  - (* user property *)
    unfold prop_ok in Hap. destruct (ap_val ap) as [n|n|n|n|s|s|kk vv] eqn:Ev; try discriminate Ep.
    destruct Hap as [E38 [Hlk Hlv]].
    assert (X1 : match sm with
                 | SubOpt => if ap_id ap =? SubscriptionID then None else lookup_prop m (ap_id ap)
                 | _ => lookup_prop m (ap_id ap) end = None)
      by (rewrite E38; destruct sm; exact H38 || reflexivity).
    assert (X2 : match sm with SubOpt => ap_id ap =? SubscriptionID | _ => false end = false)
      by (rewrite E38; destruct sm; reflexivity).
    assert (X3 : (ap_id ap =? UserProperty) = true) by (rewrite E38; reflexivity).
    rewrite X1, X2, X3.
    cbn [e_pval] in Hd1, Hj. rewrite (e_str_enc_bin _ Hlk), (e_str_enc_bin _ Hlv) in Hd1, Hj.
    assert (G2 : exists s2, get_with dec_userprop width_userprop s1 = GNo s2 /\ derr s2 <> None /\ dp s2 = acc).
    { unfold get_with. cbn [derr tick ddata dpos s1].
      destruct j as [|j].
      - cbn [firstn] in Hd1. rewrite app_nil_r in Hd1.
        rewrite (proj2 (Nat.leb_le _ _)) by (rewrite Hd1, app_length; cbn [length]; lia).
        eexists. split; [reflexivity|]. split; [discriminate|reflexivity].
      - rewrite app_length in Hj. rewrite !enc_bin_length in Hj.
        destruct (cut_userprop kk vv (S j) Hlk Hlv ltac:(lia)) as [e Ed].
        rewrite (proj2 (Nat.leb_gt _ _)) by (rewrite Hd1, !app_length, firstn_length, app_length, !enc_bin_length; cbn [length]; lia).
        assert (Es : skipn (length pre + length [n2b (ap_id ap)]) d = firstn (S j) (enc_bin kk ++ enc_bin vv)).
        { rewrite Hd1. rewrite <- (app_length pre). apply skipn_app_exact. }
        rewrite Es, Ed. eexists. split; [reflexivity|]. split; [discriminate|reflexivity]. }
    destruct G2 as [s2 [E2 [He2 Hp2]]]. rewrite E2. rewrite Hp2.
    destruct (add_uprop will ([], []) acc) as [p'|] eqn:Ea.
    + apply getany_loop_err; [cbn [derr with_pkt]; exact He2|exact Hfuel].
    + exfalso. unfold add_uprop in Ea. destruct will; [rewrite (Hw eq_refl) in Ea|]; discriminate.
  - pose proof (prop_ok_nonpair m will sm ap Ep Hap) as Hap'.
    destruct (ap_id ap =? 11) eqn:E11.
    + (* subscription identifier *)
      destruct Hap' as [Hsm [n [En Hn]]]. apply N.eqb_eq in E11. rewrite En in *. cbn [e_pval] in Hd1, Hj.
      rewrite (e_var_enc_vb n) in * by lia.
      assert (Gv : forall q, exists s2, get_val Vb (VN 0) (with_pkt q s1) = GNo s2 /\ derr s2 <> None).
      { intros q. apply (get_val_cut Vb (VN n) (VN 0) (with_pkt q s1) (pre ++ [n2b (ap_id ap)]) j);
          try discriminate; try reflexivity; [cbn [valid_val valN]; lia|cbn [encode valN]; lia| |].
        - cbn [ddata with_pkt s1]. rewrite Hd1. reflexivity.
        - cbn [dpos with_pkt]. exact Hp1. }
      assert (Y2 : (ap_id ap =? UserProperty) = false) by (rewrite E11; reflexivity).
      assert (Y3 : (ap_id ap =? SubscriptionID) = true) by (rewrite E11; reflexivity).
      destruct sm; [congruence| |].
      * assert (Y1 : lookup_prop m (ap_id ap) = None) by (rewrite E11; exact (H11 eq_refl)).
        rewrite Y1, Y2, Y3.
        destruct (Gv acc) as [s2 [E2 He2]].
        assert (Ew : with_pkt acc s1 = s1) by reflexivity. rewrite Ew in E2. rewrite E2.
        apply getany_loop_err; [cbn [derr with_pkt]; exact He2|exact Hfuel].
      * rewrite Y3.
        destruct (Gv (set_subid (dp s1) (Some 0))) as [s2 [E2 He2]]. rewrite E2.
        apply getany_loop_err; [exact He2|exact Hfuel].
    + (* a field of the map *)
      destruct Hap' as [r [w [Hl [_ [Hn38 [Hraw [Hmt [Hpv [Hbool Hlive]]]]]]]]]. apply N.eqb_neq in E11.
      assert (Hlk : match sm with
                    | SubOpt => if ap_id ap =? SubscriptionID then None else lookup_prop m (ap_id ap)
                    | _ => lookup_prop m (ap_id ap) end = Some (r, w)).
      { destruct sm; try exact Hl. destruct (N.eqb_spec (ap_id ap) SubscriptionID) as [Q|Q]; [exfalso; exact (E11 Q)|exact Hl]. }
      rewrite Hlk.
      destruct (e_pval_encode w _ Hmt Hpv Hbool) as [Ee [Hvalid _]]. rewrite Ee in Hd1, Hj.
      unfold get. cbn [dp s1].
      assert (Hlv : ref_live acc r) by (destruct r; [exact I|apply Hw; exact Hlive]).
      rewrite (getf_opt_live acc r Hlv).
      destruct (get_val_cut w (to_val w (ap_val ap)) (getf r acc) s1 (pre ++ [n2b (ap_id ap)]) j Hraw Hvalid ltac:(lia))
        as [s2 [E2 He2]]; try reflexivity; [exact Hd1|exact Hp1|].
      rewrite E2. apply getany_loop_err; [exact He2|exact Hfuel].
Qed.

(* ------------------------------------------------------------------ *)
(* a property section of which only the first j bytes are there *)
Lemma e_props_raw_app a b : e_props_raw (a ++ b) = e_props_raw a ++ e_props_raw b.
Proof. unfold e_props_raw. rewrite map_app, concat_app. reflexivity. Qed.

Lemma raw_split ps : forall j, (j < length (e_props_raw ps))%nat ->
  exists ps1 ap ps2 j', ps = ps1 ++ ap :: ps2 /\ j = (length (e_props_raw ps1) + j')%nat /\ (j' < length (e_prop ap))%nat.
Proof.
  induction ps as [|ap ps IH]; intros j Hj; [cbn in Hj; lia|].
  rewrite e_props_raw_cons, app_length in Hj.
  destruct (Nat.lt_ge_cases j (length (e_prop ap))) as [Hlt|Hge].
  - exists [], ap, ps, j. split; [reflexivity|]. split; [reflexivity|exact Hlt].
  - destruct (IH (j - length (e_prop ap))%nat ltac:(lia)) as [ps1 [ap' [ps2 [j' [E [Ej Hj']]]]]].
    exists (ap :: ps1), ap', ps2, j'. split; [rewrite E; reflexivity|]. split; [|exact Hj'].
    rewrite e_props_raw_cons, app_length. lia.
Qed.

Lemma keyed_ids_app a b : keyed_ids (a ++ b) = keyed_ids a ++ keyed_ids b.
Proof. unfold keyed_ids. rewrite filter_app, map_app. reflexivity. Qed.

Lemma nodup_app_l {A} (a b : list A) : NoDup (a ++ b) -> NoDup a.
Proof.
  induction a as [|x a IH]; intros H; [constructor|]. cbn in H. apply NoDup_cons_iff in H as [H1 H2].
  constructor; [intros Hin; apply H1; apply in_or_app; left; exact Hin|apply IH; exact H2].
Qed.

Lemma getany_cut m will sm ps acc pre j steps d :
  nodup_refs m = true -> lookup_prop m UserProperty = None ->
  (sm = AddSub -> lookup_prop m SubscriptionID = None) ->
  Forall (prop_ok m will sm) ps -> NoDup (keyed_ids ps) ->
  (forall ap, In ap ps -> keyed ap = true -> forall r w,
       lookup_prop m (ap_id ap) = Some (r, w) -> w = Bin -> valS (getf r acc) = []) ->
  (will = true -> hasWill acc = true) ->
  len (e_props_raw ps) < 268435456 ->
  (0 < j < length (e_props ps))%nat -> d = pre ++ firstn j (e_props ps) ->
  exists s', getany m will sm (mk_state acc d (length pre) steps) = Run s' /\ derr s' <> None.
Proof.
  intros Hnd H38 H11 Hok Hdup Hinv Hw HR Hj Hd. unfold e_props in *. cbv zeta in *.
  set (R := e_props_raw ps) in *.
  assert (Ev : e_var (len R) = enc_vb (len R)) by (apply e_var_enc_vb; exact HR). rewrite Ev in *.
  assert (Hvpos : (0 < length (enc_vb (len R)))%nat) by (apply (encode_nonempty Vb (VN (len R))); discriminate).
  unfold getany.
  assert (Hne : at_end (mk_state acc d (length pre) steps) = false).
  { unfold at_end, mk_state. cbn [dpos ddata]. apply Nat.eqb_neq. rewrite Hd, app_length, firstn_length. lia. }
  rewrite Hne.
  destruct (Nat.lt_ge_cases j (length (enc_vb (len R)))) as [Hlt|Hge].
  - (* inside the length prefix *)
    rewrite firstn_app_lt in Hd by lia.
    destruct (get_val_cut Vb (VN (len R)) (VN 0) (mk_state acc d (length pre) steps) pre j) as [s1 [E1 He1]];
      try discriminate; try reflexivity; [exact HR|exact Hlt|exact Hd|].
    rewrite E1. apply getany_loop_err; [exact He1|discriminate].
  - rewrite firstn_app_ge in Hd by exact Hge. rewrite app_length in Hj.
    destruct (raw_split ps (j - length (enc_vb (len R)))%nat ltac:(fold R; lia))
      as [ps1 [ap [ps2 [j' [Eps [Ej Hj']]]]]].
    assert (ER : R = e_props_raw ps1 ++ e_prop ap ++ e_props_raw ps2).
    { unfold R. rewrite Eps, e_props_raw_app, e_props_raw_cons. reflexivity. }
    assert (Ecut : firstn (j - length (enc_vb (len R))) R = e_props_raw ps1 ++ firstn j' (e_prop ap)).
    { rewrite Ej, ER. rewrite firstn_app_ge by lia. f_equal.
      replace (length (e_props_raw ps1) + j' - length (e_props_raw ps1))%nat with j' by lia.
      apply firstn_app_lt. lia. }
    rewrite Ecut in Hd.
    pose proof (get_val_encoded Vb (VN (len R)) (VN 0) (mk_state acc d (length pre) steps) pre
                                (e_props_raw ps1 ++ firstn j' (e_prop ap))) as G.
    cbn [encode valN canon] in G. unfold mk_state in G at 1 2 3 4 5. cbn [derr ddata dpos dp dsteps] in G.
    unfold mk_state at 1.
    rewrite G; [|discriminate|exact HR|discriminate|reflexivity|exact Hd|reflexivity|exact Hvpos]. clear G.
    cbn [valN].
    change (ddata (mk_state acc d (length pre) steps)) with d.
    change (dpos (mk_state acc d (length pre) steps)) with (length pre).
    change (dsteps (mk_state acc d (length pre) steps)) with steps.
    match goal with |- context [ {| dp := acc; ddata := d; dpos := ?q; derr := None; dsteps := ?st |} ] =>
      change {| dp := acc; ddata := d; dpos := q; derr := None; dsteps := st |} with (mk_state acc d q st) end.
    set (pre1 := pre ++ enc_vb (len R)).
    assert (Hpre1 : length pre1 = (length pre + length (enc_vb (len R)))%nat) by (unfold pre1; apply app_length).
    rewrite <- Hpre1. change (dpos (mk_state acc d (length pre1) (S steps))) with (length pre1).
    set (endp := N.of_nat (length pre1) + len R).
    pose proof (props_count ps1) as Hcount.
    assert (Hok1 : Forall (prop_ok m will sm) ps1 /\ prop_ok m will sm ap).
    { rewrite Eps in Hok. apply Forall_app in Hok as [A B]. split; [exact A|exact (Forall_inv B)]. }
    destruct Hok1 as [Hok1 Hap].
    assert (Hdup1 : NoDup (keyed_ids ps1)).
    { rewrite Eps, keyed_ids_app in Hdup. apply nodup_app_l in Hdup. exact Hdup. }
    assert (Hfuel : exists extra, S (length d) = (length ps1 + S (S extra))%nat).
    { exists (length d - length ps1 - 1)%nat. rewrite Hd, !app_length. lia. }
    destruct Hfuel as [extra Hfuel]. rewrite Hfuel.
    destruct (props_loop m will sm endp Hnd H38 H11 ps1 (S (S extra)) 0 acc d pre1 (firstn j' (e_prop ap)) (S steps)
                Hok1 Hdup1) as [id1 [st1 E1]].
    + intros ap' Hin. apply Hinv. rewrite Eps. apply in_or_app. left. exact Hin.
    + exact Hw.
    + unfold pre1. rewrite Hd, <- !app_assoc. reflexivity.
    + unfold endp, len. rewrite ER, !app_length. lia.
    + rewrite E1. rewrite <- (app_length pre1).
      apply (prop_cut m will sm endp (S extra) id1 (apply_props m will sm ps1 acc) d (pre1 ++ e_props_raw ps1) st1 ap j');
        try assumption.
      * intros Hwt. rewrite hasWill_apply_props. apply Hw. exact Hwt.
      * unfold pre1. rewrite Hd, <- !app_assoc. reflexivity.
      * unfold endp, len. rewrite ER, !app_length. unfold e_prop in Hj' |- *. cbn [length] in *. lia.
      * discriminate.
Qed.

(* ------------------------------------------------------------------ *)
(* (b)-(d): a property section that goes wrong after some whole properties *)
Lemma get_val_fail w old s t : derr s = None -> skipn (dpos s) (ddata s) = t -> t <> [] ->
  is_err (decode w old t) -> exists s', get_val w old s = GNo s' /\ derr s' <> None /\ dp s' = dp s.
Proof.
  intros He Hs Hne [e Ed]. unfold get_val, get_with. cbn [derr tick ddata dpos]. rewrite He.
  assert (Hl : (dpos s < length (ddata s))%nat).
  { destruct (Nat.lt_ge_cases (dpos s) (length (ddata s))) as [H|H]; [exact H|].
    rewrite skipn_all2 in Hs by exact H. congruence. }
  rewrite (proj2 (Nat.leb_gt _ _) Hl). rewrite Hs, Ed. eexists. split; [reflexivity|]. split; [discriminate|reflexivity].
Qed.

(* the identifier byte of the next property is read *)
Ltac read_id acc d pre steps id t Hid Hd :=
  let G1 := fresh "G1" in
  pose proof (get_val_encoded U8 (VN id) (VN 0) (mk_state acc d (length pre) steps) pre t) as G1;
  cbn [encode enc_u8 valN canon] in G1; unfold mk_state in G1 at 1 2 3 4 5;
  cbn [derr ddata dpos dp dsteps] in G1.

(* a boolean property with a value other than 0 and 1 *)
Lemma prop_bad_bool m will sm endp fuel id0 acc d pre steps id r b t :
  id < 256 -> id <> 11 -> lookup_prop m id = Some (r, WBool) -> ref_live acc r -> 2 <= b2n b ->
  d = pre ++ n2b id :: b :: t -> N.of_nat (length pre) < endp -> fuel <> O ->
  exists s', getany_loop (S fuel) m will sm endp id0 (mk_state acc d (length pre) steps) = Run s' /\ derr s' <> None.
Proof.
  intros Hid H11 Hl Hlive Hb Hd Hend Hfuel.
  cbn [getany_loop]. unfold mk_state at 1. cbn [dpos]. rewrite (proj2 (N.ltb_lt _ _) Hend).
  pose proof (get_val_encoded U8 (VN id) (VN id0) (mk_state acc d (length pre) steps) pre (b :: t)) as G1.
  cbn [encode enc_u8 valN canon] in G1. unfold mk_state in G1 at 1 2 3 4 5.
  cbn [derr ddata dpos dp dsteps] in G1. unfold mk_state at 1.
  rewrite G1; [|discriminate|exact Hid|discriminate|reflexivity|exact Hd|reflexivity|cbn; lia].
  clear G1. cbn [valN].
  change (ddata (mk_state acc d (length pre) steps)) with d.
  change (dpos (mk_state acc d (length pre) steps)) with (length pre).
  change (dsteps (mk_state acc d (length pre) steps)) with steps.
  change (enc_u8 id) with [n2b id].
  set (s1 := {| dp := acc; ddata := d; dpos := length pre + length [n2b id]; derr := None; dsteps := S steps |}).
  assert (Hlk : match sm with
                | SubOpt => if id =? SubscriptionID then None else lookup_prop m id
                | _ => lookup_prop m id end = Some (r, WBool)).
  { destruct sm; try exact Hl. destruct (N.eqb_spec id SubscriptionID) as [Q|Q]; [exfalso; exact (H11 Q)|exact Hl]. }
  rewrite Hlk. unfold get. cbn [dp s1]. rewrite (getf_opt_live acc r Hlive).
  destruct (get_val_fail WBool (getf r acc) s1 (b :: t)) as [s2 [E2 [He2 _]]]; try reflexivity; try discriminate.
  { cbn [ddata dpos s1]. rewrite Hd. replace (pre ++ n2b id :: b :: t) with ((pre ++ [n2b id]) ++ b :: t)
      by (rewrite <- app_assoc; reflexivity). rewrite <- (app_length pre). apply skipn_app_exact. }
  { eexists. apply bool_out_of_range. exact Hb. }
  rewrite E2. apply getany_loop_err; [exact He2|exact Hfuel].
Qed.

(* a subscription identifier that continues beyond four bytes *)
Lemma prop_bad_subid m will sm endp fuel id0 acc d pre steps a b c e t :
  lookup_prop m 11 = None -> cont a = true -> cont b = true -> cont c = true -> cont e = true ->
  d = pre ++ n2b 11 :: a :: b :: c :: e :: t -> N.of_nat (length pre) < endp -> fuel <> O ->
  exists s', getany_loop (S fuel) m will sm endp id0 (mk_state acc d (length pre) steps) = Run s' /\ derr s' <> None.
Proof.
  intros Hl Ha Hb Hc He Hd Hend Hfuel.
  cbn [getany_loop]. unfold mk_state at 1. cbn [dpos]. rewrite (proj2 (N.ltb_lt _ _) Hend).
  pose proof (get_val_encoded U8 (VN 11) (VN id0) (mk_state acc d (length pre) steps) pre (a :: b :: c :: e :: t)) as G1.
  cbn [encode enc_u8 valN canon] in G1. unfold mk_state in G1 at 1 2 3 4 5.
  cbn [derr ddata dpos dp dsteps] in G1. unfold mk_state at 1.
  rewrite G1; [|discriminate|reflexivity|discriminate|reflexivity|exact Hd|reflexivity|cbn; lia].
  clear G1. cbn [valN].
  change (ddata (mk_state acc d (length pre) steps)) with d.
  change (dpos (mk_state acc d (length pre) steps)) with (length pre).
  change (dsteps (mk_state acc d (length pre) steps)) with steps.
  change (enc_u8 11) with [n2b 11].
  set (s1 := {| dp := acc; ddata := d; dpos := length pre + length [n2b 11]; derr := None; dsteps := S steps |}).
  assert (Gv : forall q, exists s2, get_val Vb (VN 0) (with_pkt q s1) = GNo s2 /\ derr s2 <> None).
  { intros q. destruct (get_val_fail Vb (VN 0) (with_pkt q s1) (a :: b :: c :: e :: t)) as [s2 [E2 [He2 _]]];
      try reflexivity; try discriminate.
    - cbn [ddata dpos with_pkt s1]. rewrite Hd.
      replace (pre ++ n2b 11 :: a :: b :: c :: e :: t) with ((pre ++ [n2b 11]) ++ a :: b :: c :: e :: t)
        by (rewrite <- app_assoc; reflexivity). rewrite <- (app_length pre). apply skipn_app_exact.
    - destruct (dec_vb_five a b c e t Ha Hb Hc He) as [er Er]. exists er. cbn [decode]. rewrite Er. reflexivity.
    - exists s2. split; assumption. }
  change (11 =? SubscriptionID) with true. change (11 =? UserProperty) with false.
  destruct sm.
  - rewrite Hl. destruct (Gv acc) as [s2 [E2 He2]].
    assert (Ew : with_pkt acc s1 = s1) by reflexivity. rewrite Ew in E2. rewrite E2.
    apply getany_loop_err; [exact He2|exact Hfuel].
  - rewrite Hl. destruct (Gv acc) as [s2 [E2 He2]].
    assert (Ew : with_pkt acc s1 = s1) by reflexivity. rewrite Ew in E2. rewrite E2.
    apply getany_loop_err; [cbn [derr with_pkt]; exact He2|exact Hfuel].
  - destruct (Gv (set_subid (dp s1) (Some 0))) as [s2 [E2 He2]]. rewrite E2.
    apply getany_loop_err; [exact He2|exact Hfuel].
Qed.

(* an identifier MQTT does not define *)
Lemma prop_bad_unknown m will sm endp fuel id0 acc d pre steps u t :
  map_ids_defined m = true -> u < 256 -> prop_type u = None ->
  d = pre ++ n2b u :: t -> N.of_nat (length pre) < endp -> fuel <> O ->
  exists s', getany_loop (S fuel) m will sm endp id0 (mk_state acc d (length pre) steps) = Run s' /\ derr s' <> None.
Proof.
  intros Hm Hu Hp Hd Hend Hfuel.
  destruct (getany_unknown fuel m will sm endp id0 (mk_state acc d (length pre) steps) (n2b u)) as [s1 [He1 E1]];
    try assumption; try reflexivity.
  - rewrite b2n_n2b_small by exact Hu. exact Hp.
  - cbn [dpos ddata mk_state]. rewrite Hd, app_length. cbn [length]. lia.
  - cbn [dpos ddata mk_state]. rewrite Hd. rewrite nth_error_app2 by lia. rewrite Nat.sub_diag. reflexivity.
  - rewrite E1. apply getany_loop_err; [rewrite He1; discriminate|exact Hfuel].
Qed.

(* the section: after the whole properties ps1 the loop is still inside the
   declared length and its next iteration ends with an error *)
Lemma getany_poison m will sm ps1 acc pre L t steps d :
  nodup_refs m = true -> lookup_prop m UserProperty = None ->
  (sm = AddSub -> lookup_prop m SubscriptionID = None) ->
  Forall (prop_ok m will sm) ps1 -> NoDup (keyed_ids ps1) ->
  (forall ap, In ap ps1 -> keyed ap = true -> forall r w,
       lookup_prop m (ap_id ap) = Some (r, w) -> w = Bin -> valS (getf r acc) = []) ->
  (will = true -> hasWill acc = true) ->
  L < 268435456 -> len (e_props_raw ps1) < L ->
  d = pre ++ enc_vb L ++ e_props_raw ps1 ++ t ->
  (forall fuel id0 acc' steps', fuel <> O -> (will = true -> hasWill acc' = true) ->
     exists s', getany_loop (S fuel) m will sm (N.of_nat (length (pre ++ enc_vb L)) + L) id0
                  (mk_state acc' d (length ((pre ++ enc_vb L) ++ e_props_raw ps1)) steps') = Run s' /\ derr s' <> None) ->
  exists s', getany m will sm (mk_state acc d (length pre) steps) = Run s' /\ derr s' <> None.
Proof.
  intros Hnd H38 H11 Hok Hdup Hinv Hw HL Hlt Hd Hbad.
  assert (Hvpos : (0 < length (enc_vb L))%nat) by (apply (encode_nonempty Vb (VN L)); discriminate).
  unfold getany.
  assert (Hne : at_end (mk_state acc d (length pre) steps) = false).
  { unfold at_end, mk_state. cbn [dpos ddata]. apply Nat.eqb_neq. rewrite Hd, !app_length. lia. }
  rewrite Hne.
  pose proof (get_val_encoded Vb (VN L) (VN 0) (mk_state acc d (length pre) steps) pre (e_props_raw ps1 ++ t)) as G.
  cbn [encode valN canon] in G. unfold mk_state in G at 1 2 3 4 5. cbn [derr ddata dpos dp dsteps] in G.
  unfold mk_state at 1.
  rewrite G; [|discriminate|exact HL|discriminate|reflexivity|exact Hd|reflexivity|exact Hvpos]. clear G.
  cbn [valN].
  change (ddata (mk_state acc d (length pre) steps)) with d.
  change (dpos (mk_state acc d (length pre) steps)) with (length pre).
  change (dsteps (mk_state acc d (length pre) steps)) with steps.
  match goal with |- context [ {| dp := acc; ddata := d; dpos := ?q; derr := None; dsteps := ?st |} ] =>
    change {| dp := acc; ddata := d; dpos := q; derr := None; dsteps := st |} with (mk_state acc d q st) end.
  set (pre1 := pre ++ enc_vb L) in *.
  assert (Hpre1 : length pre1 = (length pre + length (enc_vb L))%nat) by (unfold pre1; apply app_length).
  rewrite <- Hpre1. change (dpos (mk_state acc d (length pre1) (S steps))) with (length pre1).
  set (endp := N.of_nat (length pre1) + L) in *.
  pose proof (props_count ps1) as Hcount.
  assert (Hfuel : exists extra, S (length d) = (length ps1 + S (S extra))%nat).
  { exists (length d - length ps1 - 1)%nat. rewrite Hd, !app_length. lia. }
  destruct Hfuel as [extra Hfuel]. rewrite Hfuel.
  destruct (props_loop m will sm endp Hnd H38 H11 ps1 (S (S extra)) 0 acc d pre1 t (S steps)
              Hok Hdup Hinv Hw) as [id1 [st1 E1]].
  - unfold pre1. rewrite Hd, <- !app_assoc. reflexivity.
  - unfold endp, len in *. lia.
  - rewrite E1. rewrite <- (app_length pre1). apply Hbad; [discriminate|].
    intros Hwt. rewrite hasWill_apply_props. apply Hw. exact Hwt.
Qed.

(* a property length that cannot be read *)
Lemma getany_bad_len m will sm acc pre steps d t :
  t <> [] -> rejected (dec_vb t) -> d = pre ++ t ->
  exists s', getany m will sm (mk_state acc d (length pre) steps) = Run s' /\ derr s' <> None.
Proof.
  intros Hne [er Er] Hd. unfold getany.
  assert (Hnend : at_end (mk_state acc d (length pre) steps) = false).
  { unfold at_end, mk_state. cbn [dpos ddata]. apply Nat.eqb_neq. rewrite Hd, !app_length.
    destruct t; [congruence|cbn [length]; lia]. }
  rewrite Hnend.
  destruct (get_val_fail Vb (VN 0) (mk_state acc d (length pre) steps) t) as [s1 [E1 [He1 _]]];
    try reflexivity; try assumption.
  - cbn [ddata dpos mk_state]. rewrite Hd. apply skipn_app_exact.
  - exists er. cbn [decode]. rewrite Er. reflexivity.
  - rewrite E1. apply getany_loop_err; [exact He1|discriminate].
Qed.

(* ------------------------------------------------------------------ *)
(* Chains: a decoder program walked along the fields of a body.  Each link
   says (step_ok) that with the field whole and something after it the
   program consumes exactly that field, and (fails_ok) that with what is
   left of the data from the field's position on being one of the link's
   failing remainders - the first j bytes of the field for j in its set J
   (a cut), or a string of its set K followed by anything (a poisoned
   property section) - the program ends with an error.  A damaged frame
   then errs whichever link the damage hits. *)
Definition errs (r : res) : Prop := match r with Run s' => derr s' <> None | _ => True end.

Lemma run_dec_errs P s : derr s <> None -> errs (run_dec P s).
Proof.
  intros He. pose proof (err_sticky P s) as K. destruct (run_dec P s); cbn in *; auto.
Qed.

Lemma errs_step st P s s' : run_dec1 st s = Run s' -> derr s' <> None -> errs (run_dec (st :: P) s).
Proof. intros E He. rewrite (run_dec_cons _ _ _ _ E). apply run_dec_errs. exact He. Qed.

Definition step_ok (P : list dec) (a : pkt) (pos : nat) (seg : list byte) (P1 : list dec) (a1 : pkt) : Prop :=
  forall d rest steps, rest <> [] -> at_pos d pos (seg ++ rest) ->
    exists st', run_dec P (mk_state a d pos steps) = run_dec P1 (mk_state a1 d (pos + length seg) st').

Definition cut_ok (P : list dec) (a : pkt) (pos : nat) (seg : list byte) (J : nat -> Prop) : Prop :=
  forall d j steps, J j -> firstn j seg <> [] -> at_pos d pos (firstn j seg) ->
    errs (run_dec P (mk_state a d pos steps)).

Definition poison_ok (P : list dec) (a : pkt) (pos : nat) (K : list byte -> Prop) : Prop :=
  forall d bad rest steps, K bad -> at_pos d pos (bad ++ rest) ->
    errs (run_dec P (mk_state a d pos steps)).

Record field := { f_seg : list byte; f_J : nat -> Prop; f_K : list byte -> Prop }.

(* what may be left of the data at the field's position for the link to fail *)
Definition remainder (F : field) (rem : list byte) : Prop :=
  (exists j, f_J F j /\ rem = firstn j (f_seg F)) \/ (exists bad rest, f_K F bad /\ rem = bad ++ rest).

Definition fails_ok (P : list dec) (a : pkt) (pos : nat) (F : field) : Prop :=
  forall d rem steps, remainder F rem -> rem <> [] -> at_pos d pos rem ->
    errs (run_dec P (mk_state a d pos steps)).

Lemma fails_of P a pos F : cut_ok P a pos (f_seg F) (f_J F) -> poison_ok P a pos (f_K F) -> fails_ok P a pos F.
Proof.
  intros Hc Hp d rem steps [[j [HJ ->]]|[bad [rest [HK ->]]]] Hne Hat.
  - apply (Hc d j steps HJ Hne Hat).
  - apply (Hp d bad rest steps HK Hat).
Qed.

Inductive cchain : list dec -> pkt -> nat -> list field -> Prop :=
| cc_nil P a pos : cchain P a pos []
| cc_last P a pos F : fails_ok P a pos F -> cchain P a pos [F]
| cc_cons P a pos F P1 a1 fs :
    fails_ok P a pos F -> step_ok P a pos (f_seg F) P1 a1 -> cchain P1 a1 (pos + length (f_seg F)) fs ->
    cchain P a pos (F :: fs)
| cc_silent P a pos P1 a1 fs :
    step_ok P a pos [] P1 a1 -> cchain P1 a1 pos fs -> cchain P a pos fs.

Theorem cchain_fails P a pos fs : cchain P a pos fs ->
  forall pre F post rem d steps, fs = pre ++ F :: post -> remainder F rem -> rem <> [] ->
  at_pos d pos (concat (map f_seg pre) ++ rem) ->
  errs (run_dec P (mk_state a d pos steps)).
Proof.
  induction 1 as [P a pos|P a pos F0 Hf|P a pos F0 P1 a1 fs Hf Hstep Hch IH|P a pos P1 a1 fs Hstep Hch IH];
    intros pre F post rem d steps Efs HR Hne Hat.
  - destruct pre; discriminate Efs.
  - destruct pre as [|x pre]; [|destruct pre; discriminate Efs].
    injection Efs as <-. cbn [map concat app] in Hat. apply (Hf d rem steps HR Hne Hat).
  - destruct pre as [|x pre].
    + injection Efs as <- _. cbn [map concat app] in Hat. apply (Hf d rem steps HR Hne Hat).
    + injection Efs as <- Efs. cbn [map concat] in Hat. rewrite <- app_assoc in Hat.
      destruct (Hstep d (concat (map f_seg pre) ++ rem) steps) as [st' E]; [|exact Hat|].
      { intros E0. apply app_eq_nil in E0 as [_ E0]. exact (Hne E0). }
      rewrite E. apply (IH pre F post rem d st' Efs HR Hne). apply at_pos_app. exact Hat.
  - destruct (Hstep d (concat (map f_seg pre) ++ rem) steps) as [st' E]; [|exact Hat|].
    { intros E0. apply app_eq_nil in E0 as [_ E0]. exact (Hne E0). }
    rewrite E. rewrite Nat.add_0_r. apply (IH pre F post rem d st' Efs HR Hne Hat).
Qed.

(* the error is what UnmarshalBinary returns *)
Lemma unmarshal_errs k fresh d : errs (run_dec (dec_of k) (mk_state fresh d 0 0)) ->
  exists e p, unmarshal k fresh d = UErr e p.
Proof.
  intros H. destruct (unmarshal_total k fresh d) as [T1 T2].
  unfold unmarshal, unmarshal_steps in *. fold (mk_state fresh d 0 0) in *.
  destruct (run_dec (dec_of k) (mk_state fresh d 0 0)) as [s| |]; cbn in *; try congruence.
  destruct (derr s) as [e|]; [do 2 eexists; reflexivity|congruence].
Qed.

(* ---------------- links ---------------- *)
Definition interior (seg : list byte) (j : nat) : Prop := (0 < j < length seg)%nat.
Definition nocut (j : nat) : Prop := False.
Definition nopoison (b : list byte) : Prop := False.

Definition fld (b : list byte) : field := {| f_seg := b; f_J := interior b; f_K := nopoison |}.
Definition raw_fld (b : list byte) : field := {| f_seg := b; f_J := nocut; f_K := nopoison |}.

Lemma cut_none P a pos seg : cut_ok P a pos seg nocut.
Proof. intros d j steps []. Qed.
Lemma poison_none P a pos : poison_ok P a pos nopoison.
Proof. intros d bad rest steps []. Qed.

Lemma link_get_step r w v a pos P :
  w <> Raw -> valid_val w v -> ref_live a r ->
  (w = Bin -> valS v <> [] \/ valS (getf r a) = []) ->
  step_ok (DGet r w :: P) a pos (encode w v) P (setf r (canon w v) a).
Proof.
  intros Hw Hv Hl Hb d rest steps _ Hat.
  destruct (dget_at r w v a d pos rest steps Hw Hv Hl Hb Hat) as [D _].
  exists (S steps). apply run_dec_cons. exact D.
Qed.

Lemma link_get_cut r w v a pos P :
  w <> Raw -> valid_val w v -> ref_live a r ->
  cut_ok (DGet r w :: P) a pos (encode w v) (interior (encode w v)).
Proof.
  intros Hw Hv Hl d j steps [_ Hj] _ Hat.
  destruct (dget_cut_at r w v a d pos j steps Hw Hv Hl Hj Hat) as [s' [E He]].
  apply (errs_step _ _ _ _ E He).
Qed.

Lemma link_get_fails r w v a pos P :
  w <> Raw -> valid_val w v -> ref_live a r ->
  fails_ok (DGet r w :: P) a pos (fld (encode w v)).
Proof. intros Hw Hv Hl. apply fails_of; [apply link_get_cut; assumption|apply poison_none]. Qed.

(* ---------------- property sections ---------------- *)
(* what comes after some whole properties: an identifier MQTT does not
   define, a boolean property with a value other than 0 and 1, or a
   subscription identifier that continues beyond four bytes *)
Definition bad_next (where_ : N) (t : list byte) : Prop :=
  (exists u r, t = n2b u :: r /\ u < 256 /\ prop_type u = None)
  \/ (exists id b r, t = n2b id :: b :: r /\ is_bool_prop id = true /\ allowed where_ id = true /\ 2 <= b2n b)
  \/ (exists a b c e r, t = n2b 11 :: a :: b :: c :: e :: r
                        /\ cont a = true /\ cont b = true /\ cont c = true /\ cont e = true).

(* a poisoned section: its length continues beyond four bytes, or it
   declares a length that reaches past some valid properties into one of
   the above *)
Definition bad_section (where_ : N) (okps : list aprop -> Prop) (bad : list byte) : Prop :=
  (exists a b c e, bad = [a; b; c; e] /\ cont a = true /\ cont b = true /\ cont c = true /\ cont e = true)
  \/ (exists L ps1 t, bad = e_var L ++ e_props_raw ps1 ++ t /\ L < 268435456 /\ len (e_props_raw ps1) < L
                      /\ okps ps1 /\ bad_next where_ t).

Definition sect (where_ : N) (okps : list aprop -> Prop) (ps : list aprop) : field :=
  {| f_seg := e_props ps; f_J := interior (e_props ps); f_K := bad_section where_ okps |}.

Definition bool_ids : list N := [1; 23; 25; 37; 40; 41; 42].

Lemma is_bool_cases id : is_bool_prop id = true -> In id bool_ids.
Proof.
  unfold is_bool_prop, bool_ids. destruct id as [|p]; [discriminate|].
  do 8 (try match goal with q : positive |- _ => destruct q end; try discriminate; try (intros _; cbn; tauto)).
Qed.

Definition bool_table (where_ : N) (m : list entry) (will : bool) : bool :=
  forallb (fun id => negb (allowed where_ id) ||
                     match lookup_prop m id with
                     | Some (r, WBool) => match r with M _ => true | W _ => will end
                     | _ => false end) bool_ids.

Record sect_ok (where_ : N) (okps : list aprop -> Prop) (m : list entry) (will : bool) (sm : submode) : Prop := {
  so_nd : nodup_refs m = true;
  so_38 : lookup_prop m UserProperty = None;
  so_11 : lookup_prop m SubscriptionID = None;
  so_ids : map_ids_defined m = true;
  so_bool : bool_table where_ m will = true;
  so_ps : forall ps, okps ps -> Forall (prop_ok m will sm) ps /\ NoDup (keyed_ids ps)
}.

Lemma sect_ok_std where_ m will sm :
  table_ok where_ m will sm = true -> nodup_refs m = true -> lookup_prop m UserProperty = None ->
  lookup_prop m SubscriptionID = None -> map_ids_defined m = true -> bool_table where_ m will = true ->
  sect_ok where_ (sprops_ok where_) m will sm.
Proof.
  intros Ht Hnd H38 H11 Hids Hb. split; try assumption.
  intros ps Hps. split; [apply (sprops_prop_ok where_); assumption|apply (sprops_keyed where_); exact Hps].
Qed.

Section SectionLinks.
  Variables (where_ : N) (okps : list aprop -> Prop) (m : list entry) (will : bool) (sm : submode).
  Hypothesis Hso : sect_ok where_ okps m will sm.
  Variable a : pkt.
  Hypothesis Hbin : forall id r w, lookup_prop m id = Some (r, w) -> w = Bin -> valS (getf r a) = [].
  Hypothesis Hw : will = true -> hasWill a = true.

  Lemma link_getany_step ps pos P : okps ps -> len (e_props_raw ps) < 268435456 ->
    step_ok (DGetAny m will sm :: P) a pos (e_props ps) P (apply_props m will sm ps a).
  Proof.
    intros Hps HR d rest steps _ Hat. destruct (so_ps _ _ _ _ _ Hso ps Hps) as [Hok Hdup].
    destruct (dgetany_spec_at m will sm ps a d pos rest steps (so_nd _ _ _ _ _ Hso) (so_38 _ _ _ _ _ Hso)
                (fun _ => so_11 _ _ _ _ _ Hso) Hok Hdup (fun ap _ _ r w Hl Hb => Hbin _ r w Hl Hb) Hw HR Hat) as [st [D _]].
    exists st. apply run_dec_cons. exact D.
  Qed.

  Lemma link_getany_cut ps pos P : okps ps -> len (e_props_raw ps) < 268435456 ->
    cut_ok (DGetAny m will sm :: P) a pos (e_props ps) (interior (e_props ps)).
  Proof.
    intros Hps HR d j steps Hj _ [pre [Hd L]]. subst pos. destruct (so_ps _ _ _ _ _ Hso ps Hps) as [Hok Hdup].
    destruct (getany_cut m will sm ps a pre j steps d (so_nd _ _ _ _ _ Hso) (so_38 _ _ _ _ _ Hso)
                (fun _ => so_11 _ _ _ _ _ Hso) Hok Hdup (fun ap _ _ r w Hl Hb => Hbin _ r w Hl Hb) Hw HR Hj Hd) as [s' [E He]].
    apply (errs_step (DGetAny m will sm) P _ s'); [exact E|exact He].
  Qed.

  Lemma bool_lookup id : is_bool_prop id = true -> allowed where_ id = true ->
    exists r, lookup_prop m id = Some (r, WBool) /\ match r with M _ => True | W _ => will = true end.
  Proof.
    intros Hb Ha. pose proof (so_bool _ _ _ _ _ Hso) as T. unfold bool_table in T. rewrite forallb_forall in T.
    specialize (T id (is_bool_cases id Hb)). rewrite Ha in T. cbn [negb orb] in T.
    destruct (lookup_prop m id) as [[r w]|]; [|discriminate]. destruct w; try discriminate.
    exists r. split; [reflexivity|]. destruct r; [exact I|exact T].
  Qed.

  Lemma link_getany_poison pos P : poison_ok (DGetAny m will sm :: P) a pos (bad_section where_ okps).
  Proof.
    intros d bad rest steps HK [pre [Hd L]]. subst pos.
    destruct HK as [[x [y [z [e [-> [Hx [Hy [Hz He]]]]]]]]|[L [ps1 [t [-> [HL [Hlt [Hps Hnext]]]]]]]].
    - cbn [app] in Hd.
      assert (Hrej : rejected (dec_vb (x :: y :: z :: e :: rest))).
      { destruct rest as [|q rest]; [|apply dec_vb_five; assumption].
        apply dec_vb_all_cont. repeat (apply Forall_cons; [assumption|]). apply Forall_nil. }
      destruct (getany_bad_len m will sm a pre steps d (x :: y :: z :: e :: rest) ltac:(discriminate) Hrej Hd) as [s' [E He']].
      apply (errs_step (DGetAny m will sm) P _ s'); [exact E|exact He'].
    - destruct (so_ps _ _ _ _ _ Hso ps1 Hps) as [Hok Hdup].
      rewrite (e_var_enc_vb L HL) in Hd. rewrite <- !app_assoc in Hd.
      destruct (getany_poison m will sm ps1 a pre L (t ++ rest) steps d (so_nd _ _ _ _ _ Hso) (so_38 _ _ _ _ _ Hso)
                  (fun _ => so_11 _ _ _ _ _ Hso) Hok Hdup (fun ap _ _ r w Hl Hb => Hbin _ r w Hl Hb) Hw HL Hlt Hd)
        as [s' [E He]].
      2:{ apply (errs_step (DGetAny m will sm) P _ s'); [exact E|exact He]. }
      intros fuel id0 acc' steps' Hfuel Hw'.
      set (pre2 := (pre ++ enc_vb L) ++ e_props_raw ps1).
      assert (Hd2 : d = pre2 ++ t ++ rest) by (unfold pre2; rewrite Hd, <- !app_assoc; reflexivity).
      assert (Hend : N.of_nat (length pre2) < N.of_nat (length (pre ++ enc_vb L)) + L).
      { unfold pre2. rewrite app_length. unfold len in Hlt. lia. }
      destruct Hnext as [[u [r [-> [Hu Hty]]]]|[[id [b [r [-> [Hb [Ha Hb2]]]]]]|[x [y [z [e [r [-> [Hx [Hy [Hz He]]]]]]]]]]].
      + apply (prop_bad_unknown m will sm _ fuel id0 acc' d pre2 steps' u (r ++ rest)); try assumption.
        exact (so_ids _ _ _ _ _ Hso).
      + destruct (bool_lookup id Hb Ha) as [rf [Hl Hlive]].
        assert (Hid : id < 256 /\ id <> 11).
        { pose proof (is_bool_cases id Hb) as Hin. unfold bool_ids in Hin. cbn [In] in Hin.
          repeat (destruct Hin as [<-|Hin]; [split; [reflexivity|discriminate]|]). contradiction. }
        apply (prop_bad_bool m will sm _ fuel id0 acc' d pre2 steps' id rf b (r ++ rest)); try assumption; try tauto.
        destruct rf; [exact I|apply Hw'; exact Hlive].
      + apply (prop_bad_subid m will sm _ fuel id0 acc' d pre2 steps' x y z e (r ++ rest)); try assumption.
        exact (so_11 _ _ _ _ _ Hso).
  Qed.

  Lemma link_getany_fails ps pos P : okps ps -> len (e_props_raw ps) < 268435456 ->
    fails_ok (DGetAny m will sm :: P) a pos (sect where_ okps ps).
  Proof. intros Hps HR. apply fails_of; [apply link_getany_cut; assumption|apply link_getany_poison]. Qed.
End SectionLinks.

(* a conditional whose condition holds opens into its body *)
Lemma link_if c ds P a pos :
  (forall d rest steps, rest <> [] -> at_pos d pos rest ->
     eval_cond c a (env_of (mk_state a d pos steps)) = true) ->
  step_ok (DIf c ds :: P) a pos [] (ds ++ P) a.
Proof.
  intros Hc d rest steps Hne Hat. exists steps. rewrite Nat.add_0_r.
  cbn [run_dec]. rewrite dif_step. change (dp (mk_state a d pos steps)) with a.
  rewrite (Hc d rest steps Hne Hat). rewrite run_dec_app. reflexivity.
Qed.

Lemma link_ifnot c ds P a pos :
  (forall d rest steps, rest <> [] -> at_pos d pos rest ->
     eval_cond c a (env_of (mk_state a d pos steps)) = false) ->
  step_ok (DIf c ds :: P) a pos [] P a.
Proof.
  intros Hc d rest steps Hne Hat. exists steps. rewrite Nat.add_0_r.
  cbn [run_dec]. rewrite dif_step. change (dp (mk_state a d pos steps)) with a.
  rewrite (Hc d rest steps Hne Hat). reflexivity.
Qed.

(* conditions on the length of the data: true while something is left *)
Lemma cond_lengt n a : forall d rest steps, rest <> [] -> at_pos d n rest ->
  eval_cond (CDataLenGt n) a (env_of (mk_state a d n steps)) = true.
Proof.
  intros d rest steps Hne Hat. cbn [eval_cond env_of ce_len mk_state ddata]. apply Nat.ltb_lt.
  destruct rest as [|x r]; [congruence|]. apply (at_pos_more _ _ _ _ Hat).
Qed.

Lemma cond_more pos a : forall d rest steps, rest <> [] -> at_pos d pos rest ->
  eval_cond CMoreData a (env_of (mk_state a d pos steps)) = true.
Proof.
  intros d rest steps Hne Hat. cbn [eval_cond env_of ce_len ce_pos mk_state ddata dpos]. apply Nat.ltb_lt.
  destruct rest as [|x r]; [congruence|]. apply (at_pos_more _ _ _ _ Hat).
Qed.

Definition fresh_of (b0 : N) : pkt := setf (M F_fixed) (VN b0) zero_pkt.

Ltac link_get r w v acc :=
  eapply (cc_cons _ acc _ (fld (encode w v)) _ (setf r (canon w v) acc));
  [apply link_get_fails|apply link_get_step|]; try discriminate; try exact I; try (cbn [valid_val valN valS]; lia).

(* the property tables of the library, place by place *)
Lemma so_connack : sect_ok 2 (sprops_ok 2) connack_map false NoSub.
Proof. apply sect_ok_std; vm_compute; reflexivity. Qed.
Lemma so_ack t : In t [4; 5; 6; 7; 9; 11] -> sect_ok t (sprops_ok t) ack_map false NoSub.
Proof. intros H. cbn [In] in H. destruct H as [<-|[<-|[<-|[<-|[<-|[<-|[]]]]]]]; apply sect_ok_std; vm_compute; reflexivity. Qed.
Lemma so_auth : sect_ok 15 (sprops_ok 15) auth_map false NoSub.
Proof. apply sect_ok_std; vm_compute; reflexivity. Qed.
Lemma so_publish : sect_ok 3 (sprops_ok 3) publish_map false AddSub.
Proof. apply sect_ok_std; vm_compute; reflexivity. Qed.
Lemma so_subscribe : sect_ok 8 (sprops_ok 8) [] false SubOpt.
Proof. apply sect_ok_std; vm_compute; reflexivity. Qed.
Lemma so_unsubscribe : sect_ok 10 (sprops_ok 10) [] false NoSub.
Proof. apply sect_ok_std; vm_compute; reflexivity. Qed.
Lemma so_connect : sect_ok 1 (sprops_ok 1) connect_map false NoSub.
Proof. apply sect_ok_std; vm_compute; reflexivity. Qed.
Lemma so_will : sect_ok 100 (sprops_ok 100) will_map true NoSub.
Proof. apply sect_ok_std; vm_compute; reflexivity. Qed.
Definition disc_ps (ps : list aprop) : Prop := sprops_ok 14 ps.
Lemma so_disconnect : sect_ok 14 disc_ps disconnect_map false NoSub.
Proof. unfold disc_ps. apply sect_ok_std; vm_compute; reflexivity. Qed.

(* ------------------------------------------------------------------ *)
(* CONNACK *)
Theorem chain_connack fl rc ps :
  fl <= 1 -> rc < 256 -> sprops_ok 2 ps -> len (e_props_raw ps) < 268435456 ->
  cchain dec_connack (fresh_of 32) 0 [fld (e_u8 fl); fld (e_u8 rc); sect 2 (sprops_ok 2) ps].
Proof.
  intros Hfl Hrc Hps HR. unfold dec_connack.
  change (e_u8 fl) with (encode U8 (VN fl)). change (e_u8 rc) with (encode U8 (VN rc)).
  link_get (M F_flags) U8 (VN fl) (fresh_of 32).
  link_get (M F_reasonCode) U8 (VN rc) (setf (M F_flags) (canon U8 (VN fl)) (fresh_of 32)).
  apply cc_last. apply (link_getany_fails _ _ _ _ _ so_connack); try assumption; try discriminate.
  intros id r w Hl _. apply lookup_in_map in Hl. unfold connack_map in Hl. cbn [In] in Hl.
  repeat (destruct Hl as [Hl|Hl]; [injection Hl as _ <- _; reflexivity|]). contradiction.
Qed.

(* ------------------------------------------------------------------ *)
(* PUBACK, PUBREC, PUBREL, PUBCOMP *)
Definition ack_fields (t pid form rc : N) (ps : list aprop) : list field :=
  fld (e_u16 pid) ::
  (if form =? 2 then [] else
     fld (e_u8 rc) :: (if form =? 3 then [] else [sect t (sprops_ok t) ps])).

Theorem chain_ack k pid form rc ps : is_ack k = true ->
  pid < 65536 -> rc < 256 -> ack_frame_ok form rc ps (kind_nibble k) ->
  cchain (dec_of k) (fresh_of (ctor_fixed k)) 0 (ack_fields (kind_nibble k) pid form rc ps).
Proof.
  intros Hk Hpid Hrc Hform.
  assert (Hdec_of : dec_of k = dec_ack) by (destruct k; try discriminate; reflexivity).
  rewrite Hdec_of. unfold dec_ack, ack_fields.
  set (fr0 := fresh_of (ctor_fixed k)).
  set (a1 := setf (M F_packetID) (canon U16 (VN pid)) fr0).
  set (a2 := setf (M F_reasonCode) (canon U8 (VN rc)) a1).
  change (e_u16 pid) with (encode U16 (VN pid)). change (e_u8 rc) with (encode U8 (VN rc)).
  assert (Hcase : (form = 2 /\ rc = 0 /\ ps = []) \/ (form = 3 /\ ps = []) \/
                  (form = 4 /\ sprops_ok (kind_nibble k) ps /\ len (e_props_raw ps) < 268435456)).
  { unfold ack_frame_ok in Hform. destruct form as [|[[[]|[]|]|[[]|[]|]|]]; try contradiction; tauto. }
  destruct Hcase as [[-> [-> ->]]|[[-> ->]|[-> [Hps HR]]]]; cbn [N.eqb Pos.eqb].
  - apply cc_last. apply link_get_fails; try discriminate; try exact I. exact Hpid.
  - link_get (M F_packetID) U16 (VN pid) fr0. fold a1.
    apply (cc_silent _ _ _ ([DGet (M F_reasonCode) U8; DGetAny ack_map false NoSub] ++ []) a1);
      [apply link_if; apply cond_lengt|].
    apply cc_last. apply link_get_fails; try discriminate; try exact I. exact Hrc.
  - assert (Hso : sect_ok (kind_nibble k) (sprops_ok (kind_nibble k)) ack_map false NoSub)
      by (apply so_ack; destruct k; try discriminate Hk; cbn; tauto).
    link_get (M F_packetID) U16 (VN pid) fr0. fold a1.
    apply (cc_silent _ _ _ ([DGet (M F_reasonCode) U8; DGetAny ack_map false NoSub] ++ []) a1);
      [apply link_if; apply cond_lengt|].
    cbn [app]. link_get (M F_reasonCode) U8 (VN rc) a1. fold a2.
    apply cc_last. apply (link_getany_fails _ _ _ _ _ Hso); try assumption; try discriminate.
    intros id r w Hl _. apply lookup_in_map in Hl. unfold ack_map in Hl. cbn [In] in Hl.
    destruct Hl as [Hl|[]]. injection Hl as _ <- _. reflexivity.
Qed.

(* ------------------------------------------------------------------ *)
(* DISCONNECT, AUTH *)
Definition disc_fields (t form rc : N) (ps : list aprop) : list field :=
  if form =? 0 then [] else
    fld (e_u8 rc) :: (if form =? 1 then [] else
                        [sect t (if t =? 14 then disc_ps else sprops_ok t) ps]).

Lemma chain_disc_gen k where_ okps m form rc ps :
  dec_of k = [DGet (M F_reasonCode) U8; DGetAny m false NoSub] ->
  sect_ok where_ okps m false NoSub ->
  (forall id r w, lookup_prop m id = Some (r, w) ->
     valS (getf r (setf (M F_reasonCode) (canon U8 (VN rc)) (fresh_of (ctor_fixed k)))) = []) ->
  rc < 256 ->
  match form with
  | 0 => True
  | 1 => True
  | 2 => okps ps /\ len (e_props_raw ps) < 268435456
  | _ => False
  end ->
  cchain (dec_of k) (fresh_of (ctor_fixed k)) 0
         (if form =? 0 then [] else fld (e_u8 rc) :: (if form =? 1 then [] else [sect where_ okps ps])).
Proof.
  intros Hdec Hso Hz Hrc Hform. rewrite Hdec.
  change (e_u8 rc) with (encode U8 (VN rc)).
  set (fr0 := fresh_of (ctor_fixed k)) in *.
  assert (Hcase : form = 0 \/ form = 1 \/ (form = 2 /\ okps ps /\ len (e_props_raw ps) < 268435456)).
  { destruct form as [|[[]|[]|]]; try contradiction; tauto. }
  destruct Hcase as [->|[->|[-> [Hps HR]]]]; cbn [N.eqb Pos.eqb].
  - apply cc_nil.
  - apply cc_last. apply link_get_fails; try discriminate; try exact I. exact Hrc.
  - link_get (M F_reasonCode) U8 (VN rc) fr0.
    apply cc_last. apply (link_getany_fails _ _ _ _ _ Hso); try assumption; try discriminate.
    intros id r w Hl _. apply (Hz _ _ _ Hl).
Qed.

Theorem chain_disconnect form rc ps : rc < 256 -> disc_frame_ok 14 form rc ps ->
  cchain (dec_of KDisconnect) (fresh_of (ctor_fixed KDisconnect)) 0 (disc_fields 14 form rc ps).
Proof.
  intros Hrc Hform. unfold disc_fields. cbn [N.eqb Pos.eqb].
  apply (chain_disc_gen KDisconnect 14 disc_ps disconnect_map); try reflexivity; try exact Hrc.
  - exact so_disconnect.
  - intros id r w Hl. apply lookup_in_map in Hl. unfold disconnect_map in Hl. cbn [In] in Hl.
    repeat (destruct Hl as [Hl|Hl]; [injection Hl as _ <- _; reflexivity|]). contradiction.
  - destruct (disc_form_cases _ _ _ _ Hform) as [[-> _]|[[-> _]|[-> [Hps HR]]]]; try exact I.
    split; assumption.
Qed.

Theorem chain_auth form rc ps : rc < 256 -> disc_frame_ok 15 form rc ps ->
  cchain (dec_of KAuth) (fresh_of (ctor_fixed KAuth)) 0 (disc_fields 15 form rc ps).
Proof.
  intros Hrc Hform. unfold disc_fields. cbn [N.eqb Pos.eqb].
  apply (chain_disc_gen KAuth 15 (sprops_ok 15) auth_map); try reflexivity; try exact Hrc.
  - exact so_auth.
  - intros id r w Hl. apply lookup_in_map in Hl. unfold auth_map in Hl. cbn [In] in Hl.
    repeat (destruct Hl as [Hl|Hl]; [injection Hl as _ <- _; reflexivity|]). contradiction.
  - destruct (disc_form_cases _ _ _ _ Hform) as [[-> _]|[[-> _]|[-> [Hps HR]]]]; try exact I.
    split; assumption.
Qed.

(* ------------------------------------------------------------------ *)
(* SUBACK, UNSUBACK: the reason codes are single bytes *)
Definition suback_fields (t pid : N) (ps : list aprop) (codes : list N) : list field :=
  [fld (e_u16 pid); sect t (sprops_ok t) ps; raw_fld (concat (map e_u8 codes))].

Theorem chain_suback k pid ps codes : is_suback k = true ->
  pid < 65536 -> sprops_ok (kind_nibble k) ps -> len (e_props_raw ps) < 268435456 ->
  cchain (dec_of k) (fresh_of (ctor_fixed k)) 0 (suback_fields (kind_nibble k) pid ps codes).
Proof.
  intros Hk Hpid Hps HR.
  assert (Hdec_of : dec_of k = dec_suback) by (destruct k; try discriminate; reflexivity).
  rewrite Hdec_of. unfold dec_suback, suback_fields.
  assert (Hso : sect_ok (kind_nibble k) (sprops_ok (kind_nibble k)) ack_map false NoSub)
    by (apply so_ack; destruct k; try discriminate Hk; cbn; tauto).
  set (fr0 := fresh_of (ctor_fixed k)).
  change (e_u16 pid) with (encode U16 (VN pid)).
  link_get (M F_packetID) U16 (VN pid) fr0.
  assert (Hbin : forall id r w, lookup_prop ack_map id = Some (r, w) -> w = Bin ->
            valS (getf r (setf (M F_packetID) (canon U16 (VN pid)) fr0)) = []).
  { intros id r w Hl _. apply lookup_in_map in Hl. unfold ack_map in Hl. cbn [In] in Hl.
    destruct Hl as [Hl|[]]. injection Hl as _ <- _. reflexivity. }
  eapply cc_cons; [apply (link_getany_fails _ _ _ _ _ Hso _ Hbin)|apply (link_getany_step _ _ _ _ _ Hso _ Hbin)|];
    try assumption; try discriminate.
  apply cc_last. apply fails_of; [apply cut_none|apply poison_none].
Qed.
(* ------------------------------------------------------------------ *)
(* topic filter lists: a cut strictly inside one of the strings *)
Lemma get_val_err w old s : derr s <> None -> exists s', get_val w old s = GNo s' /\ derr s' <> None /\ dp s' = dp s.
Proof.
  intros He. unfold get_val, get_with. cbn [derr tick]. destruct (derr s) eqn:E; [|congruence].
  eexists. split; [reflexivity|]. cbn [derr tick dp]. rewrite E. split; [discriminate|reflexivity].
Qed.

Lemma firstn_nonempty {A} (l : list A) j : (0 < j)%nat -> l <> [] -> exists x r, firstn j l = x :: r.
Proof. intros Hj Hl. destruct j; [lia|]. destruct l; [congruence|]. cbn. eexists. eexists. reflexivity. Qed.

Lemma ufilter_loop_cut : forall l1 fuel p0 d pos steps f j,
  Forall (fun f => len f < 65536) l1 -> len f < 65536 -> (0 < j < length (enc_bin f))%nat ->
  at_pos d pos (concat (map enc_bin l1) ++ firstn j (enc_bin f)) -> (length l1 < fuel)%nat ->
  exists s', ufilter_loop fuel (mk_state p0 d pos steps) = Run s' /\ derr s' <> None.
Proof.
  induction l1 as [|g l1 IH]; intros fuel p0 d pos steps f j Hok Hf Hj Hat Hfuel.
  - destruct fuel as [|fuel]; [lia|]. cbn [ufilter_loop map concat app] in *.
    destruct (firstn_nonempty (enc_bin f) j ltac:(lia)) as [x [r Ex]].
    { destruct (enc_bin_cons f) as [x [r E]]. rewrite E. discriminate. }
    assert (Hne : at_end (mk_state p0 d pos steps) = false).
    { apply (at_end_false _ _ _ _ x r). rewrite <- Ex. exact Hat. }
    rewrite Hne. destruct Hat as [pre [E L]].
    destruct (get_val_cut Bin (VS f) (VS []) (mk_state p0 d pos steps) pre j) as [s1 [E1 He1]];
      try discriminate; try reflexivity; [exact Hf|cbn [encode valS]; lia|exact E|symmetry; exact L|].
    rewrite E1. cbn [with_pkt derr]. destruct (derr s1) eqn:Ed; [|congruence].
    eexists. split; [reflexivity|]. cbn [derr with_pkt]. rewrite Ed. discriminate.
  - pose proof (Forall_inv Hok) as Hg. pose proof (Forall_inv_tail Hok) as Hl. cbn beta in Hg.
    destruct fuel as [|fuel]; [cbn in Hfuel; lia|].
    cbn [ufilter_loop]. cbn [map concat] in Hat. rewrite <- app_assoc in Hat.
    destruct (enc_bin_cons g) as [x [r Ex]].
    assert (Hne : at_end (mk_state p0 d pos steps) = false).
    { apply (at_end_false _ _ _ _ x (r ++ concat (map enc_bin l1) ++ firstn j (enc_bin f))). rewrite Ex in Hat. exact Hat. }
    rewrite Hne.
    pose proof (at_pos_app d pos (enc_bin g) _ Hat) as Hat'.
    destruct Hat as [pre [E L]].
    rewrite (get_val_encoded' Bin (VS g) (VS []) (mk_state p0 d pos steps) pre
               (concat (map enc_bin l1) ++ firstn j (enc_bin f)));
      try discriminate; try assumption; try reflexivity; [| |symmetry; exact L].
    2:{ intros _. right. reflexivity. }
    cbn [canon valS encode dp ddata dpos dsteps derr mk_state with_pkt].
    change (with_pkt (set_ufilters p0 (ufilters p0 ++ [g]))
              {| dp := p0; ddata := d; dpos := pos + length (enc_bin g); derr := None; dsteps := S steps |})
      with (mk_state (set_ufilters p0 (ufilters p0 ++ [g])) d (pos + length (enc_bin g)) (S steps)).
    assert (Hne' : at_end (mk_state (set_ufilters p0 (ufilters p0 ++ [g])) d (pos + length (enc_bin g)) (S steps)) = false).
    { destruct (firstn_nonempty (enc_bin f) j ltac:(lia)) as [y [t Ey]].
      { destruct (enc_bin_cons f) as [y [t E0]]. rewrite E0. discriminate. }
      destruct (concat (map enc_bin l1) ++ firstn j (enc_bin f)) as [|z u] eqn:Ez.
      - apply app_eq_nil in Ez as [_ Ez]. rewrite Ey in Ez. discriminate.
      - apply (at_end_false _ _ _ _ z u). exact Hat'. }
    rewrite Hne'. apply (IH fuel _ d _ (S steps) f j Hl Hf Hj Hat'). cbn [length] in Hfuel. lia.
Qed.

Lemma filter_loop_cut : forall l1 fuel p0 d pos steps f j,
  Forall filter_ok l1 -> len f < 65536 -> (0 < j < length (enc_bin f))%nat ->
  at_pos d pos (concat (map enc_filter l1) ++ firstn j (enc_bin f)) -> (length l1 < fuel)%nat ->
  exists s', filter_loop fuel (mk_state p0 d pos steps) = Run s' /\ derr s' <> None.
Proof.
  induction l1 as [|[g o] l1 IH]; intros fuel p0 d pos steps f j Hok Hf Hj Hat Hfuel.
  - destruct fuel as [|fuel]; [lia|]. cbn [filter_loop map concat app] in *.
    destruct (firstn_nonempty (enc_bin f) j ltac:(lia)) as [x [r Ex]].
    { destruct (enc_bin_cons f) as [x [r E]]. rewrite E. discriminate. }
    assert (Hne : at_end (mk_state p0 d pos steps) = false).
    { apply (at_end_false _ _ _ _ x r). rewrite <- Ex. exact Hat. }
    rewrite Hne. destruct Hat as [pre [E L]].
    destruct (get_val_cut Bin (VS f) (VS []) (mk_state p0 d pos steps) pre j) as [s1 [E1 He1]];
      try discriminate; try reflexivity; [exact Hf|cbn [encode valS]; lia|exact E|symmetry; exact L|].
    rewrite E1. destruct (get_val_err U8 (VN 0) s1 He1) as [s2 [E2 [He2 _]]]. rewrite E2.
    cbn [with_pkt derr]. destruct (derr s2) eqn:Ed; [|congruence].
    eexists. split; [reflexivity|]. cbn [derr with_pkt]. rewrite Ed. discriminate.
  - pose proof (Forall_inv Hok) as [Hg Ho]. pose proof (Forall_inv_tail Hok) as Hl. cbn [fst snd] in Hg, Ho.
    destruct fuel as [|fuel]; [cbn in Hfuel; lia|].
    cbn [filter_loop]. cbn [map concat] in Hat. unfold enc_filter at 1 in Hat. cbn [fst snd] in Hat.
    rewrite <- !app_assoc in Hat.
    destruct (enc_bin_cons g) as [x [r Ex]].
    assert (Hne : at_end (mk_state p0 d pos steps) = false).
    { apply (at_end_false _ _ _ _ x (r ++ enc_u8 o ++ concat (map enc_filter l1) ++ firstn j (enc_bin f))).
      rewrite Ex in Hat. exact Hat. }
    rewrite Hne.
    pose proof (at_pos_app d pos (enc_bin g) _ Hat) as Hat1.
    pose proof (at_pos_app d _ (enc_u8 o) _ Hat1) as Hat2.
    destruct Hat as [pre [E L]].
    rewrite (get_val_encoded' Bin (VS g) (VS []) (mk_state p0 d pos steps) pre
               (enc_u8 o ++ concat (map enc_filter l1) ++ firstn j (enc_bin f)));
      try discriminate; try assumption; try reflexivity; [| |symmetry; exact L].
    2:{ intros _. right. reflexivity. }
    cbn [canon valS encode dp ddata dpos dsteps derr mk_state].
    destruct Hat1 as [pre1 [E1 L1]].
    rewrite (get_val_encoded' U8 (VN o) (VN 0)
               {| dp := p0; ddata := d; dpos := pos + length (enc_bin g); derr := None; dsteps := S steps |}
               pre1 (concat (map enc_filter l1) ++ firstn j (enc_bin f)));
      try discriminate; try assumption; try reflexivity; [|symmetry; exact L1].
    cbn [canon valN encode enc_u8 length dp ddata dpos dsteps derr].
    change (with_pkt (set_filters p0 (filters p0 ++ [(g, o)]))
             {| dp := p0; ddata := d; dpos := pos + length (enc_bin g) + 1; derr := None; dsteps := S (S steps) |})
      with (mk_state (set_filters p0 (filters p0 ++ [(g, o)])) d (pos + length (enc_bin g) + 1) (S (S steps))).
    cbn [enc_u8 length] in Hat2.
    assert (Hne' : at_end (mk_state (set_filters p0 (filters p0 ++ [(g, o)])) d
                                    (pos + length (enc_bin g) + 1) (S (S steps))) = false).
    { destruct (firstn_nonempty (enc_bin f) j ltac:(lia)) as [y [t Ey]].
      { destruct (enc_bin_cons f) as [y [t E0]]. rewrite E0. discriminate. }
      destruct (concat (map enc_filter l1) ++ firstn j (enc_bin f)) as [|z u] eqn:Ez.
      - apply app_eq_nil in Ez as [_ Ez]. rewrite Ey in Ez. discriminate.
      - apply (at_end_false _ _ _ _ z u). exact Hat2. }
    rewrite Hne'. change (derr (mk_state (set_filters p0 (filters p0 ++ [(g, o)])) d
                                   (pos + length (enc_bin g) + 1) (S (S steps)))) with (@None err).
    cbv iota. apply (IH fuel _ d _ (S (S steps)) f j Hl Hf Hj Hat2). cbn [length] in Hfuel. lia.
Qed.

(* ------------------------------------------------------------------ *)
(* UNSUBSCRIBE *)
Definition in_ufilter (fs : list (list byte)) (j : nat) : Prop :=
  exists l1 f l2 j', fs = l1 ++ f :: l2 /\ j = (length (concat (map e_str l1)) + j')%nat
                     /\ (0 < j' < length (e_str f))%nat.

Lemma e_strs_enc_bin fs : Forall (fun f => len f < 65536) fs -> concat (map e_str fs) = concat (map enc_bin fs).
Proof.
  induction 1 as [|f l Hf _ IH]; [reflexivity|]. cbn [map concat]. rewrite (e_str_enc_bin f Hf), IH. reflexivity.
Qed.

Lemma link_ufilters_cut fs a pos P : Forall (fun f => len f < 65536) fs ->
  cut_ok (DUnsubFilterLoop :: P) a pos (concat (map e_str fs)) (in_ufilter fs).
Proof.
  intros Hfs d j steps [l1 [f [l2 [j' [Efs [Ej Hj']]]]]] _ Hat.
  rewrite Efs in Hfs. apply Forall_app in Hfs as [H1 H2]. pose proof (Forall_inv H2) as Hf. cbn beta in Hf.
  assert (Ecut : firstn j (concat (map e_str fs)) = concat (map enc_bin l1) ++ firstn j' (enc_bin f)).
  { rewrite Efs, map_app, concat_app. cbn [map concat]. rewrite Ej.
    rewrite firstn_app_ge by lia. rewrite (e_strs_enc_bin l1 H1). f_equal.
    replace (length (concat (map enc_bin l1)) + j' - length (concat (map enc_bin l1)))%nat with j' by lia.
    rewrite firstn_app_lt by lia. rewrite (e_str_enc_bin f Hf). reflexivity. }
  rewrite Ecut in Hat. rewrite (e_str_enc_bin f Hf) in Hj'.
  destruct (ufilter_loop_cut l1 (S (length d)) a d pos steps f j' H1 Hf Hj' Hat) as [s' [E He]].
  { pose proof (concat_enc_bin_len l1). destruct Hat as [pre [E L]]. rewrite E, !app_length. lia. }
  apply (errs_step DUnsubFilterLoop P _ s'); [exact E|exact He].
Qed.

Definition ufilters_fld (fs : list (list byte)) : field :=
  {| f_seg := concat (map e_str fs); f_J := in_ufilter fs; f_K := nopoison |}.

Definition unsubscribe_fields (pid : N) (ps : list aprop) (fs : list (list byte)) : list field :=
  [fld (e_u16 pid); sect 10 (sprops_ok 10) ps; ufilters_fld fs].

Theorem chain_unsubscribe pid ps fs :
  pid < 65536 -> sprops_ok 10 ps -> len (e_props_raw ps) < 268435456 ->
  Forall (fun f => len f < 65536) fs ->
  cchain (dec_of KUnsubscribe) (fresh_of (ctor_fixed KUnsubscribe)) 0 (unsubscribe_fields pid ps fs).
Proof.
  intros Hpid Hps HR Hfs. cbn [dec_of]. unfold dec_unsubscribe, unsubscribe_fields.
  set (fr0 := fresh_of (ctor_fixed KUnsubscribe)).
  change (e_u16 pid) with (encode U16 (VN pid)).
  link_get (M F_packetID) U16 (VN pid) fr0.
  assert (Hbin : forall id r w, lookup_prop [] id = Some (r, w) -> w = Bin ->
            valS (getf r (setf (M F_packetID) (canon U16 (VN pid)) fr0)) = []) by (intros id r w Hl; discriminate Hl).
  eapply cc_cons; [apply (link_getany_fails _ _ _ _ _ so_unsubscribe _ Hbin)|apply (link_getany_step _ _ _ _ _ so_unsubscribe _ Hbin)|];
    try assumption; try discriminate.
  apply cc_last. apply fails_of; [apply link_ufilters_cut; exact Hfs|apply poison_none].
Qed.

(* ------------------------------------------------------------------ *)
(* SUBSCRIBE *)
Definition e_filter (f : list byte * N) : list byte := e_str (fst f) ++ e_u8 (snd f).

Definition in_filter (fs : list (list byte * N)) (j : nat) : Prop :=
  exists l1 f l2 j', fs = l1 ++ f :: l2 /\ j = (length (concat (map e_filter l1)) + j')%nat
                     /\ (0 < j' < length (e_str (fst f)))%nat.

Lemma e_filters_enc fs : Forall filter_ok fs -> concat (map e_filter fs) = concat (map enc_filter fs).
Proof.
  induction 1 as [|f l [Hf _] _ IH]; [reflexivity|]. cbn [map concat]. unfold e_filter at 1, enc_filter at 1.
  rewrite (e_str_enc_bin _ Hf), IH. reflexivity.
Qed.

Lemma link_filters_cut fs a pos P : Forall filter_ok fs ->
  cut_ok (DFilterLoop :: P) a pos (concat (map e_filter fs)) (in_filter fs).
Proof.
  intros Hfs d j steps [l1 [f [l2 [j' [Efs [Ej Hj']]]]]] _ Hat.
  rewrite Efs in Hfs. apply Forall_app in Hfs as [H1 H2]. pose proof (Forall_inv H2) as [Hf _].
  assert (Ecut : firstn j (concat (map e_filter fs)) = concat (map enc_filter l1) ++ firstn j' (enc_bin (fst f))).
  { rewrite Efs, map_app, concat_app. cbn [map concat]. rewrite Ej.
    rewrite firstn_app_ge by lia. rewrite (e_filters_enc l1 H1). f_equal.
    replace (length (concat (map enc_filter l1)) + j' - length (concat (map enc_filter l1)))%nat with j' by lia.
    unfold e_filter at 1. rewrite <- app_assoc. rewrite firstn_app_lt by lia. rewrite (e_str_enc_bin _ Hf). reflexivity. }
  rewrite Ecut in Hat. rewrite (e_str_enc_bin _ Hf) in Hj'.
  destruct (filter_loop_cut l1 (S (length d)) a d pos steps (fst f) j' H1 Hf Hj' Hat) as [s' [E He]].
  { pose proof (concat_enc_filter_len l1). destruct Hat as [pre [E L]]. rewrite E, !app_length. lia. }
  apply (errs_step DFilterLoop P _ s'); [exact E|exact He].
Qed.

Definition filters_fld (fs : list (list byte * N)) : field :=
  {| f_seg := concat (map e_filter fs); f_J := in_filter fs; f_K := nopoison |}.

Definition subscribe_fields (pid : N) (ps : list aprop) (fs : list (list byte * N)) : list field :=
  [fld (e_u16 pid); sect 8 (sprops_ok 8) ps; filters_fld fs].

Theorem chain_subscribe pid ps fs :
  pid < 65536 -> sprops_ok 8 ps -> len (e_props_raw ps) < 268435456 ->
  Forall filter_ok fs ->
  cchain (dec_of KSubscribe) (fresh_of (ctor_fixed KSubscribe)) 0 (subscribe_fields pid ps fs).
Proof.
  intros Hpid Hps HR Hfs. cbn [dec_of]. unfold dec_subscribe, subscribe_fields.
  set (fr0 := fresh_of (ctor_fixed KSubscribe)).
  change (e_u16 pid) with (encode U16 (VN pid)).
  link_get (M F_packetID) U16 (VN pid) fr0.
  assert (Hbin : forall id r w, lookup_prop [] id = Some (r, w) -> w = Bin ->
            valS (getf r (setf (M F_packetID) (canon U16 (VN pid)) fr0)) = []) by (intros id r w Hl; discriminate Hl).
  eapply cc_cons; [apply (link_getany_fails _ _ _ _ _ so_subscribe _ Hbin)|apply (link_getany_step _ _ _ _ _ so_subscribe _ Hbin)|];
    try assumption; try discriminate.
  apply cc_last. apply fails_of; [apply link_filters_cut; exact Hfs|apply poison_none].
Qed.

(* ------------------------------------------------------------------ *)
(* a field read under a condition that does not depend on the data *)
Lemma link_ifget_step c r w v a pos P (cv : bool) :
  (forall e, eval_cond c a e = cv) ->
  w <> Raw -> valid_val w v -> ref_live a r ->
  (w = Bin -> valS v <> [] \/ valS (getf r a) = []) ->
  step_ok (DIf c [DGet r w] :: P) a pos (if cv then encode w v else []) P (if cv then setf r (canon w v) a else a).
Proof.
  intros Hc Hw Hv Hl Hb d rest steps _ Hat. cbn [run_dec]. rewrite dif_step.
  change (dp (mk_state a d pos steps)) with a. rewrite Hc. destruct cv.
  - destruct (dget_at r w v a d pos rest steps Hw Hv Hl Hb Hat) as [D _].
    exists (S steps). cbn [run_dec]. rewrite D. reflexivity.
  - exists steps. cbn [length]. rewrite Nat.add_0_r. reflexivity.
Qed.

Lemma link_ifget_cut c r w v a pos P (cv : bool) :
  (forall e, eval_cond c a e = cv) ->
  w <> Raw -> valid_val w v -> ref_live a r ->
  cut_ok (DIf c [DGet r w] :: P) a pos (if cv then encode w v else [])
         (interior (if cv then encode w v else [])).
Proof.
  intros Hc Hw Hv Hl d j steps [_ Hj] Hne Hat. destruct cv; [|destruct j; cbn in Hne; congruence].
  cbn [run_dec]. rewrite dif_step. change (dp (mk_state a d pos steps)) with a. rewrite Hc.
  destruct (dget_cut_at r w v a d pos j steps Hw Hv Hl Hj Hat) as [s' [E He]].
  cbn [run_dec]. rewrite E. apply run_dec_errs. exact He.
Qed.

Lemma link_ifget_fails c r w v a pos P (cv : bool) :
  (forall e, eval_cond c a e = cv) ->
  w <> Raw -> valid_val w v -> ref_live a r ->
  fails_ok (DIf c [DGet r w] :: P) a pos (fld (if cv then encode w v else [])).
Proof. intros Hc Hw Hv Hl. apply fails_of; [apply link_ifget_cut; assumption|apply poison_none]. Qed.

(* ------------------------------------------------------------------ *)
(* PUBLISH: the payload has no inner structure *)
Definition publish_fields (topic : list byte) (pid : option N) (ps : list aprop) (payload : list byte) : list field :=
  [fld (e_str topic); fld (match pid with Some i => e_u16 i | None => [] end); sect 3 (sprops_ok 3) ps; raw_fld payload].

Theorem chain_publish fl topic pid ps payload :
  fl < 16 -> (fl / 2) mod 4 <> 3 -> len topic < 65536 ->
  match pid with Some i => i < 65536 /\ (fl / 2) mod 4 <> 0 | None => (fl / 2) mod 4 = 0 end ->
  sprops_ok 3 ps -> len (e_props_raw ps) < 268435456 ->
  cchain (dec_of KPublish) (fresh_of (48 + fl)) 0 (publish_fields topic pid ps payload).
Proof.
  intros Hfl Hq Htopic Hpid Hps HR.
  destruct (publish_flag_bits fl Hfl Hq) as [Bdup [Bret [Bqos [Bc Brange]]]].
  set (fx := 48 + fl) in *. set (fr0 := fresh_of fx).
  set (a1 := setf (M F_topicName) (canon Bin (VS topic)) fr0).
  set (c := eval_cond CQoS12 a1 no_env).
  assert (Ec : c = negb ((fl / 2) mod 4 =? 0)) by exact Bc.
  set (pidv := match pid with Some i => i | None => 0 end).
  assert (EPID : match pid with Some i => e_u16 i | None => [] end = if c then encode U16 (VN pidv) else []).
  { unfold pidv. rewrite Ec. destruct pid as [i|].
    - destruct Hpid as [_ Hq0]. rewrite (proj2 (N.eqb_neq _ _) Hq0). reflexivity.
    - rewrite Hpid. reflexivity. }
  assert (Hpidv : valid_val U16 (VN pidv)).
  { unfold pidv. cbn [valid_val valN]. destruct pid as [i|]; [destruct Hpid; assumption|lia]. }
  cbn [dec_of]. unfold dec_publish, publish_fields. rewrite EPID, (e_str_enc_bin topic Htopic).
  change (enc_bin topic) with (encode Bin (VS topic)).
  link_get (M F_topicName) Bin (VS topic) fr0.
  { intros _. right. reflexivity. }
  fold a1.
  eapply cc_cons; [apply link_ifget_fails|apply link_ifget_step|]; try (intros e; reflexivity);
    try discriminate; try exact I; try exact Hpidv.
  fold c. set (a2 := if c then setf (M F_packetID) (canon U16 (VN pidv)) a1 else a1).
  assert (Hbin : forall id r w, lookup_prop publish_map id = Some (r, w) -> w = Bin -> valS (getf r a2) = []).
  { intros id r w Hl _. apply lookup_in_map in Hl. unfold publish_map in Hl. cbn [In] in Hl.
    unfold a2. repeat (destruct Hl as [Hl|Hl]; [injection Hl as _ <- _; destruct c; reflexivity|]). contradiction. }
  eapply cc_cons; [apply (link_getany_fails _ _ _ _ _ so_publish _ Hbin)|apply (link_getany_step _ _ _ _ _ so_publish _ Hbin)|];
    try assumption; try discriminate.
  apply cc_last. apply fails_of; [apply cut_none|apply poison_none].
Qed.

(* ------------------------------------------------------------------ *)
(* CONNECT *)
Lemma link_willinit P a pos : step_ok (DWillInit :: P) a pos [] P (will_init a).
Proof. intros d rest steps _ _. exists steps. rewrite Nat.add_0_r. reflexivity. Qed.

Lemma link_willcopy P a pos : hasWill a = true ->
  step_ok (DWillPayloadCopy :: P) a pos [] P (setf (W F_payload) (VS (getS (M F_willPayload) a)) a).
Proof.
  intros Hw d rest steps _ _. exists steps. rewrite Nat.add_0_r. cbn [run_dec run_dec1].
  change (dp (mk_state a d pos steps)) with a. rewrite Hw. reflexivity.
Qed.

Definition opt_bytes (o : option (list byte)) : list byte := match o with Some s => s | None => [] end.
Definition is_some {A} (o : option A) : bool := match o with Some _ => true | None => false end.

Lemma e_opt_if o : opt_ok o -> e_opt o = if is_some o then encode Bin (VS (opt_bytes o)) else [].
Proof. destruct o as [s|]; cbn [e_opt is_some opt_bytes opt_ok encode valS]; intros H; [apply e_str_enc_bin; exact H|reflexivity]. Qed.

(* user name and password, after whatever came before *)
(* user name and password, after whatever came before *)
Lemma chain_userpass flags aw pos user pass :
  getN (M F_flags) aw = flags -> flags < 256 ->
  valS (getf (M F_username) aw) = [] -> valS (getf (M F_password) aw) = [] ->
  opt_ok user -> N.testbit flags 7 = is_some user ->
  opt_ok pass -> N.testbit flags 6 = is_some pass ->
  cchain [DIf (CHas (M F_flags) UsernameFlag) [DGet (M F_username) Bin];
          DIf (CHas (M F_flags) PasswordFlag) [DGet (M F_password) Bin]] aw pos
         [fld (e_opt user); fld (e_opt pass)].
Proof.
  intros Hfl Hflags Hzu Hzp Hus Hub Hpa Hpb.
  destruct (connect_flag_bits flags Hflags) as [_ [Bu [Bp _]]].
  rewrite (e_opt_if user Hus), (e_opt_if pass Hpa).
  assert (Vu : valid_val Bin (VS (opt_bytes user))) by (destruct user; [exact Hus|reflexivity]).
  assert (Vp : valid_val Bin (VS (opt_bytes pass))) by (destruct pass; [exact Hpa|reflexivity]).
  assert (Cu : forall e, eval_cond (CHas (M F_flags) UsernameFlag) aw e = is_some user).
  { intros e. cbn [eval_cond]. rewrite Hfl, Bu. exact Hub. }
  eapply cc_cons; [apply (link_ifget_fails _ _ _ _ _ _ _ _ Cu)|apply (link_ifget_step _ _ _ _ _ _ _ _ Cu)|];
    try discriminate; try exact I; try exact Vu.
  { intros _. right. exact Hzu. }
  set (au := if is_some user then setf (M F_username) (canon Bin (VS (opt_bytes user))) aw else aw).
  assert (Cp : forall e, eval_cond (CHas (M F_flags) PasswordFlag) au e = is_some pass).
  { intros e. cbn [eval_cond]. unfold au. destruct (is_some user).
    - unfold getN. rewrite getf_setf_other by reflexivity. fold (getN (M F_flags) aw). rewrite Hfl, Bp. exact Hpb.
    - rewrite Hfl, Bp. exact Hpb. }
  apply cc_last. apply (link_ifget_fails _ _ _ _ _ _ _ _ Cp); try discriminate; try exact I; exact Vp.
Qed.

Definition connect_fields (flags ka : N) (ps : list aprop) (cid : list byte) (will : option awill)
           (user pass : option (list byte)) : list field :=
  [fld mqtt_name; fld (e_u8 5); fld (e_u8 flags); fld (e_u16 ka); sect 1 (sprops_ok 1) ps; fld (e_str cid)] ++
  (match will with
   | Some w => [sect 100 (sprops_ok 100) (w_props w); fld (e_str (w_topic w)); fld (e_str (w_payload w))]
   | None => [] end) ++
  [fld (e_opt user); fld (e_opt pass)].

Theorem chain_connect flags ka ps cid will user pass :
  connect_frame_ok flags ka ps cid will user pass ->
  cchain (dec_of KConnect) (fresh_of (ctor_fixed KConnect)) 0 (connect_fields flags ka ps cid will user pass).
Proof.
  intros [Hfl Hwq Hka [Hps HR] Hcid Hwill [Hus Hub] [Hpa Hpb]].
  destruct (connect_flag_bits flags Hfl) as [Bw _].
  set (fr0 := fresh_of (ctor_fixed KConnect)).
  set (a1 := setf (M F_protocolName) (canon Bin (VS mqtt5)) fr0).
  set (a2 := setf (M F_protocolVersion) (canon U8 (VN 5)) a1).
  set (a3 := setf (M F_flags) (canon U8 (VN flags)) a2).
  set (a4 := setf (M F_keepAlive) (canon U16 (VN ka)) a3).
  set (a5 := apply_props connect_map false NoSub ps a4).
  set (a6 := setf (M F_clientID) (canon Bin (VS cid)) a5).
  cbn [dec_of]. unfold dec_connect, connect_fields. cbn [app].
  rewrite mqtt_name_bin, (e_str_enc_bin cid Hcid).
  change (enc_bin mqtt5) with (encode Bin (VS mqtt5)). change (e_u8 5) with (encode U8 (VN 5)).
  change (e_u8 flags) with (encode U8 (VN flags)). change (e_u16 ka) with (encode U16 (VN ka)).
  change (enc_bin cid) with (encode Bin (VS cid)).
  link_get (M F_protocolName) Bin (VS mqtt5) fr0.
  { cbn. reflexivity. } { cbn. reflexivity. } { intros _. right. reflexivity. }
  fold a1. link_get (M F_protocolVersion) U8 (VN 5) a1.
  fold a2. link_get (M F_flags) U8 (VN flags) a2.
  fold a3. link_get (M F_keepAlive) U16 (VN ka) a3.
  fold a4.
  assert (Hbin4 : forall id r w, lookup_prop connect_map id = Some (r, w) -> w = Bin -> valS (getf r a4) = []).
  { intros id r w Hl _. apply lookup_in_map in Hl. unfold connect_map in Hl. cbn [In] in Hl.
    repeat (destruct Hl as [Hl|Hl]; [injection Hl as _ <- _; reflexivity|]). contradiction. }
  eapply cc_cons; [apply (link_getany_fails _ _ _ _ _ so_connect _ Hbin4)|apply (link_getany_step _ _ _ _ _ so_connect _ Hbin4)|];
    try assumption; try discriminate.
  fold a5. link_get (M F_clientID) Bin (VS cid) a5.
  { intros _. right. unfold a5. getf_down2. reflexivity. }
  fold a6.
  assert (Hfl6 : getN (M F_flags) a6 = flags).
  { unfold getN, a6, a5. getf_down2. unfold a4. getf_down2. unfold a3. getf_down2. reflexivity. }
  destruct will as [w|].
  - destruct Hwill as [Hb2 [Hwps [HwR [Hwt Hwpl]]]].
    eapply cc_silent.
    { apply link_if. intros d rest steps _ _. cbn [eval_cond]. rewrite Hfl6, Bw. exact Hb2. }
    cbn [app]. eapply cc_silent; [apply link_willinit|].
    set (a7 := will_init a6).
    rewrite (e_str_enc_bin _ Hwt), (e_str_enc_bin _ Hwpl).
    set (wp := w_props w) in *. set (wtp := w_topic w) in *. set (wpl := w_payload w) in *.
    change (enc_bin wtp) with (encode Bin (VS wtp)). change (enc_bin wpl) with (encode Bin (VS wpl)).
    assert (Hbin7 : forall id r w0, lookup_prop will_map id = Some (r, w0) -> w0 = Bin -> valS (getf r a7) = []).
    { intros id r w0 Hl Hb. apply lookup_in_map in Hl. unfold will_map in Hl. cbn [In] in Hl.
      destruct Hl as [Hl|Hl].
      - injection Hl as _ _ <-. discriminate Hb.
      - repeat (destruct Hl as [Hl|Hl]; [injection Hl as _ <- _; reflexivity|]). contradiction. }
    eapply cc_cons; [apply (link_getany_fails _ _ _ _ _ so_will _ Hbin7)|apply (link_getany_step _ _ _ _ _ so_will _ Hbin7)|];
      try assumption; try reflexivity.
    set (a8 := apply_props will_map true NoSub wp a7).
    assert (Hw8 : hasWill a8 = true) by (unfold a8; rewrite hasWill_apply_props; reflexivity).
    link_get (W F_topicName) Bin (VS wtp) a8; try exact Hw8; try exact Hwt.
    { intros _. right. unfold a8. rewrite getf_apply_other by reflexivity. reflexivity. }
    set (a9 := setf (W F_topicName) (canon Bin (VS wtp)) a8).
    link_get (M F_willPayload) Bin (VS wpl) a9; try exact Hwpl.
    { intros _. right. unfold a9, a8, a7. getf_down2. unfold a6, a5. getf_down2. reflexivity. }
    set (a10 := setf (M F_willPayload) (canon Bin (VS wpl)) a9).
    eapply cc_silent.
    { apply link_willcopy. unfold a10, a9. rewrite !hasWill_setf. exact Hw8. }
    apply (chain_userpass flags); try assumption.
    + unfold getN, a10, a9, a8, a7. getf_down2. exact Hfl6.
    + unfold a10, a9, a8, a7. getf_down2. unfold a6, a5. getf_down2. reflexivity.
    + unfold a10, a9, a8, a7. getf_down2. unfold a6, a5. getf_down2. reflexivity.
  - eapply cc_silent.
    { apply link_ifnot. intros d rest steps _ _. cbn [eval_cond]. rewrite Hfl6, Bw. exact Hwill. }
    cbn [app]. apply (chain_userpass flags); try assumption.
    + unfold a6, a5. getf_down2. reflexivity.
    + unfold a6, a5. getf_down2. reflexivity.
Qed.

(* ------------------------------------------------------------------ *)
(* every valid frame *)
Definition fields (t : N) (b : abody) : list field :=
  match b with
  | BConnect flags ka ps cid will user pass => connect_fields flags ka ps cid will user pass
  | BConnack fl rc ps => [fld (e_u8 fl); fld (e_u8 rc); sect 2 (sprops_ok 2) ps]
  | BPublish topic pid ps payload => publish_fields topic pid ps payload
  | BAck pid form rc ps => ack_fields t pid form rc ps
  | BSubscribe pid ps fs => subscribe_fields pid ps fs
  | BSuback pid ps codes => suback_fields t pid ps codes
  | BUnsubscribe pid ps fs => unsubscribe_fields pid ps fs
  | BPing => []
  | BDisc form rc ps => disc_fields t form rc ps
  end.

Lemma fields_body t b : concat (map f_seg (fields t b)) = e_body b.
Proof.
  destruct b as [flags ka ps cid will user pass|a rc ps|topic pid ps payload|pid form rc ps|pid ps fs|pid ps codes
                |pid ps fs| |form rc ps]; cbn [fields e_body].
  - unfold connect_fields. destruct will; cbn [map concat f_seg fld sect app]; rewrite ?app_nil_r, <- ?app_assoc; reflexivity.
  - cbn [map concat f_seg fld sect app]. rewrite ?app_nil_r. reflexivity.
  - unfold publish_fields. cbn [map concat f_seg fld sect raw_fld app]. rewrite ?app_nil_r. reflexivity.
  - unfold ack_fields. destruct (form =? 2); [cbn [map concat f_seg fld sect app]; rewrite ?app_nil_r; reflexivity|].
    destruct (form =? 3); cbn [map concat f_seg fld sect app]; rewrite ?app_nil_r; reflexivity.
  - unfold subscribe_fields. cbn [map concat f_seg fld sect filters_fld app]. rewrite ?app_nil_r. reflexivity.
  - unfold suback_fields. cbn [map concat f_seg fld sect raw_fld app]. rewrite ?app_nil_r. reflexivity.
  - unfold unsubscribe_fields. cbn [map concat f_seg fld sect ufilters_fld app]. rewrite ?app_nil_r. reflexivity.
  - reflexivity.
  - unfold disc_fields. destruct (form =? 0); [reflexivity|].
    destruct (form =? 1); cbn [map concat f_seg fld sect app]; rewrite ?app_nil_r; reflexivity.
Qed.

Theorem chain_all f : frame_ok f ->
  let b0 := af_type f * 16 + af_flags f in
  exists k, fresh_pkt (b2n (n2b b0)) = (k, fresh_of b0)
            /\ cchain (dec_of k) (fresh_of b0) 0 (fields (af_type f) (af_body f)).
Proof.
  destruct f as [t fl b]. unfold frame_ok. cbn [af_type af_flags af_body].
  destruct b as [flags ka ps cid will user pass|a rc ps|topic pid ps payload|pid form rc ps|pid ps fs|pid ps codes
                |pid ps fs| |form rc ps]; cbn [fields].
  - intros [-> [-> H]]. exists KConnect. split; [reflexivity|]. apply chain_connect. exact H.
  - intros [-> [-> [H1 [H2 [H3 H4]]]]]. exists KConnAck. split; [reflexivity|]. apply chain_connack; assumption.
  - intros [-> [H1 [H2 [H3 [H4 [H5 H6]]]]]]. exists KPublish.
    destruct (publish_flag_bits fl H1 H2) as [_ [_ [_ [_ Brange]]]].
    split; [apply fresh_publish; exact Brange|]. apply chain_publish; assumption.
  - intros [Ht [-> [H1 [H2 H3]]]].
    destruct Ht as [-> |[-> |[-> | ->]]].
    + exists KPubAck. split; [reflexivity|]. apply (chain_ack KPubAck); try assumption; reflexivity.
    + exists KPubRec. split; [reflexivity|]. apply (chain_ack KPubRec); try assumption; reflexivity.
    + exists KPubRel. split; [reflexivity|]. apply (chain_ack KPubRel); try assumption; reflexivity.
    + exists KPubComp. split; [reflexivity|]. apply (chain_ack KPubComp); try assumption; reflexivity.
  - intros [-> [-> [H1 [H2 [H3 H4]]]]]. exists KSubscribe. split; [reflexivity|]. apply chain_subscribe; assumption.
  - intros [Ht [-> [H1 [H2 [H3 H4]]]]]. destruct Ht as [-> | ->].
    + exists KSubAck. split; [reflexivity|]. apply (chain_suback KSubAck); try assumption; reflexivity.
    + exists KUnsubAck. split; [reflexivity|]. apply (chain_suback KUnsubAck); try assumption; reflexivity.
  - intros [-> [-> [H1 [H2 [H3 H4]]]]]. exists KUnsubscribe. split; [reflexivity|]. apply chain_unsubscribe; assumption.
  - intros [Ht ->]. destruct Ht as [-> | ->]; [exists KPingReq|exists KPingResp]; (split; [reflexivity|apply cc_nil]).
  - intros [Ht [-> [H1 H2]]]. destruct Ht as [-> | ->].
    + exists KDisconnect. split; [reflexivity|]. apply chain_disconnect; assumption.
    + exists KAuth. split; [reflexivity|]. apply chain_auth; assumption.
Qed.

(* the general statement: the fields before one of them whole, then one of
   its failing remainders *)
Theorem damaged_frame_rejected f pre F post rem : frame_ok f ->
  fields (af_type f) (af_body f) = pre ++ F :: post -> remainder F rem -> rem <> [] ->
  exists e, decode_frame (n2b (af_type f * 16 + af_flags f)) (concat (map f_seg pre) ++ rem) = Some (None, Some e).
Proof.
  intros Hok E HR Hne. destruct (chain_all f Hok) as [k [Hfresh Hch]]. cbv zeta in *.
  pose proof (cchain_fails _ _ _ _ Hch pre F post rem (concat (map f_seg pre) ++ rem) 0%nat E HR Hne (at_pos_0 _)) as Herr.
  destruct (unmarshal_errs k _ _ Herr) as [e [p Hu]].
  exists e. unfold decode_frame. rewrite Hfresh.
  destruct (concat (map f_seg pre) ++ rem) as [|x r] eqn:Ef.
  - apply app_eq_nil in Ef as [_ Ef]. contradiction.
  - rewrite Hu. reflexivity.
Qed.

(* a cut position, in the fields of a body: inside the first field, or
   past it and inside one of the others *)
Fixpoint field_cut (fs : list field) (c : nat) : Prop :=
  match fs with
  | [] => False
  | F :: rest =>
      (f_J F c /\ (0 < c < length (f_seg F))%nat) \/ ((length (f_seg F) <= c)%nat /\ field_cut rest (c - length (f_seg F)))
  end.

Lemma field_cut_split fs : forall c, field_cut fs c ->
  exists pre F post j, fs = pre ++ F :: post /\ f_J F j /\ (0 < j < length (f_seg F))%nat
                       /\ c = (length (concat (map f_seg pre)) + j)%nat.
Proof.
  induction fs as [|F fs IH]; intros c H; [contradiction|]. cbn [field_cut] in H.
  destruct H as [[HJ Hc]|[Hc H]].
  - exists [], F, fs, c. repeat split; try assumption; lia.
  - destruct (IH _ H) as [pre [F' [post [j [E [HJ [Hj Ec]]]]]]].
    exists (F :: pre), F', post, j. split; [rewrite E; reflexivity|]. split; [exact HJ|].
    split; [exact Hj|]. cbn [map concat]. rewrite app_length. lia.
Qed.

Theorem cut_frame_rejected f c : frame_ok f -> field_cut (fields (af_type f) (af_body f)) c ->
  exists e, decode_frame (n2b (af_type f * 16 + af_flags f)) (firstn c (e_body (af_body f))) = Some (None, Some e).
Proof.
  intros Hok Hcut.
  destruct (field_cut_split _ _ Hcut) as [pre [F [post [j [E [HJ [Hj Ec]]]]]]].
  assert (Ecut : firstn c (e_body (af_body f)) = concat (map f_seg pre) ++ firstn j (f_seg F)).
  { rewrite <- (fields_body (af_type f)), E, map_app, concat_app. cbn [map concat]. rewrite Ec.
    rewrite firstn_app_ge by lia. f_equal.
    replace (length (concat (map f_seg pre)) + j - length (concat (map f_seg pre)))%nat with j by lia.
    apply firstn_app_lt. lia. }
  rewrite Ecut. apply (damaged_frame_rejected f pre F post); try assumption.
  - left. exists j. split; [exact HJ|reflexivity].
  - destruct (f_seg F); [cbn in Hj; lia|]. destruct j; [lia|]. discriminate.
Qed.
(* ------------------------------------------------------------------ *)
(* The same over the field map of the reference encoder (Spec.Mqtt5
   body_segs): kinds 0 (single byte), 6 (raw payload) and 7 (byte list)
   have no interior; a cut strictly inside any other segment is a cut in
   the sense above. *)
Definition cuttable (kd : N) : Prop := kd <> 0 /\ kd <> 6 /\ kd <> 7.

Fixpoint seg_cut (segs : list seg) (c : nat) : Prop :=
  match segs with
  | [] => False
  | (kd, bytes) :: rest =>
      (cuttable kd /\ (0 < c < length bytes)%nat) \/ ((length bytes <= c)%nat /\ seg_cut rest (c - length bytes))
  end.

Definition seg_bytes (S : list seg) : list byte := concat (map snd S).

Lemma seg_cut_bound S : forall c, seg_cut S c -> (0 < c < length (seg_bytes S))%nat.
Proof.
  induction S as [|[kd b] S IH]; intros c H; [contradiction|]. unfold seg_bytes in *. cbn [seg_cut map concat snd] in *.
  rewrite app_length. destruct H as [[_ H]|[H1 H2]]; [lia|]. specialize (IH _ H2). lia.
Qed.

Lemma seg_cut_app A B : forall c, seg_cut (A ++ B) c ->
  seg_cut A c \/ ((length (seg_bytes A) <= c)%nat /\ seg_cut B (c - length (seg_bytes A))).
Proof.
  induction A as [|[kd b] A IH]; intros c H.
  - right. unfold seg_bytes. cbn [map concat length app] in *. rewrite Nat.sub_0_r. split; [lia|exact H].
  - cbn [app seg_cut] in H. destruct H as [H|[H1 H2]]; [left; left; exact H|].
    destruct (IH _ H2) as [H3|[H3 H4]].
    + left. right. split; assumption.
    + right. unfold seg_bytes in *. cbn [map concat snd]. rewrite app_length. split; [lia|].
      replace (c - (length b + length (concat (map snd A))))%nat with (c - length b - length (concat (map snd A)))%nat by lia.
      exact H4.
Qed.

Definition refines (S : list seg) (Fs : list field) : Prop := forall c, seg_cut S c -> field_cut Fs c.
Definition covers (S : list seg) (F : field) : Prop :=
  seg_bytes S = f_seg F /\ forall c, seg_cut S c -> f_J F c.

Lemma refines_nil : refines [] [].
Proof. intros c H. exact H. Qed.

Lemma refines_cons S F Ss Fs : covers S F -> refines Ss Fs -> refines (S ++ Ss) (F :: Fs).
Proof.
  intros [Hb HJ] Hr c H. cbn [field_cut].
  destruct (seg_cut_app S Ss c H) as [H1|[H1 H2]].
  - left. split; [apply HJ; exact H1|]. rewrite <- Hb. apply seg_cut_bound. exact H1.
  - right. rewrite <- Hb. split; [exact H1|apply Hr; exact H2].
Qed.

Lemma refines_last S F : covers S F -> refines S [F].
Proof. intros H. rewrite <- (app_nil_r S). apply refines_cons; [exact H|apply refines_nil]. Qed.

Lemma covers_one kd b : covers [(kd, b)] (fld b).
Proof.
  split; [unfold seg_bytes; cbn; apply app_nil_r|]. intros c H. cbn [seg_cut] in H.
  destruct H as [[_ H]|[_ []]]. exact H.
Qed.

Lemma covers_nocut kd b : kd = 6 \/ kd = 7 -> covers [(kd, b)] (raw_fld b).
Proof.
  intros Hk. split; [unfold seg_bytes; cbn; apply app_nil_r|]. intros c H. cbn [seg_cut] in H.
  destruct H as [[[H0 [H6 H7]] _]|[_ []]]. destruct Hk; contradiction.
Qed.

Lemma covers_empty : covers [] (fld []).
Proof. split; [reflexivity|intros c []]. Qed.

Lemma s_props_bytes ps : seg_bytes (s_props ps) = e_props ps.
Proof.
  unfold s_props, seg_bytes, e_props, e_props_raw. cbn [map concat snd]. f_equal.
  rewrite map_map. reflexivity.
Qed.

Lemma covers_props where_ okps ps : covers (s_props ps) (sect where_ okps ps).
Proof.
  split; [apply s_props_bytes|]. intros c H. cbn [sect f_J]. unfold interior.
  rewrite <- s_props_bytes. apply seg_cut_bound. exact H.
Qed.

Lemma covers_opt o : covers (s_opt o) (fld (e_opt o)).
Proof. destruct o; [apply covers_one|apply covers_empty]. Qed.

Lemma covers_ufilters fs : covers (map (fun f => (3, e_str f)) fs) (ufilters_fld fs).
Proof.
  split; [unfold seg_bytes; rewrite map_map; reflexivity|]. cbn [ufilters_fld f_J].
  induction fs as [|f fs IH]; intros c H; [contradiction|]. cbn [map seg_cut] in H.
  destruct H as [[_ H]|[H1 H2]].
  - exists [], f, fs, c. split; [reflexivity|]. split; [reflexivity|exact H].
  - destruct (IH _ H2) as [l1 [g [l2 [j' [E [Ej Hj']]]]]].
    exists (f :: l1), g, l2, j'. split; [rewrite E; reflexivity|]. split; [|exact Hj'].
    cbn [map concat]. rewrite app_length. lia.
Qed.

Lemma covers_filters fs :
  covers (concat (map (fun f => [(3, e_str (fst f)); (0, e_u8 (snd f))]) fs))
         (filters_fld fs).
Proof.
  split.
  - unfold seg_bytes. cbn [filters_fld f_seg]. induction fs as [|f fs IH]; [reflexivity|]. cbn [map concat app snd fst].
    unfold e_filter at 1. rewrite <- app_assoc. cbn [fst] in IH. rewrite IH. reflexivity.
  - cbn [filters_fld f_J]. induction fs as [|f fs IH]; intros c H; [contradiction|]. cbn [map concat app seg_cut] in H.
    destruct H as [[_ H]|[H1 [[[H0 _] _]|[H2 H3]]]].
    + exists [], f, fs, c. split; [reflexivity|]. split; [reflexivity|exact H].
    + congruence.
    + destruct (IH _ H3) as [l1 [g [l2 [j' [E [Ej Hj']]]]]].
      exists (f :: l1), g, l2, j'. split; [rewrite E; reflexivity|]. split; [|exact Hj'].
      cbn [map concat]. rewrite app_length. unfold e_filter at 1. rewrite app_length. lia.
Qed.

Theorem segs_refine t b : refines (body_segs b) (fields t b).
Proof.
  destruct b as [flags ka ps cid will user pass|a rc ps|topic pid ps payload|pid form rc ps|pid ps fs|pid ps codes
                |pid ps fs| |form rc ps]; cbn [fields body_segs].
  - unfold connect_fields. cbn [app].
    apply (refines_cons [(3, mqtt_name)]); [apply covers_one|].
    apply (refines_cons [(0, e_u8 5)]); [apply covers_one|].
    apply (refines_cons [(0, e_u8 flags)]); [apply covers_one|].
    apply (refines_cons [(1, e_u16 ka)]); [apply covers_one|].
    apply refines_cons; [apply covers_props|].
    apply (refines_cons [(3, e_str cid)]); [apply covers_one|].
    destruct will as [w|]; cbn [app].
    + rewrite <- app_assoc. apply refines_cons; [apply covers_props|]. cbn [app].
      apply (refines_cons [(3, e_str (w_topic w))]); [apply covers_one|].
      apply (refines_cons [(3, e_str (w_payload w))]); [apply covers_one|].
      apply refines_cons; [apply covers_opt|]. apply refines_last. apply covers_opt.
    + apply refines_cons; [apply covers_opt|]. apply refines_last. apply covers_opt.
  - cbn [app]. apply (refines_cons [(0, e_u8 a)]); [apply covers_one|].
    apply (refines_cons [(0, e_u8 rc)]); [apply covers_one|]. apply refines_last. apply covers_props.
  - unfold publish_fields. cbv zeta. cbn [app].
    apply (refines_cons [(3, e_str topic)]); [apply covers_one|].
    apply refines_cons; [destruct pid; [apply covers_one|apply covers_empty]|].
    apply refines_cons; [apply covers_props|]. apply refines_last. apply covers_nocut. left. reflexivity.
  - unfold ack_fields. cbn [app]. apply (refines_cons [(1, e_u16 pid)]); [apply covers_one|].
    destruct (form =? 2); [apply refines_nil|].
    apply (refines_cons [(0, e_u8 rc)]); [apply covers_one|].
    destruct (form =? 3); [apply refines_nil|]. apply refines_last. apply covers_props.
  - unfold subscribe_fields. cbn [app]. apply (refines_cons [(1, e_u16 pid)]); [apply covers_one|].
    apply refines_cons; [apply covers_props|]. apply refines_last. apply covers_filters.
  - unfold suback_fields. cbn [app]. apply (refines_cons [(1, e_u16 pid)]); [apply covers_one|].
    apply refines_cons; [apply covers_props|]. apply refines_last. apply covers_nocut. right. reflexivity.
  - unfold unsubscribe_fields. cbn [app]. apply (refines_cons [(1, e_u16 pid)]); [apply covers_one|].
    apply refines_cons; [apply covers_props|]. apply refines_last. apply covers_ufilters.
  - apply refines_nil.
  - unfold disc_fields. destruct (form =? 0); [apply refines_nil|].
    apply (refines_cons [(0, e_u8 rc)]); [apply covers_one|].
    destruct (form =? 1); [apply refines_nil|]. apply refines_last. apply covers_props.
Qed.

(* C09 (a) for whole frames *)
Theorem cut_inside_field_rejected f c : frame_ok f -> seg_cut (body_segs (af_body f)) c ->
  exists e, decode_frame (n2b (af_type f * 16 + af_flags f)) (firstn c (e_body (af_body f))) = Some (None, Some e).
Proof. intros Hok H. apply cut_frame_rejected; [exact Hok|apply segs_refine; exact H]. Qed.

(* ... and on the stream: the cut frame with its remaining length equal
   to the shortened size, under any delivery and whatever follows *)
Theorem cut_inside_field_read_packet f c s rest :
  frame_ok f -> seg_cut (body_segs (af_body f)) c ->
  let b0 := n2b (af_type f * 16 + af_flags f) in
  let cut := firstn c (e_body (af_body f)) in
  len cut < 268435456 ->
  sbytes s = b0 :: enc_vb (len cut) ++ cut ++ rest ->
  avail (len (b0 :: enc_vb (len cut) ++ cut)) s = true ->
  exists e tr, read_packet s =
    RP {| r_pkt := None; r_err := Some e; r_rest := sdrop (len (b0 :: enc_vb (len cut) ++ cut)) s;
          r_trace := tr; r_got := b0 :: enc_vb (len cut) ++ cut |}.
Proof.
  intros Hok Hcut b0 cut Hlen Hs Hav.
  destruct (cut_inside_field_rejected f c Hok Hcut) as [e He]. fold b0 cut in He.
  destruct (enc_vb_wf (len cut) Hlen) as [W V].
  destruct (read_packet_frame b0 (enc_vb (len cut)) cut rest s None (Some e) W (eq_sym V) Hs Hav He) as [tr E].
  exists e, tr. exact E.
Qed.


(* (b)-(d) for whole frames: the fields before a property section whole,
   then a section that is poisoned, then anything *)
Lemma bad_section_nonempty where_ okps bad : bad_section where_ okps bad -> bad <> [].
Proof.
  intros [[a [b [c [e [-> _]]]]]|[L [ps1 [t [-> [HL _]]]]]]; [discriminate|].
  rewrite (e_var_enc_vb L HL). pose proof (encode_nonempty Vb (VN L)) as H. cbn [encode valN] in H.
  destruct (enc_vb L); [exfalso; specialize (H ltac:(discriminate) ltac:(discriminate)); cbn in H; lia|discriminate].
Qed.

Theorem poisoned_frame_rejected f pre where_ okps ps post bad rest : frame_ok f ->
  fields (af_type f) (af_body f) = pre ++ sect where_ okps ps :: post -> bad_section where_ okps bad ->
  exists e, decode_frame (n2b (af_type f * 16 + af_flags f)) (concat (map f_seg pre) ++ bad ++ rest) = Some (None, Some e).
Proof.
  intros Hok E Hbad. apply (damaged_frame_rejected f pre (sect where_ okps ps) post); try assumption.
  - right. exists bad, rest. split; [exact Hbad|reflexivity].
  - intros E0. apply app_eq_nil in E0 as [E0 _]. exact (bad_section_nonempty _ _ _ Hbad E0).
Qed.

Theorem poisoned_frame_read_packet f pre where_ okps ps post bad rest s after :
  frame_ok f ->
  fields (af_type f) (af_body f) = pre ++ sect where_ okps ps :: post -> bad_section where_ okps bad ->
  let b0 := n2b (af_type f * 16 + af_flags f) in
  let body := concat (map f_seg pre) ++ bad ++ rest in
  len body < 268435456 ->
  sbytes s = b0 :: enc_vb (len body) ++ body ++ after ->
  avail (len (b0 :: enc_vb (len body) ++ body)) s = true ->
  exists e tr, read_packet s =
    RP {| r_pkt := None; r_err := Some e; r_rest := sdrop (len (b0 :: enc_vb (len body) ++ body)) s;
          r_trace := tr; r_got := b0 :: enc_vb (len body) ++ body |}.
Proof.
  intros Hok E Hbad b0 body Hlen Hs Hav.
  destruct (poisoned_frame_rejected f pre where_ okps ps post bad rest Hok E Hbad) as [e He]. fold b0 body in He.
  destruct (enc_vb_wf (len body) Hlen) as [W V].
  destruct (read_packet_frame b0 (enc_vb (len body)) body after s None (Some e) W (eq_sym V) Hs Hav He) as [tr Er].
  exists e, tr. exact Er.
Qed.
