(* The setters/accessors refine the record-of-fields specification (C12). *)
From MQ Require Import Model.Api Spec.Fields Proofs.BytesP.
From Coq Require Import ZArith Lia ZifyN ZifyNat ZifyBool.
From Coq Require Import List. Import ListNotations. Open Scope N_scope.

(* ---------------- the flag bytes as functions of plain values ------------- *)
Definition qbits (q : N) : N := if q =? 1 then 2 else if q =? 2 then 4 else if q =? 3 then 6 else 0.
Definition pf (d : bool) (q : N) (r : bool) : N :=
  48 + (if d then 8 else 0) + qbits q + (if r then 1 else 0).

Definition cfN (u pw : bool) (w : option (bool * N)) (c : bool) : N :=
  (if u then 128 else 0) + (if pw then 64 else 0)
  + match w with
    | Some (r, q) => 4 + (if r then 32 else 0) + (if q <? 3 then 8 * q else 0)
    | None => 0
    end
  + (if c then 2 else 0).

Ltac q4 q := assert (q = 0 \/ q = 1 \/ q = 2 \/ q = 3) as [->|[->|[->| ->]]] by lia.

Lemma qos_le3 fx : qos_of_fixed fx <= 3.
Proof. unfold qos_of_fixed. repeat match goal with |- context [if ?c then _ else _] => destruct c end; lia. Qed.

Lemma pf_dup d q r b : q <= 3 -> toggle (pf d q r) DUP b = pf b q r.
Proof. intros H. q4 q; destruct d, r, b; reflexivity. Qed.
Lemma pf_retain d q r b : q <= 3 -> toggle (pf d q r) RETAIN b = pf d q b.
Proof. intros H. q4 q; destruct d, r, b; reflexivity. Qed.
Lemma pf_qos d q r v : q <= 3 -> setqos (pf d q r) v = pf d (norm_qos v) r.
Proof.
  intros H. unfold setqos, norm_qos.
  destruct (N.eqb_spec v 1) as [->|H1]; [q4 q; destruct d, r; reflexivity|].
  destruct (N.eqb_spec v 2) as [->|H2]; [q4 q; destruct d, r; reflexivity|].
  destruct (N.eqb_spec v 3) as [->|H3]; [q4 q; destruct d, r; reflexivity|].
  cbn [orb]. q4 q; destruct d, r; reflexivity.
Qed.
Lemma pf_obs d q r : q <= 3 ->
  has (pf d q r) DUP = d /\ has (pf d q r) RETAIN = r /\ qos_of_fixed (pf d q r) = q.
Proof. intros H. q4 q; destruct d, r; repeat split; reflexivity. Qed.
Lemma norm_qos_le3 v : norm_qos v <= 3.
Proof. unfold norm_qos. destruct (N.eqb_spec v 1), (N.eqb_spec v 2), (N.eqb_spec v 3); cbn; lia. Qed.

Definition wok (w : option (bool * N)) : Prop := match w with Some (_, q) => q <= 3 | None => True end.

Lemma cf_clean u pw w c b : wok w -> toggle (cfN u pw w c) CleanStart b = cfN u pw w b.
Proof. destruct w as [[r q]|]; cbn [wok]; intros H; [q4 q|]; destruct u, pw, c, b; try destruct r; reflexivity. Qed.
Lemma cf_user u pw w c b : wok w -> toggle (cfN u pw w c) UsernameFlag b = cfN b pw w c.
Proof. destruct w as [[r q]|]; cbn [wok]; intros H; [q4 q|]; destruct u, pw, c, b; try destruct r; reflexivity. Qed.
Lemma cf_pass u pw w c b : wok w -> toggle (cfN u pw w c) PasswordFlag b = cfN u b w c.
Proof. destruct w as [[r q]|]; cbn [wok]; intros H; [q4 q|]; destruct u, pw, c, b; try destruct r; reflexivity. Qed.

(* SetWill: will flag on, retain copied, QoS bits reset and set *)
Lemma cf_will u pw w c r' q' : wok w -> q' <= 3 ->
  let fl := toggle (toggle (cfN u pw w c) WillFlag true) WillRetain r' in
  toggle (N.land fl (N.lxor 255 (WillQoS2 + WillQoS1))) ((q' * 8) mod 256) (q' <? 3)
  = cfN u pw (Some (r', q')) c.
Proof.
  destruct w as [[r q]|]; cbn [wok]; intros H H'; [q4 q|]; q4 q';
    destruct u, pw, c, r'; try destruct r; reflexivity.
Qed.

Lemma cf_obs u pw w c : wok w ->
  has (cfN u pw w c) CleanStart = c.
Proof. destruct w as [[r q]|]; cbn [wok]; intros H; [q4 q|]; destruct u, pw, c; try destruct r; reflexivity. Qed.

(* ---------------- the simulation relation ---------------- *)
Definition flags_of (s : sp) : N :=
  cfN (nonempty F_username s) (nonempty F_password s)
      (option_map (fun w => (wr_retain w, wr_qos w)) (s_will s)) (s_clean s).

Lemma flags_of_eq s : sp_connect_flags s = flags_of s.
Proof. unfold sp_connect_flags, flags_of, cfN. destruct (s_will s); reflexivity. Qed.

(* everything but the flag bytes *)
Record Core (p : pkt) (s : sp) : Prop := {
  r_vals : forall f, f <> F_fixed -> f <> F_flags -> vals p f = s_vals s f;
  r_uprops : uprops p = s_uprops s;
  r_subids : subids p = s_subids s;
  r_subid : subid p = option_map (fun z => Z.to_N (z mod 18446744073709551616)%Z) (s_subid s);
  r_filters : filters p = s_filters s;
  r_ufilters : ufilters p = s_ufilters s;
  r_rcodes : rcodes p = s_rcodes s;
  r_wok : match s_will s with Some w => wr_qos w <= 3 | None => True end;
  r_will : match s_will s with
           | Some w => hasWill p = true /\ snap_publish (will_pkt p) = wr_obs w
           | None => hasWill p = false
           end
}.

(* the flag byte of the packet type is the function of the plain values *)
Definition Flags (k : kind) (p : pkt) (s : sp) : Prop :=
  (k = KConnect -> getN (M F_flags) p = flags_of s) /\
  (k = KConnAck -> getN (M F_flags) p = if s_present s then 1 else 0) /\
  (k = KPublish -> getN (M F_fixed) p = pf (s_dup s) (s_qos s) (s_retain s) /\ s_qos s <= 3).

Definition Rel (k : kind) (p : pkt) (s : sp) : Prop := Core p s /\ Flags k p s.

Lemma Rel_init k : Rel k (ctor k) (sp_init k).
Proof.
  split.
  - constructor; try exact I; try (destruct k; reflexivity).
    intros f H1 H2. destruct k; cbn; try reflexivity; destruct f; try reflexivity; congruence.
  - unfold Flags. split; [intros ->; reflexivity|]. split; [intros ->; reflexivity|].
    intros ->. split; [reflexivity|cbn; lia].
Qed.

Lemma wok_of s : match s_will s with Some w => wr_qos w <= 3 | None => True end ->
  wok (option_map (fun w => (wr_retain w, wr_qos w)) (s_will s)).
Proof. destruct (s_will s); cbn; auto. Qed.

Lemma fld_neq_eqb g f : g <> f -> fld_eqb g f = false.
Proof. intros H. destruct g, f; try reflexivity; congruence. Qed.

Lemma getN_setf_o g f v p : g <> f -> getN (M g) (setf (M f) v p) = getN (M g) p.
Proof. intros H. unfold getN, getf, setf, set_vals, vals, upd. rewrite (fld_neq_eqb g f H). reflexivity. Qed.

Lemma getN_setf_same f v p : getN (M f) (setf (M f) v p) = valN v.
Proof. unfold getN, getf, setf, set_vals, vals, upd. unfold fld_eqb. rewrite N.eqb_refl. reflexivity. Qed.

Lemma vals_setf f v q g : vals (setf (M f) v q) g = if fld_eqb g f then v else vals q g.
Proof. reflexivity. Qed.

Lemma flags_of_sv f v s : f <> F_username -> f <> F_password -> flags_of (sv f v s) = flags_of s.
Proof.
  intros Hu Hp. unfold flags_of, nonempty, sv, s_vals, upd.
  rewrite (fld_neq_eqb F_username f), (fld_neq_eqb F_password f) by congruence. reflexivity.
Qed.

(* a plain field is stored *)
Lemma Core_plain p s f v : f <> F_fixed -> f <> F_flags ->
  Core p s -> Core (setf (M f) v p) (sv f v s).
Proof.
  intros Hf1 Hf2 R. destruct R. constructor; auto.
  intros g G1 G2. cbn. unfold upd. destruct (fld_eqb g f); auto.
Qed.

(* a flag byte is rewritten: the core is untouched *)
Lemma Core_flagbyte p s s' f x : (f = F_flags \/ f = F_fixed) -> Core p s ->
  s_vals s' = s_vals s -> s_uprops s' = s_uprops s -> s_subids s' = s_subids s ->
  s_subid s' = s_subid s -> s_filters s' = s_filters s -> s_ufilters s' = s_ufilters s ->
  s_rcodes s' = s_rcodes s -> s_will s' = s_will s ->
  Core (setf (M f) (VN x) p) s'.
Proof.
  intros Hf R E1 E2 E3 E4 E5 E6 E7 E8. destruct R.
  constructor; rewrite ?E1, ?E2, ?E3, ?E4, ?E5, ?E6, ?E7, ?E8; auto.
  intros g G1 G2. cbn. unfold upd. rewrite fld_neq_eqb by (destruct Hf; subst; congruence). auto.
Qed.

Lemma Rel_plain k p s f v : f <> F_fixed -> f <> F_flags -> f <> F_username -> f <> F_password ->
  Rel k p s -> Rel k (setf (M f) v p) (sv f v s).
Proof.
  intros Hf1 Hf2 Hu Hp [C [F1 [F2 F3]]]. split; [apply Core_plain; assumption|].
  repeat split.
  - intros Hk. rewrite getN_setf_o by congruence. rewrite flags_of_sv by assumption. exact (F1 Hk).
  - intros Hk. rewrite getN_setf_o by congruence. exact (F2 Hk).
  - rewrite getN_setf_o by congruence. exact (proj1 (F3 H)).
  - exact (proj2 (F3 H)).
Qed.

Lemma nonempty_sv_same f x s : nonempty f (sv f (VS x) s) = match x with [] => false | _ => true end.
Proof. unfold nonempty, sv, s_vals, upd, fld_eqb. rewrite N.eqb_refl. reflexivity. Qed.
Lemma nonempty_sv_other g f v s : g <> f -> nonempty g (sv f v s) = nonempty g s.
Proof. intros H. unfold nonempty, sv, s_vals, upd. rewrite (fld_neq_eqb g f H). reflexivity. Qed.

Ltac kind_is k K Ha := assert (k = K) by (destruct k; try discriminate Ha; reflexivity); subst k.

Lemma Flags_only_connect p s : getN (M F_flags) p = flags_of s -> Flags KConnect p s.
Proof. intros H. repeat split; try discriminate. intros _. exact H. Qed.
Lemma Flags_only_connack p s : getN (M F_flags) p = (if s_present s then 1 else 0) -> Flags KConnAck p s.
Proof. intros H. repeat split; try discriminate. intros _. exact H. Qed.
Lemma Flags_only_publish p s :
  getN (M F_fixed) p = pf (s_dup s) (s_qos s) (s_retain s) -> s_qos s <= 3 -> Flags KPublish p s.
Proof. intros H H'. repeat split; try discriminate; auto. Qed.

Lemma Flags_lists k p s p' s' :
  getN (M F_flags) p' = getN (M F_flags) p -> getN (M F_fixed) p' = getN (M F_fixed) p ->
  flags_of s' = flags_of s -> s_present s' = s_present s ->
  s_dup s' = s_dup s -> s_qos s' = s_qos s -> s_retain s' = s_retain s ->
  Flags k p s -> Flags k p' s'.
Proof.
  intros E1 E2 E3 E4 E5 E6 E7 [F1 [F2 F3]]. unfold Flags. rewrite E1, E2, E3, E4, E5, E6, E7. auto.
Qed.

Theorem Rel_step k c p s : applicable k c = true -> Rel k p s -> Rel k (step c p) (sp_step c s).
Proof.
  intros Ha R.
  destruct c; cbn [step sp_step];
    try (apply Rel_plain; [discriminate|discriminate|discriminate|discriminate|exact R]).
  - (* SetWill *)
    kind_is k KConnect Ha. destruct R as [C [F1 _]]. specialize (F1 eq_refl).
    pose proof (r_wok _ _ C) as Hwok.
    split.
    + destruct C. constructor; try (cbn; auto; fail).
      * intros g G1 G2. unfold set_will_qos, setS, toggleF, setN.
        rewrite !vals_setf. rewrite (fld_neq_eqb g F_flags G2). cbn [s_vals]. unfold upd.
        destruct (fld_eqb g F_willPayload); [reflexivity|].
        replace (vals (set_wsubids (set_wuprops (set_hasWill (set_wvals p (vals w)) true) (uprops w)) (subids w)) g)
          with (vals p g) by reflexivity. auto.
      * apply qos_le3.
    + apply Flags_only_connect.
      unfold set_will_qos, setN. rewrite getN_setf_same. cbn [valN].
      unfold setS. rewrite getN_setf_o by discriminate.
      unfold toggleF at 1. unfold setN. rewrite getN_setf_same. cbn [valN].
      unfold toggleF, setN. rewrite getN_setf_same. cbn [valN].
      replace (getN (M F_flags)
                 (set_wsubids (set_wuprops (set_hasWill (set_wvals p (vals w)) true) (uprops w)) (subids w)))
        with (getN (M F_flags) p) by reflexivity.
      rewrite F1. unfold flags_of.
      rewrite cf_will; [|apply wok_of; exact Hwok|apply qos_le3].
      unfold nonempty. cbn [s_vals s_will s_clean option_map will_of wr_retain wr_qos]. unfold upd.
      reflexivity.
  - (* SetCleanStart *)
    kind_is k KConnect Ha. destruct R as [C [F1 _]]. specialize (F1 eq_refl).
    pose proof (r_wok _ _ C) as Hwok. unfold toggleF, setN. split.
    + apply (Core_flagbyte p s _ F_flags); auto.
    + apply Flags_only_connect. rewrite getN_setf_same. cbn [valN]. rewrite F1. unfold flags_of at 1.
      rewrite cf_clean by (apply wok_of; exact Hwok). reflexivity.
  - (* SetUsername *)
    kind_is k KConnect Ha. destruct R as [C [F1 _]]. specialize (F1 eq_refl).
    pose proof (r_wok _ _ C) as Hwok. unfold toggleF, setN, setS. split.
    + apply (Core_flagbyte _ (sv F_username (VS s0) s) _ F_flags); auto.
      apply Core_plain; [discriminate|discriminate|exact C].
    + apply Flags_only_connect. rewrite getN_setf_same. cbn [valN].
      rewrite getN_setf_o by discriminate. rewrite F1. unfold flags_of at 1.
      rewrite cf_user by (apply wok_of; exact Hwok).
      unfold flags_of. rewrite nonempty_sv_same, nonempty_sv_other by discriminate. reflexivity.
  - (* SetPassword *)
    kind_is k KConnect Ha. destruct R as [C [F1 _]]. specialize (F1 eq_refl).
    pose proof (r_wok _ _ C) as Hwok. unfold toggleF, setN, setS. split.
    + apply (Core_flagbyte _ (sv F_password (VS s0) s) _ F_flags); auto.
      apply Core_plain; [discriminate|discriminate|exact C].
    + apply Flags_only_connect. rewrite getN_setf_same. cbn [valN].
      rewrite getN_setf_o by discriminate. rewrite F1. unfold flags_of at 1.
      rewrite cf_pass by (apply wok_of; exact Hwok).
      unfold flags_of. rewrite nonempty_sv_same, nonempty_sv_other by discriminate. reflexivity.
  - (* SetSessionPresent *)
    kind_is k KConnAck Ha. destruct R as [C [_ [F2 _]]]. specialize (F2 eq_refl).
    unfold toggleF, setN. split.
    + apply (Core_flagbyte p s _ F_flags); auto.
    + apply Flags_only_connack. rewrite getN_setf_same. cbn [valN]. rewrite F2.
      cbn [s_present]. destruct (s_present s), b; reflexivity.
  - (* SetDuplicate *)
    kind_is k KPublish Ha. destruct R as [C [_ [_ F3]]]. destruct (F3 eq_refl) as [F Q].
    unfold toggleF, setN. split.
    + apply (Core_flagbyte p s _ F_fixed); auto.
    + apply Flags_only_publish; [|exact Q]. rewrite getN_setf_same. cbn [valN]. rewrite F.
      apply pf_dup. exact Q.
  - (* SetRetain *)
    kind_is k KPublish Ha. destruct R as [C [_ [_ F3]]]. destruct (F3 eq_refl) as [F Q].
    unfold toggleF, setN. split.
    + apply (Core_flagbyte p s _ F_fixed); auto.
    + apply Flags_only_publish; [|exact Q]. rewrite getN_setf_same. cbn [valN]. rewrite F.
      apply pf_retain. exact Q.
  - (* SetQoS *)
    kind_is k KPublish Ha. destruct R as [C [_ [_ F3]]]. destruct (F3 eq_refl) as [F Q].
    unfold setN. split.
    + apply (Core_flagbyte p s _ F_fixed); auto.
    + apply Flags_only_publish; [|apply norm_qos_le3]. rewrite getN_setf_same. cbn [valN]. rewrite F.
      apply pf_qos. exact Q.
  - (* AddSubscriptionID *)
    destruct R as [C F]. split.
    + destruct C. constructor; auto. cbn. rewrite r_subids0. reflexivity.
    + revert F. apply Flags_lists; reflexivity.
  - (* SetSubscriptionID *)
    destruct R as [C F]. split.
    + destruct C. constructor; auto.
    + revert F. apply Flags_lists; reflexivity.
  - (* AddFilter *)
    destruct R as [C F]. split.
    + destruct C. constructor; auto. cbn. rewrite r_filters0. reflexivity.
    + revert F. apply Flags_lists; reflexivity.
  - (* AddReasonCode *)
    destruct R as [C F]. split.
    + destruct C. constructor; auto. cbn. rewrite r_rcodes0. reflexivity.
    + revert F. apply Flags_lists; reflexivity.
  - (* AddUnsubFilter *)
    destruct R as [C F]. split.
    + destruct C. constructor; auto. cbn. rewrite r_ufilters0. reflexivity.
    + revert F. apply Flags_lists; reflexivity.
  - (* AddUserProp *)
    destruct R as [C F]. split.
    + destruct C. constructor; auto. cbn. rewrite r_uprops0. reflexivity.
    + revert F. apply Flags_lists; reflexivity.
Qed.

(* ---------------- accessors agree ---------------- *)
Lemma oN_eq f p s : Core p s -> f <> F_fixed -> f <> F_flags -> oN f p = sN f s.
Proof. intros C H1 H2. unfold oN, sN, getN, getf. rewrite (r_vals _ _ C f H1 H2). reflexivity. Qed.
Lemma oB_eq f p s : Core p s -> f <> F_fixed -> f <> F_flags -> oB f p = sB f s.
Proof. intros C H1 H2. unfold oB, sB, getB, getf. rewrite (r_vals _ _ C f H1 H2). reflexivity. Qed.
Lemma oS_eq f p s : Core p s -> f <> F_fixed -> f <> F_flags -> oS f p = sS f s.
Proof. intros C H1 H2. unfold oS, sS, getS, getf. rewrite (r_vals _ _ C f H1 H2). reflexivity. Qed.

Lemma subid_int_wrap z :
  subid_int (Some (Z.to_N (z mod 18446744073709551616)%Z)) = wrap_int z.
Proof.
  unfold subid_int, wrap_int.
  assert (H : (0 <= z mod 18446744073709551616 < 18446744073709551616)%Z) by (apply Z.mod_pos_bound; lia).
  set (n := (z mod 18446744073709551616)%Z) in *.
  destruct (N.ltb_spec (Z.to_N n) 9223372036854775808); destruct (Z.ltb_spec n 9223372036854775808); lia.
Qed.

Ltac snap C :=
  repeat first [rewrite (oN_eq _ _ _ C) by discriminate
               |rewrite (oB_eq _ _ _ C) by discriminate
               |rewrite (oS_eq _ _ _ C) by discriminate].

Theorem Rel_snapshot k p s : Rel k p s -> snapshot k p = sp_snapshot k s.
Proof.
  intros [C [F1 [F2 F3]]].
  pose proof (r_uprops _ _ C) as Eu. pose proof (r_subids _ _ C) as Es.
  pose proof (r_filters _ _ C) as Ef. pose proof (r_ufilters _ _ C) as Euf.
  pose proof (r_rcodes _ _ C) as Er. pose proof (r_subid _ _ C) as Esi.
  destruct k; cbn [snapshot sp_snapshot]; snap C; rewrite ?Eu, ?Es, ?Ef, ?Euf, ?Er; try reflexivity.
  - (* CONNECT *)
    specialize (F1 eq_refl). rewrite F1, flags_of_eq.
    pose proof (r_wok _ _ C) as Hwok. pose proof (r_will _ _ C) as Hw.
    unfold flags_of at 2. rewrite cf_obs by (apply wok_of; exact Hwok).
    destruct (s_will s) as [w|]; [destruct Hw as [-> ->]|rewrite Hw]; reflexivity.
  - (* CONNACK *)
    specialize (F2 eq_refl). rewrite F2. destruct (s_present s); reflexivity.
  - (* PUBLISH *)
    destruct (F3 eq_refl) as [F Q]. unfold snap_publish. snap C. rewrite F.
    destruct (pf_obs (s_dup s) (s_qos s) (s_retain s) Q) as [-> [-> ->]].
    rewrite Eu, Es. reflexivity.
  - (* SUBSCRIBE *)
    rewrite Esi. destruct (s_subid s) as [z|]; cbn [option_map]; [rewrite subid_int_wrap|]; reflexivity.
Qed.

(* every history of applicable calls *)
Theorem refines k : forall h, Forall (fun c => applicable k c = true) h ->
  snapshot k (run_calls k h) = sp_snapshot k (sp_run k h).
Proof.
  intros h Hh. apply Rel_snapshot. unfold run_calls, sp_run.
  generalize (Rel_init k). generalize (ctor k) (sp_init k).
  induction h as [|c h IH]; intros p s R; [exact R|].
  inversion Hh; subst. cbn [fold_left]. apply IH; [assumption|]. apply Rel_step; assumption.
Qed.
