(* The positional reading of the encoder IR (Model/Fill.v: guarded writes
   into a buffer of fixed length, the dry run on the nil slice) agrees with
   the byte-list reading (Model/Codec.v) - for every IR program, packet,
   buffer and position - and therefore WriteTo's two passes hand the writer
   exactly encode_pkt's bytes. *)
From MQ Require Import Model.Fill Proofs.BytesP Proofs.EncP.
From Coq Require Import Lia Arith List.
Import ListNotations.
Local Open Scope nat_scope.

(* ------------------------------------------------------------------ *)
(* put: the buffer with bs written at i *)
Definition put (buf : list byte) (i : nat) (bs : list byte) : list byte :=
  firstn i buf ++ bs ++ skipn (i + length bs) buf.

Lemma firstn_app_exact {A} (a r : list A) i : length a = i -> firstn i (a ++ r) = a.
Proof.
  intros <-. rewrite firstn_app, Nat.sub_diag, firstn_all. cbn [firstn]. apply app_nil_r.
Qed.
Lemma skipn_app_exact {A} (a r : list A) i : length a = i -> skipn i (a ++ r) = r.
Proof.
  intros <-. rewrite skipn_app, Nat.sub_diag, skipn_all. reflexivity.
Qed.
Lemma skipn_add {A} (l : list A) a b : skipn (a + b) l = skipn b (skipn a l).
Proof.
  revert l; induction a as [|a IH]; intros l; [reflexivity|].
  destruct l as [|x l]; cbn [Nat.add skipn]; [destruct b; reflexivity|apply IH].
Qed.

Lemma put_length buf i bs : i + length bs <= length buf -> length (put buf i bs) = length buf.
Proof.
  intros H. unfold put. rewrite !app_length, firstn_length, skipn_length. lia.
Qed.
Lemma put_nil buf i : put buf i [] = buf.
Proof. unfold put. cbn [length app]. rewrite Nat.add_0_r. apply firstn_skipn. Qed.
Lemma put_put buf i bs1 bs2 : i + length bs1 + length bs2 <= length buf ->
  put (put buf i bs1) (i + length bs1) bs2 = put buf i (bs1 ++ bs2).
Proof.
  intros H.
  assert (L : length (firstn i buf ++ bs1) = i + length bs1).
  { rewrite app_length, firstn_length. lia. }
  assert (E : put buf i bs1 = (firstn i buf ++ bs1) ++ skipn (i + length bs1) buf).
  { unfold put. apply app_assoc. }
  unfold put at 1. rewrite E.
  rewrite (firstn_app_exact _ _ _ L).
  rewrite skipn_add, (skipn_app_exact _ _ _ L).
  rewrite <- skipn_add. unfold put. rewrite app_length, <- !app_assoc, Nat.add_assoc. reflexivity.
Qed.
Lemma put_zero_all bs : put (make_buf (length bs)) 0 bs = bs.
Proof.
  unfold put, make_buf. cbn [firstn app Nat.add].
  rewrite skipn_all2 by (rewrite repeat_length; lia). apply app_nil_r.
Qed.

(* ------------------------------------------------------------------ *)
(* Go primitives inside their guards *)
Lemma poke_fits buf i b : i + 1 <= length buf -> poke buf i b = Some (put buf i [b]).
Proof.
  intros H. unfold poke. destruct (Nat.ltb_spec i (length buf)) as [_|C]; [|lia].
  unfold put. cbn [length app]. rewrite Nat.add_1_r. reflexivity.
Qed.
Lemma put_at_fits buf i bs : i + length bs <= length buf -> put_at buf i bs = Some (put buf i bs).
Proof.
  intros H. unfold put_at. destruct (Nat.leb_spec (i + length bs) (length buf)) as [_|C]; [|lia].
  reflexivity.
Qed.
Lemma copy_at_fits buf i bs : i + length bs <= length buf ->
  copy_at buf i bs = Some (put buf i bs, length bs).
Proof.
  intros H. unfold copy_at. destruct (Nat.leb_spec i (length buf)) as [_|C]; [|lia].
  rewrite Nat.min_r by lia. rewrite firstn_all. reflexivity.
Qed.

(* ------------------------------------------------------------------ *)
(* what a fill owes: the width is the number of bytes of the byte-list
   reading whether or not anything is written; the buffer keeps its length;
   if the bytes fit they are in place and nothing else changed *)
Definition fok (r : fres) (buf : list byte) (i : nat) (bs : list byte) : Prop :=
  exists b', r = Some (b', length bs) /\ length b' = length buf /\
             (i + length bs <= length buf -> b' = put buf i bs).

(* the same for a statement `i += ...`: the new position *)
Definition pok (r : option (list byte * nat)) (buf : list byte) (i : nat) (bs : list byte) : Prop :=
  exists b', r = Some (b', i + length bs) /\ length b' = length buf /\
             (i + length bs <= length buf -> b' = put buf i bs).

Lemma fok_adv r buf i bs : fok r buf i bs -> pok (adv r i) buf i bs.
Proof. intros (b' & -> & Hl & Hp). exists b'. cbn [adv]. auto. Qed.

Lemma pok_nil buf i : pok (Some (buf, i)) buf i [].
Proof.
  exists buf. cbn [length]. rewrite Nat.add_0_r. repeat split. intros _. symmetry. apply put_nil.
Qed.

(* sequencing *)
Lemma pok_seq r1 g buf i bs1 bs2 :
  pok r1 buf i bs1 ->
  (forall b1, length b1 = length buf -> pok (g b1 (i + length bs1)) b1 (i + length bs1) bs2) ->
  pok (match r1 with Some (b, i') => g b i' | None => None end) buf i (bs1 ++ bs2).
Proof.
  intros (b1 & -> & Hl1 & Hp1) Hg. destruct (Hg b1 Hl1) as (b2 & E2 & Hl2 & Hp2).
  exists b2. rewrite E2, app_length, Nat.add_assoc. split; [reflexivity|]. split; [congruence|].
  intros H. rewrite Hp2 by lia. rewrite Hp1 by lia. apply put_put. lia.
Qed.

Lemma fok_seq r1 g buf i bs1 bs2 w :
  fok r1 buf i bs1 ->
  (forall b1, length b1 = length buf -> fok (g b1 (i + length bs1)) b1 (i + length bs1) bs2) ->
  w = length (bs1 ++ bs2) ->
  fok (match r1 with
       | Some (b1, n1) => match g b1 (i + n1) with Some (b2, n2) => Some (b2, w) | None => None end
       | None => None end) buf i (bs1 ++ bs2).
Proof.
  intros (b1 & -> & Hl1 & Hp1) Hg ->. destruct (Hg b1 Hl1) as (b2 & E2 & Hl2 & Hp2).
  exists b2. rewrite E2. split; [reflexivity|]. split; [congruence|].
  rewrite app_length. intros H. rewrite Hp2 by lia. rewrite Hp1 by lia. apply put_put. lia.
Qed.

(* ------------------------------------------------------------------ *)
(* wire types *)
Lemma fill_u8_ok n buf i : fok (fill_u8 n buf i) buf i (enc_u8 n).
Proof.
  unfold fill_u8, enc_u8, fok. cbn [length].
  destruct (Nat.leb_spec (i + 1) (length buf)) as [H|H].
  - rewrite poke_fits by exact H. cbn [ret]. eexists; split; [reflexivity|]. split.
    + apply put_length. exact H.
    + reflexivity.
  - exists buf. split; [reflexivity|]. split; [reflexivity|]. lia.
Qed.
Lemma fill_bool_ok b buf i : fok (fill_bool b buf i) buf i (enc_bool b).
Proof.
  unfold fill_bool, enc_bool, fok. cbn [length].
  destruct (Nat.leb_spec (i + 1) (length buf)) as [H|H].
  - rewrite poke_fits by exact H. cbn [ret]. eexists; split; [reflexivity|]. split.
    + apply put_length. exact H.
    + reflexivity.
  - exists buf. split; [reflexivity|]. split; [reflexivity|]. lia.
Qed.
Lemma fill_u16_ok n buf i : fok (fill_u16 n buf i) buf i (enc_u16 n).
Proof.
  unfold fill_u16, fok. change (length (enc_u16 n)) with 2.
  destruct (Nat.leb_spec (i + 2) (length buf)) as [H|H].
  - rewrite put_at_fits by exact H. cbn [ret]. eexists; split; [reflexivity|]. split.
    + apply put_length. exact H.
    + reflexivity.
  - exists buf. split; [reflexivity|]. split; [reflexivity|]. lia.
Qed.
Lemma fill_u32_ok n buf i : fok (fill_u32 n buf i) buf i (enc_u32 n).
Proof.
  unfold fill_u32, fok. change (length (enc_u32 n)) with 4.
  destruct (Nat.leb_spec (i + 4) (length buf)) as [H|H].
  - rewrite put_at_fits by exact H. cbn [ret]. eexists; split; [reflexivity|]. split.
    + apply put_length. exact H.
    + reflexivity.
  - exists buf. split; [reflexivity|]. split; [reflexivity|]. lia.
Qed.
Lemma fill_raw_ok s buf i : fok (fill_raw s buf i) buf i (enc_raw s).
Proof.
  unfold fill_raw, enc_raw, fok.
  destruct (Nat.leb_spec (i + length s) (length buf)) as [H|H].
  - rewrite copy_at_fits by exact H. eexists; split; [reflexivity|]. split.
    + apply put_length. exact H.
    + reflexivity.
  - exists buf. split; [reflexivity|]. split; [reflexivity|]. lia.
Qed.
Lemma enc_bin_length s : length (enc_bin s) = 2 + length s.
Proof. unfold enc_bin. rewrite app_length. reflexivity. Qed.
Lemma fill_bin_ok s buf i : fok (fill_bin s buf i) buf i (enc_bin s).
Proof.
  unfold fill_bin, fok. rewrite enc_bin_length.
  destruct (Nat.leb_spec (i + (2 + length s)) (length buf)) as [H|H].
  - unfold fill_u16. destruct (Nat.leb_spec (i + 2) (length buf)) as [_|C]; [|lia].
    rewrite put_at_fits by (change (length (enc_u16 _)) with 2; lia). cbn [ret].
    rewrite copy_at_fits by (rewrite put_length by (change (length (enc_u16 _)) with 2; lia); lia).
    eexists; split; [reflexivity|]. split.
    + rewrite !put_length; [reflexivity| change (length (enc_u16 _)) with 2; lia |].
      rewrite put_length by (change (length (enc_u16 _)) with 2; lia). lia.
    + intros _. unfold enc_bin.
      change (i + 2) with (i + length (enc_u16 (len s mod 65536)%N)).
      apply put_put. change (length (enc_u16 _)) with 2. lia.
  - exists buf. split; [reflexivity|]. split; [reflexivity|]. lia.
Qed.

Lemma guarded_store buf i eb :
  exists b1, (if Nat.ltb i (length buf) then poke buf i eb else Some buf) = Some b1 /\
             length b1 = length buf /\ (i + 1 <= length buf -> b1 = put buf i [eb]).
Proof.
  destruct (Nat.ltb_spec i (length buf)) as [H|H].
  - rewrite poke_fits by lia. eexists; split; [reflexivity|]. split; [|reflexivity].
    apply put_length. cbn [length]. lia.
  - exists buf. repeat split. lia.
Qed.

Lemma vb_fill_loop_ok fuel : forall x buf i,
  pok (vb_fill_loop fuel x buf i) buf i (vb_enc_loop fuel x).
Proof.
  induction fuel as [|f IH]; intros x buf i; [apply pok_nil|].
  cbn [vb_fill_loop vb_enc_loop].
  set (x' := (x / 128)%N). set (b := (x mod 128)%N).
  destruct (0 <? x')%N.
  - destruct (guarded_store buf i (n2b (b + 128))) as (b1 & -> & Hl1 & Hp1).
    destruct (IH x' b1 (S i)) as (b2 & E2 & Hl2 & Hp2).
    exists b2. rewrite E2. cbn [length]. split; [f_equal; f_equal; lia|]. split; [congruence|].
    intros H. rewrite Hp2 by lia. rewrite Hp1 by lia.
    change (n2b (b + 128) :: vb_enc_loop f x') with ([n2b (b + 128)] ++ vb_enc_loop f x').
    rewrite <- put_put by (cbn [length]; lia). cbn [length]. rewrite Nat.add_1_r. reflexivity.
  - destruct (guarded_store buf i (n2b b)) as (b1 & -> & Hl1 & Hp1).
    exists b1. cbn [length]. split; [f_equal; f_equal; lia|]. split; [exact Hl1|].
    intros H. apply Hp1. lia.
Qed.

Lemma fill_vb_ok n buf i : fok (fill_vb n buf i) buf i (enc_vb n).
Proof.
  unfold fill_vb, enc_vb. destruct (vb_fill_loop_ok 10 n buf i) as (b' & -> & Hl & Hp).
  exists b'. split; [f_equal; f_equal; lia|]. auto.
Qed.

Lemma wfill_ok w v buf i : fok (wfill w v buf i) buf i (encode w v).
Proof.
  destruct w; cbn [wfill encode].
  - apply fill_u8_ok.
  - apply fill_u16_ok.
  - apply fill_u32_ok.
  - apply fill_bool_ok.
  - apply fill_bin_ok.
  - apply fill_raw_ok.
  - apply fill_vb_ok.
Qed.

(* id.fill, then the value *)
Lemma id_then_ok id f buf i bs :
  (forall b1 j, fok (f b1 j) b1 j bs) ->
  fok (id_then id f buf i) buf i (n2b id :: bs).
Proof.
  intros Hf. unfold id_then.
  change (n2b id :: bs) with (enc_u8 id ++ bs).
  destruct (fill_u8_ok id buf i) as (b1 & E1 & Hl1 & Hp1). rewrite E1.
  destruct (Hf b1 (i + length (enc_u8 id))) as (b2 & E2 & Hl2 & Hp2). rewrite E2.
  exists b2. rewrite app_length. split; [f_equal; f_equal; lia|]. split; [congruence|].
  intros H. rewrite Hp2 by lia. rewrite Hp1 by lia. apply put_put. lia.
Qed.

Lemma fok_zero buf i : fok (Some (buf, 0)) buf i [].
Proof. exists buf. repeat split. intros _. symmetry. apply put_nil. Qed.

Lemma wfill_prop_ok w id v buf i : w <> Raw ->
  fok (wfill_prop w id v buf i) buf i (enc_prop w id v).
Proof.
  intros Hw. unfold enc_prop.
  assert (G : fok (if is_zero w v then Some (buf, 0) else id_then id (wfill w v) buf i) buf i
                  (if is_zero w v then [] else n2b id :: encode w v)).
  { destruct (is_zero w v); [apply fok_zero|]. apply id_then_ok. intros b1 j. apply wfill_ok. }
  destruct w; try exact G. congruence.
Qed.

Lemma fill_opt_ok n buf i :
  fok (fill_opt n buf i) buf i (if (n =? 0)%N then [] else enc_u8 n).
Proof. unfold fill_opt. destruct (n =? 0)%N; [apply fok_zero|apply fill_u8_ok]. Qed.

Lemma fill_userprop_ok kv buf i :
  fok (fill_userprop kv buf i) buf i (enc_bin (fst kv) ++ enc_bin (snd kv)).
Proof.
  unfold fill_userprop. apply fok_seq.
  - apply fill_bin_ok.
  - intros b1 _. apply fill_bin_ok.
  - rewrite app_length, !enc_bin_length. reflexivity.
Qed.

Lemma fill_userprop_prop_ok id kv buf i :
  fok (fill_userprop_prop id kv buf i) buf i (enc_userprop id kv).
Proof.
  unfold fill_userprop_prop, enc_userprop. destruct (fst kv) eqn:E; [apply fok_zero|].
  rewrite <- E. apply id_then_ok. intros b1 j. apply fill_userprop_ok.
Qed.

Lemma fill_filter_ok f buf i : fok (fill_filter f buf i) buf i (enc_filter f).
Proof.
  unfold fill_filter, enc_filter.
  destruct (fill_bin_ok (fst f) buf i) as (b1 & E1 & Hl1 & Hp1). rewrite E1.
  destruct (fill_u8_ok (snd f) b1 (i + length (enc_bin (fst f)))) as (b2 & E2 & Hl2 & Hp2). rewrite E2.
  exists b2. rewrite app_length. split; [f_equal; f_equal; lia|]. split; [congruence|].
  intros H. rewrite Hp2 by lia. rewrite Hp1 by lia. apply put_put. lia.
Qed.

(* loops *)
Lemma fill_each_ok {A} (f : A -> list byte -> nat -> fres) (g : A -> list byte) :
  (forall x b j, fok (f x b j) b j (g x)) ->
  forall xs buf i, pok (fill_each f xs buf i) buf i (concat (map g xs)).
Proof.
  intros Hf. induction xs as [|x xs IH]; intros buf i; cbn [fill_each map concat]; [apply pok_nil|].
  apply (pok_seq (adv (f x buf i) i) (fill_each f xs)).
  - apply fok_adv, Hf.
  - intros b1 _. apply IH.
Qed.

Lemma as_helper_ok r buf i bs : pok r buf i bs -> pok (as_helper r i) buf i bs.
Proof.
  intros (b' & -> & Hl & Hp). exists b'. cbn [as_helper]. split; [f_equal; f_equal; lia|]. auto.
Qed.

(* ------------------------------------------------------------------ *)
(* the IR: both readings agree *)
Definition agrees (r : option (list byte * nat)) (o : option (list byte))
           (buf : list byte) (i : nat) : Prop :=
  match o with Some bs => pok r buf i bs | None => r = None end.

Lemma pfill_list_eq p : forall es buf i,
  (fix pfill_list (es : list enc) (buf : list byte) (i : nat) : option (list byte * nat) :=
     match es with
     | [] => Some (buf, i)
     | e' :: es' =>
       match pfill1 e' p buf i with
       | Some (b, i') => pfill_list es' b i'
       | None => None
       end
     end) es buf i = pfill es p buf i.
Proof.
  induction es as [|e es IH]; intros buf i; [reflexivity|]. cbn [pfill].
  destruct (pfill1 e p buf i) as [[b i']|]; [apply IH|reflexivity].
Qed.

Lemma noraw_all_eq : forall es,
  (fix all (es : list enc) : bool :=
     match es with [] => true | e' :: es' => noraw e' && all es' end) es = noraw_list es.
Proof. induction es as [|e es IH]; [reflexivity|]. cbn [noraw_list]. rewrite IH. reflexivity. Qed.

Lemma agrees_seq r1 o1 g o2 buf i :
  agrees r1 o1 buf i ->
  (forall b1 j, agrees (g b1 j) o2 b1 j) ->
  agrees (match r1 with Some (b, i') => g b i' | None => None end) (opt_app o1 o2) buf i.
Proof.
  intros H1 H2. destruct o1 as [bs1|]; cbn [agrees opt_app] in *.
  - destruct o2 as [bs2|]; cbn [agrees] in *.
    + apply pok_seq; [exact H1|]. intros b1 _. apply H2.
    + destruct H1 as (b1 & -> & _). apply H2.
  - rewrite H1. reflexivity.
Qed.

Lemma pfill1_ok : forall e p, noraw e = true ->
  forall buf i, agrees (pfill1 e p buf i) (run_enc1 e p) buf i.
Proof.
  fix IH 1. intros e p.
  assert (IHl : forall es, noraw_list es = true ->
            forall buf i, agrees (pfill es p buf i) (run_enc es p) buf i).
  { induction es as [|e' es IHes]; intros Hn buf i.
    - cbn [pfill run_enc agrees]. apply pok_nil.
    - cbn [noraw_list] in Hn. apply andb_prop in Hn as [Hn1 Hn2].
      cbn [pfill run_enc].
      apply (agrees_seq (pfill1 e' p buf i) (run_enc1 e' p) (pfill es p)).
      + apply (IH e' p Hn1).
      + intros b1 j. apply (IHes Hn2). }
  destruct e as [r w|r w id|r|n|es|c a b|s a b|will| | | | | ]; intros Hn buf i.
  - cbn [pfill1 run_enc1]. destruct (getf_opt r p) as [v|]; cbn [option_map agrees]; [|reflexivity].
    apply fok_adv, wfill_ok.
  - cbn [pfill1 run_enc1]. destruct (getf_opt r p) as [v|]; cbn [option_map agrees]; [|reflexivity].
    apply fok_adv, wfill_prop_ok. intros ->. discriminate Hn.
  - cbn [pfill1 run_enc1]. destruct (getf_opt r p) as [v|]; cbn [option_map agrees]; [|reflexivity].
    apply fok_adv, fill_opt_ok.
  - cbn [pfill1 run_enc1 agrees]. apply fok_adv, fill_vb_ok.
  - rewrite run_enc1_vblen. cbn [pfill1]. rewrite pfill_list_eq.
    cbn [noraw] in Hn. rewrite noraw_all_eq in Hn.
    pose proof (IHl es Hn [] 0) as H. destruct (run_enc es p) as [bs|]; cbn [agrees option_map] in *.
    + destruct H as (b' & -> & _). cbn [Nat.add]. apply fok_adv. apply fill_vb_ok.
    + rewrite H. reflexivity.
  - cbn [pfill1 run_enc1]. rewrite !run_list_eq, !pfill_list_eq.
    cbn [noraw] in Hn. rewrite !noraw_all_eq in Hn. apply andb_prop in Hn as [Ha Hb].
    destruct (eval_cond c p no_env); [apply (IHl a Ha)|apply (IHl b Hb)].
  - cbn [pfill1 run_enc1]. rewrite !run_list_eq, !pfill_list_eq.
    cbn [noraw] in Hn. rewrite !noraw_all_eq in Hn. apply andb_prop in Hn as [Hsa Hb].
    apply andb_prop in Hsa as [Hs Ha].
    pose proof (IHl s Hs [] 0) as H. destruct (run_enc s p) as [bs|]; cbn [agrees] in H.
    + destruct H as (b' & -> & _). destruct bs as [|x bs]; cbn [length Nat.add].
      * apply (IHl a Ha).
      * apply (IHl b Hb).
    + rewrite H. reflexivity.
  - cbn [pfill1 run_enc1]. destruct will.
    + destruct (hasWill p); cbn [agrees]; [|reflexivity].
      apply as_helper_ok, fill_each_ok. intros x b1 j. apply fill_userprop_prop_ok.
    + cbn [agrees]. apply as_helper_ok, fill_each_ok. intros x b1 j. apply fill_userprop_prop_ok.
  - cbn [pfill1 run_enc1 agrees].
    apply (fill_each_ok (fun n => wfill_prop Vb SubscriptionID (VN n))
                        (fun n => enc_prop Vb SubscriptionID (VN n))).
    intros x b1 j. apply wfill_prop_ok. discriminate.
  - cbn [pfill1 run_enc1]. destruct (subid p) as [n|]; cbn [agrees].
    + apply fok_adv, wfill_prop_ok. discriminate.
    + apply pok_nil.
  - cbn [pfill1 run_enc1 agrees]. apply fill_each_ok. intros x b1 j. apply fill_filter_ok.
  - cbn [pfill1 run_enc1 agrees]. apply fill_each_ok. intros x b1 j. apply fill_bin_ok.
  - cbn [pfill1 run_enc1 agrees]. apply fill_each_ok. intros x b1 j. apply fill_u8_ok.
Qed.

Theorem pfill_ok es p buf i : noraw_list es = true ->
  agrees (pfill es p buf i) (run_enc es p) buf i.
Proof.
  revert buf i. induction es as [|e es IH]; intros buf i Hn.
  - cbn [pfill run_enc agrees]. apply pok_nil.
  - cbn [noraw_list] in Hn. apply andb_prop in Hn as [Hn1 Hn2]. cbn [pfill run_enc].
    apply (agrees_seq (pfill1 e p buf i) (run_enc1 e p) (pfill es p)).
    + apply pfill1_ok. exact Hn1.
    + intros b1 j. apply IH. exact Hn2.
Qed.

(* no packet type calls rawdata.fillProp (decided on the regenerated IR) *)
Lemma noraw_skeletons : forall k es, enc_of k = Some es -> noraw_list es = true.
Proof. intros k es H. destruct k; cbn in H; try discriminate; injection H as <-; vm_compute; reflexivity. Qed.

(* p.fill(b, i): the returned position is i + the frame's length for every
   buffer (the nil slice included), a buffer keeps its length, and a buffer
   with room holds the frame at i with everything else untouched *)
Theorem pfill_pkt_ok k p buf i :
  agrees (pfill_pkt k p buf i) (encode_pkt k p) buf i.
Proof.
  unfold pfill_pkt, encode_pkt. destruct (enc_of k) as [es|] eqn:E; [|reflexivity].
  apply pfill_ok. apply (noraw_skeletons k es E).
Qed.

(* the dry run: width() = fill(_LEN, 0) = length of the frame *)
Corollary dry_run_width k p bs : encode_pkt k p = Some bs ->
  pfill_pkt k p [] 0 = Some ([], length bs).
Proof.
  intros E. pose proof (pfill_pkt_ok k p [] 0) as H. rewrite E in H.
  destruct H as (b' & -> & Hl & _). destruct b'; [reflexivity|discriminate].
Qed.

(* the second pass fills the buffer of that size with exactly the frame *)
Corollary second_pass k p bs : encode_pkt k p = Some bs ->
  pfill_pkt k p (make_buf (length bs)) 0 = Some (bs, length bs).
Proof.
  intros E. pose proof (pfill_pkt_ok k p (make_buf (length bs)) 0) as H. rewrite E in H.
  destruct H as (b' & -> & Hl & Hp). cbn [Nat.add] in *.
  rewrite Hp by (unfold make_buf; rewrite repeat_length; lia).
  rewrite put_zero_all. reflexivity.
Qed.

(* WriteTo as the Go code runs it = WriteTo of the byte-list model *)
Theorem two_pass k p w : write_to2 k p w = write_to k p w.
Proof.
  unfold write_to2, write_to. destruct k; try reflexivity;
  match goal with |- context [encode_pkt ?k p] =>
    pose proof (pfill_pkt_ok k p [] 0) as H;
    destruct (encode_pkt k p) as [bs|] eqn:E; cbn [agrees] in H;
    [ rewrite (dry_run_width _ _ _ E), (second_pass _ _ _ E); reflexivity
    | rewrite H; reflexivity ] end.
Qed.
