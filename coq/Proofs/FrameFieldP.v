(* Fields a decoder program does not name are left alone: a static
   check on the program (no_write) and its soundness. Used for the
   first header byte (C16). *)
From MQ Require Import Model.Codec Proofs.BytesP Proofs.DecP.
From Coq Require Import ZArith Lia.

Definition ref_is (f0 : fld) (r : fref) : bool :=
  match r with M f => fld_eqb f f0 | W _ => false end.

Fixpoint no_write1 (f0 : fld) (d : dec) {struct d} : bool :=
  let nw_list := fix nw_list (ds : list dec) : bool :=
    match ds with [] => true | d' :: ds' => no_write1 f0 d' && nw_list ds' end in
  match d with
  | DGet r _ => negb (ref_is f0 r)
  | DGetAny m _ _ => forallb (fun e => negb (ref_is f0 (snd (fst e)))) m
  | DIf _ ds => nw_list ds
  | DUndefinedData => negb (fld_eqb F_data f0)
  | _ => true
  end.
Fixpoint no_write (f0 : fld) (ds : list dec) : bool :=
  match ds with [] => true | d :: ds' => no_write1 f0 d && no_write f0 ds' end.

Definition same (f0 : fld) (s s' : dstate) : Prop := vals (dp s') f0 = vals (dp s) f0.

Lemma fld_eqb_refl f : fld_eqb f f = true.
Proof. unfold fld_eqb. apply N.eqb_refl. Qed.

Lemma fld_idx_inj a b : fld_idx a = fld_idx b -> a = b.
Proof. destruct a, b; cbn; intros H; try reflexivity; discriminate H. Qed.


Lemma setf_other f0 r v p : ref_is f0 r = false -> vals (setf r v p) f0 = vals p f0.
Proof.
  destruct r as [f|f]; cbn; intros H; [|reflexivity].
  unfold upd. unfold fld_eqb in *. rewrite N.eqb_sym. rewrite H. reflexivity.
Qed.

Definition keeps (f0 : fld) (s : dstate) (r : res) : Prop :=
  match r with Run s' => same f0 s s' | _ => True end.

Lemma keeps_trans f0 s s1 r : same f0 s s1 -> keeps f0 s1 r -> keeps f0 s r.
Proof. destruct r; cbn; auto. unfold same. intros A B. congruence. Qed.

Lemma get_val_keeps f0 w old s :
  match get_val w old s with
  | GOk _ s' | GNo s' => same f0 s s'
  | GPanic => True
  end.
Proof.
  pose proof (get_val_spec w old s) as G.
  destruct (get_val w old s); try exact I; destruct G as [[Gp _ _ _] _]; unfold same; rewrite Gp; reflexivity.
Qed.

Lemma get_up_keeps f0 s :
  match get_with dec_userprop width_userprop s with
  | GOk _ s' | GNo s' => same f0 s s'
  | GPanic => True
  end.
Proof.
  pose proof (get_up_spec s) as G.
  destruct (get_with dec_userprop width_userprop s); try exact I;
    destruct G as [[Gp _ _ _] _]; unfold same; rewrite Gp; reflexivity.
Qed.

Lemma get_keeps f0 r w s : ref_is f0 r = false -> keeps f0 s (get r w s).
Proof.
  intros H. unfold get. destruct (getf_opt r (dp s)) as [old|]; [|exact I].
  pose proof (get_val_keeps f0 w old s) as K.
  destruct (get_val w old s) as [v s'|s'|]; cbn; auto.
  unfold same in *. cbn. rewrite setf_other by exact H. exact K.
Qed.

Lemma lookup_nw f0 m id r t :
  forallb (fun e => negb (ref_is f0 (snd (fst e)))) m = true ->
  lookup_prop m id = Some (r, t) -> ref_is f0 r = false.
Proof.
  induction m as [|[[i r'] t'] m IH]; cbn; [discriminate|].
  intros H. apply andb_prop in H as [H1 H2].
  destruct (i =? id); [intros Q; injection Q as <- <-; apply negb_true_iff; exact H1|apply IH; exact H2].
Qed.

Lemma getany_loop_keeps f0 : forall fuel m will sm endp id s,
  forallb (fun e => negb (ref_is f0 (snd (fst e)))) m = true ->
  keeps f0 s (getany_loop fuel m will sm endp id s).
Proof.
  induction fuel as [|fuel IH]; intros m will sm endp id s Hm; [exact I|].
  cbn [getany_loop].
  destruct (N.of_nat (dpos s) <? endp); [|cbn; reflexivity].
  pose proof (get_val_keeps f0 U8 (VN id) s) as K1.
  destruct (get_val U8 (VN id) s) as [v s1|s1|]; [|exact K1|exact I].
  assert (K : forall s2 id', same f0 s1 s2 -> keeps f0 s (getany_loop fuel m will sm endp id' s2)).
  { intros s2 id' S2. apply (keeps_trans f0 s s2); [unfold same in *; congruence|]. apply IH. exact Hm. }
  set (idv := valN v).
  destruct (match sm with
            | SubOpt => if idv =? SubscriptionID then None else lookup_prop m idv
            | _ => lookup_prop m idv end) as [[r t]|] eqn:EL.
  - assert (Hr : ref_is f0 r = false).
    { destruct sm; try (apply (lookup_nw f0 m idv r t Hm EL)).
      destruct (idv =? SubscriptionID); [discriminate|apply (lookup_nw f0 m idv r t Hm EL)]. }
    pose proof (get_keeps f0 r t s1 Hr) as P.
    destruct (get r t s1) as [s2| |]; [|exact I|exact I]. apply K. exact P.
  - destruct (match sm with SubOpt => idv =? SubscriptionID | _ => false end).
    + set (s1' := with_pkt (set_subid (dp s1) (Some 0)) s1).
      pose proof (get_val_keeps f0 Vb (VN 0) s1') as K2.
      destruct (get_val Vb (VN 0) s1') as [v2 s2|s2|]; [| |exact I]; apply K; unfold same in *; cbn in *; congruence.
    + destruct (idv =? UserProperty).
      * pose proof (get_up_keeps f0 s1) as K2.
        destruct (get_with dec_userprop width_userprop s1) as [kv s2|s2|]; [| |exact I];
          unfold add_uprop; destruct will; try destruct (hasWill (dp s2)); try exact I;
          apply K; unfold same in *; cbn in *; congruence.
      * destruct (idv =? SubscriptionID).
        -- pose proof (get_val_keeps f0 Vb (VN 0) s1) as K2.
           destruct (get_val Vb (VN 0) s1) as [v2 s2|s2|]; [| |exact I];
             destruct sm; apply K; unfold same in *; cbn in *; congruence.
        -- apply K. reflexivity.
Qed.

Lemma getany_keeps f0 m will sm s :
  forallb (fun e => negb (ref_is f0 (snd (fst e)))) m = true -> keeps f0 s (getany m will sm s).
Proof.
  intros Hm. unfold getany. destruct (at_end s); [cbn; reflexivity|].
  pose proof (get_val_keeps f0 Vb (VN 0) s) as K1.
  destruct (get_val Vb (VN 0) s) as [v s1|s1|]; [| |exact I];
    (apply (keeps_trans f0 s s1); [exact K1|]); apply getany_loop_keeps; exact Hm.
Qed.

Lemma filter_loop_keeps f0 : forall fuel s, keeps f0 s (filter_loop fuel s).
Proof.
  induction fuel as [|fuel IH]; intros s; [exact I|]. cbn [filter_loop].
  destruct (at_end s); [cbn; reflexivity|].
  pose proof (get_val_keeps f0 Bin (VS []) s) as K1.
  destruct (get_val Bin (VS []) s) as [v s1|s1|]; [| |exact I].
  - pose proof (get_val_keeps f0 U8 (VN 0) s1) as K2.
    destruct (get_val U8 (VN 0) s1) as [v2 s2|s2|]; [| |exact I].
    + set (s3 := with_pkt _ s2).
      assert (S3 : same f0 s s3) by (unfold same in *; cbn in *; congruence).
      destruct (derr s3); [exact S3|]. destruct (at_end s3); [exact S3|].
      apply (keeps_trans f0 s s3 _ S3). apply IH.
    + set (s3 := with_pkt _ s2).
      assert (S3 : same f0 s s3) by (unfold same in *; cbn in *; congruence).
      destruct (derr s3); [exact S3|]. destruct (at_end s3); [exact S3|].
      apply (keeps_trans f0 s s3 _ S3). apply IH.
  - pose proof (get_val_keeps f0 U8 (VN 0) s1) as K2.
    destruct (get_val U8 (VN 0) s1) as [v2 s2|s2|]; [| |exact I].
    + set (s3 := with_pkt _ s2).
      assert (S3 : same f0 s s3) by (unfold same in *; cbn in *; congruence).
      destruct (derr s3); [exact S3|]. destruct (at_end s3); [exact S3|].
      apply (keeps_trans f0 s s3 _ S3). apply IH.
    + set (s3 := with_pkt _ s2).
      assert (S3 : same f0 s s3) by (unfold same in *; cbn in *; congruence).
      destruct (derr s3); [exact S3|]. destruct (at_end s3); [exact S3|].
      apply (keeps_trans f0 s s3 _ S3). apply IH.
Qed.

Lemma ufilter_loop_keeps f0 : forall fuel s, keeps f0 s (ufilter_loop fuel s).
Proof.
  induction fuel as [|fuel IH]; intros s; [exact I|]. cbn [ufilter_loop].
  destruct (at_end s); [cbn; reflexivity|].
  pose proof (get_val_keeps f0 Bin (VS []) s) as K1.
  destruct (get_val Bin (VS []) s) as [v s1|s1|]; [| |exact I].
  - set (s3 := with_pkt _ s1).
    assert (S3 : same f0 s s3) by (unfold same in *; cbn in *; congruence).
    destruct (derr s3); [exact S3|]. destruct (at_end s3); [exact S3|].
    apply (keeps_trans f0 s s3 _ S3). apply IH.
  - set (s3 := with_pkt _ s1).
    assert (S3 : same f0 s s3) by (unfold same in *; cbn in *; congruence).
    destruct (derr s3); [exact S3|]. destruct (at_end s3); [exact S3|].
    apply (keeps_trans f0 s s3 _ S3). apply IH.
Qed.

Lemma rcodes_loop_keeps f0 : forall n acc s, keeps f0 s (rcodes_loop n acc s).
Proof.
  induction n as [|n IH]; intros acc s; [cbn; reflexivity|]. cbn [rcodes_loop].
  pose proof (get_val_keeps f0 U8 (VN 0) s) as K1.
  destruct (get_val U8 (VN 0) s) as [v s1|s1|]; [| |exact I];
    apply (keeps_trans f0 s s1 _ K1); apply IH.
Qed.

Lemma run_dec1_keeps f0 : forall d s, no_write1 f0 d = true -> keeps f0 s (run_dec1 d s).
Proof.
  fix IH 1. intros d s H. destruct d as [r t|m will sm|c ds| | | | | |]; cbn [no_write1] in H; cbn [run_dec1].
  - apply get_keeps. apply negb_true_iff. exact H.
  - apply getany_keeps. exact H.
  - destruct (eval_cond c (dp s) (env_of s)); [|cbn; reflexivity].
    revert s. induction ds as [|d ds IHds]; intros s; [cbn; reflexivity|].
    apply andb_prop in H as [H1 H2].
    pose proof (IH d s H1) as K1.
    destruct (run_dec1 d s) as [s1| |]; [|exact I|exact I].
    apply (keeps_trans f0 s s1 _ K1). apply IHds. exact H2.
  - cbn. unfold same. cbn. unfold will_init. reflexivity.
  - destruct (hasWill (dp s)); [|exact I]. cbn. reflexivity.
  - apply filter_loop_keeps.
  - apply ufilter_loop_keeps.
  - destruct (dpos s <=? length (ddata s))%nat; [|exact I]. apply rcodes_loop_keeps.
  - cbn. unfold same. cbn. unfold upd. apply negb_true_iff in H.
    unfold fld_eqb in *. rewrite N.eqb_sym. rewrite H. reflexivity.
Qed.

Lemma run_dec_keeps f0 : forall ds s, no_write f0 ds = true -> keeps f0 s (run_dec ds s).
Proof.
  induction ds as [|d ds IH]; intros s H; [cbn; reflexivity|].
  cbn [no_write] in H. apply andb_prop in H as [H1 H2]. cbn [run_dec].
  pose proof (run_dec1_keeps f0 d s H1) as K1.
  destruct (run_dec1 d s) as [s1| |]; [|exact I|exact I].
  apply (keeps_trans f0 s s1 _ K1). apply IH. exact H2.
Qed.

(* no decoder skeleton writes the first header byte *)
Lemma skeletons_keep_fixed : forall k, no_write F_fixed (dec_of k) = true.
Proof. intros k; destruct k; vm_compute; reflexivity. Qed.

Theorem unmarshal_keeps_fixed k p0 data p :
  unmarshal k p0 data = UOk p -> vals p F_fixed = vals p0 F_fixed.
Proof.
  unfold unmarshal, unmarshal_steps.
  set (s0 := {| dp := p0; ddata := data; dpos := 0; derr := None; dsteps := 0 |}).
  pose proof (run_dec_keeps F_fixed (dec_of k) s0 (skeletons_keep_fixed k)) as K.
  destruct (run_dec (dec_of k) s0) as [s1| |]; cbn; [|discriminate|discriminate].
  destruct (derr s1); [discriminate|]. intros Q; injection Q as <-. exact K.
Qed.
