(* What decoder programs preserve: a relation between the packet before
   and after that every update made by the interpreter respects (given a
   static condition on the fields a program names) holds across whole
   programs. Instances: a field the program does not write keeps its
   value (first header byte, C16; CONNECT flags); a will that is
   allocated stays allocated (C19). *)
From MQ Require Import Model.Codec Proofs.BytesP Proofs.DecP.
From Coq Require Import ZArith Lia.

Section Preserved.
  Variable R : pkt -> pkt -> Prop.
  Variable okref : fref -> bool.      (* fields a DGet / map entry may write *)
  Variable okdata : bool.             (* Undefined.data may be written       *)
  Hypothesis R_refl : forall p, R p p.
  Hypothesis R_trans : forall a b c, R a b -> R b c -> R a c.
  Hypothesis R_setf : forall r v p, okref r = true -> R p (setf r v p).
  Hypothesis R_data : forall v p, okdata = true -> R p (setf (M F_data) v p).
  Hypothesis R_subid : forall o p, R p (set_subid p o).
  Hypothesis R_subids : forall l p, R p (set_subids p l).
  Hypothesis R_uprops : forall l p, R p (set_uprops p l).
  Hypothesis R_wuprops : forall l p, R p (set_wuprops p l).
  Hypothesis R_filters : forall l p, R p (set_filters p l).
  Hypothesis R_ufilters : forall l p, R p (set_ufilters p l).
  Hypothesis R_rcodes : forall l p, R p (set_rcodes p l).
  Hypothesis R_will_init : forall p, R p (will_init p).

  Fixpoint no_write1 (d : dec) {struct d} : bool :=
    let nw_list := fix nw_list (ds : list dec) : bool :=
      match ds with [] => true | d' :: ds' => no_write1 d' && nw_list ds' end in
    match d with
    | DGet r _ => okref r
    | DGetAny m _ _ => forallb (fun e => okref (snd (fst e))) m
    | DIf _ ds => nw_list ds
    | DUndefinedData => okdata
    | DWillPayloadCopy => okref (W F_payload)
    | _ => true
    end.
  Fixpoint no_write (ds : list dec) : bool :=
    match ds with [] => true | d :: ds' => no_write1 d && no_write ds' end.

  Definition same (s s' : dstate) : Prop := R (dp s) (dp s').

  Definition keeps (s : dstate) (r : res) : Prop :=
    match r with Run s' => same s s' | _ => True end.

  Lemma keeps_trans s s1 r : same s s1 -> keeps s1 r -> keeps s r.
  Proof. destruct r; cbn; auto. unfold same. intros A B. eapply R_trans; eassumption. Qed.

  Lemma same_pkt s s' : dp s' = dp s -> same s s'.
  Proof. unfold same. intros ->. apply R_refl. Qed.

  Lemma same_step s s' p' : same s s' -> R (dp s') p' -> same s (with_pkt p' s').
  Proof. unfold same. cbn. intros A B. eapply R_trans; eassumption. Qed.

  Lemma get_val_keeps w old s :
    match get_val w old s with
    | GOk _ s' | GNo s' => dp s' = dp s
    | GPanic => True
    end.
  Proof.
    pose proof (get_val_spec w old s) as G.
    destruct (get_val w old s); try exact I; destruct G as [[Gp _ _ _] _]; exact Gp.
  Qed.

  Lemma get_up_keeps s :
    match get_with dec_userprop width_userprop s with
    | GOk _ s' | GNo s' => dp s' = dp s
    | GPanic => True
    end.
  Proof.
    pose proof (get_up_spec s) as G.
    destruct (get_with dec_userprop width_userprop s); try exact I;
      destruct G as [[Gp _ _ _] _]; exact Gp.
  Qed.

  Lemma get_keeps r w s : okref r = true -> keeps s (get r w s).
  Proof.
    intros H. unfold get. destruct (getf_opt r (dp s)) as [old|]; [|exact I].
    pose proof (get_val_keeps w old s) as K.
    destruct (get_val w old s) as [v s'|s'|]; cbn; auto.
    - unfold same. cbn. rewrite K. apply R_setf. exact H.
    - apply same_pkt. exact K.
  Qed.

  Lemma lookup_nw m id r t :
    forallb (fun e => okref (snd (fst e))) m = true ->
    lookup_prop m id = Some (r, t) -> okref r = true.
  Proof.
    induction m as [|[[i r'] t'] m IH]; cbn; [discriminate|].
    intros H. apply andb_prop in H as [H1 H2].
    destruct (i =? id); [intros Q; injection Q as <- <-; exact H1|apply IH; exact H2].
  Qed.

  Lemma getany_loop_keeps : forall fuel m will sm endp id s,
    forallb (fun e => okref (snd (fst e))) m = true ->
    keeps s (getany_loop fuel m will sm endp id s).
  Proof.
    induction fuel as [|fuel IH]; intros m will sm endp id s Hm; [exact I|].
    cbn [getany_loop].
    destruct (N.of_nat (dpos s) <? endp); [|cbn; apply R_refl].
    pose proof (get_val_keeps U8 (VN id) s) as K1.
    destruct (get_val U8 (VN id) s) as [v s1|s1|]; [|apply same_pkt; exact K1|exact I].
    assert (S1 : same s s1) by (apply same_pkt; exact K1).
    assert (K : forall s2 id', same s1 s2 -> keeps s (getany_loop fuel m will sm endp id' s2)).
    { intros s2 id' S2. apply (keeps_trans s s2); [unfold same in *; eapply R_trans; eassumption|].
      apply IH. exact Hm. }
    set (idv := valN v).
    destruct (match sm with
              | SubOpt => if idv =? SubscriptionID then None else lookup_prop m idv
              | _ => lookup_prop m idv end) as [[r t]|] eqn:EL.
    - assert (Hr : okref r = true).
      { destruct sm; try (apply (lookup_nw m idv r t Hm EL)).
        destruct (idv =? SubscriptionID); [discriminate|apply (lookup_nw m idv r t Hm EL)]. }
      pose proof (get_keeps r t s1 Hr) as P.
      destruct (get r t s1) as [s2| |]; [|exact I|exact I]. apply K. exact P.
    - destruct (match sm with SubOpt => idv =? SubscriptionID | _ => false end).
      + set (s1' := with_pkt (set_subid (dp s1) (Some 0)) s1).
        assert (S1' : same s1 s1') by (unfold same; cbn; apply R_subid).
        pose proof (get_val_keeps Vb (VN 0) s1') as K2.
        destruct (get_val Vb (VN 0) s1') as [v2 s2|s2|]; [| |exact I]; apply K.
        * apply same_step; [unfold same in *; rewrite K2; exact S1'|apply R_subid].
        * unfold same in *. rewrite K2. exact S1'.
      + destruct (idv =? UserProperty).
        * pose proof (get_up_keeps s1) as K2.
          destruct (get_with dec_userprop width_userprop s1) as [kv s2|s2|]; [| |exact I];
            unfold add_uprop; destruct will; try destruct (hasWill (dp s2)); try exact I;
            apply K; (apply same_step; [apply same_pkt; exact K2|]);
            first [apply R_wuprops | apply R_uprops].
        * destruct (idv =? SubscriptionID).
          -- pose proof (get_val_keeps Vb (VN 0) s1) as K2.
             destruct (get_val Vb (VN 0) s1) as [v2 s2|s2|]; [| |exact I];
               destruct sm; apply K;
               first [apply same_pkt; exact K2
                     |apply same_step; [apply same_pkt; exact K2|apply R_subids]].
          -- apply K. apply same_pkt. reflexivity.
  Qed.

  Lemma getany_keeps m will sm s :
    forallb (fun e => okref (snd (fst e))) m = true -> keeps s (getany m will sm s).
  Proof.
    intros Hm. unfold getany. destruct (at_end s); [cbn; apply R_refl|].
    pose proof (get_val_keeps Vb (VN 0) s) as K1.
    destruct (get_val Vb (VN 0) s) as [v s1|s1|]; [| |exact I];
      (apply (keeps_trans s s1); [apply same_pkt; exact K1|]); apply getany_loop_keeps; exact Hm.
  Qed.

  Lemma filter_loop_keeps : forall fuel s, keeps s (filter_loop fuel s).
  Proof.
    induction fuel as [|fuel IH]; intros s; [exact I|]. cbn [filter_loop].
    destruct (at_end s); [cbn; apply R_refl|].
    pose proof (get_val_keeps Bin (VS []) s) as K1.
    assert (Z : forall s2 (l : list (list byte * N)), dp s2 = dp s ->
      let s3 := with_pkt (set_filters (dp s2) l) s2 in
      keeps s (match derr s3 with
               | Some _ => Run s3
               | None => if at_end s3 then Run s3 else filter_loop fuel s3 end)).
    { intros s2 l E s3.
      assert (S3 : same s s3) by (unfold same, s3; cbn; rewrite E; apply R_filters).
      destruct (derr s3); [exact S3|]. destruct (at_end s3); [exact S3|].
      apply (keeps_trans s s3 _ S3). apply IH. }
    destruct (get_val Bin (VS []) s) as [v s1|s1|]; [| |exact I];
      pose proof (get_val_keeps U8 (VN 0) s1) as K2;
      (destruct (get_val U8 (VN 0) s1) as [v2 s2|s2|]; [| |exact I]);
      apply Z; congruence.
  Qed.

  Lemma ufilter_loop_keeps : forall fuel s, keeps s (ufilter_loop fuel s).
  Proof.
    induction fuel as [|fuel IH]; intros s; [exact I|]. cbn [ufilter_loop].
    destruct (at_end s); [cbn; apply R_refl|].
    pose proof (get_val_keeps Bin (VS []) s) as K1.
    assert (Z : forall s2 (l : list (list byte)), dp s2 = dp s ->
      let s3 := with_pkt (set_ufilters (dp s2) l) s2 in
      keeps s (match derr s3 with
               | Some _ => Run s3
               | None => if at_end s3 then Run s3 else ufilter_loop fuel s3 end)).
    { intros s2 l E s3.
      assert (S3 : same s s3) by (unfold same, s3; cbn; rewrite E; apply R_ufilters).
      destruct (derr s3); [exact S3|]. destruct (at_end s3); [exact S3|].
      apply (keeps_trans s s3 _ S3). apply IH. }
    destruct (get_val Bin (VS []) s) as [v s1|s1|]; [| |exact I]; apply Z; exact K1.
  Qed.

  Lemma rcodes_loop_keeps : forall n acc s, keeps s (rcodes_loop n acc s).
  Proof.
    induction n as [|n IH]; intros acc s; [cbn; apply R_rcodes|]. cbn [rcodes_loop].
    pose proof (get_val_keeps U8 (VN 0) s) as K1.
    destruct (get_val U8 (VN 0) s) as [v s1|s1|]; [| |exact I];
      (apply (keeps_trans s s1 _); [apply same_pkt; exact K1|]); apply IH.
  Qed.

  Lemma run_dec1_keeps : forall d s, no_write1 d = true -> keeps s (run_dec1 d s).
  Proof.
    fix IH 1. intros d s H.
    destruct d as [r t|m will sm|c ds| | | | | |]; cbn [no_write1] in H; cbn [run_dec1].
    - apply get_keeps. exact H.
    - apply getany_keeps. exact H.
    - destruct (eval_cond c (dp s) (env_of s)); [|cbn; apply R_refl].
      revert s. induction ds as [|d ds IHds]; intros s; [cbn; apply R_refl|].
      apply andb_prop in H as [H1 H2].
      pose proof (IH d s H1) as K1.
      destruct (run_dec1 d s) as [s1| |]; [|exact I|exact I].
      apply (keeps_trans s s1 _ K1). apply IHds. exact H2.
    - cbn. unfold same. cbn. apply R_will_init.
    - destruct (hasWill (dp s)); [|exact I]. unfold keeps, same. cbn [dp with_pkt]. apply R_setf. exact H.
    - apply filter_loop_keeps.
    - apply ufilter_loop_keeps.
    - destruct (dpos s <=? length (ddata s))%nat; [|exact I]. apply rcodes_loop_keeps.
    - unfold keeps, same. cbn [dp with_pkt]. apply R_data. exact H.
  Qed.

  Lemma run_dec_keeps : forall ds s, no_write ds = true -> keeps s (run_dec ds s).
  Proof.
    induction ds as [|d ds IH]; intros s H; [cbn; apply R_refl|].
    cbn [no_write] in H. apply andb_prop in H as [H1 H2]. cbn [run_dec].
    pose proof (run_dec1_keeps d s H1) as K1.
    destruct (run_dec1 d s) as [s1| |]; [|exact I|exact I].
    apply (keeps_trans s s1 _ K1). apply IH. exact H2.
  Qed.
End Preserved.

(* ---------------- instance: a field keeps its value ---------------- *)

Definition ref_is (f0 : fld) (r : fref) : bool :=
  match r with M f => fld_eqb f f0 | W _ => false end.

Definition Rfield (f0 : fld) (p p' : pkt) : Prop := vals p' f0 = vals p f0.

Lemma setf_other f0 r v p : ref_is f0 r = false -> vals (setf r v p) f0 = vals p f0.
Proof.
  destruct r as [f|f]; cbn; intros H; [|reflexivity].
  unfold upd. unfold fld_eqb in *. rewrite N.eqb_sym. rewrite H. reflexivity.
Qed.

Definition nw_field (f0 : fld) := no_write (fun r => negb (ref_is f0 r)) (negb (fld_eqb F_data f0)).

Lemma field_kept f0 ds s : nw_field f0 ds = true ->
  keeps (Rfield f0) s (run_dec ds s).
Proof.
  apply (run_dec_keeps (Rfield f0) (fun r => negb (ref_is f0 r)) (negb (fld_eqb F_data f0)));
    unfold Rfield; intros; try reflexivity; try congruence.
  - apply setf_other. apply negb_true_iff. assumption.
  - apply setf_other. cbn. apply negb_true_iff. assumption.
Qed.

(* no decoder skeleton writes the first header byte *)
Lemma skeletons_keep_fixed : forall k, nw_field F_fixed (dec_of k) = true.
Proof. intros k; destruct k; vm_compute; reflexivity. Qed.

Theorem unmarshal_keeps_fixed k p0 data p :
  unmarshal k p0 data = UOk p -> vals p F_fixed = vals p0 F_fixed.
Proof.
  unfold unmarshal, unmarshal_steps.
  set (s0 := {| dp := p0; ddata := data; dpos := 0; derr := None; dsteps := 0 |}).
  pose proof (field_kept F_fixed (dec_of k) s0 (skeletons_keep_fixed k)) as K.
  destruct (run_dec (dec_of k) s0) as [s1| |]; cbn; [|discriminate|discriminate].
  destruct (derr s1); [discriminate|]. intros Q; injection Q as <-. exact K.
Qed.

(* ---------------- instance: an allocated will stays allocated ------- *)

Definition Rwill (p p' : pkt) : Prop := hasWill p = true -> hasWill p' = true.

Lemma will_kept ds s : keeps Rwill s (run_dec ds s).
Proof.
  assert (H : no_write (fun _ => true) true ds = true).
  { induction ds as [|d ds IH]; [reflexivity|]. cbn [no_write]. rewrite IH, andb_true_r.
    clear IH. revert d. fix IHd 1. intros d. destruct d; cbn [no_write1]; try reflexivity.
    - induction m as [|e m IHm]; [reflexivity|]. cbn. exact IHm.
    - induction ds0 as [|d' ds' IH']; [reflexivity|]. rewrite IHd. exact IH'. }
  apply (run_dec_keeps Rwill (fun _ => true) true); unfold Rwill; intros; auto;
    try (rewrite hasWill_setf; assumption).
Qed.
