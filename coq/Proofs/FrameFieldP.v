(* What decoder programs preserve: a relation between the packet before
   and after that every update made by the interpreter respects (given a
   static condition on the fields a program names) holds across whole
   programs. Instances: a field the program does not write keeps its
   value (first header byte, C16; CONNECT flags); a will that is
   allocated stays allocated (C19). *)
From MQ Require Import Model.Codec Proofs.BytesP Proofs.DecP.
From Coq Require Import ZArith Lia.

Section Preserved.
  (* R relates the reader state before and after; Rp is the part of it
     that concerns the packet. *)
  Variable R : dstate -> dstate -> Prop.
  Variable Rp : pkt -> pkt -> Prop.
  Variable okref : fref -> bool.      (* fields a DGet / map entry may write *)
  Variable okdata : bool.             (* Undefined.data may be written       *)
  Hypothesis R_refl : forall s, R s s.
  Hypothesis R_trans : forall a b c, R a b -> R b c -> R a c.
  (* a buffer.get: packet and data untouched, an error is never cleared *)
  Hypothesis R_get : forall s s', dp s' = dp s -> ddata s' = ddata s ->
                                  (derr s <> None -> derr s' <> None) -> R s s'.
  Hypothesis R_pkt : forall s p', Rp (dp s) p' -> R s (with_pkt p' s).
  Hypothesis R_err : forall s e, R s (with_err e s).
  Hypothesis R_setf : forall r v p, okref r = true -> Rp p (setf r v p).
  Hypothesis R_data : forall v p, okdata = true -> Rp p (setf (M F_data) v p).
  Hypothesis R_subid : forall o p, Rp p (set_subid p o).
  Hypothesis R_subids : forall l p, Rp p (set_subids p l).
  Hypothesis R_uprops : forall l p, Rp p (set_uprops p l).
  Hypothesis R_wuprops : forall l p, Rp p (set_wuprops p l).
  Hypothesis R_filters : forall l p, Rp p (set_filters p l).
  Hypothesis R_ufilters : forall l p, Rp p (set_ufilters p l).
  Hypothesis R_rcodes : forall l p, Rp p (set_rcodes p l).
  Hypothesis R_will_init : forall p, Rp p (will_init p).

  Fixpoint no_write1 (d : dec) {struct d} : bool :=
    let nw_list := fix nw_list (ds : list dec) : bool :=
      match ds with [] => true | d' :: ds' => no_write1 d' && nw_list ds' end in
    match d with
    | DGet r _ => okref r
    | DGetAny m _ _ => forallb (fun e => okref (snd (fst e))) m
    | DIf _ ds => nw_list ds
    | DUndefinedData _ => okdata
    | DWillPayloadCopy => okref (W F_payload)
    | _ => true
    end.
  Fixpoint no_write (ds : list dec) : bool :=
    match ds with [] => true | d :: ds' => no_write1 d && no_write ds' end.

  Definition keeps (s : dstate) (r : res) : Prop :=
    match r with Run s' => R s s' | _ => True end.

  Lemma keeps_trans s s1 r : R s s1 -> keeps s1 r -> keeps s r.
  Proof. destruct r; cbn; auto. intros A B. eapply R_trans; eassumption. Qed.

  Lemma step_pkt s s' p' : R s s' -> Rp (dp s') p' -> R s (with_pkt p' s').
  Proof. intros A B. eapply R_trans; [exact A|apply R_pkt; exact B]. Qed.

  Lemma get_val_keeps w old s :
    match get_val w old s with
    | GOk _ s' | GNo s' => R s s'
    | GPanic => True
    end.
  Proof.
    pose proof (get_val_spec w old s) as G.
    destruct (get_val w old s); try exact I.
    - destruct G as [[Gp Gd _ _] [He _]]. apply R_get; auto; congruence.
    - destruct G as [[Gp Gd _ _] [He _]]. apply R_get; auto.
  Qed.

  Lemma get_up_keeps s :
    match get_with dec_userprop width_userprop s with
    | GOk _ s' | GNo s' => R s s'
    | GPanic => True
    end.
  Proof.
    pose proof (get_up_spec s) as G.
    destruct (get_with dec_userprop width_userprop s); try exact I.
    - destruct G as [[Gp Gd _ _] [He _]]. apply R_get; auto; congruence.
    - destruct G as [[Gp Gd _ _] [He _]]. apply R_get; auto.
  Qed.

  Lemma get_keeps r w s : okref r = true -> keeps s (get r w s).
  Proof.
    intros H. unfold get. destruct (getf_opt r (dp s)) as [old|]; [|exact I].
    pose proof (get_val_keeps w old s) as K.
    destruct (get_val w old s) as [v s'|s'|]; cbn; auto.
    apply step_pkt; [exact K|]. apply R_setf. exact H.
  Qed.

  Lemma lookup_nw m id r t :
    forallb (fun e => okref (snd (fst e))) m = true ->
    lookup_prop m id = Some (r, t) -> okref r = true.
  Proof.
    induction m as [|[[i r'] t'] m IH]; cbn; [discriminate|].
    intros H. apply andb_prop in H as [H1 H2].
    destruct (i =? id); [intros Q; injection Q as <- <-; exact H1|apply IH; exact H2].
  Qed.

  Lemma getany_loop_keeps : forall fuel m will sm endp id s,
    forallb (fun e => okref (snd (fst e))) m = true ->
    keeps s (getany_loop fuel m will sm endp id s).
  Proof.
    induction fuel as [|fuel IH]; intros m will sm endp id s Hm; [exact I|].
    cbn [getany_loop].
    destruct (N.of_nat (dpos s) <? endp); [|cbn; apply R_refl].
    pose proof (get_val_keeps U8 (VN id) s) as K1.
    destruct (get_val U8 (VN id) s) as [v s1|s1|]; [|exact K1|exact I].
    assert (K : forall s2 id', R s1 s2 -> keeps s (getany_loop fuel m will sm endp id' s2)).
    { intros s2 id' S2. apply (keeps_trans s s2); [eapply R_trans; eassumption|].
      apply IH. exact Hm. }
    set (idv := valN v).
    destruct (match sm with
              | SubOpt => if idv =? SubscriptionID then None else lookup_prop m idv
              | _ => lookup_prop m idv end) as [[r t]|] eqn:EL.
    - assert (Hr : okref r = true).
      { destruct sm; try (apply (lookup_nw m idv r t Hm EL)).
        destruct (idv =? SubscriptionID); [discriminate|apply (lookup_nw m idv r t Hm EL)]. }
      pose proof (get_keeps r t s1 Hr) as P.
      destruct (get r t s1) as [s2| |]; [|exact I|exact I]. apply K. exact P.
    - destruct (match sm with SubOpt => idv =? SubscriptionID | _ => false end).
      + set (s1' := with_pkt (set_subid (dp s1) (Some 0)) s1).
        assert (S1' : R s1 s1') by (apply R_pkt; apply R_subid).
        pose proof (get_val_keeps Vb (VN 0) s1') as K2.
        destruct (get_val Vb (VN 0) s1') as [v2 s2|s2|]; [| |exact I]; apply K.
        * apply step_pkt; [eapply R_trans; eassumption|apply R_subid].
        * eapply R_trans; eassumption.
      + destruct (idv =? UserProperty).
        * pose proof (get_up_keeps s1) as K2.
          destruct (get_with dec_userprop width_userprop s1) as [kv s2|s2|]; [| |exact I];
            unfold add_uprop; destruct will; try destruct (hasWill (dp s2)); try exact I;
            apply K; (apply step_pkt; [exact K2|]);
            first [apply R_wuprops | apply R_uprops].
        * destruct (idv =? SubscriptionID).
          -- pose proof (get_val_keeps Vb (VN 0) s1) as K2.
             destruct (get_val Vb (VN 0) s1) as [v2 s2|s2|]; [| |exact I];
               destruct sm; apply K;
               first [exact K2 | apply step_pkt; [exact K2|apply R_subids]].
          -- apply K. apply R_err.
  Qed.

  Lemma getany_keeps m will sm s :
    forallb (fun e => okref (snd (fst e))) m = true -> keeps s (getany m will sm s).
  Proof.
    intros Hm. unfold getany. destruct (at_end s); [cbn; apply R_refl|].
    pose proof (get_val_keeps Vb (VN 0) s) as K1.
    destruct (get_val Vb (VN 0) s) as [v s1|s1|]; [| |exact I];
      (apply (keeps_trans s s1); [exact K1|]); apply getany_loop_keeps; exact Hm.
  Qed.

  Lemma filter_loop_keeps : forall fuel s, keeps s (filter_loop fuel s).
  Proof.
    induction fuel as [|fuel IH]; intros s; [exact I|]. cbn [filter_loop].
    destruct (at_end s); [cbn; apply R_refl|].
    pose proof (get_val_keeps Bin (VS []) s) as K1.
    assert (Z : forall s2 (l : list (list byte * N)), R s s2 ->
      let s3 := with_pkt (set_filters (dp s2) l) s2 in
      keeps s (match derr s3 with
               | Some _ => Run s3
               | None => if at_end s3 then Run s3 else filter_loop fuel s3 end)).
    { intros s2 l E s3.
      assert (S3 : R s s3) by (apply step_pkt; [exact E|apply R_filters]).
      destruct (derr s3); [exact S3|]. destruct (at_end s3); [exact S3|].
      apply (keeps_trans s s3 _ S3). apply IH. }
    destruct (get_val Bin (VS []) s) as [v s1|s1|]; [| |exact I];
      pose proof (get_val_keeps U8 (VN 0) s1) as K2;
      (destruct (get_val U8 (VN 0) s1) as [v2 s2|s2|]; [| |exact I]);
      apply Z; eapply R_trans; eassumption.
  Qed.

  Lemma ufilter_loop_keeps : forall fuel s, keeps s (ufilter_loop fuel s).
  Proof.
    induction fuel as [|fuel IH]; intros s; [exact I|]. cbn [ufilter_loop].
    destruct (at_end s); [cbn; apply R_refl|].
    pose proof (get_val_keeps Bin (VS []) s) as K1.
    assert (Z : forall s2 (l : list (list byte)), R s s2 ->
      let s3 := with_pkt (set_ufilters (dp s2) l) s2 in
      keeps s (match derr s3 with
               | Some _ => Run s3
               | None => if at_end s3 then Run s3 else ufilter_loop fuel s3 end)).
    { intros s2 l E s3.
      assert (S3 : R s s3) by (apply step_pkt; [exact E|apply R_ufilters]).
      destruct (derr s3); [exact S3|]. destruct (at_end s3); [exact S3|].
      apply (keeps_trans s s3 _ S3). apply IH. }
    destruct (get_val Bin (VS []) s) as [v s1|s1|]; [| |exact I]; apply Z; exact K1.
  Qed.

  Lemma rcodes_loop_keeps : forall n acc s, keeps s (rcodes_loop n acc s).
  Proof.
    induction n as [|n IH]; intros acc s; [cbn; apply R_pkt; apply R_rcodes|]. cbn [rcodes_loop].
    pose proof (get_val_keeps U8 (VN 0) s) as K1.
    destruct (get_val U8 (VN 0) s) as [v s1|s1|]; [| |exact I];
      (apply (keeps_trans s s1 _); [exact K1|]); apply IH.
  Qed.

  Lemma run_dec1_keeps : forall d s, no_write1 d = true -> keeps s (run_dec1 d s).
  Proof.
    fix IH 1. intros d s H.
    destruct d as [r t|m will sm|c ds| | | | | |]; cbn [no_write1] in H; cbn [run_dec1].
    - apply get_keeps. exact H.
    - apply getany_keeps. exact H.
    - destruct (eval_cond c (dp s) (env_of s)); [|cbn; apply R_refl].
      revert s. induction ds as [|d ds IHds]; intros s; [cbn; apply R_refl|].
      apply andb_prop in H as [H1 H2].
      pose proof (IH d s H1) as K1.
      destruct (run_dec1 d s) as [s1| |]; [|exact I|exact I].
      apply (keeps_trans s s1 _ K1). apply IHds. exact H2.
    - unfold keeps. apply R_pkt. apply R_will_init.
    - destruct (hasWill (dp s)); [|exact I]. unfold keeps. apply R_pkt. apply R_setf. exact H.
    - apply filter_loop_keeps.
    - apply ufilter_loop_keeps.
    - destruct (dpos s <=? length (ddata s))%nat; [|exact I]. apply rcodes_loop_keeps.
    - unfold keeps. apply R_pkt. apply R_data. exact H.
  Qed.

  Lemma run_dec_keeps : forall ds s, no_write ds = true -> keeps s (run_dec ds s).
  Proof.
    induction ds as [|d ds IH]; intros s H; [cbn; apply R_refl|].
    cbn [no_write] in H. apply andb_prop in H as [H1 H2]. cbn [run_dec].
    pose proof (run_dec1_keeps d s H1) as K1.
    destruct (run_dec1 d s) as [s1| |]; [|exact I|exact I].
    apply (keeps_trans s s1 _ K1). apply IH. exact H2.
  Qed.
End Preserved.

Lemma no_write_all okdata ds : no_write (fun _ => true) okdata ds = true \/ okdata = false.
Proof. destruct okdata; [left|right; reflexivity].
  induction ds as [|d ds IH]; [reflexivity|]. cbn [no_write]. rewrite IH, andb_true_r.
  clear IH. revert d. fix IHd 1. intros d. destruct d; cbn [no_write1]; try reflexivity.
  - induction m as [|e m IHm]; [reflexivity|]. cbn. exact IHm.
  - induction ds0 as [|d' ds' IH']; [reflexivity|]. rewrite IHd. exact IH'.
Qed.

(* ---------------- instance: a field keeps its value ---------------- *)

Definition ref_is (f0 : fld) (r : fref) : bool :=
  match r with M f => fld_eqb f f0 | W _ => false end.

Definition Rfield (f0 : fld) (p p' : pkt) : Prop := vals p' f0 = vals p f0.
Definition Rfield_s (f0 : fld) (s s' : dstate) : Prop := Rfield f0 (dp s) (dp s').

Lemma setf_other f0 r v p : ref_is f0 r = false -> vals (setf r v p) f0 = vals p f0.
Proof.
  destruct r as [f|f]; cbn; intros H; [|reflexivity].
  unfold upd. unfold fld_eqb in *. rewrite N.eqb_sym. rewrite H. reflexivity.
Qed.

Definition nw_field (f0 : fld) := no_write (fun r => negb (ref_is f0 r)) (negb (fld_eqb F_data f0)).

Lemma field_kept f0 ds s : nw_field f0 ds = true ->
  keeps (Rfield_s f0) s (run_dec ds s).
Proof.
  apply (run_dec_keeps (Rfield_s f0) (Rfield f0) (fun r => negb (ref_is f0 r)) (negb (fld_eqb F_data f0)));
    unfold Rfield_s, Rfield; intros; try reflexivity; try congruence; try assumption.
  - apply setf_other. apply negb_true_iff. assumption.
  - apply setf_other. cbn. apply negb_true_iff. assumption.
Qed.

(* no decoder skeleton writes the first header byte *)
Lemma skeletons_keep_fixed : forall k, nw_field F_fixed (dec_of k) = true.
Proof. intros k; destruct k; vm_compute; reflexivity. Qed.

Theorem unmarshal_keeps_fixed k p0 data p :
  unmarshal k p0 data = UOk p -> vals p F_fixed = vals p0 F_fixed.
Proof.
  unfold unmarshal, unmarshal_steps.
  set (s0 := {| dp := p0; ddata := data; dpos := 0; derr := None; dsteps := 0 |}).
  pose proof (field_kept F_fixed (dec_of k) s0 (skeletons_keep_fixed k)) as K.
  destruct (run_dec (dec_of k) s0) as [s1| |]; cbn; [|discriminate|discriminate].
  destruct (derr s1); [discriminate|]. intros Q; injection Q as <-. exact K.
Qed.

(* ---------------- instance: an allocated will stays allocated ------- *)

Definition Rwill (p p' : pkt) : Prop := hasWill p = true -> hasWill p' = true.
Definition Rwill_s (s s' : dstate) : Prop := Rwill (dp s) (dp s').

Lemma will_kept ds s : keeps Rwill_s s (run_dec ds s).
Proof.
  destruct (no_write_all true ds) as [H|H]; [|discriminate].
  apply (run_dec_keeps Rwill_s Rwill (fun _ => true) true); unfold Rwill_s, Rwill; intros; auto;
    try (rewrite hasWill_setf; assumption).
  rewrite H0. assumption.
Qed.

(* ---------------- instance: an error is never cleared ---------------- *)
Definition Rerr (s s' : dstate) : Prop := derr s <> None -> derr s' <> None.

Lemma err_sticky ds s : keeps Rerr s (run_dec ds s).
Proof.
  destruct (no_write_all true ds) as [H|H]; [|discriminate].
  apply (run_dec_keeps Rerr (fun _ _ => True) (fun _ => true) true); unfold Rerr; intros; auto.
  cbn. discriminate.
Qed.
