(* Running the regenerated statement lists of the wire types' UnmarshalBinary
   methods (Model/WireDecIR.v) is the decoder of Model/Wire.v, for every
   receiver value and every byte string. *)
From MQ Require Import Model.WireDecIR.
From Coq Require Import String Lia Arith.
Local Open Scope nat_scope.

Lemma dexec_list_inner data l : forall s,
  (fix dexec_list (l : list ds) (s : dst) : option dflow :=
     match l with
     | [] => Some (DNext s)
     | st' :: l' => match dexec data st' s with Some (DNext s') => dexec_list l' s' | r => r end
     end) l s = dexec_list data l s.
Proof.
  induction l as [|a l IH]; intros s; [reflexivity|].
  cbn [dexec_list]. destruct (dexec data a s) as [[s'|s' r]|]; try reflexivity. apply IH.
Qed.

Lemma dexec_if data c body s :
  dexec data (D_if c body) s = if ev_dc data s c then dexec_list data body s else Some (DNext s).
Proof. cbn [dexec]. destruct (ev_dc data s c); [apply dexec_list_inner|reflexivity]. Qed.

Fixpoint pick_case (data : list byte) (b : N) (cs : list (N * list ds)) (default : list ds) (s : dst) : option dflow :=
  match cs with
  | [] => dexec_list data default s
  | (k, body) :: cs' => if (b =? k)%N then dexec_list data body s else pick_case data b cs' default s
  end.

Lemma dexec_switch data cases default s :
  dexec data (D_switch_data0 cases default) s =
  match data with [] => None | b :: _ => pick_case data (b2n b) cases default s end.
Proof.
  cbn [dexec]. destruct data as [|b d]; [reflexivity|].
  induction cases as [|[k body] cs IH]; cbn [pick_case].
  - apply dexec_list_inner.
  - destruct (b2n b =? k)%N; [apply dexec_list_inner|apply IH].
Qed.

Fixpoint range_loop (data : list byte) (body : list ds) (l : list byte) (s : dst) : option dflow :=
  match l with
  | [] => Some (DNext s)
  | b :: l' =>
    match dexec_list data body (mkd (d_v s) (d_length s) (d_mult s) (d_value s) (b2n b) (d_key s) (d_val s) (d_i s)) with
    | Some (DNext s') => range_loop data body l' s'
    | r => r
    end
  end.

Lemma dexec_range data body s : dexec data (D_range_data body) s = range_loop data body data s.
Proof.
  cbn [dexec]. generalize data at 2 4. intros l. revert s.
  induction l as [|b l IH]; intros s; [reflexivity|].
  cbn [range_loop]. rewrite dexec_list_inner.
  destruct (dexec_list data body _) as [[s'|s' r]|]; try reflexivity. apply IH.
Qed.

Lemma dexec_list_cons data a l s :
  dexec_list data (a :: l) s = match dexec data a s with Some (DNext s') => dexec_list data l s' | r => r end.
Proof. reflexivity. Qed.
Lemma dexec_list_nil data s : dexec_list data [] s = Some (DNext s).
Proof. reflexivity. Qed.

Ltac get_dprog :=
  match goal with |- context [dprog ?name] =>
    let p := eval vm_compute in (dprog name) in change (dprog name) with p end.

Ltac dsel := cbn [d_v d_length d_mult d_value d_eb d_key d_val d_i with_v ev_dc wv_n wv_b wv_s wv_k wv_v set_v0 set_v1].

Ltac dhead :=
  first [ rewrite dexec_list_cons; first [ rewrite dexec_if | rewrite dexec_switch | rewrite dexec_range | cbn [dexec] ]
        | rewrite dexec_list_nil; cbn [dexec] ]; dsel.

Lemma run_u8_dec name old d : name = "bits.UnmarshalBinary"%string \/ name = "Ident.UnmarshalBinary"%string ->
  run_wdec (dprog name) old d = lift WVn (dec_u8 d).
Proof.
  intros [->| ->]; unfold run_wdec, dec_u8; get_dprog; dhead; (destruct d as [|b d']; [reflexivity|]); dhead; reflexivity.
Qed.

Lemma run_u16_dec old d : run_wdec (dprog "wuint16.UnmarshalBinary") old d = lift WVn (dec_u16 d).
Proof. destruct d as [|b1 [|b2 d']]; reflexivity. Qed.

Lemma run_u32_dec old d : run_wdec (dprog "wuint32.UnmarshalBinary") old d = lift WVn (dec_u32 d).
Proof. destruct d as [|b1 [|b2 [|b3 [|b4 d']]]]; reflexivity. Qed.

Lemma run_bool_dec old d : run_wdec (dprog "wbool.UnmarshalBinary") old d = lift WVb (dec_bool d).
Proof.
  unfold run_wdec, dec_bool. get_dprog. dhead.
  destruct d as [|b d']; [reflexivity|]. cbn [pick_case].
  destruct (b2n b =? 0)%N; [reflexivity|].
  destruct (b2n b =? 1)%N; reflexivity.
Qed.

Lemma copy_into_zeros src n : n = List.length src -> copy_into (zeros n) src = src.
Proof.
  intros ->. unfold copy_into, zeros. rewrite repeat_length.
  replace (Nat.min (List.length src) (List.length src)) with (List.length src) by lia.
  rewrite firstn_all, skipn_all2.
  - apply app_nil_r.
  - rewrite repeat_length. lia.
Qed.

Lemma slice_length {A} (d : list A) lo hi s : slice d lo hi = Some s -> List.length s = hi - lo.
Proof.
  unfold slice. destruct (Nat.leb lo hi && Nat.leb hi (List.length d))%bool eqn:E; [|discriminate].
  intros H. injection H as <-. apply Bool.andb_true_iff in E. destruct E as [E1 E2].
  apply Nat.leb_le in E1, E2. rewrite firstn_length, skipn_length. lia.
Qed.

Lemma run_raw_dec old d : run_wdec (dprog "rawdata.UnmarshalBinary") old d = lift WVs (dec_raw d).
Proof.
  unfold run_wdec, dec_raw. get_dprog. dhead. dhead. dhead. cbn [lift].
  rewrite copy_into_zeros by reflexivity. reflexivity.
Qed.

Definition bin_tail : list ds :=
  [D_if DC_len_lt_length2 [D_ret_err EMissingData]; D_if DC_length_0 [D_ret_nil];
   D_make_length; D_copy_from2; D_ret_nil].

Lemma run_bin_tail old d l :
  match dexec_list d bin_tail (mkd (WVs old) l 0 0 0 [] [] 0) with
  | Some (DRet s None) => Ok (d_v s)
  | Some (DRet s (Some e)) => Err e
  | _ => Panic
  end =
  lift WVs (if (len d <? l + 2)%N then Err EMissingData
            else if (l =? 0)%N then Ok old
            else match slice d 2 (N.to_nat l + 2) with Some s => Ok s | None => Panic end).
Proof.
  unfold bin_tail. dhead.
  destruct (len d <? l + 2)%N; [reflexivity|].
  repeat dhead.
  destruct (l =? 0)%N; [reflexivity|].
  repeat dhead.
  destruct (slice d 2 (N.to_nat l + 2)) as [src|] eqn:Hs; [|reflexivity].
  repeat dhead. cbn [lift]. rewrite copy_into_zeros; [reflexivity|].
  apply slice_length in Hs. lia.
Qed.

Lemma run_bin_dec old d :
  run_wdec (dprog "bindata.UnmarshalBinary") (WVs old) d = lift WVs (dec_bin old d).
Proof.
  unfold run_wdec, dec_bin. get_dprog. fold bin_tail. dhead. dhead.
  destruct (dec_u16 d) as [n|e|]; apply run_bin_tail.
Qed.

(* vbint.UnmarshalBinary: the range loop *)
Lemma byte_low7 x : N.land (b2n x) 127 = (b2n x mod 128)%N.
Proof. destruct x; reflexivity. Qed.
Lemma byte_hi0 x : (N.land (b2n x) 128 =? 0)%N = (b2n x <? 128)%N.
Proof. destruct x; reflexivity. Qed.

Definition vb_dbody : list ds :=
  [D_value_acc; D_if (DC_mult_gt 2097152) [D_ret_err ESizeExceeded];
   D_if DC_eb_hi0 [D_set_value; D_ret_nil]; D_mult_step].

Lemma range_vb data l : forall v ln mult value eb k vl i,
  match range_loop data vb_dbody l (mkd v ln mult value eb k vl i) with
  | Some (DRet s' None) => exists n, d_v s' = WVn n /\ vb_mem_loop l mult value = Ok n
  | Some (DRet s' (Some e)) => vb_mem_loop l mult value = Err e
  | Some (DNext s') => vb_mem_loop l mult value = Err EMissingData
  | None => False
  end.
Proof.
  induction l as [|b l IH]; intros v ln mult value eb k vl i; [reflexivity|].
  cbn [range_loop vb_mem_loop]. unfold vb_dbody at 1. dsel.
  dhead. rewrite byte_low7. dhead.
  change (128 * 128 * 128)%N with 2097152%N.
  destruct (2097152 <? mult)%N; [repeat dhead; reflexivity|].
  repeat dhead. rewrite byte_hi0.
  destruct (b2n b <? 128)%N.
  - repeat dhead. eexists. split; reflexivity.
  - repeat dhead. fold vb_dbody. apply IH.
Qed.

Lemma run_vb_dec old d : run_wdec (dprog "vbint.UnmarshalBinary") old d = lift WVn (dec_vb d).
Proof.
  unfold run_wdec, dec_vb. get_dprog. fold vb_dbody. dhead.
  destruct d as [|b d']; [reflexivity|]. cbn [List.length Nat.eqb].
  repeat dhead.
  pose proof (range_vb (b :: d') (b :: d') old 0%N 1%N 0%N 0%N [] [] 0) as H.
  destruct (range_loop (b :: d') vb_dbody (b :: d') _) as [[s'|s' [e|]]|].
  - repeat dhead. rewrite H. reflexivity.
  - rewrite H. reflexivity.
  - destruct H as (n & Hv & Hn). rewrite Hn, Hv. reflexivity.
  - contradiction.
Qed.

(* UserProp.UnmarshalBinary *)
Lemma run_userprop_dec old d :
  run_wdec (dprog "UserProp.UnmarshalBinary") old d =
  lift (fun kv => WVp (fst kv) (snd kv)) (dec_userprop d).
Proof.
  unfold run_wdec, dec_userprop. get_dprog. dhead. dhead.
  destruct (dec_bin [] d) as [k|e|]; [|reflexivity|reflexivity].
  repeat dhead.
  destruct (slice d (List.length k + 2) (List.length d)) as [d'|]; [|reflexivity].
  repeat dhead.
  destruct (dec_bin [] d') as [x|e|]; [|reflexivity|reflexivity].
  repeat dhead. reflexivity.
Qed.

(* ------------------------------------------------------------------ *)
(* all wire types at once: the regenerated UnmarshalBinary is Wire.decode *)
Theorem wire_dec_is_prog w old d :
  lift (value_of w) (run_wdec (dprog (go_type w ++ ".UnmarshalBinary")) (wv_of w old) d) = decode w old d.
Proof.
  destruct w; cbn [go_type append decode wv_of value_of].
  - rewrite (run_u8_dec _ _ d (or_introl eq_refl)). destruct (dec_u8 d); reflexivity.
  - rewrite run_u16_dec. destruct (dec_u16 d); reflexivity.
  - rewrite run_u32_dec. destruct (dec_u32 d); reflexivity.
  - rewrite run_bool_dec. destruct (dec_bool d); reflexivity.
  - rewrite run_bin_dec. destruct (dec_bin (valS old) d); reflexivity.
  - rewrite run_raw_dec. destruct (dec_raw d); reflexivity.
  - rewrite run_vb_dec. destruct (dec_vb d); reflexivity.
Qed.

Theorem ident_dec_is_prog old d :
  run_wdec (dprog "Ident.UnmarshalBinary") old d = lift WVn (dec_u8 d).
Proof. exact (run_u8_dec _ old d (or_intror eq_refl)). Qed.
