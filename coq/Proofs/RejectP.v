(* Frames that must be rejected (C09): what each field decoder does
   with a cut field, unknown identifiers, boolean values, and that an
   error once set is what UnmarshalBinary returns. *)
From MQ Require Import Model.Codec Proofs.BytesP Proofs.VbP Proofs.WireP Proofs.DecP Proofs.FrameFieldP Spec.Mqtt5.
From Coq Require Import ZArith Lia ZifyN ZifyNat ZifyBool.
Ltac Zify.zify_post_hook ::= Z.div_mod_to_equations.

Lemma run_dec_app' a b s :
  run_dec (a ++ b) s = match run_dec a s with Run s' => run_dec b s' | x => x end.
Proof.
  revert s. induction a as [|d a IH]; intros s; [reflexivity|]. cbn [app run_dec].
  destruct (run_dec1 d s); [apply IH|reflexivity|reflexivity].
Qed.

(* ---------------- (a) a field cut strictly inside ---------------- *)
Definition is_err {A} (o : outcome A) : Prop := exists e, o = Err e.

Lemma cut_u16 n k old : (0 < k < 2)%nat -> is_err (decode U16 old (firstn k (enc_u16 n))).
Proof. intros H. assert (k = 1)%nat by lia. subst. eexists. reflexivity. Qed.

Lemma cut_u32 n k old : (0 < k < 4)%nat -> is_err (decode U32 old (firstn k (enc_u32 n))).
Proof.
  intros H. assert (k = 1 \/ k = 2 \/ k = 3)%nat as [->|[->| ->]] by lia; eexists; reflexivity.
Qed.

Lemma dec_u16_enc n rest : n < 65536 -> dec_u16 (enc_u16 n ++ rest) = Ok n.
Proof.
  intros H. unfold enc_u16, dec_u16. cbn [app]. rewrite !b2n_n2b. f_equal. lia.
Qed.

(* strings and binary data: inside the length prefix or inside the body *)
Lemma cut_bin s k old : len s < 65536 -> (0 < k < 2 + length s)%nat ->
  is_err (decode Bin old (firstn k (enc_bin s))).
Proof.
  intros Hs Hk. unfold decode, dec_bin.
  assert (Hl : len (firstn k (enc_bin s)) = N.of_nat k).
  { unfold len. rewrite firstn_length. unfold enc_bin, enc_u16. rewrite app_length. simpl. lia. }
  destruct (Nat.eq_dec k 1) as [->|Hk1].
  - (* inside the prefix: the length decoder's error is dropped, length 0, 1 < 2 bytes *)
    unfold enc_bin, enc_u16. cbn [app firstn dec_u16]. eexists. reflexivity.
  - assert (Hd : dec_u16 (firstn k (enc_bin s)) = Ok (len s)).
    { unfold enc_bin. rewrite N.mod_small by lia.
      replace k with (2 + (k - 2))%nat by lia.
      change (enc_u16 (len s) ++ s) with (n2b (len s / 256) :: n2b (len s) :: s).
      cbn [firstn plus]. unfold dec_u16. rewrite !b2n_n2b. f_equal. lia. }
    rewrite Hd, Hl. rewrite (proj2 (N.ltb_lt _ _)) by (unfold len; lia). eexists. reflexivity.
Qed.

(* a multi-byte variable byte integer cut before its last byte *)
Lemma cont_hi x : cont (n2b (x mod 128 + 128)) = true.
Proof. unfold cont. rewrite b2n_n2b_small by lia. apply N.leb_le. lia. Qed.

Lemma cut_vb n k old : n < 268435456 -> (0 < k < length (enc_vb n))%nat ->
  is_err (decode Vb old (firstn k (enc_vb n))).
Proof.
  intros Hn Hk. unfold decode.
  assert (R : rejected (dec_vb (firstn k (enc_vb n)))).
  { apply dec_vb_all_cont.
    destruct (enc_vb_cases n Hn) as [[H1 E]|[[H1 E]|[[H1 E]|[H1 E]]]]; rewrite E in *; cbn [length] in Hk.
    - lia.
    - assert (k = 1)%nat by lia. subst k. cbn [firstn]. repeat constructor; apply cont_hi.
    - assert (k = 1 \/ k = 2)%nat as [->| ->] by lia; cbn [firstn]; repeat constructor; apply cont_hi.
    - assert (k = 1 \/ k = 2 \/ k = 3)%nat as [->|[->| ->]] by lia; cbn [firstn]; repeat constructor; apply cont_hi. }
  destruct R as [e ->]. eexists. reflexivity.
Qed.

(* a user property cut anywhere inside: key prefix, key, value prefix, value *)
Lemma cut_userprop kk vv k : len kk < 65536 -> len vv < 65536 ->
  (0 < k < 4 + length kk + length vv)%nat ->
  is_err (dec_userprop (firstn k (enc_bin kk ++ enc_bin vv))).
Proof.
  intros Hk1 Hv1 Hk. unfold dec_userprop.
  assert (Lk : length (enc_bin kk) = (2 + length kk)%nat) by (unfold enc_bin, enc_u16; rewrite app_length; reflexivity).
  destruct (Nat.lt_ge_cases k (2 + length kk)) as [Hin|Hout].
  - (* inside the key *)
    rewrite firstn_app. replace (k - length (enc_bin kk))%nat with 0%nat by lia.
    cbn [firstn]. rewrite app_nil_r.
    destruct (cut_bin kk k (VS []) Hk1 ltac:(lia)) as [e He]. unfold decode in He. cbn [valS] in He.
    destruct (dec_bin [] (firstn k (enc_bin kk))); try discriminate. eexists. reflexivity.
  - (* the key is complete, the value is not *)
    rewrite firstn_app, firstn_all2 by lia.
    set (j := (k - length (enc_bin kk))%nat).
    assert (Hj : (j < 2 + length vv)%nat) by (unfold j; lia).
    rewrite dec_enc_bin by assumption.
    assert (E : match kk with [] => [] | _ :: _ => kk end = kk) by (destruct kk; reflexivity). rewrite E.
    assert (Sk : skipn (length kk + 2) (enc_bin kk ++ firstn j (enc_bin vv)) = firstn j (enc_bin vv)).
    { rewrite skipn_app. rewrite skipn_all2 by lia.
      rewrite Lk. replace (length kk + 2 - (2 + length kk))%nat with 0%nat by lia. reflexivity. }
    unfold slice. rewrite (proj2 (Nat.leb_le _ _)) by (rewrite app_length, Lk; lia).
    rewrite Nat.leb_refl. cbn [andb]. rewrite Sk.
    rewrite firstn_all2 by (rewrite app_length, Lk; lia).
    destruct j as [|j].
    + cbn [firstn]. eexists. reflexivity.
    + destruct (cut_bin vv (S j) (VS []) Hv1 ltac:(lia)) as [e He]. unfold decode in He. cbn [valS] in He.
      destruct (dec_bin [] (firstn (S j) (enc_bin vv))); try discriminate. eexists. reflexivity.
Qed.

(* the frame ends between two fields: buffer.get reports missing data *)
Lemma get_at_end w old s : derr s = None -> (length (ddata s) <= dpos s)%nat ->
  exists s', get_val w old s = GNo s' /\ derr s' = Some EMissingData.
Proof.
  intros He Hp. unfold get_val, get_with. cbn [derr tick ddata dpos]. rewrite He.
  rewrite (proj2 (Nat.leb_le _ _) Hp). eexists. split; reflexivity.
Qed.

(* ---------------- (c) boolean properties ---------------- *)
Lemma bool_out_of_range b rest old : 2 <= b2n b -> decode WBool old (b :: rest) = Err EMalformedBool.
Proof.
  intros H. unfold decode, dec_bool.
  rewrite (proj2 (N.eqb_neq _ _)) by lia. rewrite (proj2 (N.eqb_neq _ _)) by lia. reflexivity.
Qed.

(* ---------------- (d) identifiers MQTT does not define ---------------- *)
(* every identifier a property map of the library knows is one of the 27
   of the specification's table 2-4 (so the 229 others fall through to
   "unknown property id") *)
Definition map_ids_defined (m : list (N * fref * wt)) : bool :=
  forallb (fun e => match prop_type (fst (fst e)) with Some _ => true | None => false end) m.

Lemma all_maps_defined :
  map_ids_defined connect_map = true /\ map_ids_defined will_map = true /\
  map_ids_defined connack_map = true /\ map_ids_defined publish_map = true /\
  map_ids_defined ack_map = true /\ map_ids_defined auth_map = true.
Proof. repeat split; vm_compute; reflexivity. Qed.

Lemma lookup_undefined m u : map_ids_defined m = true -> prop_type u = None -> lookup_prop m u = None.
Proof.
  induction m as [|[[i r] t] m IH]; [reflexivity|]. cbn. intros H Hu.
  apply andb_prop in H as [H1 H2]. destruct (N.eqb_spec i u) as [->|]; [rewrite Hu in H1; discriminate|].
  apply IH; assumption.
Qed.

(* one iteration of the property loop on an undefined identifier sets the
   "unknown property id" error *)
Lemma getany_unknown fuel m will sm endp id s b :
  map_ids_defined m = true -> prop_type (b2n b) = None ->
  derr s = None -> (dpos s < length (ddata s))%nat -> N.of_nat (dpos s) < endp ->
  nth_error (ddata s) (dpos s) = Some b ->
  exists s1, derr s1 = Some (EUnknownProp (b2n b)) /\
    getany_loop (S fuel) m will sm endp id s = getany_loop fuel m will sm endp (b2n b) s1.
Proof.
  intros Hm Hu He Hp Hend Hb. cbn [getany_loop]. rewrite (proj2 (N.ltb_lt _ _) Hend).
  unfold get_val, get_with. cbn [derr tick ddata dpos]. rewrite He.
  rewrite (proj2 (Nat.leb_gt _ _) Hp).
  assert (Hs : exists t, skipn (dpos s) (ddata s) = b :: t).
  { clear -Hb. revert Hb. generalize (dpos s) as n. induction (ddata s) as [|x l IH]; intros n Hb.
    - destruct n; discriminate.
    - destruct n as [|n]; [injection Hb as ->; eexists; reflexivity|]. cbn. apply IH. exact Hb. }
  destruct Hs as [t Hs]. rewrite Hs. cbn [decode dec_u8 valN width encode enc_u8 length].
  cbn [advance ddata dpos tick].
  rewrite (proj2 (Nat.ltb_ge _ _)) by lia.
  assert (H38 : b2n b <> 38) by (intros E; rewrite E in Hu; discriminate).
  assert (H11 : b2n b <> 11) by (intros E; rewrite E in Hu; discriminate).
  change (valN (VN (b2n b))) with (b2n b).
  rewrite (lookup_undefined m _ Hm Hu).
  replace (b2n b =? SubscriptionID) with false by (symmetry; apply N.eqb_neq; exact H11).
  replace (b2n b =? UserProperty) with false by (symmetry; apply N.eqb_neq; exact H38).
  destruct sm; eexists; (split; [|reflexivity]); reflexivity.
Qed.

(* ---------------- an error, once set, is the result ---------------- *)
Theorem unmarshal_error_sticks k p0 data pre post s1 :
  dec_of k = pre ++ post ->
  run_dec pre {| dp := p0; ddata := data; dpos := 0; derr := None; dsteps := 0 |} = Run s1 ->
  derr s1 <> None ->
  exists e p, unmarshal k p0 data = UErr e p.
Proof.
  intros Hsplit Hpre Herr.
  destruct (unmarshal_total k p0 data) as [T1 T2].
  unfold unmarshal, unmarshal_steps in *. rewrite Hsplit in *.
  rewrite run_dec_app' in *. rewrite Hpre in *.
  pose proof (err_sticky post s1) as K.
  destruct (run_dec post s1) as [s2| |]; cbn in *; try congruence.
  unfold Rerr in K. specialize (K Herr).
  destruct (derr s2) as [e|]; [do 2 eexists; reflexivity|congruence].
Qed.
