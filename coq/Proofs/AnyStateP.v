(* Setters on ANY packet value - not only the states reachable from a
   constructor, so also packets that came off the wire with flags and fields
   the setters themselves never produce together: the accessor of the field
   just set returns the value set, the CONNECT user-name and password flags
   follow the value, and every accessor the call does not name is unchanged. *)
From MQ Require Import Model.Codec Model.Api Model.AccIR Proofs.BytesP.
From Coq Require Import List NArith ZArith String Bool.
Import ListNotations.
Open Scope string_scope.

(* the accessors a call may change: the flag-derived ones for every call that
   toggles a flag byte, and the accessor(s) of the field it names *)
Definition flag_names : list string :=
  ["Connect.HasFlag"; "Connect.CleanStart"; "ConnAck.HasFlag"; "ConnAck.SessionPresent";
   "Publish.Duplicate"; "Publish.Retain"; "Publish.QoS"].

Definition all_types : list string :=
  ["Connect"; "ConnAck"; "Publish"; "PubAck"; "PubRec"; "PubRel"; "PubComp"; "Subscribe"; "SubAck";
   "Unsubscribe"; "UnsubAck"; "Disconnect"; "Auth"; "Undefined"].

Definition of_all (m : string) : list string := map (fun t => t ++ "." ++ m) all_types.

Definition touched (c : call) : list string :=
  match c with
  | SetWill _ => flag_names ++ ["Connect.Will"]
  | SetWillDelayInterval _ => of_all "WillDelayInterval"
  | SetCleanStart _ | SetSessionPresent _ | SetDuplicate _ | SetRetain _ | SetQoS _ => flag_names
  | SetProtocolVersion _ => of_all "ProtocolVersion"
  | SetProtocolName _ => of_all "ProtocolName"
  | SetClientID _ => of_all "ClientID"
  | SetKeepAlive _ => of_all "KeepAlive"
  | SetSessionExpiryInterval _ => of_all "SessionExpiryInterval"
  | SetReceiveMax _ => of_all "ReceiveMax"
  | SetMaxPacketSize _ => of_all "MaxPacketSize"
  | SetTopicAliasMax _ => of_all "TopicAliasMax"
  | SetRequestResponseInfo _ => of_all "RequestResponseInfo"
  | SetRequestProblemInfo _ => of_all "RequestProblemInfo"
  | SetAuthMethod _ => of_all "AuthMethod"
  | SetAuthData _ => of_all "AuthData"
  | SetUsername _ => flag_names ++ of_all "Username"
  | SetPassword _ => flag_names ++ of_all "Password"
  | SetMaxQoS _ => of_all "MaxQoS"
  | SetRetainAvailable _ => of_all "RetainAvailable"
  | SetAssignedClientID _ => of_all "AssignedClientID"
  | SetReasonCode _ => of_all "ReasonCode"
  | SetReasonString _ => of_all "ReasonString"
  | SetWildcardSubAvailable _ => of_all "WildcardSubAvailable"
  | SetSubIdentifiersAvailable _ => of_all "SubIdentifiersAvailable"
  | SetSharedSubAvailable _ => of_all "SharedSubAvailable"
  | SetServerKeepAlive _ => of_all "ServerKeepAlive"
  | SetResponseInformation _ => of_all "ResponseInformation"
  | SetServerReference _ => of_all "ServerReference"
  | SetTopicName _ => of_all "TopicName"
  | SetPacketID _ => of_all "PacketID"
  | SetPayloadFormat _ => of_all "PayloadFormat"
  | SetMessageExpiryInterval _ => of_all "MessageExpiryInterval"
  | SetTopicAlias _ => of_all "TopicAlias"
  | SetResponseTopic _ => of_all "ResponseTopic"
  | SetCorrelationData _ => of_all "CorrelationData"
  | AddSubscriptionID _ => of_all "SubscriptionIDs"
  | SetContentType _ => of_all "ContentType"
  | SetPayload _ => of_all "Payload"
  | SetSubscriptionID _ => of_all "SubscriptionID"
  | AddFilter _ _ | AddUnsubFilter _ => of_all "Filters"
  | AddReasonCode _ => of_all "ReasonCodes"
  | AddUserProp _ _ => ["UserProperties"]
  end.

Ltac frame_cases Hin Hn :=
  repeat (destruct Hin as [<-|Hin];
          [first [reflexivity | exfalso; apply Hn; vm_compute; tauto]|]);
  try contradiction.

(* fields not named by a call are unchanged, whatever the packet was *)
Theorem setter_frame : forall k c p name, applicable k c = true ->
  In name (snapshot_names k) -> ~ In name (touched c) ->
  eval_named name (step c p) = eval_named name p.
Proof.
  intros k c p name Ha Hin Hn.
  destruct c; destruct k; try discriminate Ha; cbn [snapshot_names ack_names suback_names In] in Hin;
    frame_cases Hin Hn.
Qed.

(* ------------------------------------------------------------------ *)
(* the accessor of the field just set returns the value set *)
Definition tname (k : kind) : string :=
  match k with
  | KUndefined => "Undefined" | KConnect => "Connect" | KConnAck => "ConnAck" | KPublish => "Publish"
  | KPubAck => "PubAck" | KPubRec => "PubRec" | KPubRel => "PubRel" | KPubComp => "PubComp"
  | KSubscribe => "Subscribe" | KSubAck => "SubAck" | KUnsubscribe => "Unsubscribe"
  | KUnsubAck => "UnsubAck" | KPingReq => "PingReq" | KPingResp => "PingResp"
  | KDisconnect => "Disconnect" | KAuth => "Auth"
  end.

(* the accessor that reads back a plain setter's argument, and the argument as an observation
   (SetWill, SetQoS, SetSubscriptionID and the adders are covered by C12_refines and by the
   frame theorem above; the flag setters follow below) *)
Definition reads_back (c : call) : option (string * obs) :=
  match c with
  | SetWillDelayInterval n => Some ("WillDelayInterval", ON n)
  | SetProtocolVersion n => Some ("ProtocolVersion", ON n)
  | SetProtocolName s => Some ("ProtocolName", OS s)
  | SetClientID s => Some ("ClientID", OS s)
  | SetKeepAlive n => Some ("KeepAlive", ON n)
  | SetSessionExpiryInterval n => Some ("SessionExpiryInterval", ON n)
  | SetReceiveMax n => Some ("ReceiveMax", ON n)
  | SetMaxPacketSize n => Some ("MaxPacketSize", ON n)
  | SetTopicAliasMax n => Some ("TopicAliasMax", ON n)
  | SetRequestResponseInfo b => Some ("RequestResponseInfo", OB b)
  | SetRequestProblemInfo b => Some ("RequestProblemInfo", OB b)
  | SetAuthMethod s => Some ("AuthMethod", OS s)
  | SetAuthData s => Some ("AuthData", OS s)
  | SetUsername s => Some ("Username", OS s)
  | SetPassword s => Some ("Password", OS s)
  | SetMaxQoS n => Some ("MaxQoS", ON n)
  | SetRetainAvailable b => Some ("RetainAvailable", OB b)
  | SetAssignedClientID s => Some ("AssignedClientID", OS s)
  | SetReasonCode n => Some ("ReasonCode", ON n)
  | SetReasonString s => Some ("ReasonString", OS s)
  | SetWildcardSubAvailable b => Some ("WildcardSubAvailable", OB b)
  | SetSubIdentifiersAvailable b => Some ("SubIdentifiersAvailable", OB b)
  | SetSharedSubAvailable b => Some ("SharedSubAvailable", OB b)
  | SetServerKeepAlive n => Some ("ServerKeepAlive", ON n)
  | SetResponseInformation s => Some ("ResponseInformation", OS s)
  | SetServerReference s => Some ("ServerReference", OS s)
  | SetTopicName s => Some ("TopicName", OS s)
  | SetPacketID n => Some ("PacketID", ON n)
  | SetPayloadFormat b => Some ("PayloadFormat", OB b)
  | SetMessageExpiryInterval n => Some ("MessageExpiryInterval", ON n)
  | SetTopicAlias n => Some ("TopicAlias", ON n)
  | SetResponseTopic s => Some ("ResponseTopic", OS s)
  | SetCorrelationData s => Some ("CorrelationData", OS s)
  | SetContentType s => Some ("ContentType", OS s)
  | SetPayload s => Some ("Payload", OS s)
  | _ => None
  end.

Theorem setter_reads_back : forall k c p acc v, applicable k c = true ->
  reads_back c = Some (acc, v) ->
  eval_named (tname k ++ "." ++ acc) (step c p) = v.
Proof.
  intros k c p acc v Ha Hr.
  destruct c; cbn [reads_back] in Hr; try discriminate Hr; injection Hr as <- <-;
    destruct k; try discriminate Ha; reflexivity.
Qed.

(* flags: whatever the flag byte held before *)
Lemma has_toggle_on v m : has (toggle v m true) m = true.
Proof.
  unfold has, toggle. apply N.eqb_eq. apply N.bits_inj. intros n.
  rewrite N.land_spec, N.lor_spec. destruct (N.testbit v n), (N.testbit m n); reflexivity.
Qed.

Lemma has_toggle_off_c v m c : N.lxor 255 (N.land m 255) = c -> N.land c m = 0%N -> m <> 0%N ->
  has (toggle v m false) m = false.
Proof.
  intros Hc H0 Hm. unfold has, toggle. rewrite Hc, <- N.land_assoc, H0, N.land_0_r.
  apply N.eqb_neq. congruence.
Qed.

Lemma has_toggle v m b c : N.lxor 255 (N.land m 255) = c -> N.land c m = 0%N -> m <> 0%N ->
  has (toggle v m b) m = b.
Proof. intros. destruct b; [apply has_toggle_on|eapply has_toggle_off_c; eassumption]. Qed.

Definition nonempty (s : list byte) : bool := match s with [] => false | _ => true end.

(* CONNECT's user-name and password flags are set exactly when the value just set is
   non-empty; clean start, session present, DUP and RETAIN equal the value just set -
   on any packet, e.g. one decoded from a frame that carried a flag with an empty value *)
Theorem flags_follow_any_state : forall p,
  (forall s, eval_named "Connect.HasFlag" (step (SetUsername s) p) =
             ON (toggle (getN (M F_flags) p) UsernameFlag (nonempty s))
             /\ has (toggle (getN (M F_flags) p) UsernameFlag (nonempty s)) UsernameFlag = nonempty s) /\
  (forall s, eval_named "Connect.HasFlag" (step (SetPassword s) p) =
             ON (toggle (getN (M F_flags) p) PasswordFlag (nonempty s))
             /\ has (toggle (getN (M F_flags) p) PasswordFlag (nonempty s)) PasswordFlag = nonempty s) /\
  (forall b, eval_named "Connect.CleanStart" (step (SetCleanStart b) p) = OB b) /\
  (forall b, eval_named "ConnAck.SessionPresent" (step (SetSessionPresent b) p) = OB b) /\
  (forall b, eval_named "Publish.Duplicate" (step (SetDuplicate b) p) = OB b) /\
  (forall b, eval_named "Publish.Retain" (step (SetRetain b) p) = OB b).
Proof.
  intros p.
  split; [intros s; split; [destruct s; reflexivity|
    apply (has_toggle _ UsernameFlag _ 127%N); [reflexivity|reflexivity|discriminate]]|].
  split; [intros s; split; [destruct s; reflexivity|
    apply (has_toggle _ PasswordFlag _ 191%N); [reflexivity|reflexivity|discriminate]]|].
  split; [intros b; change (OB (has (toggle (getN (M F_flags) p) CleanStart b) CleanStart) = OB b);
    f_equal; apply (has_toggle _ CleanStart _ 253%N); [reflexivity|reflexivity|discriminate]|].
  split; [intros b; change (OB (has (toggle (getN (M F_flags) p) 1 b) 1) = OB b);
    f_equal; apply (has_toggle _ 1%N _ 254%N); [reflexivity|reflexivity|discriminate]|].
  split; [intros b; change (OB (has (toggle (getN (M F_fixed) p) DUP b) DUP) = OB b);
    f_equal; apply (has_toggle _ DUP _ 247%N); [reflexivity|reflexivity|discriminate]|].
  intros b; change (OB (has (toggle (getN (M F_fixed) p) RETAIN b) RETAIN) = OB b);
    f_equal; apply (has_toggle _ RETAIN _ 254%N); [reflexivity|reflexivity|discriminate].
Qed.
