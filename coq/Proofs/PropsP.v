(* Round trip of a property section: what the encoders write with
   fillProp, in table order, followed by the user properties, is read
   back by getAny into the fields the property map names. *)
From MQ Require Import Model.Codec Proofs.BytesP Proofs.VbP Proofs.WireP Proofs.DecP.
From Coq Require Import ZArith Lia ZifyN ZifyNat ZifyBool.
Ltac Zify.zify_post_hook ::= Z.div_mod_to_equations.

(* the value a decoder stores for an encoded value *)
Definition canon (w : wt) (v : value) : value :=
  match w with
  | U8 | U16 | U32 | Vb => VN (valN v)
  | WBool => VB (valB v)
  | Bin | Raw => VS (valS v)
  end.

(* values a field of the wire type can hold within MQTT's limits *)
Definition valid_val (w : wt) (v : value) : Prop :=
  match w with
  | U8 => valN v < 256
  | U16 => valN v < 65536
  | U32 => valN v < 4294967296
  | Vb => valN v < 268435456
  | WBool => True
  | Bin => len (valS v) < 65536
  | Raw => True
  end.

Lemma encode_canon w v : encode w (canon w v) = encode w v.
Proof. destruct w; reflexivity. Qed.

Lemma is_zero_canon w v : is_zero w (canon w v) = is_zero w v.
Proof. destruct w; reflexivity. Qed.

(* a non-raw wire value followed by anything decodes to its canonical form;
   an empty string leaves the destination *)
Lemma decode_encode w v old rest : w <> Raw -> valid_val w v ->
  decode w old (encode w v ++ rest) =
  Ok (match w with
      | Bin => match valS v with [] => VS (valS old) | _ => VS (valS v) end
      | _ => canon w v end).
Proof.
  intros Hw Hv. destruct w; try congruence; cbn [decode encode canon valid_val] in *.
  - rewrite dec_enc_u8 by exact Hv. reflexivity.
  - rewrite dec_enc_u16 by exact Hv. reflexivity.
  - rewrite dec_enc_u32 by exact Hv. reflexivity.
  - rewrite dec_enc_bool. reflexivity.
  - rewrite dec_enc_bin by exact Hv. destruct (valS v); reflexivity.
  - rewrite dec_enc_vb by exact Hv. reflexivity.
Qed.

Lemma decode_encode_nz w v old rest : w <> Raw -> valid_val w v -> is_zero w v = false ->
  decode w old (encode w v ++ rest) = Ok (canon w v).
Proof.
  intros Hw Hv Hz. rewrite decode_encode by assumption.
  destruct w; try reflexivity. cbn [is_zero canon] in *. destruct (valS v); [discriminate|reflexivity].
Qed.

(* ------------------------------------------------------------------ *)
(* one buffer.get on data that continues with an encoded value *)
Lemma skipn_app_exact {A} (a b : list A) : skipn (length a) (a ++ b) = b.
Proof. rewrite skipn_app, skipn_all, Nat.sub_diag. reflexivity. Qed.

Lemma get_val_encoded w v old s pre rest :
  w <> Raw -> valid_val w v -> (w = Bin -> valS v <> []) ->
  derr s = None -> ddata s = pre ++ encode w v ++ rest -> dpos s = length pre ->
  (0 < length (encode w v))%nat ->
  get_val w old s =
  GOk (canon w v)
      {| dp := dp s; ddata := ddata s; dpos := dpos s + length (encode w v); derr := None;
         dsteps := S (dsteps s) |}.
Proof.
  intros Hw Hv Hne He Hd Hp Hlen. unfold get_val, get_with.
  cbn [derr tick ddata dpos]. rewrite He.
  assert (Hl : length (ddata s) = (length pre + length (encode w v) + length rest)%nat)
    by (rewrite Hd, !app_length; lia).
  rewrite (proj2 (Nat.leb_gt _ _)) by lia.
  rewrite Hd at 1. rewrite Hp, skipn_app_exact.
  rewrite decode_encode by assumption.
  assert (Ec : match w with
               | Bin => match valS v with [] => VS (valS old) | _ => VS (valS v) end
               | _ => canon w v end = canon w v).
  { destruct w; try reflexivity. specialize (Hne eq_refl). cbn [canon]. destruct (valS v); [congruence|reflexivity]. }
  rewrite Ec. unfold width. rewrite encode_canon.
  unfold advance, tick. cbn [ddata dpos dp derr dsteps].
  rewrite (proj2 (Nat.ltb_ge _ _)) by lia. rewrite ?He, ?Hp. reflexivity.
Qed.

(* the same for a user property *)
Lemma get_userprop_encoded k v s pre rest :
  len k < 65536 -> len v < 65536 ->
  derr s = None -> ddata s = pre ++ (enc_bin k ++ enc_bin v) ++ rest -> dpos s = length pre ->
  get_with dec_userprop width_userprop s =
  GOk (k, v)
      {| dp := dp s; ddata := ddata s; dpos := dpos s + length (enc_bin k ++ enc_bin v); derr := None;
         dsteps := S (dsteps s) |}.
Proof.
  intros Hk Hv He Hd Hp. unfold get_with. cbn [derr tick ddata dpos]. rewrite He.
  assert (Hl : length (ddata s) = (length pre + length (enc_bin k ++ enc_bin v) + length rest)%nat)
    by (rewrite Hd, !app_length; lia).
  assert (Hpos : (0 < length (enc_bin k ++ enc_bin v))%nat) by (rewrite app_length, !enc_bin_length; lia).
  rewrite (proj2 (Nat.leb_gt _ _)) by lia.
  rewrite Hd at 1. rewrite Hp, skipn_app_exact. rewrite <- app_assoc.
  rewrite dec_enc_userprop by assumption.
  unfold width_userprop. cbn [fst snd].
  unfold advance, tick. cbn [ddata dpos dp derr dsteps].
  assert (Hw : (2 + length k + (2 + length v))%nat = length (enc_bin k ++ enc_bin v))
    by (rewrite app_length, !enc_bin_length; reflexivity).
  rewrite Hw. rewrite (proj2 (Nat.ltb_ge _ _)) by lia. rewrite ?He, ?Hp. reflexivity.
Qed.

(* ------------------------------------------------------------------ *)
Definition entry := (N * fref * wt)%type.
Definition eid (e : entry) : N := fst (fst e).
Definition eref (e : entry) : fref := snd (fst e).
Definition ewt (e : entry) : wt := snd e.

Definition present (p : pkt) (e : entry) : bool := negb (is_zero (ewt e) (getf (eref e) p)).
Definition npres (p : pkt) (t : list entry) : nat := length (filter (present p) t).

Definition enc_fields (t : list entry) : list enc :=
  map (fun e => EFillProp (eref e) (ewt e) (eid e)) t.
Definition field_bytes (p : pkt) (t : list entry) : list byte :=
  concat (map (fun e => enc_prop (ewt e) (eid e) (getf (eref e) p)) t).

(* the packet after the properties of t present in p have been stored into acc *)
Fixpoint restore (t : list entry) (p acc : pkt) : pkt :=
  match t with
  | [] => acc
  | e :: t' =>
    restore t' p (if present p e then setf (eref e) (canon (ewt e) (getf (eref e) p)) acc else acc)
  end.

Definition ref_live (p : pkt) (r : fref) : Prop := match r with M _ => True | W _ => hasWill p = true end.

Record entry_ok (p : pkt) (e : entry) : Prop := {
  eo_id : eid e < 256;
  eo_not_up : eid e <> UserProperty;
  eo_not_sub : eid e <> SubscriptionID;
  eo_wt : ewt e <> Raw;
  eo_val : valid_val (ewt e) (getf (eref e) p);
  eo_live : ref_live p (eref e)
}.

Lemma getf_opt_live p r : ref_live p r -> getf_opt r p = Some (getf r p).
Proof. destruct r; cbn; [reflexivity|intros ->; reflexivity]. Qed.

Lemma run_enc_fields p t : Forall (entry_ok p) t -> run_enc (enc_fields t) p = Some (field_bytes p t).
Proof.
  induction t as [|e t IH]; intros H; [reflexivity|]. inversion H as [|? ? He Ht]; subst.
  cbn [enc_fields map run_enc run_enc1]. fold (enc_fields t). rewrite (IH Ht).
  rewrite (getf_opt_live p _ (eo_live _ _ He)). reflexivity.
Qed.

Lemma lookup_in m : NoDup (map eid m) -> forall e, In e m -> lookup_prop m (eid e) = Some (eref e, ewt e).
Proof.
  induction m as [|[[i r] w] m IH]; intros Hnd e Hin; [contradiction|].
  inversion Hnd as [|? ? Hni Hnd']; subst. cbn [lookup_prop].
  destruct Hin as [<-|Hin].
  - cbn [eid fst]. rewrite N.eqb_refl. reflexivity.
  - destruct (N.eqb_spec i (eid e)) as [E|E].
    + exfalso. apply Hni. cbn [eid fst] in *. rewrite E. apply in_map. exact Hin.
    + apply IH; assumption.
Qed.

Lemma lookup_absent m id : ~ In id (map eid m) -> lookup_prop m id = None.
Proof.
  induction m as [|[[i r] w] m IH]; intros H; [reflexivity|]. cbn [lookup_prop].
  destruct (N.eqb_spec i id) as [E|E]; [exfalso; apply H; left; exact E|].
  apply IH. intros Hin. apply H. right. exact Hin.
Qed.

Lemma hasWill_restore t p acc : hasWill (restore t p acc) = hasWill acc.
Proof.
  revert acc. induction t as [|e t IH]; intros acc; [reflexivity|]. cbn [restore]. rewrite IH.
  destruct (present p e); [apply hasWill_setf|reflexivity].
Qed.

Definition mk_state (p : pkt) (d : list byte) (pos steps : nat) : dstate :=
  {| dp := p; ddata := d; dpos := pos; derr := None; dsteps := steps |}.

Lemma encode_nonempty w v : w <> Raw -> (w = Bin -> valS v <> []) -> (0 < length (encode w v))%nat.
Proof.
  intros Hw Hb. destruct w; cbn [encode]; try congruence.
  - cbn; lia.
  - cbn; lia.
  - cbn; lia.
  - cbn; lia.
  - rewrite enc_bin_length. lia.
  - unfold enc_vb. cbn [vb_enc_loop]. destruct (0 <? valN v / 128); cbn [length]; lia.
Qed.

(* one iteration of the property loop on a property the map knows *)
Lemma loop_step_field fuel m will sm endp id0 acc d pre rest steps id r w v :
  lookup_prop m id = Some (r, w) -> id < 256 -> id <> UserProperty -> id <> SubscriptionID ->
  w <> Raw -> valid_val w v -> is_zero w v = false -> ref_live acc r ->
  d = pre ++ (n2b id :: encode w v) ++ rest -> N.of_nat (length pre) < endp ->
  getany_loop (S fuel) m will sm endp id0 (mk_state acc d (length pre) steps) =
  getany_loop fuel m will sm endp id
              (mk_state (setf r (canon w v) acc) d (length pre + S (length (encode w v))) (S (S steps))).
Proof.
  intros Hl Hid Hup Hsub Hw Hv Hz Hlive Hd Hend.
  assert (Hbin : w = Bin -> valS v <> []).
  { intros ->. cbn [is_zero] in Hz. destruct (valS v); [discriminate|discriminate]. }
  cbn [getany_loop]. unfold mk_state at 1. cbn [dpos].
  rewrite (proj2 (N.ltb_lt _ _) Hend).
  pose proof (get_val_encoded U8 (VN id) (VN id0) (mk_state acc d (length pre) steps) pre
                              (encode w v ++ rest)) as G1.
  cbn [encode enc_u8 valN canon] in G1. unfold mk_state in G1 at 1 2 3 4 5.
  cbn [derr ddata dpos dp dsteps] in G1.
  unfold mk_state at 1.
  rewrite G1; [|discriminate|exact Hid|discriminate|reflexivity|rewrite Hd; reflexivity|reflexivity|cbn; lia].
  clear G1. cbn [valN].
  assert (Hlk : match sm with
                | SubOpt => if id =? SubscriptionID then None else lookup_prop m id
                | _ => lookup_prop m id end = Some (r, w)).
  { destruct sm; try exact Hl. rewrite (proj2 (N.eqb_neq _ _) Hsub). exact Hl. }
  rewrite Hlk.
  unfold get. cbn [dp]. rewrite (getf_opt_live acc r Hlive).
  unfold mk_state at 1 2 3. cbn [ddata dpos dsteps]. unfold enc_u8.
  pose proof (get_val_encoded w v (getf r acc)
     {| dp := acc; ddata := d; dpos := length pre + length [n2b id]; derr := None; dsteps := S steps |}
     (pre ++ [n2b id]) rest Hw Hv Hbin) as G2.
  cbn [derr ddata dpos dp dsteps] in G2.
  rewrite G2; clear G2.
  - unfold with_pkt, mk_state. cbn [dp ddata dpos derr dsteps length].
    replace (length pre + 1 + length (encode w v))%nat with (length pre + S (length (encode w v)))%nat by lia.
    reflexivity.
  - reflexivity.
  - rewrite Hd. rewrite <- app_assoc. reflexivity.
  - rewrite app_length. reflexivity.
  - apply encode_nonempty; assumption.
Qed.

(* the property loop over the fields part *)
Lemma fields_loop m will sm endp p : NoDup (map eid m) ->
  forall t, (forall e, In e t -> In e m) -> Forall (entry_ok p) t ->
  forall fuel id0 acc d pre rest steps,
  (forall e, In e t -> ref_live acc (eref e)) ->
  d = pre ++ field_bytes p t ++ rest ->
  N.of_nat (length pre + length (field_bytes p t)) <= endp ->
  exists id1 steps',
    getany_loop (npres p t + fuel) m will sm endp id0 (mk_state acc d (length pre) steps) =
    getany_loop fuel m will sm endp id1
                (mk_state (restore t p acc) d (length pre + length (field_bytes p t)) steps').
Proof.
  intros Hnd. induction t as [|e t IH]; intros Hsub Hok fuel id0 acc d pre rest steps Hlive Hd Hend.
  - cbn [npres filter length field_bytes map concat restore]. rewrite Nat.add_0_r. do 2 eexists. reflexivity.
  - assert (He : entry_ok p e) by (inversion Hok; assumption).
    assert (Ht : Forall (entry_ok p) t) by (inversion Hok; assumption).
    unfold npres. cbn [filter]. cbn [restore].
    unfold field_bytes in *. cbn [map concat] in *. fold (field_bytes p t) in *.
    unfold enc_prop in *.
    destruct (present p e) eqn:Hpres; unfold present in Hpres;
      destruct (is_zero (ewt e) (getf (eref e) p)) eqn:Hz; try discriminate Hpres.
    + (* present: identifier byte, value *)
      cbn [length]. fold (npres p t).
      change (S (npres p t) + fuel)%nat with (S (npres p t + fuel)).
      rewrite (loop_step_field (npres p t + fuel) m will sm endp id0 acc d pre
                 (field_bytes p t ++ rest) steps (eid e) (eref e) (ewt e) (getf (eref e) p)).
      * destruct (IH (fun x Hx => Hsub x (or_intror Hx)) Ht fuel (eid e)
                     (setf (eref e) (canon (ewt e) (getf (eref e) p)) acc) d
                     (pre ++ n2b (eid e) :: encode (ewt e) (getf (eref e) p)) rest
                     (S (S steps))) as [id1 [steps' E]].
        -- intros x Hx. specialize (Hlive x (or_intror Hx)). destruct (eref x); cbn in *; auto.
           rewrite hasWill_setf. exact Hlive.
        -- rewrite Hd. rewrite <- !app_assoc. reflexivity.
        -- rewrite app_length. cbn [length] in *. rewrite !app_length in Hend. cbn [length] in Hend. lia.
        -- exists id1, steps'. rewrite app_length in E. cbn [length] in E. rewrite E.
           unfold mk_state. do 2 f_equal. rewrite !app_length. cbn [length]. lia.
      * apply (lookup_in m Hnd e). apply Hsub. left. reflexivity.
      * exact (eo_id _ _ He).
      * exact (eo_not_up _ _ He).
      * exact (eo_not_sub _ _ He).
      * exact (eo_wt _ _ He).
      * exact (eo_val _ _ He).
      * exact Hz.
      * apply Hlive. left. reflexivity.
      * rewrite Hd. rewrite <- !app_assoc. reflexivity.
      * rewrite app_length in Hend. cbn [length] in Hend. lia.
    + (* absent: nothing on the wire *)
      cbn [app] in *. fold (npres p t).
      apply (IH (fun x Hx => Hsub x (or_intror Hx)) Ht fuel id0 acc d pre rest steps); auto.
      intros x Hx. apply Hlive. right. exact Hx.
Qed.

(* ------------------------------------------------------------------ *)
(* user properties *)
Definition ups_bytes (ups : list (list byte * list byte)) : list byte :=
  concat (map (enc_userprop UserProperty) ups).

Definition up_ok (kv : list byte * list byte) : Prop :=
  fst kv <> [] /\ len (fst kv) < 65536 /\ len (snd kv) < 65536.

Definition append_ups (will : bool) (ups : list (list byte * list byte)) (acc : pkt) : pkt :=
  if will then set_wuprops acc (wuprops acc ++ ups) else set_uprops acc (uprops acc ++ ups).

Lemma loop_step_userprop fuel m will sm endp id0 acc d pre rest steps k v :
  sm <> SubOpt \/ True -> lookup_prop m UserProperty = None ->
  k <> [] -> len k < 65536 -> len v < 65536 -> (will = true -> hasWill acc = true) ->
  d = pre ++ (n2b UserProperty :: enc_bin k ++ enc_bin v) ++ rest -> N.of_nat (length pre) < endp ->
  getany_loop (S fuel) m will sm endp id0 (mk_state acc d (length pre) steps) =
  getany_loop fuel m will sm endp UserProperty
              (mk_state (append_ups will [(k, v)] acc) d
                        (length pre + S (length (enc_bin k ++ enc_bin v))) (S (S steps))).
Proof.
  intros _ Hl Hk Hlk Hlv Hw Hd Hend.
  cbn [getany_loop]. unfold mk_state at 1. cbn [dpos].
  rewrite (proj2 (N.ltb_lt _ _) Hend).
  pose proof (get_val_encoded U8 (VN UserProperty) (VN id0) (mk_state acc d (length pre) steps) pre
                              ((enc_bin k ++ enc_bin v) ++ rest)) as G1.
  cbn [encode enc_u8 valN canon] in G1. unfold mk_state in G1 at 1 2 3 4 5.
  cbn [derr ddata dpos dp dsteps] in G1.
  unfold mk_state at 1.
  rewrite G1; [|discriminate|reflexivity|discriminate|reflexivity|rewrite Hd; reflexivity|reflexivity|cbn; lia].
  clear G1. cbn [valN]. rewrite Hl.
  assert (E1 : (UserProperty =? SubscriptionID) = false) by reflexivity.
  assert (E2 : (UserProperty =? UserProperty) = true) by reflexivity.
  replace (match sm with SubOpt => UserProperty =? SubscriptionID | _ => false end) with false
    by (destruct sm; reflexivity).
  replace (match sm with
           | SubOpt => if UserProperty =? SubscriptionID then None else None
           | _ => None end) with (@None (fref * wt)) by (destruct sm; reflexivity).
  rewrite E2.
  unfold mk_state at 1 2 3. cbn [ddata dpos dsteps]. unfold enc_u8.
  pose proof (get_userprop_encoded k v
     {| dp := acc; ddata := d; dpos := length pre + length [n2b UserProperty]; derr := None; dsteps := S steps |}
     (pre ++ [n2b UserProperty]) rest Hlk Hlv) as G2.
  cbn [derr ddata dpos dp dsteps] in G2.
  rewrite G2; clear G2.
  - cbn [dp]. unfold add_uprop, append_ups. destruct will.
    + rewrite (Hw eq_refl). unfold with_pkt, mk_state. cbn [dp ddata dpos derr dsteps length].
      replace (length pre + 1 + length (enc_bin k ++ enc_bin v))%nat
        with (length pre + S (length (enc_bin k ++ enc_bin v)))%nat by lia. reflexivity.
    + unfold with_pkt, mk_state. cbn [dp ddata dpos derr dsteps length].
      replace (length pre + 1 + length (enc_bin k ++ enc_bin v))%nat
        with (length pre + S (length (enc_bin k ++ enc_bin v)))%nat by lia. reflexivity.
  - reflexivity.
  - rewrite Hd. rewrite <- !app_assoc. cbn [app]. rewrite <- app_assoc. reflexivity.
  - rewrite app_length. reflexivity.
Qed.

Lemma enc_userprop_bytes kv : fst kv <> [] ->
  enc_userprop UserProperty kv = n2b UserProperty :: enc_bin (fst kv) ++ enc_bin (snd kv).
Proof. unfold enc_userprop. destruct (fst kv); [congruence|reflexivity]. Qed.

Lemma append_ups_app will a b acc : append_ups will (a ++ b) acc = append_ups will b (append_ups will a acc).
Proof. unfold append_ups. destruct will; cbn; rewrite app_assoc; reflexivity. Qed.

Lemma hasWill_append_ups will ups acc : hasWill (append_ups will ups acc) = hasWill acc.
Proof. unfold append_ups. destruct will; reflexivity. Qed.

Lemma ups_loop m will sm endp : lookup_prop m UserProperty = None ->
  forall ups, Forall up_ok ups ->
  forall fuel id0 acc d pre rest steps,
  (will = true -> hasWill acc = true) ->
  d = pre ++ ups_bytes ups ++ rest ->
  N.of_nat (length pre + length (ups_bytes ups)) <= endp ->
  exists id1 steps',
    getany_loop (length ups + fuel) m will sm endp id0 (mk_state acc d (length pre) steps) =
    getany_loop fuel m will sm endp id1
                (mk_state (append_ups will ups acc) d (length pre + length (ups_bytes ups)) steps').
Proof.
  intros Hl. induction ups as [|[k v] ups IH]; intros Hok fuel id0 acc d pre rest steps Hw Hd Hend.
  - cbn [length ups_bytes map concat]. rewrite Nat.add_0_r. exists id0, steps.
    unfold append_ups. destruct will; cbn; rewrite app_nil_r; destruct acc; reflexivity.
  - assert (Hkv : up_ok (k, v)) by (inversion Hok; assumption).
    assert (Hoks : Forall up_ok ups) by (inversion Hok; assumption).
    destruct Hkv as [Hk [Hlk Hlv]]. cbn [fst snd] in *.
    unfold ups_bytes in *. cbn [map concat] in *. fold (ups_bytes ups) in *.
    rewrite (enc_userprop_bytes (k, v)) in * by exact Hk. cbn [fst snd] in *.
    cbn [length]. change (S (length ups) + fuel)%nat with (S (length ups + fuel)).
    rewrite (loop_step_userprop (length ups + fuel) m will sm endp id0 acc d pre
               (ups_bytes ups ++ rest) steps k v); auto.
    + destruct (IH Hoks fuel UserProperty (append_ups will [(k, v)] acc) d
                   (pre ++ n2b UserProperty :: enc_bin k ++ enc_bin v) rest (S (S steps)))
        as [id1 [steps' E]].
      * rewrite hasWill_append_ups. exact Hw.
      * rewrite Hd. rewrite <- !app_assoc. reflexivity.
      * rewrite app_length. cbn [length] in *. rewrite !app_length in Hend. cbn [length] in Hend.
        rewrite app_length in Hend. rewrite app_length. lia.
      * exists id1, steps'. rewrite app_length in E. cbn [length] in E. rewrite E.
        change ((k, v) :: ups) with ([(k, v)] ++ ups). rewrite append_ups_app.
        unfold mk_state. do 2 f_equal. rewrite !app_length. cbn [length]. rewrite app_length. lia.
    + rewrite Hd. rewrite <- !app_assoc. reflexivity.
    + rewrite app_length in Hend. cbn [length] in Hend. lia.
Qed.

(* subscription identifiers of a PUBLISH *)
Definition sids_bytes (l : list N) : list byte :=
  concat (map (fun n => enc_prop Vb SubscriptionID (VN n)) l).
Definition sid_ok (n : N) : Prop := 0 < n < 268435456.

Lemma loop_step_subid fuel m will endp id0 acc d pre rest steps n :
  lookup_prop m SubscriptionID = None -> sid_ok n ->
  d = pre ++ (n2b SubscriptionID :: enc_vb n) ++ rest -> N.of_nat (length pre) < endp ->
  getany_loop (S fuel) m will AddSub endp id0 (mk_state acc d (length pre) steps) =
  getany_loop fuel m will AddSub endp SubscriptionID
              (mk_state (set_subids acc (subids acc ++ [n])) d
                        (length pre + S (length (enc_vb n))) (S (S steps))).
Proof.
  intros Hl [Hn0 Hn] Hd Hend.
  cbn [getany_loop]. unfold mk_state at 1. cbn [dpos].
  rewrite (proj2 (N.ltb_lt _ _) Hend).
  pose proof (get_val_encoded U8 (VN SubscriptionID) (VN id0) (mk_state acc d (length pre) steps) pre
                              (enc_vb n ++ rest)) as G1.
  cbn [encode enc_u8 valN canon] in G1. unfold mk_state in G1 at 1 2 3 4 5.
  cbn [derr ddata dpos dp dsteps] in G1.
  unfold mk_state at 1.
  rewrite G1; [|discriminate|reflexivity|discriminate|reflexivity|rewrite Hd; reflexivity|reflexivity|cbn; lia].
  clear G1. cbn [valN]. rewrite Hl.
  replace (SubscriptionID =? UserProperty) with false by reflexivity.
  replace (SubscriptionID =? SubscriptionID) with true by reflexivity.
  unfold mk_state at 1 2 3. cbn [ddata dpos dsteps]. unfold enc_u8.
  pose proof (get_val_encoded Vb (VN n) (VN 0)
     {| dp := acc; ddata := d; dpos := length pre + length [n2b SubscriptionID]; derr := None; dsteps := S steps |}
     (pre ++ [n2b SubscriptionID]) rest) as G2.
  cbn [derr ddata dpos dp dsteps encode valN canon] in G2.
  rewrite G2; clear G2.
  - cbn [valN dp]. rewrite N.mod_small by lia.
    unfold with_pkt, mk_state. cbn [dp ddata dpos derr dsteps length].
    replace (length pre + 1 + length (enc_vb n))%nat with (length pre + S (length (enc_vb n)))%nat by lia.
    reflexivity.
  - discriminate.
  - exact Hn.
  - discriminate.
  - reflexivity.
  - rewrite Hd. rewrite <- !app_assoc. reflexivity.
  - rewrite app_length. reflexivity.
  - apply (encode_nonempty Vb (VN n)); discriminate.
Qed.

Lemma sids_loop m will endp : lookup_prop m SubscriptionID = None ->
  forall l, Forall sid_ok l ->
  forall fuel id0 acc d pre rest steps,
  d = pre ++ sids_bytes l ++ rest ->
  N.of_nat (length pre + length (sids_bytes l)) <= endp ->
  exists id1 steps',
    getany_loop (length l + fuel) m will AddSub endp id0 (mk_state acc d (length pre) steps) =
    getany_loop fuel m will AddSub endp id1
                (mk_state (set_subids acc (subids acc ++ l)) d (length pre + length (sids_bytes l)) steps').
Proof.
  intros Hl. induction l as [|n l IH]; intros Hok fuel id0 acc d pre rest steps Hd Hend.
  - cbn [length sids_bytes map concat]. rewrite Nat.add_0_r. exists id0, steps.
    rewrite app_nil_r. destruct acc; reflexivity.
  - assert (Hn : sid_ok n) by (inversion Hok; assumption).
    assert (Hoks : Forall sid_ok l) by (inversion Hok; assumption).
    unfold sids_bytes in *. cbn [map concat] in *. fold (sids_bytes l) in *.
    assert (En : enc_prop Vb SubscriptionID (VN n) = n2b SubscriptionID :: enc_vb n).
    { unfold enc_prop. cbn [is_zero valN encode]. destruct Hn as [Hn0 _].
      rewrite (proj2 (N.eqb_neq _ _)) by lia. reflexivity. }
    rewrite En in *.
    cbn [length]. change (S (length l) + fuel)%nat with (S (length l + fuel)).
    rewrite (loop_step_subid (length l + fuel) m will endp id0 acc d pre (sids_bytes l ++ rest) steps n); auto.
    + destruct (IH Hoks fuel SubscriptionID (set_subids acc (subids acc ++ [n])) d
                   (pre ++ n2b SubscriptionID :: enc_vb n) rest (S (S steps))) as [id1 [steps' E]].
      * rewrite Hd. rewrite <- !app_assoc. reflexivity.
      * rewrite app_length. cbn [length] in *. rewrite !app_length in Hend. cbn [length] in Hend. lia.
      * exists id1, steps'. rewrite app_length in E. cbn [length] in E. rewrite E.
        assert (A : set_subids (set_subids acc (subids acc ++ [n]))
                      (subids (set_subids acc (subids acc ++ [n])) ++ l)
                    = set_subids acc (subids acc ++ n :: l)).
        { cbn [subids set_subids]. rewrite <- app_assoc. reflexivity. }
        rewrite A.
        replace (length pre + S (length (enc_vb n)) + length (sids_bytes l))%nat
          with (length pre + length ((n2b SubscriptionID :: enc_vb n) ++ sids_bytes l))%nat
          by (rewrite app_length; cbn [length]; lia).
        reflexivity.
    + rewrite Hd. rewrite <- !app_assoc. reflexivity.
    + rewrite app_length in Hend. cbn [length] in Hend. lia.
Qed.

(* ------------------------------------------------------------------ *)
Lemma npres_le p t : (npres p t <= length (field_bytes p t))%nat.
Proof.
  induction t as [|e t IH]; [cbn; lia|].
  unfold npres, field_bytes in *. cbn [filter map concat]. rewrite app_length.
  unfold present at 1. unfold enc_prop at 1.
  destruct (is_zero (ewt e) (getf (eref e) p)); cbn [negb length]; lia.
Qed.

Lemma ups_le ups : Forall up_ok ups -> (length ups <= length (ups_bytes ups))%nat.
Proof.
  induction 1 as [|kv ups [Hk _] _ IH]; [cbn; lia|].
  unfold ups_bytes in *. cbn [map concat length]. rewrite app_length.
  rewrite enc_userprop_bytes by exact Hk. cbn [length]. lia.
Qed.

Lemma sids_le l : Forall sid_ok l -> (length l <= length (sids_bytes l))%nat.
Proof.
  induction 1 as [|n l [Hn _] _ IH]; [cbn; lia|].
  unfold sids_bytes in *. cbn [map concat length]. rewrite app_length.
  unfold enc_prop at 1. cbn [is_zero valN]. rewrite (proj2 (N.eqb_neq _ _)) by lia. cbn [length]. lia.
Qed.

(* the bytes of a whole property section: fields in map order, user
   properties, and (PUBLISH) subscription identifiers *)
Definition section_bytes (m : list entry) (will : bool) (sm : submode) (p : pkt) : list byte :=
  field_bytes p m ++ ups_bytes (if will then wuprops p else uprops p)
  ++ match sm with AddSub => sids_bytes (subids p) | _ => [] end.

Definition section_result (m : list entry) (will : bool) (sm : submode) (p acc : pkt) : pkt :=
  let a := append_ups will (if will then wuprops p else uprops p) (restore m p acc) in
  match sm with AddSub => set_subids a (subids a ++ subids p) | _ => a end.

Theorem getany_roundtrip (m : list entry) (will : bool) (sm : submode) (p acc : pkt) (pre rest : list byte) (steps : nat) :
  sm <> SubOpt ->
  NoDup (map eid m) -> Forall (entry_ok p) m ->
  Forall up_ok (if will then wuprops p else uprops p) ->
  match sm with AddSub => Forall sid_ok (subids p) | _ => True end ->
  (forall e, In e m -> ref_live acc (eref e)) -> (will = true -> hasWill acc = true) ->
  let P := section_bytes m will sm p in
  len P < 268435456 ->
  let d := pre ++ enc_vb (len P) ++ P ++ rest in
  exists steps',
    getany m will sm (mk_state acc d (length pre) steps) =
    Run (mk_state (section_result m will sm p acc) d
                  (length pre + length (enc_vb (len P)) + length P) steps').
Proof.
  intros Hsm Hnd Hok Hups Hsids Hlive Hw P HP d.
  assert (Hno38 : lookup_prop m UserProperty = None).
  { apply lookup_absent. intros Hin. apply in_map_iff in Hin as [e [E Hin]].
    rewrite Forall_forall in Hok. exact (eo_not_up _ _ (Hok e Hin) E). }
  assert (Hno11 : lookup_prop m SubscriptionID = None).
  { apply lookup_absent. intros Hin. apply in_map_iff in Hin as [e [E Hin]].
    rewrite Forall_forall in Hok. exact (eo_not_sub _ _ (Hok e Hin) E). }
  set (ups := if will then wuprops p else uprops p) in *.
  set (SB := match sm with AddSub => sids_bytes (subids p) | _ => [] end).
  assert (EP : P = field_bytes p m ++ ups_bytes ups ++ SB) by reflexivity.
  assert (Hvpos : (0 < length (enc_vb (len P)))%nat) by (apply (encode_nonempty Vb (VN (len P))); discriminate).
  unfold getany.
  (* not at the end: the property length is there *)
  assert (Hne : at_end (mk_state acc d (length pre) steps) = false).
  { unfold at_end, mk_state. cbn [dpos ddata]. apply Nat.eqb_neq. unfold d. rewrite !app_length. lia. }
  rewrite Hne.
  pose proof (get_val_encoded Vb (VN (len P)) (VN 0) (mk_state acc d (length pre) steps) pre (P ++ rest)) as G.
  cbn [encode valN canon] in G. unfold mk_state in G at 1 2 3 4 5. cbn [derr ddata dpos dp dsteps] in G.
  unfold mk_state at 1.
  rewrite G; [|discriminate|exact HP|discriminate|reflexivity|reflexivity|reflexivity|exact Hvpos]. clear G.
  cbn [valN].
  change (ddata (mk_state acc d (length pre) steps)) with d.
  change (dpos (mk_state acc d (length pre) steps)) with (length pre).
  change (dsteps (mk_state acc d (length pre) steps)) with steps.
  match goal with |- context [ {| dp := acc; ddata := d; dpos := ?q; derr := None; dsteps := ?st |} ] =>
    change {| dp := acc; ddata := d; dpos := q; derr := None; dsteps := st |} with (mk_state acc d q st) end.
  set (pre1 := pre ++ enc_vb (len P)).
  assert (Hpre1 : length pre1 = (length pre + length (enc_vb (len P)))%nat) by (unfold pre1; apply app_length).
  set (endp := N.of_nat (length pre1) + len P).
  assert (Hd1 : d = pre1 ++ field_bytes p m ++ (ups_bytes ups ++ SB ++ rest)).
  { unfold d, pre1. rewrite EP. rewrite <- !app_assoc. reflexivity. }
  (* the fuel the loop is given covers every property *)
  assert (Hcount : (npres p m + (length ups + (match sm with AddSub => length (subids p) | _ => 0 end))
                    <= length P)%nat).
  { rewrite EP, !app_length. pose proof (npres_le p m). pose proof (ups_le ups Hups).
    unfold SB. destruct sm; cbn [length]; try lia. pose proof (sids_le _ Hsids). lia. }
  assert (Hfuel : exists extra,
     S (length d) = (npres p m + (length ups + ((match sm with AddSub => length (subids p) | _ => 0 end) + S extra)))%nat).
  { exists (length d - (npres p m + (length ups + (match sm with AddSub => length (subids p) | _ => 0 end))))%nat.
    unfold d. rewrite !app_length. lia. }
  destruct Hfuel as [extra Hfuel]. rewrite Hfuel.
  rewrite <- Hpre1.
  change (dpos (mk_state acc d (length pre1) (S steps))) with (length pre1). fold endp.
  (* fields *)
  destruct (fields_loop m will sm endp p Hnd m (fun e H => H) Hok
              (length ups + ((match sm with AddSub => length (subids p) | _ => 0 end) + S extra))
              0 acc d pre1 (ups_bytes ups ++ SB ++ rest) (S steps) Hlive Hd1) as [id1 [st1 E1]].
  { unfold endp. rewrite Hpre1. rewrite EP, !len_app. unfold len. lia. }
  destruct sm; [| |congruence].
  - (* no subscription identifiers *)
    rewrite E1. clear E1.
    set (pre2 := pre1 ++ field_bytes p m).
    assert (Hpre2 : length pre2 = (length pre1 + length (field_bytes p m))%nat) by (unfold pre2; apply app_length).
    rewrite <- Hpre2.
    destruct (ups_loop m will NoSub endp Hno38 ups Hups (0 + S extra) id1 (restore m p acc) d pre2
                       (SB ++ rest) st1) as [id2 [st2 E2]].
    + rewrite hasWill_restore. exact Hw.
    + rewrite Hd1. unfold pre2. rewrite <- !app_assoc. reflexivity.
    + unfold endp. rewrite Hpre2, Hpre1, EP, !len_app. unfold len. lia.
    + rewrite E2. clear E2. cbn [plus getany_loop]. unfold mk_state at 1. cbn [dpos].
      rewrite (proj2 (N.ltb_ge _ _)).
      * exists st2. unfold section_result. fold ups. unfold mk_state. do 2 f_equal.
        rewrite Hpre2, Hpre1, EP. unfold SB. rewrite !app_length. cbn [length]. lia.
      * unfold endp. rewrite Hpre2, Hpre1, EP, !len_app. unfold SB, len. cbn [length]. lia.
  - (* PUBLISH: subscription identifiers follow *)
    rewrite E1. clear E1.
    set (pre2 := pre1 ++ field_bytes p m).
    assert (Hpre2 : length pre2 = (length pre1 + length (field_bytes p m))%nat) by (unfold pre2; apply app_length).
    rewrite <- Hpre2.
    destruct (ups_loop m will AddSub endp Hno38 ups Hups (length (subids p) + S extra) id1 (restore m p acc) d pre2
                       (SB ++ rest) st1) as [id2 [st2 E2]].
    + rewrite hasWill_restore. exact Hw.
    + rewrite Hd1. unfold pre2. rewrite <- !app_assoc. reflexivity.
    + unfold endp. rewrite Hpre2, Hpre1, EP, !len_app. unfold len. lia.
    + rewrite E2. clear E2.
      set (pre3 := pre2 ++ ups_bytes ups).
      assert (Hpre3 : length pre3 = (length pre2 + length (ups_bytes ups))%nat) by (unfold pre3; apply app_length).
      rewrite <- Hpre3.
      destruct (sids_loop m will endp Hno11 (subids p) Hsids (S extra) id2
                          (append_ups will ups (restore m p acc)) d pre3 rest st2) as [id3 [st3 E3]].
      * rewrite Hd1. unfold pre3, pre2, SB. rewrite <- !app_assoc. reflexivity.
      * unfold endp. rewrite Hpre3, Hpre2, Hpre1, EP, !len_app. unfold SB, len. lia.
      * rewrite E3. clear E3. cbn [getany_loop]. unfold mk_state at 1. cbn [dpos].
        rewrite (proj2 (N.ltb_ge _ _)).
        -- exists st3. unfold section_result. fold ups. unfold mk_state. do 2 f_equal.
           rewrite Hpre3, Hpre2, Hpre1, EP. unfold SB. rewrite !app_length. lia.
        -- unfold endp. rewrite Hpre3, Hpre2, Hpre1, EP, !len_app. unfold SB, len. lia.
Qed.

(* ------------------------------------------------------------------ *)
(* SUBSCRIBE: the optional subscription identifier, then user properties *)
Lemma loop_step_subopt fuel m will endp id0 acc d pre rest steps n :
  sid_ok n ->
  d = pre ++ (n2b SubscriptionID :: enc_vb n) ++ rest -> N.of_nat (length pre) < endp ->
  getany_loop (S fuel) m will SubOpt endp id0 (mk_state acc d (length pre) steps) =
  getany_loop fuel m will SubOpt endp SubscriptionID
              (mk_state (set_subid acc (Some n)) d
                        (length pre + S (length (enc_vb n))) (S (S steps))).
Proof.
  intros [Hn0 Hn] Hd Hend.
  cbn [getany_loop]. unfold mk_state at 1. cbn [dpos].
  rewrite (proj2 (N.ltb_lt _ _) Hend).
  pose proof (get_val_encoded U8 (VN SubscriptionID) (VN id0) (mk_state acc d (length pre) steps) pre
                              (enc_vb n ++ rest)) as G1.
  cbn [encode enc_u8 valN canon] in G1. unfold mk_state in G1 at 1 2 3 4 5.
  cbn [derr ddata dpos dp dsteps] in G1.
  unfold mk_state at 1.
  rewrite G1; [|discriminate|reflexivity|discriminate|reflexivity|rewrite Hd; reflexivity|reflexivity|cbn; lia].
  clear G1. cbn [valN].
  replace (SubscriptionID =? SubscriptionID) with true by reflexivity.
  change (ddata (mk_state acc d (length pre) steps)) with d.
  change (dpos (mk_state acc d (length pre) steps)) with (length pre).
  change (dsteps (mk_state acc d (length pre) steps)) with steps.
  cbn [dp]. unfold enc_u8.
  pose proof (get_val_encoded Vb (VN n) (VN 0)
     (with_pkt (set_subid acc (Some 0))
        {| dp := acc; ddata := d; dpos := length pre + length [n2b SubscriptionID]; derr := None; dsteps := S steps |})
     (pre ++ [n2b SubscriptionID]) rest) as G2.
  cbn [derr ddata dpos dp dsteps encode valN canon with_pkt] in G2.
  rewrite G2; clear G2.
  - cbn [valN dp].
    unfold with_pkt, mk_state. cbn [dp ddata dpos derr dsteps length].
    replace (length pre + 1 + length (enc_vb n))%nat with (length pre + S (length (enc_vb n)))%nat by lia.
    reflexivity.
  - discriminate.
  - exact Hn.
  - discriminate.
  - reflexivity.
  - rewrite Hd. rewrite <- !app_assoc. reflexivity.
  - rewrite app_length. reflexivity.
  - apply (encode_nonempty Vb (VN n)); discriminate.
Qed.

Definition subopt_bytes (o : option N) : list byte :=
  match o with None => [] | Some n => enc_prop Vb SubscriptionID (VN n) end.
Definition subopt_ok (o : option N) : Prop := match o with None => True | Some n => sid_ok n end.
Definition subopt_result (o : option N) (acc : pkt) : pkt :=
  match o with None => acc | Some n => set_subid acc (Some n) end.

Theorem getany_subopt (p acc : pkt) (pre rest : list byte) (steps : nat) :
  subopt_ok (subid p) -> Forall up_ok (uprops p) ->
  let P := subopt_bytes (subid p) ++ ups_bytes (uprops p) in
  len P < 268435456 ->
  let d := pre ++ enc_vb (len P) ++ P ++ rest in
  exists steps',
    getany [] false SubOpt (mk_state acc d (length pre) steps) =
    Run (mk_state (append_ups false (uprops p) (subopt_result (subid p) acc)) d
                  (length pre + length (enc_vb (len P)) + length P) steps').
Proof.
  intros Hso Hups P HP d.
  assert (Hvpos : (0 < length (enc_vb (len P)))%nat) by (apply (encode_nonempty Vb (VN (len P))); discriminate).
  unfold getany.
  assert (Hne : at_end (mk_state acc d (length pre) steps) = false).
  { unfold at_end, mk_state. cbn [dpos ddata]. apply Nat.eqb_neq. unfold d. rewrite !app_length. lia. }
  rewrite Hne.
  pose proof (get_val_encoded Vb (VN (len P)) (VN 0) (mk_state acc d (length pre) steps) pre (P ++ rest)) as G.
  cbn [encode valN canon] in G. unfold mk_state in G at 1 2 3 4 5. cbn [derr ddata dpos dp dsteps] in G.
  unfold mk_state at 1.
  rewrite G; [|discriminate|exact HP|discriminate|reflexivity|reflexivity|reflexivity|exact Hvpos]. clear G.
  cbn [valN].
  change (ddata (mk_state acc d (length pre) steps)) with d.
  change (dpos (mk_state acc d (length pre) steps)) with (length pre).
  change (dsteps (mk_state acc d (length pre) steps)) with steps.
  match goal with |- context [ {| dp := acc; ddata := d; dpos := ?q; derr := None; dsteps := ?st |} ] =>
    change {| dp := acc; ddata := d; dpos := q; derr := None; dsteps := st |} with (mk_state acc d q st) end.
  set (pre1 := pre ++ enc_vb (len P)).
  assert (Hpre1 : length pre1 = (length pre + length (enc_vb (len P)))%nat) by (unfold pre1; apply app_length).
  rewrite <- Hpre1. change (dpos (mk_state acc d (length pre1) (S steps))) with (length pre1).
  set (endp := N.of_nat (length pre1) + len P).
  set (ups := uprops p) in *.
  set (SB := subopt_bytes (subid p)) in *.
  assert (Hcount : ((match subid p with None => 0 | Some _ => 1 end) + length ups <= length P)%nat).
  { unfold P. rewrite app_length. pose proof (ups_le ups Hups). unfold SB.
    destruct (subid p) as [n|]; cbn [subopt_bytes length]; [|lia].
    destruct Hso as [Hn0 _]. unfold enc_prop. cbn [is_zero valN]. rewrite (proj2 (N.eqb_neq _ _)) by lia.
    cbn [length]. lia. }
  assert (Hfuel : exists extra,
     S (length d) = ((match subid p with None => 0 | Some _ => 1 end) + (length ups + S extra))%nat).
  { exists (length d - ((match subid p with None => 0 | Some _ => 1 end) + length ups))%nat.
    unfold d. rewrite !app_length. lia. }
  destruct Hfuel as [extra Hfuel]. rewrite Hfuel.
  assert (Hd1 : d = pre1 ++ SB ++ ups_bytes ups ++ rest).
  { unfold d, pre1, P. rewrite <- !app_assoc. reflexivity. }
  assert (Hstep1 : exists id1 st1,
     getany_loop ((match subid p with None => 0 | Some _ => 1 end) + (length ups + S extra)) [] false SubOpt endp 0
                 (mk_state acc d (length pre1) (S steps)) =
     getany_loop (length ups + S extra) [] false SubOpt endp id1
                 (mk_state (subopt_result (subid p) acc) d (length (pre1 ++ SB)) st1)).
  { unfold SB in *. destruct (subid p) as [n|]; cbn [subopt_bytes subopt_result plus].
    - exists SubscriptionID, (S (S (S steps))).
      assert (Eb : enc_prop Vb SubscriptionID (VN n) = n2b SubscriptionID :: enc_vb n).
      { destruct Hso as [Hn0 _]. unfold enc_prop. cbn [is_zero valN encode].
        rewrite (proj2 (N.eqb_neq _ _)) by lia. reflexivity. }
      rewrite (loop_step_subopt (length ups + S extra) [] false endp 0 acc d pre1
                                (ups_bytes ups ++ rest) (S steps) n Hso).
      + rewrite app_length, Eb. cbn [length]. reflexivity.
      + rewrite Hd1. cbn [subopt_bytes]. rewrite Eb. reflexivity.
      + unfold endp, len. lia.
    - exists 0, (S steps). rewrite app_nil_r. reflexivity. }
  destruct Hstep1 as [id1 [st1 E1]]. rewrite E1. clear E1.
  set (pre2 := pre1 ++ SB).
  assert (Hpre2 : length pre2 = (length pre1 + length SB)%nat) by (unfold pre2; apply app_length).
  destruct (ups_loop [] false SubOpt endp eq_refl ups Hups (S extra) id1 (subopt_result (subid p) acc) d pre2 rest st1)
    as [id2 [st2 E2]].
  - discriminate.
  - rewrite Hd1. unfold pre2. rewrite <- !app_assoc. reflexivity.
  - unfold endp. rewrite Hpre2. unfold P. rewrite !len_app. unfold len. lia.
  - rewrite E2. clear E2. cbn [getany_loop]. unfold mk_state at 1. cbn [dpos].
    rewrite (proj2 (N.ltb_ge _ _)).
    + exists st2. unfold mk_state. do 2 f_equal. rewrite Hpre2, Hpre1. unfold P. rewrite !app_length. lia.
    + unfold endp. rewrite Hpre2. unfold P. rewrite !len_app. unfold len. lia.
Qed.
