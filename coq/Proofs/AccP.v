(* Api.snapshot is the accessor table of Model/AccIR.v (= the accessors of the
   source, gen/SyncAcc.v) read in a fixed order. *)
From MQ Require Import Model.Api Model.AccIR.
From Coq Require Import List String.

Lemma snapshot_by_accessors k p :
  snapshot k p = map (fun name => eval_named name p) (snapshot_names k).
Proof. destruct k; reflexivity. Qed.

(* every accessor the snapshot names is either in the table or one of the
   hand-modelled ones *)
Lemma snapshot_names_known k :
  forallb (fun name =>
    match lookup_acc acc_table name with
    | Some _ => true
    | None => existsb (String.eqb name)
        ["Connect.HasFlag"; "ConnAck.HasFlag"; "Publish.QoS"; "Publish.SubscriptionIDs";
         "Subscribe.SubscriptionID"; "Subscribe.Filters"; "Unsubscribe.Filters"; "UserProperties"]%string
    end) (snapshot_names k) = true.
Proof. destruct k; vm_compute; reflexivity. Qed.
