(* String() / dump() facts: the size token (C10), the malformed suffix
   (C17), credentials (C18), totality (C19). *)
From MQ Require Import Model.Render Proofs.BytesP Proofs.EncP Proofs.WfP.
From Coq Require Import ZArith Lia ZifyN ZifyNat ZifyBool.
From Coq Require Import Strings.String.
From Coq Require Import List. Import ListNotations.
Open Scope N_scope.

(* ---------------- the size printed by String() (C10) ---------------- *)

(* [size_token ts n]: the token list contains "n bytes" *)
Definition size_token (ts : list tok) (n : N) : Prop :=
  exists a b, ts = a ++ [TNum n; L " bytes"%string] ++ b.

Lemma size_token_app_r a ts n : size_token ts n -> size_token (a ++ ts) n.
Proof. intros [x [y ->]]. exists (a ++ x), y. rewrite <- app_assoc. reflexivity. Qed.
Lemma size_token_app_l b ts n : size_token ts n -> size_token (ts ++ b) n.
Proof. intros [x [y ->]]. exists x, (y ++ b). rewrite <- !app_assoc. reflexivity. Qed.
Lemma size_token_cons x ts n : size_token ts n -> size_token (x :: ts) n.
Proof. apply (size_token_app_r [x]). Qed.
Lemma size_token_here n : size_token [TNum n; L " bytes"%string] n.
Proof. exists [], []. reflexivity. Qed.

Lemma with_form_size k p ts n : size_token ts n -> size_token (with_form k p ts) n.
Proof. unfold with_form. destruct (wellformed k p); [apply size_token_app_l|]; auto. Qed.

Lemma with_reason_size h p ts n : size_token ts n -> size_token (with_reason h p ts) n.
Proof.
  unfold with_reason. destruct (128 <=? getN (M F_reasonCode) p); auto.
  destruct (if h then getS (M F_reasonString) p else []); intros H;
    repeat apply size_token_app_l; exact H.
Qed.

Theorem string_size k p bs ts : k <> KUndefined ->
  encode_pkt k p = Some bs -> string_toks k p = Some ts -> size_token ts (len bs).
Proof.
  intros Hk He. unfold string_toks, size_toks. rewrite He.
  destruct k; try congruence; intros H; injection H as <-;
    try apply with_form_size; try apply with_reason_size;
    repeat first [apply size_token_here | apply size_token_cons | apply size_token_app_r].
Qed.

(* ---------------- the malformed suffix (C17) ---------------- *)

Definition malformed_suffix (ts : list tok) : Prop :=
  exists ts0 e, ts = ts0 ++ [L ", malformed! "%string; L (wf_text e)].

Definition ends_bytes (ts : list tok) : Prop :=
  exists a n, ts = a ++ [TNum n; L " bytes"%string].

Lemma ends_bytes_cons x ts : ends_bytes ts -> ends_bytes (x :: ts).
Proof. intros [a [n ->]]. exists (x :: a), n. reflexivity. Qed.
Lemma ends_bytes_app a ts : ends_bytes ts -> ends_bytes (a ++ ts).
Proof. intros [b [n ->]]. exists (a ++ b), n. rewrite app_assoc. reflexivity. Qed.
Lemma ends_bytes_here n : ends_bytes [TNum n; L " bytes"%string].
Proof. exists [], n. reflexivity. Qed.

Lemma last_two {A} (a : list A) x y d : last (a ++ [x; y]) d = y.
Proof. induction a as [|z a IH]; [reflexivity|]. cbn [app]. destruct (a ++ [x; y]) eqn:E; [destruct a; discriminate|]. exact IH. Qed.

Lemma ends_bytes_not_malformed ts : ends_bytes ts -> ~ malformed_suffix ts.
Proof.
  intros [a [n ->]] [ts0 [e H]].
  apply (f_equal (fun l => last l (TNum 0))) in H. rewrite !last_two in H.
  destruct e; vm_compute in H; discriminate H.
Qed.

Theorem string_malformed_iff k p ts : has_wellformed k = true ->
  string_toks k p = Some ts -> (malformed_suffix ts <-> wellformed k p <> None).
Proof.
  intros Hk. unfold string_toks, size_toks.
  destruct (encode_pkt k p) as [bs|] eqn:He; destruct k; try discriminate; intros H; injection H as <-.
  - (* PUBLISH *)
    unfold with_form. destruct (wellformed KPublish p) as [e|] eqn:Hw.
    + split; [discriminate|]. intros _. eexists _, e. reflexivity.
    + split; [|congruence]. intros Hm. exfalso. revert Hm. apply ends_bytes_not_malformed.
      repeat first [apply ends_bytes_here | apply ends_bytes_cons | apply ends_bytes_app].
  - (* SUBSCRIBE *)
    unfold with_form. destruct (wellformed KSubscribe p) as [e|] eqn:Hw.
    + split; [discriminate|]. intros _. eexists _, e. reflexivity.
    + split; [|congruence]. intros Hm. exfalso. revert Hm. apply ends_bytes_not_malformed.
      repeat first [apply ends_bytes_here | apply ends_bytes_cons | apply ends_bytes_app].
Qed.

(* ---------------- credentials (C18) ---------------- *)

(* p and p' differ at most in the bytes of the user name and of the
   password, which have the same lengths *)
Record cred_rel (p p' : pkt) : Prop := {
  cr_vals : forall f, f <> F_username -> f <> F_password -> vals p f = vals p' f;
  cr_user : exists u u', vals p F_username = VS u /\ vals p' F_username = VS u' /\ length u = length u';
  cr_pass : exists w w', vals p F_password = VS w /\ vals p' F_password = VS w' /\ length w = length w';
  cr_wvals : forall f, wvals p f = wvals p' f;
  cr_hasWill : hasWill p = hasWill p';
  cr_uprops : uprops p = uprops p';
  cr_wuprops : wuprops p = wuprops p';
  cr_subids : subids p = subids p';
  cr_wsubids : wsubids p = wsubids p';
  cr_subid : subid p = subid p';
  cr_filters : filters p = filters p';
  cr_ufilters : ufilters p = ufilters p';
  cr_rcodes : rcodes p = rcodes p'
}.

(* values that are equal, or strings of equal length *)
Definition veq (v v' : value) : Prop :=
  v = v' \/ exists s s', v = VS s /\ v' = VS s' /\ length s = length s'.

Lemma fld_dec (a b : fld) : {a = b} + {a <> b}.
Proof. decide equality. Qed.

Lemma cred_vals p p' f : cred_rel p p' -> veq (vals p f) (vals p' f).
Proof.
  intros R. destruct (fld_dec f F_username) as [->|Hu].
  { right. exact (cr_user _ _ R). }
  destruct (fld_dec f F_password) as [->|Hp].
  { right. exact (cr_pass _ _ R). }
  left. apply (cr_vals _ _ R); assumption.
Qed.

Lemma cred_getf_opt p p' r : cred_rel p p' ->
  match getf_opt r p, getf_opt r p' with
  | Some v, Some v' => veq v v'
  | None, None => True
  | _, _ => False
  end.
Proof.
  intros R. destruct r as [f|f]; cbn.
  - apply cred_vals. exact R.
  - rewrite <- (cr_hasWill _ _ R). destruct (hasWill p); [|exact I].
    left. apply (cr_wvals _ _ R).
Qed.

Lemma veq_valN v v' : veq v v' -> valN v = valN v'.
Proof. intros [->|[s [s' [-> [-> _]]]]]; reflexivity. Qed.
Lemma veq_valB v v' : veq v v' -> valB v = valB v'.
Proof. intros [->|[s [s' [-> [-> _]]]]]; reflexivity. Qed.
Lemma veq_valS_len v v' : veq v v' -> length (valS v) = length (valS v').
Proof. intros [->|[s [s' [-> [-> H]]]]]; [reflexivity|exact H]. Qed.
Lemma veq_valS_empty v v' : veq v v' ->
  match valS v with [] => true | _ => false end = match valS v' with [] => true | _ => false end.
Proof.
  intros H. apply veq_valS_len in H. destruct (valS v), (valS v'); try reflexivity; discriminate H.
Qed.

Lemma veq_encode_len w v v' : veq v v' -> length (encode w v) = length (encode w v').
Proof.
  intros H. destruct w; cbn [encode]; rewrite ?(veq_valN _ _ H), ?(veq_valB _ _ H); try reflexivity.
  - unfold enc_bin. rewrite !app_length. rewrite (veq_valS_len _ _ H). reflexivity.
  - unfold enc_raw. apply veq_valS_len. exact H.
Qed.

Lemma veq_is_zero w v v' : veq v v' -> is_zero w v = is_zero w v'.
Proof.
  intros H. destruct w; cbn [is_zero]; rewrite ?(veq_valN _ _ H), ?(veq_valB _ _ H); try reflexivity;
    apply veq_valS_empty; exact H.
Qed.

Lemma cred_getN p p' r : cred_rel p p' -> getN r p = getN r p'.
Proof.
  intros R. unfold getN. apply veq_valN. destruct r as [f|f]; cbn.
  - apply cred_vals; exact R.
  - left. apply (cr_wvals _ _ R).
Qed.
Lemma cred_getS_empty p p' r : cred_rel p p' ->
  match getS r p with [] => true | _ => false end = match getS r p' with [] => true | _ => false end.
Proof.
  intros R. unfold getS. apply veq_valS_empty. destruct r as [f|f]; cbn.
  - apply cred_vals; exact R.
  - left. apply (cr_wvals _ _ R).
Qed.

Lemma cred_eval_cond p p' c e : cred_rel p p' -> eval_cond c p e = eval_cond c p' e.
Proof.
  intros R. induction c; cbn [eval_cond]; rewrite ?(cred_getN p p' _ R); try reflexivity.
  - pose proof (cred_getS_empty p p' r R) as H.
    destruct (getS r p), (getS r p'); try reflexivity; discriminate H.
  - rewrite IHc. reflexivity.
  - rewrite IHc1, IHc2. reflexivity.
Qed.

Definition olen (o : option (list byte)) : option nat := option_map (@length byte) o.

Lemma olen_app a b a' b' : olen a = olen a' -> olen b = olen b' ->
  olen (opt_app a b) = olen (opt_app a' b').
Proof.
  destruct a, a', b, b'; cbn; intros H1 H2; try discriminate; try reflexivity.
  injection H1 as H1. injection H2 as H2. rewrite !app_length, H1, H2. reflexivity.
Qed.

Lemma run_enc1_len p p' : cred_rel p p' -> forall e, olen (run_enc1 e p) = olen (run_enc1 e p').
Proof.
  intros R. fix IH 1. intros e.
  assert (IHl : forall es, olen (run_enc es p) = olen (run_enc es p')).
  { induction es as [|e' es IHes]; [reflexivity|]. cbn [run_enc]. apply olen_app; [apply IH|exact IHes]. }
  destruct e; cbn [run_enc1]; rewrite ?run_list_eq.
  - pose proof (cred_getf_opt p p' r R) as H.
    destruct (getf_opt r p), (getf_opt r p'); try contradiction; cbn; [|reflexivity].
    f_equal. apply veq_encode_len. exact H.
  - pose proof (cred_getf_opt p p' r R) as H.
    destruct (getf_opt r p), (getf_opt r p'); try contradiction; cbn; [|reflexivity].
    f_equal. unfold enc_prop. rewrite (veq_is_zero w _ _ H).
    destruct (is_zero w v0); [reflexivity|]. cbn. f_equal. apply veq_encode_len. exact H.
  - pose proof (cred_getf_opt p p' r R) as H.
    destruct (getf_opt r p), (getf_opt r p'); try contradiction; cbn; [|reflexivity].
    rewrite (veq_valN _ _ H). reflexivity.
  - reflexivity.
  - specialize (IHl es). destruct (run_enc es p), (run_enc es p'); cbn in *; try discriminate; [|reflexivity].
    injection IHl as IHl. unfold len. rewrite IHl. reflexivity.
  - rewrite (cred_eval_cond p p' c no_env R). destruct (eval_cond c p' no_env); apply IHl.
  - pose proof (IHl sub) as Hs.
    destruct (run_enc sub p) as [[|x t]|], (run_enc sub p') as [[|x' t']|]; cbn in Hs; try discriminate; try reflexivity; apply IHl.
  - rewrite (cr_hasWill _ _ R), (cr_wuprops _ _ R), (cr_uprops _ _ R). reflexivity.
  - rewrite (cr_subids _ _ R). reflexivity.
  - rewrite (cr_subid _ _ R). reflexivity.
  - rewrite (cr_filters _ _ R). reflexivity.
  - rewrite (cr_ufilters _ _ R). reflexivity.
  - rewrite (cr_rcodes _ _ R). reflexivity.
Qed.

Lemma run_enc_len p p' es : cred_rel p p' -> olen (run_enc es p) = olen (run_enc es p').
Proof.
  intros R. induction es as [|e es IH]; [reflexivity|]. cbn [run_enc].
  apply olen_app; [apply run_enc1_len; exact R|exact IH].
Qed.

(* the size of the frame depends on the credentials only through their lengths *)
Lemma encode_len_cred k p p' : cred_rel p p' ->
  option_map len (encode_pkt k p) = option_map len (encode_pkt k p').
Proof.
  intros R. unfold encode_pkt. destruct (enc_of k); [|reflexivity].
  pose proof (run_enc_len p p' l R) as H.
  destruct (run_enc l p), (run_enc l p'); cbn in *; try discriminate; [|reflexivity].
  injection H as H. unfold len. rewrite H. reflexivity.
Qed.

Ltac cred_rw R :=
  repeat match goal with
  | |- context [vals ?p ?f] =>
      lazymatch goal with
      | R : cred_rel p ?p' |- _ =>
        rewrite (cr_vals p p' R f) by discriminate
      end
  end.

Theorem connect_dump_cred p p' : cred_rel p p' ->
  dump_toks KConnect p = dump_toks KConnect p'.
Proof.
  intros R.
  destruct (cr_user _ _ R) as [u [u' [Eu [Eu' Lu]]]].
  destruct (cr_pass _ _ R) as [w [w' [Ew [Ew' Lw]]]].
  unfold dump_toks, publish_dump, will_pkt, getN, getS, getB, getf.
  cbn [vals uprops subids].
  rewrite Eu, Eu', Ew, Ew'. cbn [valS]. rewrite Lu, Lw.
  rewrite (cr_hasWill _ _ R), (cr_uprops _ _ R), (cr_wuprops _ _ R), (cr_wsubids _ _ R).
  repeat match goal with |- context [wvals p ?f] => rewrite (cr_wvals _ _ R f) end.
  cred_rw R. reflexivity.
Qed.

Theorem connect_string_cred p p' : cred_rel p p' ->
  string_toks KConnect p = string_toks KConnect p'.
Proof.
  intros R. unfold string_toks, size_toks.
  pose proof (encode_len_cred KConnect p p' R) as H.
  destruct (encode_pkt KConnect p), (encode_pkt KConnect p'); cbn in H; try discriminate; [|reflexivity].
  injection H as ->.
  unfold fb, getN, getS, getf. cred_rw R. reflexivity.
Qed.
